(* Proofs about the transcribed set builder (Rep/Builder.v).
   - bucketise (SetBuilder.Add) is a partition of the member list that keeps insertion order inside each bucket;
   - build (SetBuilder.Finish) denotes exactly the given members whenever every per-bucket finisher does and no two
     bucket keys print alike;
   - the generic bucket's finisher (genericSetFinish + newSetFromFrozenSet) denotes exactly its members whenever
     Equal is sound on them;
   - witnesses, inside the model, of every carved-out region. *)
From Arrai Require Import Base.Val Spec.SetAlg Proofs.ValOrder Proofs.SetAlgP Proofs.CanonP Rep.Builder.
From Coq Require Import Permutation.

(* ---------- small facts ---------- *)
Lemma zlist_eq_refl l : zlist_eq l l = true.
Proof. induction l as [|x l IH]; cbn [zlist_eq]; [reflexivity|]. rewrite Z.eqb_refl, IH. reflexivity. Qed.

Lemma zlist_eq_eq a : forall b, zlist_eq a b = true -> a = b.
Proof.
  induction a as [|x a IH]; intros [|y b] H; cbn [zlist_eq] in H; try discriminate; [reflexivity|].
  apply andb_true_iff in H. destruct H as [Hx Hr]. apply Z.eqb_eq in Hx. subst y. f_equal. apply IH. exact Hr.
Qed.

Lemma zlist_eq_false a b : a <> b -> zlist_eq a b = false.
Proof. intros Hne. destruct (zlist_eq a b) eqn:E; [|reflexivity]. apply zlist_eq_eq in E. contradiction. Qed.

Lemma bucket_eq_refl b : bucket_eq b b = true.
Proof. destruct b; cbn [bucket_eq]; try reflexivity. apply zlist_eq_refl. Qed.

Lemma bucket_eq_eq a b : bucket_eq a b = true -> a = b.
Proof. destruct a, b; cbn [bucket_eq]; intros H; try discriminate; try reflexivity. f_equal. apply zlist_eq_eq. exact H. Qed.

Lemma bucket_eq_false a b : a <> b -> bucket_eq a b = false.
Proof. intros Hne. destruct (bucket_eq a b) eqn:E; [|reflexivity]. apply bucket_eq_eq in E. contradiction. Qed.

Lemma mkset_ext l m : (forall x, In x l <-> In x m) -> mkset l = mkset m.
Proof.
  intros H. unfold mkset. f_equal. apply ssorted_ext; try apply vsort_sorted.
  intros x. rewrite !vsort_in. apply H.
Qed.

Lemma mkset_elems l x : In x (set_elems (mkset l)) <-> In x l.
Proof. unfold mkset. cbn [set_elems]. apply vsort_in. Qed.

(* ---------- SetBuilder.Add: a partition that keeps insertion order ---------- *)
Definition in_bucket (b : bucket) (m : rep) : bool := bucket_eq (bucket_of m) b.

(* every bucket holds exactly the members of its kind seen so far, in order; keys are pairwise different;
   every member seen so far has its bucket *)
Definition bucketed (p : list rep) (bs : list (bucket * list rep)) : Prop :=
  NoDup (map fst bs) /\
  (forall b vs, In (b, vs) bs -> vs = filter (in_bucket b) p /\ vs <> []) /\
  (forall m, In m p -> In (bucket_of m) (map fst bs)).

Lemma bucket_add_keys b v bs : forall k, In k (map fst (bucket_add b v bs)) <-> k = b \/ In k (map fst bs).
Proof.
  induction bs as [|[b' vs] bs IH]; intros k; cbn [bucket_add map fst In].
  - split; intros [H|H]; auto; contradiction.
  - destruct (bucket_eq b b') eqn:E; cbn [map fst In].
    + apply bucket_eq_eq in E. subst b'. split; [intros [H|H]; auto | intros [H|[H|H]]; auto].
    + rewrite IH. split; [intros [H|[H|H]]; auto | intros [H|[H|H]]; auto].
Qed.

Lemma bucket_add_nodup b v bs : NoDup (map fst bs) -> NoDup (map fst (bucket_add b v bs)).
Proof.
  induction bs as [|[b' vs] bs IH]; intros Hnd; cbn [bucket_add map fst].
  - constructor; [intros []|constructor].
  - cbn [map fst] in Hnd. inversion Hnd as [|? ? Hnotin Hnd']; subst.
    destruct (bucket_eq b b') eqn:E; cbn [map fst].
    + constructor; assumption.
    + constructor; [|apply IH; exact Hnd'].
      intros Hin. apply bucket_add_keys in Hin. destruct Hin as [Hin|Hin]; [|contradiction].
      subst b'. rewrite bucket_eq_refl in E. discriminate.
Qed.

Lemma bucket_add_entries b v bs : NoDup (map fst bs) ->
  forall k ws, In (k, ws) (bucket_add b v bs) ->
    (k = b /\ ((exists vs, In (b, vs) bs /\ ws = vs ++ [v]) \/ (~ In b (map fst bs) /\ ws = [v])))
    \/ (k <> b /\ In (k, ws) bs).
Proof.
  induction bs as [|[b' vs] bs IH]; intros Hnd k ws Hin; cbn [bucket_add] in Hin.
  - destruct Hin as [Hin|[]]. inversion Hin; subst. left. split; [reflexivity|]. right. split; [intros []|reflexivity].
  - cbn [map fst] in Hnd. inversion Hnd as [|? ? Hnotin Hnd']; subst.
    destruct (bucket_eq b b') eqn:E.
    + apply bucket_eq_eq in E. subst b'. destruct Hin as [Hin|Hin].
      * inversion Hin; subst. left. split; [reflexivity|]. left. exists vs. split; [left; reflexivity|reflexivity].
      * right. split; [|right; exact Hin]. intros ->. apply Hnotin. apply in_map_iff. exists (b, ws). split; [reflexivity|exact Hin].
    + destruct Hin as [Hin|Hin].
      * inversion Hin; subst. right. split; [|left; reflexivity]. intros ->. rewrite bucket_eq_refl in E. discriminate.
      * destruct (IH Hnd' k ws Hin) as [[-> Hc]|[Hne Hold]].
        -- left. split; [reflexivity|]. destruct Hc as [[vs0 [Hvs0 ->]]|[Hni ->]].
           ++ left. exists vs0. split; [right; exact Hvs0|reflexivity].
           ++ right. split; [|reflexivity]. cbn [map fst In]. intros [Hb|Hb]; [|contradiction].
              subst b'. rewrite bucket_eq_refl in E. discriminate.
        -- right. split; [exact Hne|right; exact Hold].
Qed.

Lemma bucketed_step p bs v : bucketed p bs -> bucketed (p ++ [v]) (bucket_add (bucket_of v) v bs).
Proof.
  intros [Hnd [Hvs Hall]]. split; [apply bucket_add_nodup; exact Hnd|]. split.
  - intros k ws Hin. destruct (bucket_add_entries _ _ _ Hnd _ _ Hin) as [[-> Hc]|[Hne Hold]].
    + assert (Hvv : in_bucket (bucket_of v) v = true) by (unfold in_bucket; apply bucket_eq_refl).
      rewrite filter_app. cbn [filter]. rewrite Hvv.
      destruct Hc as [[vs0 [Hvs0 ->]]|[Hni ->]].
      * destruct (Hvs _ _ Hvs0) as [-> _]. split; [reflexivity|]. intros H. apply app_eq_nil in H. destruct H as [_ H]. discriminate.
      * split; [|discriminate].
        assert (Hnil : filter (in_bucket (bucket_of v)) p = []).
        { destruct (filter (in_bucket (bucket_of v)) p) as [|m r] eqn:Ef; [reflexivity|].
          assert (Hm : In m (filter (in_bucket (bucket_of v)) p)) by (rewrite Ef; left; reflexivity).
          apply filter_In in Hm. destruct Hm as [Hmp Hmb]. unfold in_bucket in Hmb. apply bucket_eq_eq in Hmb.
          exfalso. apply Hni. rewrite <- Hmb. apply Hall. exact Hmp. }
        rewrite Hnil. reflexivity.
    + assert (Hkv : in_bucket k v = false).
      { unfold in_bucket. apply bucket_eq_false. intros H. apply Hne. symmetry. exact H. }
      destruct (Hvs _ _ Hold) as [-> Hne']. rewrite filter_app. cbn [filter]. rewrite Hkv.
      rewrite app_nil_r. split; [reflexivity|exact Hne'].
  - intros m Hm. apply bucket_add_keys. apply in_app_iff in Hm. destruct Hm as [Hm|[->|[]]]; [right; apply Hall; exact Hm|left; reflexivity].
Qed.

Lemma bucketed_fold ms : forall p bs, bucketed p bs ->
  bucketed (p ++ ms) (fold_left (fun bs v => bucket_add (bucket_of v) v bs) ms bs).
Proof.
  induction ms as [|v ms IH]; intros p bs H; cbn [fold_left].
  - rewrite app_nil_r. exact H.
  - replace (p ++ v :: ms) with ((p ++ [v]) ++ ms) by (rewrite <- app_assoc; reflexivity).
    apply IH. apply bucketed_step. exact H.
Qed.

Theorem bucketise_partition ms : bucketed ms (bucketise ms).
Proof.
  unfold bucketise. apply (bucketed_fold ms [] []).
  split; [constructor|]. split; [intros b vs []|intros m []].
Qed.

(* ---------- denotations of set representations are canonical sets ---------- *)
Lemma mkset_idem l : mkset l = mkset (set_elems (mkset l)).
Proof. unfold mkset. cbn [set_elems]. rewrite (vsort_sorted_id (vsort l)) by apply vsort_sorted. reflexivity. Qed.

Lemma abs_set_canon s : is_set s = true -> abs s = mkset (set_elems (abs s)).
Proof.
  destruct s; cbn [is_set]; intros H; try discriminate; cbn [abs]; try apply mkset_idem; reflexivity.
Qed.

Lemma finish_bucket_is_set b vs s : finish_bucket b vs = BOk s -> is_set s = true.
Proof.
  destruct b; cbn [finish_bucket]; intros H.
  - inversion H; subst. unfold finish_generic. destruct (fset_of rep_equal vs) as [|x [|y r]]; try reflexivity.
    destruct (rep_equal (RTupG []) x); reflexivity.
  - inversion H; subst. unfold finish_string. destruct vs; reflexivity.
  - inversion H; subst. unfold finish_bytes. destruct vs; reflexivity.
  - inversion H; subst. unfold finish_array. destruct vs; reflexivity.
  - inversion H; subst. unfold finish_dict. destruct vs; reflexivity.
  - unfold finish_relation in H. destruct vs as [|v0 vs']; [inversion H; reflexivity|].
    destruct (tup_attrs v0); [|discriminate]. destruct (rel_rows _ _); [|discriminate]. inversion H; reflexivity.
Qed.

(* ---------- SetBuilder.Finish: assembling the buckets ---------- *)
Lemma union_put_fresh k s acc : ~ In k (map fst acc) -> union_put k s acc = acc ++ [(k, s)].
Proof.
  induction acc as [|[k' s'] acc IH]; intros Hni; cbn [union_put app]; [reflexivity|].
  cbn [map fst In] in Hni. rewrite (zlist_eq_false k k') by (intros ->; apply Hni; left; reflexivity).
  rewrite IH by (intros H; apply Hni; right; exact H). reflexivity.
Qed.

Definition denotes_members (s : rep) (vs : list rep) : Prop :=
  forall v, In v (set_elems (abs s)) <-> In v (map abs vs).

Lemma finish_all_spec bs : forall acc u,
  NoDup (map fst acc ++ map (fun x => bucket_str (fst x)) bs) ->
  finish_all bs acc = BOk u ->
  (forall b vs s, In (b, vs) bs -> finish_bucket b vs = BOk s -> denotes_members s vs) ->
  forall v, In v (flat_map (fun e => set_elems (abs (snd e))) u) <->
            In v (flat_map (fun e => set_elems (abs (snd e))) acc) \/ In v (map abs (flat_map snd bs)).
Proof.
  induction bs as [|[b vs] bs IH]; intros acc u Hnd Hfin Hden v; cbn [finish_all] in Hfin.
  - inversion Hfin; subst. cbn [flat_map map]. split; [intros H; left; exact H|intros [H|[]]; exact H].
  - destruct (finish_bucket b vs) as [s| |] eqn:Efb; try discriminate.
    cbn [map fst] in Hnd.
    assert (Hfresh : ~ In (bucket_str b) (map fst acc)).
    { intros Hin. apply NoDup_remove_2 in Hnd. apply Hnd. apply in_or_app. left. exact Hin. }
    rewrite (union_put_fresh _ _ _ Hfresh) in Hfin.
    assert (Hnd' : NoDup (map fst (acc ++ [(bucket_str b, s)]) ++ map (fun x => bucket_str (fst x)) bs)).
    { rewrite map_app. cbn [map fst]. rewrite <- app_assoc. cbn [app].
      apply NoDup_remove_1 in Hnd as Hnd1. apply NoDup_remove_2 in Hnd as Hnd2.
      apply (Permutation_NoDup (l := bucket_str b :: map fst acc ++ map (fun x => bucket_str (fst x)) bs)).
      - apply Permutation_middle.
      - constructor; assumption. }
    rewrite (IH _ _ Hnd' Hfin) by (intros b0 vs0 s0 Hin; apply Hden; right; exact Hin).
    rewrite flat_map_app. cbn [flat_map snd]. rewrite app_nil_r. rewrite in_app_iff.
    cbn [flat_map snd]. rewrite map_app, in_app_iff.
    pose proof (Hden b vs s (or_introl eq_refl) Efb v) as Hs.
    rewrite Hs. tauto.
Qed.

(* In m ms exactly when m sits in the list of its bucket *)
Lemma bucketise_members ms m : In m (flat_map snd (bucketise ms)) <-> In m ms.
Proof.
  destruct (bucketise_partition ms) as [Hnd [Hvs Hall]]. rewrite in_flat_map. split.
  - intros [[b vs] [Hin Hm]]. cbn [snd] in Hm. destruct (Hvs _ _ Hin) as [-> _]. apply filter_In in Hm. tauto.
  - intros Hm. pose proof (Hall m Hm) as Hk. apply in_map_iff in Hk. destruct Hk as [[b vs] [Hb Hin]].
    cbn [fst] in Hb. subst b. exists (bucket_of m, vs). split; [exact Hin|]. cbn [snd].
    destruct (Hvs _ _ Hin) as [-> _]. apply filter_In. split; [exact Hm|]. unfold in_bucket. apply bucket_eq_refl.
Qed.

Theorem build_denotes_members_modular ms r :
  build ms = BOk r ->
  NoDup (map (fun x => bucket_str (fst x)) (bucketise ms)) ->
  (forall b vs s, In (b, vs) (bucketise ms) -> finish_bucket b vs = BOk s -> denotes_members s vs) ->
  abs r = mkset (map abs ms).
Proof.
  intros Hb Hnd Hden. unfold build in Hb.
  assert (Hmem : forall v, In v (map abs (flat_map snd (bucketise ms))) <-> In v (map abs ms)).
  { intros v. rewrite !in_map_iff. split; intros [m [<- Hm]]; exists m; (split; [reflexivity|]); apply bucketise_members; exact Hm. }
  destruct (bucketise ms) as [|[b vs] [|e2 rest]] eqn:Ebs.
  - inversion Hb; subst. cbn [abs]. cbn [flat_map map] in Hmem.
    destruct ms as [|m ms']; [reflexivity|]. exfalso. apply (Hmem (abs m)). left. reflexivity.
  - rewrite (abs_set_canon r (finish_bucket_is_set _ _ _ Hb)). apply mkset_ext. intros v.
    rewrite (Hden b vs r (or_introl eq_refl) Hb v). rewrite <- Hmem. cbn [flat_map snd]. rewrite app_nil_r. reflexivity.
  - destruct (finish_all ((b, vs) :: e2 :: rest) []) as [u| |] eqn:Efa; try discriminate.
    inversion Hb; subst. cbn [abs]. apply mkset_ext. intros v.
    rewrite (finish_all_spec _ [] u Hnd Efa Hden v). rewrite Hmem. cbn [flat_map In]. tauto.
Qed.

(* ---------- the generic bucket ---------- *)
Lemma fadd_in (x : rep) l y : In y (fadd rep_equal l x) -> In y l \/ y = x.
Proof. unfold fadd. destruct (fhas rep_equal x l); [left; assumption|]. intros H. apply in_app_iff in H. destruct H as [H|[H|[]]]; auto. Qed.

Lemma fset_of_sound (vs : list rep) :
  (forall x y, In x vs -> In y vs -> rep_equal x y = true -> abs x = abs y) ->
  forall v, In v (map abs (fset_of rep_equal vs)) <-> In v (map abs vs).
Proof.
  intros Hs. unfold fset_of.
  assert (G : forall ms acc, (forall x, In x acc -> In x vs) -> (forall x, In x ms -> In x vs) ->
              (forall x, In x (fold_left (fadd rep_equal) ms acc) -> In x vs) /\
              forall v, In v (map abs (fold_left (fadd rep_equal) ms acc)) <-> In v (map abs acc) \/ In v (map abs ms)).
  { induction ms as [|m ms IH]; intros acc Hacc Hms; cbn [fold_left].
    - split; [exact Hacc|]. intros v. cbn [map In]. tauto.
    - assert (Hacc' : forall x, In x (fadd rep_equal acc m) -> In x vs).
      { intros x Hx. apply fadd_in in Hx. destruct Hx as [Hx| ->]; [apply Hacc; exact Hx|apply Hms; left; reflexivity]. }
      destruct (IH (fadd rep_equal acc m) Hacc' (fun x Hx => Hms x (or_intror Hx))) as [IH1 IH2].
      split; [exact IH1|]. intros v. rewrite IH2. change (map abs (m :: ms)) with (abs m :: map abs ms).
      assert (Hx : In v (map abs (fadd rep_equal acc m)) <-> In v (map abs acc) \/ abs m = v).
      { unfold fadd. destruct (fhas rep_equal m acc) eqn:Eh.
        + unfold fhas in Eh. apply existsb_exists in Eh. destruct Eh as [y [Hy Heq]].
          assert (Ha : abs m = abs y) by (apply Hs; [apply Hms; left; reflexivity|apply Hacc; exact Hy|exact Heq]).
          split; [intros H; left; exact H|]. intros [H|H]; [exact H|]. rewrite <- H, Ha. apply in_map. exact Hy.
        + rewrite map_app, in_app_iff. cbn [map In]. tauto. }
      rewrite Hx. cbn [In]. tauto. }
  intros v. destruct (G vs [] (fun x (H : In x []) => match H with end) (fun x H => H)) as [_ G2].
  rewrite G2. cbn [map In]. tauto.
Qed.

Theorem finish_generic_denotes_members vs :
  (forall x y, In x vs -> In y vs -> rep_equal x y = true -> abs x = abs y) ->
  (forall x, In x vs -> rep_equal (RTupG []) x = true -> abs x = VTup []) ->
  denotes_members (finish_generic vs) vs.
Proof.
  intros Hs Ht v. pose proof (fset_of_sound vs Hs v) as Hf. unfold finish_generic.
  assert (Hsub : forall x, In x (fset_of rep_equal vs) -> In x vs).
  { unfold fset_of. assert (G : forall ms acc, (forall x, In x acc -> In x vs) -> (forall x, In x ms -> In x vs) ->
      forall x, In x (fold_left (fadd rep_equal) ms acc) -> In x vs).
    { induction ms as [|m ms IH]; intros acc Ha Hm x Hx; cbn [fold_left] in Hx; [apply Ha; exact Hx|].
      apply (IH (fadd rep_equal acc m)); try exact Hx.
      - intros y Hy. apply fadd_in in Hy. destruct Hy as [Hy| ->]; [apply Ha; exact Hy|apply Hm; left; reflexivity].
      - intros y Hy. apply Hm. right. exact Hy. }
    apply (G vs []); [intros x []|intros x H; exact H]. }
  destruct (fset_of rep_equal vs) as [|x [|y r]] eqn:Ef.
  - cbn [abs set_elems]. rewrite <- Hf. cbn [map In]. tauto.
  - destruct (rep_equal (RTupG []) x) eqn:Et.
    + cbn [abs set_elems]. rewrite <- Hf. cbn [map In]. rewrite (Ht x (Hsub x (or_introl eq_refl)) Et). tauto.
    + cbn [abs]. rewrite mkset_elems. exact Hf.
  - cbn [abs]. rewrite mkset_elems. exact Hf.
Qed.

(* ---------- witnesses of the carved-out regions, inside the model ---------- *)
Definition rint (z : Z) : rep := RNum (NInt z).

(* superimposed items: the last one written wins *)
Lemma collision_refutes_members :
  exists ms r, build ms = BOk r /\ abs r <> mkset (map abs ms).
Proof. exists [RTupItem 0 (rint 1); RTupItem 0 (rint 2)]. eexists. split; [vm_compute; reflexivity|vm_compute; discriminate]. Qed.

(* and so the representation depends on the order in which equal sets are built *)
Lemma collision_refutes_order :
  exists ms ms' r r', mkset (map abs ms) = mkset (map abs ms') /\ build ms = BOk r /\ build ms' = BOk r' /\ rep_equal r r' = false.
Proof.
  exists [RTupItem 0 (rint 1); RTupItem 0 (rint 2)], [RTupItem 0 (rint 2); RTupItem 0 (rint 1)]. do 2 eexists.
  split; [vm_compute; reflexivity|]. split; [vm_compute; reflexivity|]. split; [vm_compute; reflexivity|vm_compute; reflexivity].
Qed.

(* a byte array has no holes: the gap becomes a zero byte *)
Lemma bytes_gap_refutes_members :
  exists ms r, build ms = BOk r /\ abs r <> mkset (map abs ms).
Proof. exists [RTupByte 0 1; RTupByte 2 3]. eexists. split; [vm_compute; reflexivity|vm_compute; discriminate]. Qed.

(* a negative character is stored as a hole: Count() says 1, no member is enumerated, and the set is not Equal to {} *)
Lemma negative_char_refutes_extensionality :
  exists r, build [RTupChar 0 (-1)] = BOk r /\ abs r = abs REmpty /\ rep_equal r REmpty = false /\ rcount r = 1 /\ rmembers r = [].
Proof. eexists. split; [vm_compute; reflexivity|]. repeat split; vm_compute; reflexivity. Qed.

(* NewTuple truncates a fractional index: two different denotations, Equal representations *)
Lemma truncation_refutes_extensionality :
  exists a b, tuple_build [(n_at, RNum (NHalf 0)); (n_item, rint 1)] = BOk a /\
              tuple_build [(n_at, rint 0); (n_item, rint 1)] = BOk b /\ rep_equal a b = true /\
              mktup [(n_at, VNum (NHalf 0)); (n_item, vint 1)] <> mktup [(n_at, vint 0); (n_item, vint 1)].
Proof. do 2 eexists. split; [vm_compute; reflexivity|]. split; [vm_compute; reflexivity|]. split; [vm_compute; reflexivity|vm_compute; discriminate]. Qed.

(* bucket keys that print alike: one bucket replaces the other in the UnionSet / the relation builder panics *)
Lemma bucket_string_refutes_members :
  exists ms r, build ms = BOk r /\ abs r <> mkset (map abs ms).
Proof. exists [rint 1; RTupG [(s_generic, rint 2)]]. eexists. split; [vm_compute; reflexivity|vm_compute; discriminate]. Qed.

Lemma bucket_names_panic :
  build [RTupG [([97; 44; 32; 98], rint 1)]; RTupG [([97], rint 1); ([98], rint 2)]] = BPanic.
Proof. vm_compute. reflexivity. Qed.
