(* Witnesses for C15: one refutation per quirk (the known findings' replays),
   the input class the precondition excludes, and a non-trivial layout on which
   the theorem's hypotheses hold.  All by vm_compute. *)
From Coq Require Import String Ascii.
From Arrai Require Import Sys.BPath Sys.Bundle Proofs.BundleP.
Open Scope list_scope.
Open Scope Z_scope.

Definition zs (s : string) : seg := List.map (fun a => Z.of_N (N_of_ascii a)) (list_ascii_of_string s).
Definition script (tag : Z) (imps : list import) : file := {| f_tag := tag; f_imps := Some imps; f_bytes := [] |}.
Definition gomod (tag : Z) (s : string) : file := {| f_tag := tag; f_imps := None; f_bytes := zs s |}.
Definition rel (p : list seg) : import := {| i_root := false; i_segs := p; i_dec := false |}.
Definition rooted (p : list seg) : import := {| i_root := true; i_segs := p; i_dec := false |}.
Definition nl : string := String (ascii_of_nat 10) EmptyString.

(* KF-C15-01: nested module inside a module-less tree *)
Definition w_sentinel : layout :=
  [ ([zs "r"; zs "main.arrai"], script 1 [rel [zs "sub"; zs "x"]]);
    ([zs "r"; zs "sub"; zs "go.mod"], gomod 2 ("module n" ++ nl));
    ([zs "r"; zs "sub"; zs "x.arrai"], script 3 [rooted [zs "y"]]);
    ([zs "r"; zs "sub"; zs "y.arrai"], script 4 []) ].

Lemma q_unnamed_sentinel_refuted :
  exists L main, pre L main = true /\ ~ like_source only_sentinel 24 L main.
Proof.
  exists w_sentinel, [zs "r"; zs "main.arrai"]. split; [vm_compute; reflexivity|].
  vm_compute. intro H. discriminate.
Qed.

(* KF-C15-02: go.mod whose module line has no trailing newline *)
Definition w_modre : layout :=
  [ ([zs "r"; zs "go.mod"], gomod 1 "module m");
    ([zs "r"; zs "main.arrai"], script 2 []) ].

Lemma q_modre_anchored_refuted :
  exists L main, pre L main = true /\ ~ like_source only_modre 24 L main.
Proof.
  exists w_modre, [zs "r"; zs "main.arrai"]. split; [vm_compute; reflexivity|].
  vm_compute. intro H. discriminate.
Qed.

(* KF-C15-03: a control character in the main file's archive path *)
Definition w_cfg : layout := [ ([zs "r"; [97; 1; 98; 46; 97; 114; 114; 97; 105]], script 1 []) ].

Lemma q_cfg_goquote_refuted :
  exists L main, pre L main = true /\ ~ like_source only_cfg 24 L main.
Proof.
  exists w_cfg, [zs "r"; [97; 1; 98; 46; 97; 114; 114; 97; 105]]. split; [vm_compute; reflexivity|].
  vm_compute. intro H. discriminate.
Qed.

(* non-vacuity: a module layout with ./, /-rooted, nested and data imports, main in a
   sub-directory; hypotheses hold under the current quirk set and the result is a real tree *)
Definition w_ok_main : file := script 2 [rel [zs "a"]; rooted [zs "b"; zs "c"]; rel [zs "d.json"]].
Definition w_ok : layout :=
  [ ([zs "r"; zs "go.mod"], gomod 1 ("module m.com/x" ++ nl));
    ([zs "r"; zs "sub"; zs "main.arrai"], w_ok_main);
    ([zs "r"; zs "sub"; zs "a.arrai"], script 3 []);
    ([zs "r"; zs "b"; zs "c.arrai"], script 4 [rooted [zs "sub"; zs ".."; zs "sub"; zs "a"]]);
    ([zs "r"; zs "sub"; zs "d.json"], script 5 []) ].

Lemma nonvacuous :
  exists L main t1 t2 t3,
    pre L main = true /\
    run_bundle quirks_on 24 L main = run_bundle quirks_off 24 L main /\
    resolve_src quirks_on 24 L main = Ok (Node w_ok_main KScript [t1; t2; t3]).
Proof.
  exists w_ok, [zs "r"; zs "sub"; zs "main.arrai"].
  eexists. eexists. eexists. split; [vm_compute; reflexivity|]. split; vm_compute; reflexivity.
Qed.
