(* Proofs for Sys/SandboxHist.v (C18: histories of evaluators). *)
From Coq Require Import List String Bool Arith.
From Arrai Require Import Sys.Sandbox Sys.SandboxHist.
Import ListNotations.
Open Scope string_scope.
Open Scope list_scope.

(* a call of an evaluator = its config parsed, its scope built, the source evaluated in it *)
Lemma apply_evalwith : forall q w f cfg va,
  apply q w (S f) (VEvalWith cfg) va =
  match scope_of w cfg with
  | Some env => use_in_env q w f env va
  | None => (Err, [])
  end.
Proof.
  intros q w f cfg va. unfold scope_of, use_in_env. cbn [apply].
  destruct (parse_cfg cfg) as [[l sc]|]; [|reflexivity].
  destruct va; try reflexivity.
  destruct (src_arm r) as [[|]|]; reflexivity.
Qed.

Lemma hstep_no_memo : forall q w f m u,
  fst (hstep q w f no_memo m u) = use_alone q w f u.
Proof.
  intros q w f m [fn src]. unfold hstep, use_alone. cbn [u_fn u_src].
  destruct fn; try reflexivity.
  assert (Hl : memo_lookup no_memo m fn = None) by (destruct m as [[k e]|]; reflexivity).
  rewrite Hl, apply_evalwith. destruct (scope_of w fn); reflexivity.
Qed.

(* the Go code today: each use of a history gives what that use gives alone *)
Theorem evaluator_uses_are_independent : forall q w f m h,
  hist_run q w f no_memo m h = map (use_alone q w f) h.
Proof.
  intros q w f m h. revert m. induction h as [|u r IH]; intro m; [reflexivity|].
  cbn [hist_run map]. pose proof (hstep_no_memo q w f m u) as Hs.
  destruct (hstep q w f no_memo m u) as [o m']. cbn [fst] in Hs. rewrite Hs, IH. reflexivity.
Qed.

Lemma hstep_sound : forall q w f keq m u,
  key_sound w keq -> memo_ok w m ->
  fst (hstep q w f keq m u) = use_alone q w f u /\ memo_ok w (snd (hstep q w f keq m u)).
Proof.
  intros q w f keq m [fn src] Hk Hm. unfold hstep, use_alone. cbn [u_fn u_src].
  destruct fn; try (split; [reflexivity|exact Hm]).
  rewrite apply_evalwith.
  destruct (memo_lookup keq m fn) as [env|] eqn:Hl.
  - unfold memo_lookup in Hl. destruct m as [[k e]|]; [|discriminate].
    destruct (keq k fn) eqn:Hkq; [|discriminate]. injection Hl as Hl. subst e.
    cbn [memo_ok] in Hm. rewrite <- (Hk k fn Hkq), Hm. cbn [fst snd]. split; [reflexivity|exact Hm].
  - destruct (scope_of w fn) as [env|] eqn:Hs; cbn [fst snd].
    + split; [reflexivity|exact Hs].
    + split; [reflexivity|exact Hm].
Qed.

(* any reuse between evaluator calls is invisible provided its key determines the scope *)
Theorem evaluator_uses_independent_under_sound_key : forall q w f keq m h,
  key_sound w keq -> memo_ok w m ->
  hist_run q w f keq m h = map (use_alone q w f) h.
Proof.
  intros q w f keq m h Hk. revert m. induction h as [|u r IH]; intros m Hm; [reflexivity|].
  cbn [hist_run map]. destruct (hstep_sound q w f keq m u Hk Hm) as [H1 H2].
  destruct (hstep q w f keq m u) as [o m']. cbn [fst snd] in H1, H2. rewrite H1, (IH m' H2). reflexivity.
Qed.

(* ---------- the factory witness ---------- *)
Definition tiny_lib : val := VTupCons "eval" (VTupCons "evaluator" VEvaluator VTupNil) VTupNil.
Definition tiny_world : world := {| w_safe := tiny_lib; w_full := tiny_lib; w_files := [] |}.

Definition capA_val : val := VTupCons "capA" VData VTupNil.
Definition denied_val : val := VTupCons "denied" VData VTupNil.

(* keyed with closure-blind equality, the second evaluator of the factory is served the scope of
   the first: its source obtains the capability that was handed to the other one *)
Lemma memo_keyed_by_closure_blind_equal_refuted :
  exists w t a b,
    run_top quirks_off w 40 factory_setup = (Val t, []) /\
    evaluator_fn t "A" = Some a /\ evaluator_fn t "B" = Some b /\
    let h := [ {| u_fn := a; u_src := read_probe |}; {| u_fn := b; u_src := read_probe |} ] in
    map (use_alone quirks_off w 40) h = [ (Val capA_val, []); (Val denied_val, []) ] /\
    hist_run quirks_off w 40 closure_blind_equal None h = [ (Val capA_val, []); (Val capA_val, []) ].
Proof.
  exists tiny_world. eexists. eexists. eexists.
  split; [vm_compute; reflexivity|].
  split; [vm_compute; reflexivity|].
  split; [vm_compute; reflexivity|].
  split; vm_compute; reflexivity.
Qed.

Lemma closure_blind_equal_not_key_sound : exists w, ~ key_sound w closure_blind_equal.
Proof.
  exists tiny_world. intro Hk.
  pose (cA := VTupCons "scope" (VTupCons "read" (VClo (VTupCons "r" (VClo VTupNil "u" (mark "capA")) VTupNil) "p"
                 (EApp (EVar "r") (EVar "p"))) VTupNil) VTupNil).
  pose (cB := VTupCons "scope" (VTupCons "read" (VClo (VTupCons "r" (VClo VTupNil "u" (mark "denied")) VTupNil) "p"
                 (EApp (EVar "r") (EVar "p"))) VTupNil) VTupNil).
  assert (He : closure_blind_equal cA cB = true) by (vm_compute; reflexivity).
  specialize (Hk cA cB He). vm_compute in Hk. discriminate Hk.
Qed.

(* hypotheses of the theorems are satisfiable by non-trivial values *)
Definition both_unit (a b : val) : bool :=
  match a, b with VTupNil, VTupNil => true | _, _ => false end.

Example key_sound_both_unit : forall w, key_sound w both_unit.
Proof. intros w c1 c2 H. destruct c1, c2; try discriminate H. reflexivity. Qed.

Example memo_ok_unit : memo_ok tiny_world (Some (VTupNil, VTupCons pkg tiny_lib VTupNil)).
Proof. vm_compute. reflexivity. Qed.

Example both_unit_history_hits_the_memo :
  let u := {| u_fn := VEvalWith VTupNil; u_src := VSrc RString (EDot EPkg "eval") |} in
  hist_run quirks_off tiny_world 10 both_unit None [u; u] =
  map (use_alone quirks_off tiny_world 10) [u; u] /\
  snd (hstep quirks_off tiny_world 10 both_unit None u) <> None.
Proof. split; [vm_compute; reflexivity|vm_compute; discriminate]. Qed.
