(* Sorting by ANY strict total order is canonical (property C06): whatever order the members are
   presented in, insertion by the order yields one and the same sequence; so orderby, rank and the
   printed order of members depend on the members only.  Stated for an arbitrary comparison with
   the order laws on a class Q - the specification order and, piecewise, the Go order instantiate it. *)
From Arrai Require Import Base.Val Proofs.ValOrder.
From Coq Require Import Permutation.

Section Sort.
Context {A : Type} (cmp : A -> A -> comparison) (Q : A -> Prop).
Hypothesis HR : forall x y z, Q x -> Q y -> Q z -> ordR cmp x y z.

Fixpoint ginsert (x : A) (l : list A) : list A :=
  match l with
  | [] => [x]
  | y :: l' => match cmp x y with
               | Lt => x :: l
               | Eq => l
               | Gt => y :: ginsert x l'
               end
  end.
Definition gsort (l : list A) : list A := fold_right ginsert [] l.

Fixpoint gsorted (l : list A) : Prop :=
  match l with
  | [] => True
  | x :: l' => (forall y, In y l' -> cmp x y = Lt) /\ gsorted l'
  end.

Lemma g_eq x y : Q x -> Q y -> cmp x y = Eq -> x = y.
Proof. intros Hx Hy. apply (HR x y y Hx Hy Hy). Qed.
Lemma g_trans x y z : Q x -> Q y -> Q z -> cmp x y = Lt -> cmp y z = Lt -> cmp x z = Lt.
Proof. intros Hx Hy Hz. apply (HR x y z Hx Hy Hz). Qed.
Lemma g_gt_lt x y : Q x -> Q y -> cmp x y = Gt -> cmp y x = Lt.
Proof. intros Hx Hy H. destruct (HR x y y Hx Hy Hy) as (_ & _ & Ha & _). rewrite Ha, H. reflexivity. Qed.
Lemma g_irrefl x : Q x -> cmp x x <> Lt.
Proof. intros Hx. destruct (HR x x x Hx Hx Hx) as (-> & _). discriminate. Qed.

Lemma ginsert_in x l y : Q x -> Forall Q l -> (In y (ginsert x l) <-> y = x \/ In y l).
Proof.
  intros Hx Hl. induction Hl as [|z l Hz Hl IH]; simpl; [intuition|].
  destruct (cmp x z) eqn:E; simpl.
  - apply (g_eq x z Hx Hz) in E; subst. intuition.
  - intuition.
  - rewrite IH. intuition.
Qed.

Lemma ginsert_Q x l : Q x -> Forall Q l -> Forall Q (ginsert x l).
Proof.
  intros Hx Hl. apply Forall_forall. intros y Hy. apply (ginsert_in x l y Hx Hl) in Hy as [->|Hy]; [exact Hx|].
  rewrite Forall_forall in Hl. apply Hl, Hy.
Qed.

Lemma ginsert_sorted x l : Q x -> Forall Q l -> gsorted l -> gsorted (ginsert x l).
Proof.
  intros Hx Hl. induction Hl as [|z l Hz Hl IH]; simpl; [intros _; split; [intros y []|exact I]|].
  intros [Hzl Hs]. destruct (cmp x z) eqn:E.
  - simpl; split; assumption.
  - simpl. split; [|split; assumption].
    intros y [<-|Hy]; [exact E|]. rewrite Forall_forall in Hl.
    eapply (g_trans x z y Hx Hz (Hl y Hy)); [exact E | apply Hzl, Hy].
  - simpl. split; [|apply IH, Hs].
    intros y Hy. apply (ginsert_in x l y Hx Hl) in Hy as [->|Hy]; [apply g_gt_lt; assumption | apply Hzl, Hy].
Qed.

Lemma gsort_Q l : Forall Q l -> Forall Q (gsort l).
Proof. induction 1 as [|x l Hx Hl IH]; simpl; [constructor | apply ginsert_Q; assumption]. Qed.

Lemma gsort_in l y : Forall Q l -> (In y (gsort l) <-> In y l).
Proof.
  induction 1 as [|x l Hx Hl IH]; simpl; [reflexivity|].
  rewrite (ginsert_in x (gsort l) y Hx (gsort_Q l Hl)), IH. intuition.
Qed.

Lemma gsort_sorted l : Forall Q l -> gsorted (gsort l).
Proof. induction 1 as [|x l Hx Hl IH]; simpl; [exact I | apply ginsert_sorted; [exact Hx | apply gsort_Q, Hl | exact IH]]. Qed.

(* a strictly sorted list is determined by its members *)
Theorem gsorted_ext l m :
  Forall Q l -> Forall Q m -> gsorted l -> gsorted m -> (forall x, In x l <-> In x m) -> l = m.
Proof.
  intros Ql. revert m; induction Ql as [|x l Qx Ql IH]; intros m Qm Hl Hm Hext.
  - destruct m as [|y m]; [reflexivity|]. exfalso. apply (Hext y). left; reflexivity.
  - destruct m as [|y m]; [exfalso; apply (Hext x); left; reflexivity|].
    inversion Qm as [|? ? Qy Qm']; subst.
    destruct Hl as [Hx Hl], Hm as [Hy Hm].
    assert (x = y).
    { destruct (proj1 (Hext x) (or_introl eq_refl)) as [->|Hxm]; [reflexivity|].
      destruct (proj2 (Hext y) (or_introl eq_refl)) as [->|Hyl]; [reflexivity|].
      exfalso. apply (g_irrefl x Qx). eapply (g_trans x y x Qx Qy Qx); [apply Hx, Hyl | apply Hy, Hxm]. }
    subst y. f_equal. apply IH; try assumption.
    intros z; split; intros Hz.
    + destruct (proj1 (Hext z) (or_intror Hz)) as [<-|H]; [|exact H].
      exfalso; apply (g_irrefl x Qx), Hx, Hz.
    + destruct (proj2 (Hext z) (or_intror Hz)) as [<-|H]; [|exact H].
      exfalso; apply (g_irrefl x Qx), Hy, Hz.
Qed.

(* sorting the same members - in any order, with any repetitions - yields the same sequence *)
Theorem gsort_same_members l l' :
  Forall Q l -> Forall Q l' -> (forall x, In x l <-> In x l') -> gsort l = gsort l'.
Proof.
  intros Hl Hl' Hext. apply gsorted_ext; try apply gsort_Q; try apply gsort_sorted; try assumption.
  intros x. rewrite (gsort_in l x Hl), (gsort_in l' x Hl'). apply Hext.
Qed.

Corollary gsort_perm l l' : Forall Q l -> Permutation l l' -> gsort l = gsort l'.
Proof.
  intros Hl Hp. apply gsort_same_members; [exact Hl | |].
  - apply Forall_forall. intros x Hx. rewrite Forall_forall in Hl. apply Hl. eapply Permutation_in; [apply Permutation_sym, Hp | exact Hx].
  - intros x; split; intros Hx; eapply Permutation_in; try exact Hx; [exact Hp | apply Permutation_sym, Hp].
Qed.

(* and the sequence is strictly increasing: no two equal members, each before the larger ones *)
Corollary gsort_strictly_increasing l : Forall Q l -> gsorted (gsort l) /\ NoDup (gsort l).
Proof.
  intros Hl. split; [apply gsort_sorted, Hl|].
  pose proof (gsort_sorted l Hl) as Hs. pose proof (gsort_Q l Hl) as HQ.
  induction (gsort l) as [|x r IH]; [constructor|].
  destruct Hs as [Hx Hs]. inversion HQ; subst. constructor; [|apply IH; assumption].
  intros Hin. apply (g_irrefl x); [assumption | apply Hx, Hin].
Qed.
End Sort.

(* the specification order is an instance: vsort is this sort *)
Lemma vsort_is_gsort l : vsort l = gsort vcmp l.
Proof.
  unfold vsort, gsort. induction l as [|x l IH]; [reflexivity|]. simpl. rewrite IH.
  generalize (fold_right (ginsert vcmp) [] l) as r. intros r. induction r as [|y r IHr]; [reflexivity|].
  simpl. destruct (vcmp x y); [reflexivity | reflexivity | rewrite IHr; reflexivity].
Qed.

Theorem vsort_same_members l l' : (forall x, In x l <-> In x l') -> vsort l = vsort l'.
Proof.
  intros H. rewrite !vsort_is_gsort.
  apply (gsort_same_members vcmp (fun _ => True)); [intros; apply vcmp_ordR | | | exact H]; apply Forall_forall; trivial.
Qed.
