(* Array.withItem / With: panics only with makeslice inside the dense-storage region, or with the explicit
   superimposed-items panic inside its region; otherwise a value satisfying the invariant. *)
From Coq Require Import List ZArith Bool Lia ZifyBool.
From Arrai Require Import Rep.SeqSafe Proofs.SeqSafeP Proofs.SeqSafeArrP.
Import ListNotations.
Open Scope Z_scope.

Section W.
Variable max_alloc : Z.
Variable V : Type.
Variable veq : V -> V -> bool.
Hypothesis Hmax : 0 < max_alloc <= 281474976710656.

Notation arr := (arr V).
Notation cells := (list (option V)).

Lemma hd_app (l m : cells) : hd_some V l = true -> hd_some V (l ++ m) = true.
Proof. destruct l as [|[x|] t]; simpl; auto; discriminate. Qed.

Lemma count_app (l m : cells) : count_some V (l ++ m) = count_some V l + count_some V m.
Proof. unfold count_some, len. rewrite filter_app, app_length. lia. Qed.

Lemma count_repeat_none k : count_some V (repeat None k) = 0.
Proof. unfold count_some, len. induction k; simpl; auto. Qed.

Lemma firstn_repeat {A} (x : A) m n : (m <= n)%nat -> firstn m (repeat x n) = repeat x m.
Proof. revert n; induction m; intros [|n] H; simpl; try lia; auto. f_equal. apply IHm. lia. Qed.

Lemma skipn_repeat {A} (x : A) m n : skipn m (repeat x n) = repeat x (n - m).
Proof. revert n; induction m; intros [|n]; simpl; auto. Qed.

Lemma set_nth_app (l m : cells) k x : set_nth (length l + k) x (l ++ m) = l ++ set_nth k x m.
Proof. induction l; simpl; auto. f_equal. exact IHl. Qed.

Lemma nth_error_app_r (l m : cells) k : nth_error (l ++ m) (length l + k) = nth_error m k.
Proof. rewrite nth_error_app2 by lia. f_equal. lia. Qed.

Lemma set_nth_repeat_last g (x : option V) : set_nth g x (repeat None (S g)) = repeat None g ++ [x].
Proof. induction g; simpl; auto. f_equal. exact IHg. Qed.

Lemma nth_repeat_last g : nth_error (repeat (@None V) (S g)) g = Some None.
Proof. induction g; simpl; auto. Qed.

Lemma last_cell (l : cells) c : nth_error l (length l - 1) = Some c -> hd_some V (rev l) = is_some c.
Proof.
  intros H. assert (L : (0 < length l)%nat) by (destruct l; simpl in *; [discriminate | lia]).
  pose proof (firstn_S_nth V l _ _ H) as E. replace (S (length l - 1)) with (length l) in E by lia.
  rewrite firstn_all in E. rewrite E, rev_app_distr. destruct c; reflexivity.
Qed.

Lemma count_fill_nat (l : cells) : forall k v, nth_error l k = Some None ->
  length (filter (@is_some V) (set_nth k (Some v) l)) = S (length (filter (@is_some V) l)).
Proof.
  induction l as [|c t IH]; intros [|k] v H; cbn [nth_error set_nth] in *; try discriminate.
  - inversion H; subst. reflexivity.
  - specialize (IH _ v H). destruct c; cbn [filter is_some length]; lia.
Qed.

Theorem arr_with_item_safe (a : arr) (index : Z) (item : V) :
  inv_arr max_alloc V a -> min_int <= index <= max_int ->
  match arr_with_item max_alloc V veq a index item with
  | Val r => inv max_alloc V r
  | Panic s => (s = SMakeslice /\ dense_region max_alloc (aoff V a) (len (avals V a)) index = true) \/
               (s = SSuperimposed /\ superimposed_region V veq a index item = true)
  | _ => False
  end.
Proof.
  intros Ha Hidx. pose proof Ha as [H1 [H2 [Hc [Hl Ho]]]].
  pose proof (len_nonneg (avals V a)) as Hn0.
  pose proof (count_some_bounds V (avals V a)) as Hcb.
  assert (Hn1 : 0 < len (avals V a)) by (destruct (avals V a); [discriminate | rewrite len_cons; pose proof (len_nonneg l); lia]).
  unfold arr_with_item, dense_region, superimposed_region. cbv zeta.
  set (i := isub index (aoff V a)).
  assert (Ri : min_int <= i <= max_int) by (unfold i, isub; destruct (wrap_spec (index - aoff V a)) as [? [? ?]]; lia).
  clearbody i.
  set (n := len (avals V a)) in *.
  destruct (i <? 0) eqn:Eneg.
  - (* prepend *)
    destruct (mk_cases max_alloc (@None V) (isub n i)) as [[Em Hm]|[Em Hm]]; rewrite Em; cbn [bind].
    + left. split; auto. lia.
    + assert (Esz : isub n i = n - i) by (clear Em; wsolve).
      assert (Eng : ineg i = - i) by (clear Em; wsolve).
      rewrite Esz in *. rewrite Eng.
      rewrite slice_in by (rewrite len_repeat; lia). cbn [bind].
      rewrite len_repeat.
      set (m := Z.to_nat (- i)). set (sz := Z.to_nat (n - i)).
      assert (Hm1 : (0 < m <= sz)%nat) by lia.
      replace (Z.to_nat (Z.of_nat sz - - i)) with (sz - m)%nat by lia.
      rewrite skipn_repeat, firstn_repeat by lia.
      rewrite firstn_repeat by lia.
      rewrite copy_full by (rewrite repeat_length; unfold n, len in *; lia).
      unfold arr_put. cbn [avals aoff acnt].
      destruct m as [|m'] eqn:Em0; [lia|]. simpl repeat. simpl app.
      unfold idx. simpl. unfold upd. simpl.
      unfold inv, inv_arr. cbn [avals aoff acnt].
      split; [reflexivity|].
      split.
      { rewrite hd_rev_cons. destruct (repeat None m' ++ avals V a) eqn:Er.
        - apply app_eq_nil in Er. destruct Er as [_ Er]. rewrite Er in H1. discriminate.
        - rewrite <- Er. rewrite rev_app_distr. apply hd_app. exact H2. }
      split.
      { change (Some item :: repeat None m' ++ avals V a) with ([Some item] ++ repeat None m' ++ avals V a).
        rewrite !count_app, count_repeat_none. unfold count_some at 1, len. cbn [filter is_some length]. rewrite <- Hc.
        clear Em. wsolve. }
      split.
      { rewrite len_cons, len_app, len_repeat. fold n. lia. }
      clear Em. wsolve.
  - destruct (n <=? i) eqn:Eapp.
    + (* append *)
      destruct (mk_cases max_alloc (@None V) (iadd i 1)) as [[Em Hm]|[Em Hm]]; rewrite Em; cbn [bind].
      * left. split; auto. lia.
      * assert (Esz : iadd i 1 = i + 1) by (clear Em; wsolve). rewrite Esz in *.
        unfold arr_put. cbn [avals aoff acnt].
        unfold copy. rewrite repeat_length.
        rewrite firstn_all2 by (unfold n, len in *; lia).
        rewrite skipn_repeat.
        set (g := Z.to_nat (i - n)).
        replace (Z.to_nat (i + 1) - length (avals V a))%nat with (S g) by (unfold n, len in *; lia).
        assert (Ei : Z.to_nat i = (length (avals V a) + g)%nat) by (unfold n, len in *; lia).
        unfold idx. replace ((0 <=? i) && (i <? len (avals V a ++ repeat None (S g)))) with true
          by (rewrite len_app, len_repeat; fold n; lia).
        rewrite Ei, nth_error_app_r, nth_repeat_last. cbn [bind].
        unfold upd. replace ((0 <=? i) && (i <? len (avals V a ++ repeat None (S g)))) with true
          by (rewrite len_app, len_repeat; fold n; lia).
        cbn [bind]. rewrite Ei, set_nth_app, set_nth_repeat_last.
        unfold inv, inv_arr. cbn [avals aoff acnt].
        split; [apply hd_app; exact H1|].
        split; [rewrite app_assoc, rev_app_distr; reflexivity|].
        split.
        { rewrite !count_app, count_repeat_none. unfold count_some at 2, len. cbn [filter is_some length]. rewrite <- Hc. clear Em. wsolve. }
        split; [|exact Ho].
        rewrite !len_app, len_repeat, len_single. fold n. lia.
    + (* inside *)
      destruct (idx_in (avals V a) i) as [c [Ec Nc]]; [fold n; lia|]. rewrite Ec. cbn [bind].
      replace ((0 <=? i) && (i <? n)) with true by lia. rewrite Nc. cbn [andb].
      destruct c as [c|].
      * destruct (veq item c) eqn:Ev; [exact Ha|].
        rewrite clone_ok by exact Hl. cbn [bind]. unfold arr_put. cbn [avals aoff acnt]. rewrite Ec. cbn [bind].
        right. split; reflexivity.
      * rewrite clone_ok by exact Hl. cbn [bind]. unfold arr_put. cbn [avals aoff acnt]. rewrite Ec. cbn [bind].
        rewrite upd_in by (fold n; lia). cbn [bind].
        assert (Hi0 : (0 < Z.to_nat i)%nat).
        { destruct (Z.to_nat i) eqn:E; [|lia]. destruct (avals V a) as [|[x|] t]; simpl in *; congruence. }
        assert (Hi1 : (S (Z.to_nat i) < length (avals V a))%nat).
        { assert (Z.to_nat i <> (length (avals V a) - 1)%nat); [|unfold n, len in *; lia].
          intros E. rewrite E in Nc. rewrite (last_cell _ _ Nc) in H2. discriminate. }
        unfold inv, inv_arr. cbn [avals aoff acnt].
        split; [rewrite hd_set_nth by lia; exact H1|].
        split; [rewrite hd_rev_set_nth by lia; exact H2|].
        split.
        { unfold count_some, len. rewrite (count_fill_nat _ _ item Nc).
          unfold count_some, len in Hc, Hcb. rewrite Hc. wsolve. }
        split; [rewrite len_set_nth; exact Hl | exact Ho].
Qed.

End W.
