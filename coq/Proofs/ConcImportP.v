(* C11 proofs, part 2: importCache.getOrAdd (mutex + cond). *)
From Coq Require Import List ZArith Bool Lia Arith.
Import ListNotations.
From Arrai Require Import Sys.Conc Proofs.ConcP.

(* ------------------------------------------------------------------ *)
(* P4: importCache.getOrAdd *)
Lemma marker_neg : forall t, (marker t < 0)%Z. Proof. intro; unfold marker; lia. Qed.
Lemma marker_inj : forall t u, marker t = marker u -> t = u. Proof. unfold marker; intros; lia. Qed.

Definition imp_crit_pc (p : nat) : Prop :=
  match p with
  | 1 | 2 | 3 | 4 | 5 | 6 | 7 | 8 | 9 | 13 | 14 | 15 | 16 | 19 | 20 | 21 | 22 => True
  | _ => False
  end.
Definition imp_adder_pc (p : nat) : Prop :=
  match p with
  | 9 | 10 | 11 | 12 | 13 | 18 | 19 | 20 => True
  | _ => False
  end.

Section ImportP.
  Variable q : Quirks.
  Variable res : Z.
  Variable N : nat.
  Notation progs := (import_progs q res).

  Definition imp_G (s : shared) : Prop :=
    ((mem s 0%nat > 0)%Z -> mem s 0 = res) /\
    ((mem s 0%nat < 0)%Z -> exists u, u < N /\ mem s 0 = marker u) /\
    (forall h, lk s 0 = Some h -> h < N).

  Definition imp_A (t : tid) (ts : tstate) (s : shared) : Prop :=
    (lk s 0 = Some t -> wt ts = None /\ imp_crit_pc (pc ts)) /\
    (mem s 0 = marker t -> imp_adder_pc (pc ts)) /\
    match wt ts with Some _ => pc ts = 5 | None => True end /\
    match pc ts with
    | 1 => lk s 0 = Some t
    | 2 => lk s 0 = Some t /\ regs ts 0 = mem s 0
    | 3 => lk s 0 = Some t /\ regs ts 0 = mem s 0 /\ mem s 0 <> 0%Z
    | 4 => lk s 0 = Some t /\ regs ts 0 = mem s 0 /\ (mem s 0%nat > 0)%Z
    | 5 => match wt ts with
           | None => lk s 0 = Some t /\ (mem s 0%nat < 0)%Z
           | Some g => g <= gen s 0
           end
    | 6 => lk s 0 = Some t
    | 7 => lk s 0 = Some t /\ mem s 0 = 0%Z
    | 8 => lk s 0 = Some t /\ mem s 0 = 0%Z /\ regs ts 1 = marker t
    | 9 => lk s 0 = Some t /\ mem s 0 = marker t
    | 10 => mem s 0 = marker t
    | 11 => mem s 0 = marker t /\ regs ts 0 = res
    | 12 => mem s 0 = marker t /\ regs ts 0 = res /\ (res >= 0)%Z
    | 13 => lk s 0 = Some t /\ mem s 0 = marker t /\ regs ts 0 = res /\ (res >= 0)%Z
    | 14 => lk s 0 = Some t /\ regs ts 0 = res /\ (mem s 0%nat >= 0)%Z
    | 15 => lk s 0 = Some t /\ regs ts 0 = res
    | 16 => lk s 0 = Some t /\ regs ts 0 = res
    | 17 => regs ts 0 = res
    | 18 => mem s 0 = marker t /\ regs ts 0 = res
    | 19 => lk s 0 = Some t /\ mem s 0 = marker t /\ regs ts 0 = res
    | 20 => lk s 0 = Some t /\ mem s 0 = marker t /\ regs ts 0 = res /\ regs ts 1 = 0%Z
    | 21 => lk s 0 = Some t /\ regs ts 0 = res /\ mem s 0 = 0%Z
    | 22 => lk s 0 = Some t /\ regs ts 0 = res
    | 0 => True
    | _ => False
    end.

  Lemma imp_init : imp_G sh0 /\ forall t, imp_A t ts0 sh0.
  Proof.
    split; [repeat split; simpl; intros; try lia; discriminate|]. intro t. unfold imp_A; simpl.
    pose proof (marker_neg t). repeat split; try congruence; try lia.
  Qed.
End ImportP.

Ltac mk_facts :=
  repeat match goal with
         | |- context [marker ?t] => lazymatch goal with H : (marker t < 0)%Z |- _ => fail | _ => pose proof (marker_neg t) end
         | _ : context [marker ?t] |- _ => lazymatch goal with H : (marker t < 0)%Z |- _ => fail | _ => pose proof (marker_neg t) end
         end.
Ltac fini := simpl in *; unfold upd in *; simpl in *; mk_facts;
  repeat match goal with H : marker ?a = marker ?b |- _ => apply marker_inj in H; try subst end;
  try tauto; try congruence; try lia; intuition (try congruence; try lia).

Section ImportP2.
  Variable q : Quirks.
  Variable res : Z.
  Variable N : nat.
  Notation progs := (import_progs q res).

  Lemma imp_local : forall t ts s ts' s', t < N -> imp_G res N s -> imp_A res t ts s ->
      exec (progs t) t ts s = Some (ts', s') -> imp_G res N s' /\ imp_A res t ts' s'.
  Proof.
    intros t [p rg w] s ts' s' Ht (G1 & G2 & G3) (A1 & A2 & A3 & HA) He.
    unfold import_progs, imp_G, imp_A, exec, p_import in *; simpl pc in *; simpl wt in *; simpl regs in *.
    destruct w as [g|]; [subst p|];
    destruct (q_importcache_error_no_broadcast q);
    try (destr_pc p); simpl in He; exec_inv He; tests; fini;
    try solve [exists t; intuition congruence].
  Qed.
End ImportP2.

Section ImportP3.
  Variable q : Quirks.
  Variable res : Z.
  Variable N : nat.
  Notation progs := (import_progs q res).

  Lemma imp_interf : forall t u ts tu s ts' s', t < N -> t <> u -> imp_G res N s -> imp_A res t ts s -> imp_A res u tu s ->
      exec (progs t) t ts s = Some (ts', s') -> imp_A res u tu s'.
  Proof.
    intros t u [p rg w] [p' rg' w'] s ts' s' Ht Hne (G1 & G2 & G3) (A1 & A2 & A3 & HA) (B1 & B2 & B3 & HB) He.
    unfold import_progs, imp_G, imp_A, exec, p_import in *; simpl pc in *; simpl wt in *; simpl regs in *.
    destruct w as [g|]; [subst p|];
    destruct (q_importcache_error_no_broadcast q);
    try (destr_pc p); simpl in He; exec_inv He; tests;
    (destruct w' as [g'|]; [subst p'|destr_pc p']); fini;
    try solve [unfold marker in *; lia]; try solve [exfalso; unfold marker in *; lia].
  Qed.

  Lemma imp_excl : forall t u ts tu s x y w1 w2, t <> u -> imp_G res N s -> imp_A res t ts s -> imp_A res u tu s ->
      access (progs t) ts = Some (x, w1) -> access (progs u) tu = Some (y, w2) ->
      idloc x = idloc y -> (w1 || w2) = false.
  Proof.
    intros t u [p rg w] [p' rg' w'] s x y w1 w2 Hne (G1 & G2 & G3) (A1 & A2 & A3 & HA) (B1 & B2 & B3 & HB) Ha Hb Hl.
    unfold import_progs, imp_G, imp_A, access, p_import, idloc in *; simpl pc in *; simpl wt in *; simpl regs in *.
    destruct (q_importcache_error_no_broadcast q);
    destr_pc p; simpl in Ha; try discriminate Ha; inversion Ha; subst; clear Ha;
    destr_pc p'; simpl in Hb; try discriminate Hb; inversion Hb; subst; clear Hb; fini.
  Qed.

  Theorem import_race_free : forall s, reachable progs N s -> ~ race progs idloc N s.
  Proof.
    apply (method_race_free progs idloc N (imp_G res N) (imp_A res)).
    - apply imp_init.
    - apply imp_local.
    - apply imp_interf.
    - apply imp_excl.
  Qed.

  Lemma import_inv : forall s, reachable progs N s -> imp_G res N (sh s) /\ forall t, imp_A res t (thr s t) (sh s).
  Proof. apply method_inv; [apply imp_init|apply imp_local|apply imp_interf]. Qed.

  Theorem import_serial_results : forall s t, reachable progs N s -> halted progs t s -> result s t = res.
  Proof.
    intros s t Hr Hh. destruct (import_inv s Hr) as [_ IA]. specialize (IA t).
    unfold halted, result, import_progs, imp_A, p_import in *.
    destruct (thr s t) as [p rg w]; simpl pc in *.
    destruct (q_importcache_error_no_broadcast q); destr_pc p; simpl in Hh; try discriminate Hh; fini.
  Qed.
End ImportP3.
