(* >> and >>> keep every key: the result has, position for position, a member with the same
   key and the same attribute name for every member of the operand, and nothing else
   (property C05), for every operand, transformer, scope and fuel. *)
From Arrai Require Import Base.Val Spec.SetAlg Eval.Interp Proofs.KeyedP.

Lemma mapM_Forall2 {A B} (f : A -> res B) l r : mapM f l = Ok r -> Forall2 (fun x y => f x = Ok y) l r.
Proof.
  revert r; induction l as [|x l IH]; intros r; simpl; [intros [= <-]; constructor|].
  destruct (f x) as [y| | |] eqn:Ef; simpl; try discriminate.
  destruct (mapM f l) as [r'| | |] eqn:Em; simpl; try discriminate.
  intros [= <-]. constructor; [exact Ef | apply IH; reflexivity].
Qed.

Lemma rbind_ok {A B} (r : res A) (f : A -> res B) b : rbind r f = Ok b -> exists a, r = Ok a /\ f a = Ok b.
Proof. destruct r as [a| | |]; simpl; try discriminate. intros H. exists a. split; [reflexivity | exact H]. Qed.

(* the member built for key k, attribute n and new value v' *)
Definition rekeyed (t : val * name * val) : val := build_tuple [(n_at, fst (fst t)); (snd (fst t), snd t)].

Theorem seqarrow_keeps_keys fuel rho w a fn l r :
  eval fuel rho a = Ok (D (VSet l)) ->
  eval (S fuel) rho (ESeqArrow w a fn) = Ok (D r) ->
  exists ms, r = mkset (map rekeyed ms) /\
    Forall2 (fun m t => exists v, as_pair m = Some (fst (fst t), snd (fst t), v)) l ms.
Proof.
  intros Ha. cbn [eval evalF]. rewrite Ha. cbn [rbind as_data].
  intros H. apply rbind_ok in H as (fv & Hf & H).
  destruct l as [|m0 l0]; [discriminate|].
  apply rbind_ok in H as (ms & Hms & H).
  exists ms. split.
  - unfold rekeyed.
    destruct (as_seq (m0 :: l0)) as [[n ps]|].
    + repeat match type of H with (if ?c then _ else _) = _ => destruct c; [discriminate|] end.
      injection H as <-. reflexivity.
    + injection H as <-. reflexivity.
  - apply mapM_Forall2 in Hms. clear H Ha. revert Hms. generalize (m0 :: l0) as L. intros L Hms.
    induction Hms as [|m t ls ts Hm Hrest IH]; [constructor|]. constructor; [|exact IH].
    destruct (as_pair m) as [[[k n] v]|].
    + apply rbind_ok in Hm as (v' & _ & Hm). injection Hm as <-. exists v. reflexivity.
    + destruct m as [|attrs|]; try discriminate. destruct (tget n_at attrs); discriminate.
Qed.

(* in particular the result has as many members (before merging equal ones) as the operand, one per
   key occurrence, and no member with a key the operand does not have *)
Corollary seqarrow_no_new_keys fuel rho w a fn l r :
  eval fuel rho a = Ok (D (VSet l)) ->
  eval (S fuel) rho (ESeqArrow w a fn) = Ok (D r) ->
  exists ms, r = mkset (map rekeyed ms) /\ length ms = length l /\
    forall t, In t ms -> exists m v, In m l /\ as_pair m = Some (fst (fst t), snd (fst t), v).
Proof.
  intros Ha H. destruct (seqarrow_keeps_keys fuel rho w a fn l r Ha H) as (ms & -> & F).
  exists ms. split; [reflexivity|]. split; [clear -F; induction F; simpl; congruence|].
  clear Ha H. intros t Ht. induction F as [|m t' ls ts (v & Hv) F IH]; [contradiction|].
  destruct Ht as [<-|Ht]; [exists m, v; split; [left; reflexivity | exact Hv]|].
  destruct (IH Ht) as (m' & v' & Hin & Hp). exists m', v'. split; [right; exact Hin | exact Hp].
Qed.
