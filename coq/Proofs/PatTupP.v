(* Tuple patterns of names, _ and literals (property C09): a successful match finds every named
   attribute and binds its item to that attribute's value, and the tuple has no other attribute;
   with ...rest the leftover attributes are exactly what the name is bound to. *)
From Arrai Require Import Base.Val Spec.SetAlg Eval.Interp Proofs.ValOrder Proofs.SetAlgP Proofs.PatternP Proofs.PatArrP.

Definition flat_attrs (nls : list (name * leaf)) : list (name * pitem) :=
  map (fun nl => (fst nl, PItem (leaf_pat (snd nl)) None)) nls.

Definition remaining_after (names : list name) (tv : list (name * val)) : list (name * val) :=
  fold_left (fun rem n => tdel n rem) names tv.

Lemma extras_flat_attrs nls :
  filter (fun a : name * pitem => match snd a with PExtra _ => true | _ => false end) (flat_attrs nls) = [].
Proof. induction nls as [|nl nls IH]; [reflexivity | exact IH]. Qed.

Theorem flat_tuple_pattern_sound fuel rho nls v sc :
  bind_pat (S (S (S fuel))) rho (PTup (flat_attrs nls)) (D v) = Ok sc ->
  exists tv, v = VTup tv /\
    Forall (fun nl => exists x, tget (fst nl) tv = Some x /\ leaf_ok sc (snd nl) x) nls /\
    remaining_after (map fst nls) tv = [].
Proof.
  remember (S (S fuel)) as f eqn:Ef. cbn [bind_pat bindF]. cbn [as_data rbind].
  destruct v as [|tv|]; try discriminate.
  rewrite extras_flat_attrs. change (1 <? length (@nil (name * pitem)))%nat with false. cbv iota.
  intros H. exists tv. split; [reflexivity|].
  revert H. generalize (existsb (fun a : name * pitem => is_fallback (snd a)) (flat_attrs nls)) as hb. intros hb H.
  match type of H with ?GO _ tv None [] = _ =>
    assert (G : forall nls rem acc sc, GO (flat_attrs nls) rem None acc = Ok sc ->
                (forall z w, env_get z acc = Some w -> env_get z sc = Some w) /\
                Forall (fun nl => exists x, tget (fst nl) tv = Some x /\ leaf_ok sc (snd nl) x) nls /\
                remaining_after (map fst nls) rem = []);
      [| destruct (G nls tv [] sc H) as (_ & A & B); split; assumption] end.
  clear H nls sc. induction nls as [|[n l] nls IH]; intros rem acc sc H.
  - simpl in H. destruct rem; [|destruct hb; discriminate]. injection H as <-. repeat split; auto.
  - simpl in H. destruct (tget n tv) as [x|] eqn:Eg; [|discriminate].
    destruct (bind_pat f rho (leaf_pat l) (D x)) as [sc0| | |] eqn:Eb; simpl in H; try discriminate.
    destruct (env_matched_update acc sc0) as [acc'|] eqn:Eu; simpl in H; [|discriminate].
    destruct (IH (tdel n rem) acc' sc H) as (Hkeep & Hrest & Hrem).
    rewrite Ef in Eb. apply leaf_bind in Eb.
    assert (Hacc : forall z w, env_get z acc = Some w -> env_get z acc' = Some w)
      by (intros z w; eapply matched_update_preserves; exact Eu).
    split; [intros z w Hz; apply Hkeep, Hacc, Hz|]. split; [|exact Hrem].
    constructor; [|exact Hrest]. exists x. split; [exact Eg|].
    destruct l as [y| |w]; simpl.
    + subst sc0. apply Hkeep. exact (proj1 (single_update acc y x acc' Eu)).
    + exact I.
    + apply Eb.
Qed.

(* no attribute is left over: every attribute of the tuple is named by the pattern *)
Lemma tdel_keeps n m (l : list (name * val)) x : name_cmp m n <> Eq -> In (m, x) l -> In (m, x) (tdel n l).
Proof.
  intros Hne Hin. unfold tdel. apply filter_In. split; [exact Hin|]. simpl.
  destruct (name_cmp n m) eqn:E; try reflexivity.
  exfalso. apply Hne. apply (name_cmp_ordR n m m) in E. subst. apply (name_cmp_ordR m m m).
Qed.

Lemma remaining_after_in names : forall tv m x,
  In (m, x) tv -> (forall n, In n names -> name_cmp m n <> Eq) -> In (m, x) (remaining_after names tv).
Proof.
  induction names as [|n names IH]; intros tv m x Hin Hne; simpl; [exact Hin|].
  apply IH; [apply tdel_keeps; [apply Hne; left; reflexivity | exact Hin] | intros n' Hn'; apply Hne; right; exact Hn'].
Qed.

Corollary flat_tuple_pattern_no_other_attribute fuel rho nls v sc :
  bind_pat (S (S (S fuel))) rho (PTup (flat_attrs nls)) (D v) = Ok sc ->
  exists tv, v = VTup tv /\ forall m x, In (m, x) tv -> exists n, In n (map fst nls) /\ name_cmp m n = Eq.
Proof.
  intros H. destruct (flat_tuple_pattern_sound _ _ _ _ _ H) as (tv & -> & _ & Hrem).
  exists tv. split; [reflexivity|]. intros m x Hin.
  destruct (existsb (fun n => match name_cmp m n with Eq => true | _ => false end) (map fst nls)) eqn:E.
  - apply existsb_exists in E as (n & Hn & En). exists n. split; [exact Hn|]. destruct (name_cmp m n); try discriminate. reflexivity.
  - exfalso. assert (Hne : forall n, In n (map fst nls) -> name_cmp m n <> Eq).
    { intros n Hn Heq. assert (T : existsb (fun n => match name_cmp m n with Eq => true | _ => false end) (map fst nls) = true).
      { apply existsb_exists. exists n. split; [exact Hn|]. rewrite Heq. reflexivity. }
      congruence. }
    pose proof (remaining_after_in _ _ _ _ Hin Hne) as Hr. rewrite Hrem in Hr. exact Hr.
Qed.
