(* rank (properties C04 and C07): every source row is extended, for each key attribute, with the number of
   rows whose key is strictly smaller; the result does not depend on the order in which the rows are enumerated. *)
From Arrai Require Import Base.Val Spec.SetAlg Eval.Interp Proofs.ValOrder Proofs.SetAlgP Proofs.PermP.
From Coq Require Import Permutation Lia.

Definition krow := (list (name * val) * list (name * val))%type.   (* a row and its key tuple *)

(* the flags "row tk' has a strictly smaller value of key attribute k than x", over all rows *)
Definition smaller_flags (keyed : list krow) (k : name) (x : num) : res (list bool) :=
  mapM (fun tk' : krow => match tget k (snd tk') with
                          | Some (VNum y) => Ok (num2 y <? num2 x)
                          | _ => Unspec
                          end) keyed.

Definition rank_of (keyed : list krow) (kv : name * val) : res (name * val) :=
  match snd kv with
  | VNum x => do smaller <- smaller_flags keyed (fst kv) x;
              Ok (fst kv, vint (Z.of_nat (length (filter (fun b : bool => b) smaller))))
  | _ => Unspec
  end.

Definition rank_row (keyed : list krow) (tk : krow) : res val :=
  do ranks <- mapM (rank_of keyed) (snd tk); Ok (build_tuple (fst tk ++ ranks)).

Definition rank_rows (keyed : list krow) : res (list val) := mapM (rank_row keyed) keyed.

(* the number of rows with a strictly smaller key, as a plain count *)
Definition count_smaller (keyed : list krow) (k : name) (x : num) : nat :=
  length (filter (fun tk' : krow => match tget k (snd tk') with
                                    | Some (VNum y) => num2 y <? num2 x
                                    | _ => false
                                    end) keyed).

Lemma smaller_flags_count keyed k x fl :
  smaller_flags keyed k x = Ok fl -> length (filter (fun b : bool => b) fl) = count_smaller keyed k x.
Proof.
  unfold smaller_flags, count_smaller. revert fl. induction keyed as [|tk keyed IH]; intros fl; simpl.
  - intros [= <-]. reflexivity.
  - destruct (tget k (snd tk)) as [[y| |]|]; simpl; try discriminate.
    destruct (mapM _ keyed) as [r| | |] eqn:E; simpl; try discriminate. intros [= <-].
    simpl. destruct (num2 y <? num2 x); simpl; rewrite (IH r eq_refl); reflexivity.
Qed.

(* characterisation: the rank attached for key attribute k is the number of rows whose k is strictly smaller *)
Theorem rank_of_is_count keyed k x r :
  rank_of keyed (k, VNum x) = Ok r -> r = (k, vint (Z.of_nat (count_smaller keyed k x))).
Proof.
  unfold rank_of. simpl. destruct (smaller_flags keyed k x) as [fl| | |] eqn:E; simpl; try discriminate.
  intros [= <-]. rewrite (smaller_flags_count _ _ _ _ E). reflexivity.
Qed.

Lemma mapM_length {A B} (f : A -> res B) l r : mapM f l = Ok r -> length r = length l.
Proof.
  revert r; induction l as [|a l IH]; intros r; simpl.
  - intros [= <-]. reflexivity.
  - destruct (f a); simpl; try discriminate. destruct (mapM f l) eqn:E; simpl; try discriminate.
    intros [= <-]. simpl. f_equal. apply IH. reflexivity.
Qed.

Lemma mapM_nth {A B} (f : A -> res B) l r :
  mapM f l = Ok r -> forall i a, nth_error l i = Some a -> exists b, nth_error r i = Some b /\ f a = Ok b.
Proof.
  revert r; induction l as [|x l IH]; intros r; simpl.
  - intros _ [|i] a; discriminate.
  - destruct (f x) as [b| | |] eqn:Ex; simpl; try discriminate. destruct (mapM f l) as [rl| | |] eqn:E; simpl; try discriminate.
    intros [= <-] [|i] a; simpl.
    + intros [= <-]. exists b. split; [reflexivity | exact Ex].
    + intros Hn. apply (IH rl eq_refl i a Hn).
Qed.

(* one result row per source row, position for position: the source row with its ranks appended *)
Theorem rank_rows_rowwise keyed rows :
  rank_rows keyed = Ok rows ->
  length rows = length keyed /\
  forall i tk, nth_error keyed i = Some tk ->
    exists ranks, mapM (rank_of keyed) (snd tk) = Ok ranks /\
                  nth_error rows i = Some (build_tuple (fst tk ++ ranks)).
Proof.
  intros H. split; [apply (mapM_length _ _ _ H)|].
  intros i tk Hn. destruct (mapM_nth _ _ _ H i tk Hn) as (b & Hb & Hr).
  unfold rank_row in Hr. destruct (mapM (rank_of keyed) (snd tk)) as [ranks| | |]; simpl in Hr; try discriminate.
  injection Hr as <-. exists ranks. split; [reflexivity | exact Hb].
Qed.

(* ---------- independence of the enumeration order ---------- *)

Lemma filter_perm {A} (p : A -> bool) l l' : Permutation l l' -> Permutation (filter p l) (filter p l').
Proof.
  induction 1 as [|x l l' H IH|x y l|l l' l'' H1 IH1 H2 IH2]; simpl.
  - constructor.
  - destruct (p x); [constructor|]; exact IH.
  - destruct (p x), (p y); try apply Permutation_refl. apply perm_swap.
  - eapply Permutation_trans; eauto.
Qed.

Lemma mapM_ext_ok {A B} (f g : A -> res B) l r :
  (forall a b, In a l -> f a = Ok b -> g a = Ok b) -> mapM f l = Ok r -> mapM g l = Ok r.
Proof.
  revert r; induction l as [|x l IH]; intros r Hfg; simpl.
  - trivial.
  - destruct (f x) as [b| | |] eqn:Ex; simpl; try discriminate.
    destruct (mapM f l) as [rl| | |] eqn:E; simpl; try discriminate. intros [= <-].
    rewrite (Hfg x b (or_introl eq_refl) Ex). simpl.
    rewrite (IH rl (fun a b0 Ha => Hfg a b0 (or_intror Ha)) eq_refl). reflexivity.
Qed.

Lemma rank_of_perm keyed keyed' kv r :
  Permutation keyed keyed' -> rank_of keyed kv = Ok r -> rank_of keyed' kv = Ok r.
Proof.
  intros Hp. unfold rank_of. destruct (snd kv) as [x| |]; try discriminate.
  destruct (smaller_flags keyed (fst kv) x) as [fl| | |] eqn:E; simpl; try discriminate. intros [= <-].
  destruct (mapM_perm_ok _ _ _ _ Hp E) as (fl' & E' & Hfl). unfold smaller_flags. rewrite E'. simpl.
  rewrite (Permutation_length (filter_perm (fun b : bool => b) _ _ Hfl)). reflexivity.
Qed.

Lemma rank_row_perm keyed keyed' tk r :
  Permutation keyed keyed' -> rank_row keyed tk = Ok r -> rank_row keyed' tk = Ok r.
Proof.
  intros Hp. unfold rank_row.
  destruct (mapM (rank_of keyed) (snd tk)) as [ranks| | |] eqn:E; simpl; try discriminate. intros [= <-].
  rewrite (mapM_ext_ok (rank_of keyed) (rank_of keyed') (snd tk) ranks); [reflexivity| |exact E].
  intros a b _. apply rank_of_perm, Hp.
Qed.

(* the rows computed from any other enumeration of the same keyed rows are the same rows, in the other order;
   hence the set of rows - the value of rank - is the same *)
Theorem rank_rows_perm keyed keyed' rows :
  Permutation keyed keyed' -> rank_rows keyed = Ok rows ->
  exists rows', rank_rows keyed' = Ok rows' /\ Permutation rows rows' /\ mkset rows = mkset rows'.
Proof.
  intros Hp H. unfold rank_rows in *.
  assert (H1 : mapM (rank_row keyed') keyed = Ok rows).
  { apply (mapM_ext_ok (rank_row keyed)); [|exact H]. intros a b _. apply rank_row_perm, Hp. }
  destruct (mapM_perm_ok _ _ _ _ Hp H1) as (rows' & E & Hr).
  exists rows'. split; [exact E|]. split; [exact Hr | apply mkset_perm, Hr].
Qed.

(* whether rank has a value does not depend on the enumeration order either *)
Theorem rank_rows_defined_perm keyed keyed' :
  Permutation keyed keyed' -> (exists rows, rank_rows keyed = Ok rows) <-> (exists rows, rank_rows keyed' = Ok rows).
Proof.
  intros Hp. split; intros (rows & H).
  - destruct (rank_rows_perm _ _ _ Hp H) as (r' & E & _). eauto.
  - destruct (rank_rows_perm _ _ _ (Permutation_sym Hp) H) as (r' & E & _). eauto.
Qed.

(* ---------- the rank clause of the evaluator is this function ---------- *)

Definition clos_key (fuel : nat) (cenv : env) (p : pat) (body : expr) (m : val) : res krow :=
  do k <- (do sc <- bind_pat fuel cenv p (D m); eval fuel (sc ++ cenv) body);
  do kd <- as_data k;
  match m, kd with
  | VTup t, VTup ks => Ok (t, ks)
  | _, _ => Unspec
  end.

Theorem eval_rank_is_rank_rows fuel rho a fn m l cenv p body :
  eval fuel rho a = Ok (D (VSet (m :: l))) -> eval fuel rho fn = Ok (Clos cenv p body) ->
  eval (S fuel) rho (ERank a fn) =
    do keyed <- mapM (clos_key fuel cenv p body) (m :: l);
    do rows <- rank_rows keyed; Ok (D (mkset rows)).
Proof.
  intros Ha Hf. cbn [eval evalF]. rewrite Ha, Hf. cbn [rbind as_data]. reflexivity.
Qed.

Theorem eval_rank_characterised fuel rho a fn m l cenv p body r :
  eval fuel rho a = Ok (D (VSet (m :: l))) -> eval fuel rho fn = Ok (Clos cenv p body) ->
  eval (S fuel) rho (ERank a fn) = Ok (D r) ->
  exists keyed rows, mapM (clos_key fuel cenv p body) (m :: l) = Ok keyed /\ rank_rows keyed = Ok rows /\ r = mkset rows.
Proof.
  intros Ha Hf. rewrite (eval_rank_is_rank_rows _ _ _ _ _ _ _ _ _ Ha Hf).
  destruct (mapM (clos_key fuel cenv p body) (m :: l)) as [keyed| | |]; cbn [rbind]; try discriminate.
  destruct (rank_rows keyed) as [rows| | |] eqn:Er; cbn [rbind]; try discriminate.
  intros [= <-]. exists keyed, rows. split; [reflexivity|]. split; [exact Er | reflexivity].
Qed.
