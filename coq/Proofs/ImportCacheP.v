(* Termination and cycle behaviour of the import protocol (Sys/ImportCache.v). *)
From Coq Require Import List ZArith Bool Lia.
From Arrai Require Import Sys.ImportCache.
Import ListNotations.
Open Scope Z_scope.

Lemma mem_true_iff : forall k l, mem k l = true <-> In k l.
Proof.
  intros k l. unfold mem. rewrite existsb_exists. split.
  - intros [x [Hx E]]. apply Z.eqb_eq in E. subst. assumption.
  - intro H. exists k. split; [assumption | apply Z.eqb_refl].
Qed.

Lemma mem_false_iff : forall k l, mem k l = false <-> ~ In k l.
Proof.
  intros k l. rewrite <- mem_true_iff. destruct (mem k l); split; intro H; try congruence; try discriminate.
  all: try (exfalso; apply H; reflexivity).
Qed.

Lemma lookup_in_keys : forall g k imps, lookup g k = Some imps -> In k (map fst g).
Proof.
  induction g as [|[k' i'] r IH]; intros k imps H; simpl in H; [discriminate|].
  destruct (Z.eqb k k') eqn:E.
  - apply Z.eqb_eq in E. subst. left. reflexivity.
  - right. eapply IH. exact H.
Qed.

Lemma visit_list_not : forall (bad : cres) v l st, bad <> COk ->
  (forall st i, In i l -> fst (v st i) <> bad) -> fst (visit_list v l st) <> bad.
Proof.
  intros bad v l. induction l as [|i r IH]; intros st Hb H; simpl.
  - congruence.
  - pose proof (H st i (or_introl eq_refl)) as Hi.
    destruct (v st i) as [c st'] eqn:E. simpl in Hi.
    destruct c; simpl; try assumption.
    apply IH; [assumption|]. intros st0 i0 Hin. apply H. right. assumption.
Qed.

Lemma visit_list_bad : forall (bad : cres) v l st st', bad <> COk ->
  visit_list v l st = (bad, st') -> exists i st0 st1, In i l /\ v st0 i = (bad, st1).
Proof.
  intros bad v l. induction l as [|i r IH]; intros st st' Hb H; simpl in H.
  - inversion H. congruence.
  - destruct (v st i) as [c st1] eqn:E.
    destruct c; try (inversion H; subst; exists i, st, st'; split; [left; reflexivity | assumption]).
    destruct (IH st1 st' Hb H) as [i0 [s0 [s1 [Hin Hv]]]]. exists i0, s0, s1. split; [right; assumption | assumption].
Qed.

(* ---------- termination: the import stack is duplicate-free ---------- *)
Lemma visit_fuel : forall hang g fuel stack st k,
  NoDup stack -> incl stack (map fst g) -> (length (map fst g) < fuel + length stack)%nat ->
  fst (visit hang g fuel stack st k) <> COutOfFuel.
Proof.
  intros hang g. induction fuel as [|f IH]; intros stack st k Hnd Hincl Hlen.
  - exfalso. pose proof (NoDup_incl_length Hnd Hincl). simpl in Hlen. lia.
  - destruct st as [done tr]. simpl.
    destruct (lookup g k) as [imps|] eqn:El; [|simpl; discriminate].
    destruct (mem k done); [simpl; discriminate|].
    destruct (mem k stack) eqn:Es; [destruct hang; simpl; discriminate|].
    assert (Hl : fst (visit_list (visit hang g f (k :: stack)) imps (done, tr ++ [k])) <> COutOfFuel).
    { apply visit_list_not; [discriminate|]. intros st0 i _. apply IH.
      - constructor; [apply mem_false_iff; assumption | assumption].
      - intros x [Hx | Hx]; [subst; eapply lookup_in_keys; eassumption | apply Hincl; assumption].
      - simpl. lia. }
    destruct (visit_list (visit hang g f (k :: stack)) imps (done, tr ++ [k])) as [c [d t]].
    simpl in Hl. destruct c; simpl; congruence.
Qed.

Theorem compile_main_terminates : forall hang g imps, fst (compile_main hang g imps) <> COutOfFuel.
Proof.
  intros hang g imps. unfold compile_main. apply visit_list_not; [discriminate|].
  intros st i _. apply visit_fuel.
  - constructor.
  - intros x [].
  - rewrite map_length. simpl. lia.
Qed.

(* ---------- repaired protocol never waits on itself ---------- *)
Lemma visit_no_hang : forall g fuel stack st k, fst (visit false g fuel stack st k) <> CHang.
Proof.
  intros g. induction fuel as [|f IH]; intros stack st k; [simpl; discriminate|].
  destruct st as [done tr]. simpl.
  destruct (lookup g k) as [imps|]; [|simpl; discriminate].
  destruct (mem k done); [simpl; discriminate|].
  destruct (mem k stack); [simpl; discriminate|].
  assert (Hl : fst (visit_list (visit false g f (k :: stack)) imps (done, tr ++ [k])) <> CHang).
  { apply visit_list_not; [discriminate|]. intros st0 i _. apply IH. }
  destruct (visit_list (visit false g f (k :: stack)) imps (done, tr ++ [k])) as [c [d t]].
  simpl in Hl. destruct c; simpl; congruence.
Qed.

Theorem compile_main_no_hang : forall g imps, fst (compile_main false g imps) <> CHang.
Proof.
  intros g imps. unfold compile_main. apply visit_list_not; [discriminate|].
  intros st i _. apply visit_no_hang.
Qed.

(* ---------- a reported cycle is a cycle of the import relation ---------- *)
Lemma plus_snoc : forall g a b c, plus g a b -> edge g b c -> plus g a c.
Proof.
  intros g a b c H. induction H; intro He.
  - eapply plus_step; [eassumption | apply plus_one; assumption].
  - eapply plus_step; [eassumption | apply IHplus; assumption].
Qed.

Lemma plus_trans : forall g a b c, plus g a b -> plus g b c -> plus g a c.
Proof.
  intros g a b c H. induction H; intro H2.
  - eapply plus_step; eassumption.
  - eapply plus_step; [eassumption | apply IHplus; assumption].
Qed.

Lemma visit_cycle_sound : forall g fuel stack st k st',
  (forall s, In s stack -> plus g s k) ->
  visit false g fuel stack st k = (CErrCycle, st') ->
  exists c, reach g k c /\ plus g c c.
Proof.
  intros g. induction fuel as [|f IH]; intros stack st k st' Hinv H; [simpl in H; discriminate|].
  destruct st as [done tr]. simpl in H.
  destruct (lookup g k) as [imps|] eqn:El; [|discriminate].
  destruct (mem k done); [discriminate|].
  destruct (mem k stack) eqn:Es.
  - apply mem_true_iff in Es. exists k. split; [left; reflexivity | apply Hinv; assumption].
  - destruct (visit_list (visit false g f (k :: stack)) imps (done, tr ++ [k])) as [c [d t]] eqn:Ev.
    destruct c; try discriminate.
    destruct (visit_list_bad CErrCycle _ _ _ _ ltac:(discriminate) Ev) as [i [s0 [s1 [Hin Hv]]]].
    assert (He : edge g k i) by (exists imps; auto).
    destruct (IH (k :: stack) s0 i s1) as [c [Hr Hc]]; [|exact Hv|].
    + intros s [Hs | Hs]; [subst; apply plus_one; assumption | eapply plus_snoc; [apply Hinv; assumption | assumption]].
    + exists c. split; [|assumption]. right. destruct Hr as [Hr | Hr]; [subst; apply plus_one; assumption|].
      eapply plus_step; eassumption.
Qed.

Theorem compile_main_cycle_sound : forall g imps st',
  compile_main false g imps = (CErrCycle, st') ->
  exists i c, In i imps /\ reach g i c /\ plus g c c.
Proof.
  intros g imps st' H. unfold compile_main in H.
  destruct (visit_list_bad CErrCycle _ _ _ _ ltac:(discriminate) H) as [i [s0 [s1 [Hin Hv]]]].
  destruct (visit_cycle_sound g (S (length g)) [] s0 i s1) as [c [Hr Hc]]; [intros s [] | exact Hv |].
  exists i, c. auto.
Qed.

(* ---------- success means there is no cycle to report ---------- *)
(* `done` lists compiled files newest first; each one's imports were compiled before it *)
Inductive sorted_done (g : graph) : list key -> Prop :=
| sd_nil : sorted_done g []
| sd_cons : forall k imps l, lookup g k = Some imps -> incl imps l -> ~ In k l -> sorted_done g l ->
    sorted_done g (k :: l).

Lemma sorted_closed : forall g l, sorted_done g l -> forall a b, In a l -> edge g a b -> In b l.
Proof.
  intros g l H. induction H; intros a b Ha He; [destruct Ha|].
  destruct Ha as [Ha | Ha].
  - subst a. destruct He as [imps' [El Hin]]. rewrite H in El. inversion El; subst. right. apply H0. assumption.
  - right. eapply IHsorted_done; eassumption.
Qed.

Lemma sorted_closed_plus : forall g l, sorted_done g l -> forall a b, plus g a b -> In a l -> In b l.
Proof.
  intros g l Hs a b Hp. induction Hp; intro Ha.
  - eapply sorted_closed; eassumption.
  - apply IHHp. eapply sorted_closed; eassumption.
Qed.

Lemma sorted_acyclic : forall g l, sorted_done g l -> forall c, In c l -> ~ plus g c c.
Proof.
  intros g l H. induction H; intros c Hc Hp; [destruct Hc|].
  destruct Hc as [Hc | Hc].
  - subst c. (* first edge leaves k into l, and l is closed *)
    assert (Hin : In k l).
    { inversion Hp; subst.
      - destruct H3 as [imps' [El Hin]]. rewrite H in El. inversion El; subst. apply H0. assumption.
      - destruct H3 as [imps' [El Hin]]. rewrite H in El. inversion El; subst.
        eapply sorted_closed_plus; [eassumption | eassumption | apply H0; assumption]. }
    contradiction.
  - eapply IHsorted_done; eassumption.
Qed.

Definition stinv (g : graph) (stack : list key) (st : cstate) : Prop :=
  sorted_done g (fst st) /\ (forall s, In s stack -> ~ In s (fst st)).

Lemma visit_list_ok_inv : forall (g : graph) (stack : list key) v l st st',
  (forall st0 i st1, stinv g stack st0 -> v st0 i = (COk, st1) -> stinv g stack st1 /\ In i (fst st1) /\ incl (fst st0) (fst st1)) ->
  stinv g stack st -> visit_list v l st = (COk, st') ->
  stinv g stack st' /\ incl l (fst st') /\ incl (fst st) (fst st').
Proof.
  intros g stack v l. induction l as [|i r IH]; intros st st' Hv Hinv H; simpl in H.
  - inversion H; subst. split; [assumption|]. split; [intros x [] | apply incl_refl].
  - destruct (v st i) as [c st1] eqn:E. destruct c; try discriminate.
    destruct (Hv st i st1 Hinv E) as [Hinv1 [Hi Hinc]].
    destruct (IH st1 st' Hv Hinv1 H) as [Hinv' [Hl Hinc']].
    split; [assumption|]. split.
    + intros x [Hx | Hx]; [subst; apply Hinc'; assumption | apply Hl; assumption].
    + eapply incl_tran; eassumption.
Qed.

Lemma visit_ok_inv : forall g fuel stack st k st',
  stinv g stack st -> visit false g fuel stack st k = (COk, st') ->
  stinv g stack st' /\ In k (fst st') /\ incl (fst st) (fst st').
Proof.
  intros g. induction fuel as [|f IH]; intros stack st k st' Hinv H; [simpl in H; discriminate|].
  destruct st as [done tr]. simpl in H.
  destruct (lookup g k) as [imps|] eqn:El; [|discriminate].
  destruct (mem k done) eqn:Ed.
  - inversion H; subst. apply mem_true_iff in Ed. split; [exact Hinv|]. split; [assumption | apply incl_refl].
  - destruct (mem k stack) eqn:Es; [discriminate|].
    apply mem_false_iff in Ed. apply mem_false_iff in Es.
    destruct (visit_list (visit false g f (k :: stack)) imps (done, tr ++ [k])) as [c [d t]] eqn:Ev.
    destruct c; try discriminate. inversion H; subst. clear H.
    destruct Hinv as [Hs Hst]. simpl in Hs, Hst.
    destruct (visit_list_ok_inv g (k :: stack) (visit false g f (k :: stack)) imps (done, tr ++ [k]) (d, t)) as [[Hs' Hst'] [Himps Hinc]].
    + intros st0 i st1 Hi0 Hv0. eapply IH; eassumption.
    + split; [exact Hs|]. simpl. intros s [Hk | Hk]; [subst; assumption | apply Hst; assumption].
    + exact Ev.
    + simpl in *. split; [split|split].
      * eapply sd_cons; try eassumption. apply Hst'. left. reflexivity.
      * simpl. intros s Hs0 [Hk | Hk]; [subst; contradiction | eapply Hst'; [right; eassumption | assumption]].
      * left. reflexivity.
      * intros x Hx. right. apply Hinc. assumption.
Qed.

Theorem compile_main_ok_acyclic : forall g imps st',
  compile_main false g imps = (COk, st') ->
  forall i c, In i imps -> reach g i c -> ~ plus g c c.
Proof.
  intros g imps st' H i c Hi Hr.
  destruct (visit_list_ok_inv g [] (visit false g (S (length g)) []) imps ([], []) st') as [[Hs _] [Himps _]].
  - intros st0 i0 st1 Hi0 Hv0. eapply visit_ok_inv; eassumption.
  - split; [constructor | intros s []].
  - exact H.
  - apply (sorted_acyclic g (fst st') Hs).
    destruct Hr as [Hr | Hr]; [subst; apply Himps; assumption|].
    eapply sorted_closed_plus; [eassumption | eassumption | apply Himps; assumption].
Qed.
