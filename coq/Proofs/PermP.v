(* Enumeration order does not matter (property C07): canonical forms, the set
   builder and set literals are invariant under any permutation of the order in
   which members are produced. *)
From Arrai Require Import Base.Val Spec.SetAlg Eval.Interp Proofs.ValOrder Proofs.SetAlgP Proofs.KeyedP.
From Coq Require Import Permutation.

Theorem vsort_perm l l' : Permutation l l' -> vsort l = vsort l'.
Proof.
  intros H. apply ssorted_ext; try apply vsort_sorted.
  intros x. rewrite !vsort_in. split; intros Hx; [eapply Permutation_in; eauto | eapply Permutation_in; [apply Permutation_sym|]; eauto].
Qed.

Theorem mkset_perm l l' : Permutation l l' -> mkset l = mkset l'.
Proof. intros H. unfold mkset. f_equal. apply vsort_perm, H. Qed.

Theorem norm_set_perm l l' : Permutation l l' -> norm (VSet l) = norm (VSet l').
Proof. intros H. simpl. f_equal. apply vsort_perm. apply Permutation_map, H. Qed.

(* the set operators do not depend on the order in which either operand is enumerated *)
Theorem s_union_perm a a' b b' : Permutation a a' -> Permutation b b' -> s_union a b = s_union a' b'.
Proof. intros Ha Hb. unfold s_union. apply vsort_perm. apply Permutation_app; assumption. Qed.

Lemma vmem_perm x l l' : Permutation l l' -> vmem x l = vmem x l'.
Proof.
  intros H. destruct (vmem x l) eqn:E.
  - symmetry. apply vmem_in. eapply Permutation_in; [exact H|]. apply vmem_in, E.
  - symmetry. apply vmem_false. intros Hx. apply (proj1 (vmem_false x l) E).
    eapply Permutation_in; [apply Permutation_sym, H | exact Hx].
Qed.

Theorem s_inter_perm a b b' : Permutation b b' -> s_inter a b = s_inter a b'.
Proof. intros H. unfold s_inter. apply filter_ext. intros x. apply vmem_perm, H. Qed.
Theorem s_diff_perm a b b' : Permutation b b' -> s_diff a b = s_diff a b'.
Proof. intros H. unfold s_diff. apply filter_ext. intros x. f_equal. apply vmem_perm, H. Qed.

(* a set literal / set builder fed in any order *)
Lemma mapM_perm_ok {A B} (f : A -> res B) l l' r :
  Permutation l l' -> mapM f l = Ok r -> exists r', mapM f l' = Ok r' /\ Permutation r r'.
Proof.
  intros H; revert r; induction H as [|x l l' H IH|x y l|l l' l'' H1 IH1 H2 IH2]; intros r.
  - simpl. intros [= <-]. exists []. split; [reflexivity | constructor].
  - simpl. destruct (f x) as [b| | |]; simpl; try discriminate.
    destruct (mapM f l) as [rl| | |] eqn:E; simpl; try discriminate. intros [= <-].
    destruct (IH rl eq_refl) as (r' & -> & Hp). exists (b :: r'). split; [reflexivity | constructor; exact Hp].
  - simpl. destruct (f y) as [b| | |]; simpl; try discriminate.
    destruct (f x) as [c| | |]; simpl; try discriminate.
    destruct (mapM f l) as [rl| | |]; simpl; try discriminate. intros [= <-].
    exists (c :: b :: rl). split; [reflexivity | apply perm_swap].
  - intros E. destruct (IH1 r E) as (r1 & E1 & P1). destruct (IH2 r1 E1) as (r2 & E2 & P2).
    exists r2. split; [exact E2 | eapply Permutation_trans; eauto].
Qed.

Theorem set_literal_order_irrelevant fuel rho l l' v :
  Permutation l l' -> eval fuel rho (ESetE l) = Ok v -> eval fuel rho (ESetE l') = Ok v.
Proof.
  intros Hp. destruct fuel as [|f]; [discriminate|]. cbn [eval evalF].
  set (g := fun e => rbind (eval f rho e) as_data).
  destruct (mapM g l) as [vs| | |] eqn:E; simpl; try discriminate.
  intros [= <-]. destruct (mapM_perm_ok g l l' vs Hp E) as (vs' & -> & Hp').
  simpl. f_equal. f_equal. apply mkset_perm, Permutation_sym, Hp'.
Qed.

(* ---------- the relational operators do not depend on the order in which their operands are enumerated ---------- *)

Lemma names_eq_eq a b : names_eq a b = true -> a = b.
Proof.
  revert b; induction a as [|x a IH]; intros [|y b]; simpl; try discriminate; [reflexivity|].
  intros H. apply andb_true_iff in H as [H1 H2]. unfold name_eqb in H1.
  destruct (name_cmp x y) eqn:E; try discriminate. apply (name_cmp_ordR x y y) in E. subst. f_equal. apply IH, H2.
Qed.
Lemma names_eq_refl a : names_eq a a = true.
Proof.
  induction a as [|x a IH]; [reflexivity|]. simpl. rewrite IH. unfold name_eqb.
  destruct (name_cmp_ordR x x x) as (-> & _). reflexivity.
Qed.

(* heading l = Some h  iff  l is non-empty and every member is a tuple whose attribute names are h *)
Lemma heading_spec l h :
  heading l = Some h <-> l <> [] /\ forall m, In m l -> exists t, m = VTup t /\ map fst t = h.
Proof.
  unfold heading. destruct l as [|m l]; [split; [discriminate | intros [H _]; congruence]|].
  destruct m as [|t|]; try (split; [discriminate | intros [_ H]; destruct (H _ (or_introl eq_refl)) as (t' & E & _); discriminate]).
  destruct (forallb _ l) eqn:E.
  - split.
    + intros [= <-]. split; [discriminate|]. intros m [<-|Hm]; [exists t; split; reflexivity|].
      rewrite forallb_forall in E. specialize (E m Hm). destruct m as [|u|]; try discriminate.
      exists u. split; [reflexivity | apply names_eq_eq, E].
    + intros [_ H]. destruct (H _ (or_introl eq_refl)) as (t' & [= <-] & <-). reflexivity.
  - split; [discriminate|]. intros [_ H]. exfalso.
    assert (T : forallb (fun m => match m with VTup u => names_eq (map fst u) (map fst t) | _ => false end) l = true).
    { apply forallb_forall. intros m Hm. destruct (H m (or_intror Hm)) as (u & -> & Eu).
      destruct (H _ (or_introl eq_refl)) as (t' & [= <-] & Et). rewrite Eu, Et. apply names_eq_refl. }
    congruence.
Qed.

Lemma heading_perm l l' : Permutation l l' -> heading l = heading l'.
Proof.
  intros Hp.
  assert (G : forall a b h, Permutation a b -> heading a = Some h -> heading b = Some h).
  { intros a b h P H. apply heading_spec in H as [Hne Hall]. apply heading_spec. split.
    - intros ->. apply Permutation_sym, Permutation_nil in P. congruence.
    - intros m Hm. apply Hall. eapply Permutation_in; [apply Permutation_sym, P | exact Hm]. }
  destruct (heading l) as [h|] eqn:E; [symmetry; eapply G; eassumption|].
  destruct (heading l') as [h'|] eqn:E'; [|reflexivity].
  rewrite (G l' l h' (Permutation_sym Hp) E') in E. discriminate.
Qed.

Lemma flat_map_perm_pointwise {A B} (f g : A -> list B) l :
  (forall x, In x l -> Permutation (f x) (g x)) -> Permutation (flat_map f l) (flat_map g l).
Proof.
  induction l as [|x l IH]; intros H; simpl; [constructor|].
  apply Permutation_app; [apply H; left; reflexivity | apply IH; intros y Hy; apply H; right; exact Hy].
Qed.

Theorem join_data_perm op a a' b b' :
  Permutation a a' -> Permutation b b' -> join_data op a b = join_data op a' b'.
Proof.
  intros Ha Hb. unfold join_data.
  destruct a as [|a0 a1].
  - apply Permutation_nil in Ha. subst. reflexivity.
  - destruct a' as [|a0' a1']; [apply Permutation_sym, Permutation_nil in Ha; discriminate|].
    destruct b as [|b0 b1].
    + apply Permutation_nil in Hb. subst. reflexivity.
    + destruct b' as [|b0' b1']; [apply Permutation_sym, Permutation_nil in Hb; discriminate|].
      rewrite (heading_perm _ _ Ha), (heading_perm _ _ Hb).
      destruct (heading (a0' :: a1')) as [ha|]; [|reflexivity].
      destruct (heading (b0' :: b1')) as [hb|]; [|reflexivity].
      f_equal. apply mkset_perm.
      eapply Permutation_trans; [apply Permutation_flat_map, Ha|].
      apply flat_map_perm_pointwise. intros t _. destruct t as [|t1|]; try constructor.
      apply Permutation_flat_map, Hb.
Qed.

Theorem nest_data_perm names n a a' : Permutation a a' -> nest_data names n a = nest_data names n a'.
Proof.
  intros Ha. unfold nest_data.
  destruct a as [|a0 a1].
  - apply Permutation_nil in Ha. subst. reflexivity.
  - destruct a' as [|a0' a1']; [apply Permutation_sym, Permutation_nil in Ha; discriminate|].
    rewrite (heading_perm _ _ Ha). destruct (heading (a0' :: a1')) as [h|]; [|reflexivity].
    destruct (negb _); [reflexivity|]. destruct (name_in n _); [reflexivity|].
    f_equal. apply mkset_perm.
    eapply Permutation_trans; [apply Permutation_map, Ha|].
    match goal with |- Permutation (map ?f ?l) (map ?g ?l) => assert (E : forall m, f m = g m) end.
    { intros m. destruct m as [|t|]; try reflexivity. do 4 f_equal. apply mkset_perm. apply Permutation_flat_map, Ha. }
    rewrite (map_ext _ _ E). apply Permutation_refl.
Qed.

Theorem single_nest_data_perm n a a' : Permutation a a' -> single_nest_data n a = single_nest_data n a'.
Proof.
  intros Ha. unfold single_nest_data.
  destruct a as [|a0 a1].
  - apply Permutation_nil in Ha. subst. reflexivity.
  - destruct a' as [|a0' a1']; [apply Permutation_sym, Permutation_nil in Ha; discriminate|].
    rewrite (heading_perm _ _ Ha). destruct (heading (a0' :: a1')) as [h|]; [|reflexivity].
    destruct (negb _); [reflexivity|].
    f_equal. apply mkset_perm.
    eapply Permutation_trans; [apply Permutation_map, Ha|].
    match goal with |- Permutation (map ?f ?l) (map ?g ?l) => assert (E : forall m, f m = g m) end.
    { intros m. destruct m as [|t|]; try reflexivity. do 4 f_equal. apply mkset_perm. apply Permutation_flat_map, Ha. }
    rewrite (map_ext _ _ E). apply Permutation_refl.
Qed.
