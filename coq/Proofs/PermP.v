(* Enumeration order does not matter (property C07): canonical forms, the set
   builder and set literals are invariant under any permutation of the order in
   which members are produced. *)
From Arrai Require Import Base.Val Spec.SetAlg Eval.Interp Proofs.ValOrder Proofs.SetAlgP Proofs.KeyedP.
From Coq Require Import Permutation.

Theorem vsort_perm l l' : Permutation l l' -> vsort l = vsort l'.
Proof.
  intros H. apply ssorted_ext; try apply vsort_sorted.
  intros x. rewrite !vsort_in. split; intros Hx; [eapply Permutation_in; eauto | eapply Permutation_in; [apply Permutation_sym|]; eauto].
Qed.

Theorem mkset_perm l l' : Permutation l l' -> mkset l = mkset l'.
Proof. intros H. unfold mkset. f_equal. apply vsort_perm, H. Qed.

Theorem norm_set_perm l l' : Permutation l l' -> norm (VSet l) = norm (VSet l').
Proof. intros H. simpl. f_equal. apply vsort_perm. apply Permutation_map, H. Qed.

(* the set operators do not depend on the order in which either operand is enumerated *)
Theorem s_union_perm a a' b b' : Permutation a a' -> Permutation b b' -> s_union a b = s_union a' b'.
Proof. intros Ha Hb. unfold s_union. apply vsort_perm. apply Permutation_app; assumption. Qed.

Lemma vmem_perm x l l' : Permutation l l' -> vmem x l = vmem x l'.
Proof.
  intros H. destruct (vmem x l) eqn:E.
  - symmetry. apply vmem_in. eapply Permutation_in; [exact H|]. apply vmem_in, E.
  - symmetry. apply vmem_false. intros Hx. apply (proj1 (vmem_false x l) E).
    eapply Permutation_in; [apply Permutation_sym, H | exact Hx].
Qed.

Theorem s_inter_perm a b b' : Permutation b b' -> s_inter a b = s_inter a b'.
Proof. intros H. unfold s_inter. apply filter_ext. intros x. apply vmem_perm, H. Qed.
Theorem s_diff_perm a b b' : Permutation b b' -> s_diff a b = s_diff a b'.
Proof. intros H. unfold s_diff. apply filter_ext. intros x. f_equal. apply vmem_perm, H. Qed.

(* a set literal / set builder fed in any order *)
Lemma mapM_perm_ok {A B} (f : A -> res B) l l' r :
  Permutation l l' -> mapM f l = Ok r -> exists r', mapM f l' = Ok r' /\ Permutation r r'.
Proof.
  intros H; revert r; induction H as [|x l l' H IH|x y l|l l' l'' H1 IH1 H2 IH2]; intros r.
  - simpl. intros [= <-]. exists []. split; [reflexivity | constructor].
  - simpl. destruct (f x) as [b| | |]; simpl; try discriminate.
    destruct (mapM f l) as [rl| | |] eqn:E; simpl; try discriminate. intros [= <-].
    destruct (IH rl eq_refl) as (r' & -> & Hp). exists (b :: r'). split; [reflexivity | constructor; exact Hp].
  - simpl. destruct (f y) as [b| | |]; simpl; try discriminate.
    destruct (f x) as [c| | |]; simpl; try discriminate.
    destruct (mapM f l) as [rl| | |]; simpl; try discriminate. intros [= <-].
    exists (c :: b :: rl). split; [reflexivity | apply perm_swap].
  - intros E. destruct (IH1 r E) as (r1 & E1 & P1). destruct (IH2 r1 E1) as (r2 & E2 & P2).
    exists r2. split; [exact E2 | eapply Permutation_trans; eauto].
Qed.

Theorem set_literal_order_irrelevant fuel rho l l' v :
  Permutation l l' -> eval fuel rho (ESetE l) = Ok v -> eval fuel rho (ESetE l') = Ok v.
Proof.
  intros Hp. destruct fuel as [|f]; [discriminate|]. cbn [eval evalF].
  set (g := fun e => rbind (eval f rho e) as_data).
  destruct (mapM g l) as [vs| | |] eqn:E; simpl; try discriminate.
  intros [= <-]. destruct (mapM_perm_ok g l l' vs Hp E) as (vs' & -> & Hp').
  simpl. f_equal. f_equal. apply mkset_perm, Permutation_sym, Hp'.
Qed.
