(* Proofs about Sys/Bits.v (property C13, //bits). *)
From Coq Require Import NArith ZArith Lia List Sorting.Permutation.
From Coq Require Import ZifyN ZifyNat ZifyBool.
From Arrai Require Import Base.Val Sys.Outcome Sys.Bits.
Local Open Scope N_scope.

(* sum of 2^i over a list of bit positions *)
Fixpoint sum2 (l : list N) : N :=
  match l with
  | [] => 0
  | i :: l' => 2 ^ i + sum2 l'
  end.

Fixpoint popcount (p : positive) : nat :=
  match p with
  | xH => 1
  | xO p' => popcount p'
  | xI p' => S (popcount p')
  end.
Definition popcountN (v : N) : nat := match v with N0 => O | Npos p => popcount p end.

Lemma dbl c : N.double c = 2 * c.
Proof. destruct c; reflexivity. Qed.
Lemma sdbl c : N.succ_double c = 2 * c + 1.
Proof. destruct c; reflexivity. Qed.

Lemma pred_double_spec p :
  Pos.pred_double p = match Pos.pred_N p with N0 => xH | Npos q => xI q end.
Proof. destruct p; reflexivity. Qed.

Lemma clear_lowest_double p :
  clear_lowest (Npos (xO p)) = N.double (clear_lowest (Npos p)).
Proof.
  unfold clear_lowest. cbn [N.pred Pos.pred_N].
  rewrite pred_double_spec.
  destruct (Pos.pred_N p) eqn:E; cbn [N.land Pos.land]; [|reflexivity].
  destruct p; cbn in E; try discriminate. reflexivity.
Qed.

Lemma clear_lowest_odd p : clear_lowest (Npos (xI p)) = Npos (xO p).
Proof.
  unfold clear_lowest. cbn [N.pred Pos.pred_N N.land Pos.land].
  assert (H : Pos.land p p = Npos p) by (induction p; cbn; rewrite ?IHp; reflexivity).
  rewrite H. reflexivity.
Qed.

Lemma clear_lowest_spec p :
  2 ^ ctz p + clear_lowest (Npos p) = Npos p /\
  popcountN (clear_lowest (Npos p)) = pred (popcount p).
Proof.
  induction p as [p IH|p IH|].
  - rewrite clear_lowest_odd. cbn [ctz popcountN popcount]. split; [|reflexivity].
    change (2 ^ 0) with 1. lia.
  - rewrite clear_lowest_double. destruct IH as [IH1 IH2]. cbn [ctz popcount]. split.
    + rewrite N.pow_succ_r'. lia.
    + destruct (clear_lowest (Npos p)); cbn in *; assumption.
  - vm_compute. split; reflexivity.
Qed.

Lemma set_loop_ok fuel : forall v,
  (popcountN v <= fuel)%nat ->
  exists l, set_loop fuel v = Ok l /\ sum2 l = v.
Proof.
  induction fuel as [|f IH]; intros v Hp.
  - destruct v as [|p]; [exists []; split; reflexivity|].
    cbn in Hp. assert (0 < popcount p)%nat by (clear; induction p; cbn; lia). lia.
  - destruct v as [|p]; [exists []; split; reflexivity|].
    cbn [set_loop N.eqb]. destruct (clear_lowest_spec p) as [H1 H2].
    destruct (IH (clear_lowest (Npos p))) as [l [Hl Hs]]; [cbn in Hp; lia|].
    exists (ctz p :: l). rewrite Hl. split; [reflexivity|].
    cbn [sum2]. rewrite Hs. exact H1.
Qed.

Lemma popcount_size p : (popcount p <= Pos.size_nat p)%nat.
Proof. induction p; cbn; lia. Qed.

Lemma popcount_bound z : (0 <= z < int_limit)%Z -> (popcountN (Z.to_N z) <= 64)%nat.
Proof.
  intros [H0 H1]. destruct z as [|p|p]; cbn; try lia.
  eapply Nat.le_trans; [apply popcount_size|].
  assert (Hlt : (p < 2 ^ 63)%positive) by (unfold int_limit in H1; lia).
  apply Pos.size_nat_monotone in Hlt. exact Hlt.
Qed.

(* ---------- mask ---------- *)

Lemma mask_sum_nats q : forall l a,
  fold_left (fun acc e => mask_step acc e q) (map (fun i => vint (Z.of_N i)) l) (Ok a)
  = Ok (a + 2 * Z.of_N (sum2 l))%Z.
Proof.
  induction l as [|i l IH]; intros a; cbn [map fold_left sum2].
  - f_equal. lia.
  - unfold mask_step at 2. unfold vint, pow_half_units.
    destruct (0 <=? Z.of_N i)%Z eqn:E; [|lia].
    rewrite IH. f_equal.
    rewrite N2Z.inj_add, N2Z.inj_pow. change (Z.of_N 2) with 2%Z.
    rewrite Z.pow_add_r by lia. lia.
Qed.

Lemma bits_mask_nats q l :
  (Z.of_N (sum2 l) < float_exact)%Z ->
  bits_mask q (nset l) = Ok (NInt (Z.of_N (sum2 l))).
Proof.
  intros H. unfold bits_mask, nset, mask_sum. rewrite mask_sum_nats. cbn [bind].
  replace (0 + 2 * Z.of_N (sum2 l))%Z with (2 * Z.of_N (sum2 l))%Z by lia.
  destruct (2 * Z.of_N (sum2 l) <? 2 * float_exact)%Z eqn:E; [|lia].
  rewrite Z.even_mul. cbn [Z.even orb].
  rewrite Z.mul_comm, Z.div_mul by lia. reflexivity.
Qed.

(* mask (set n) = n *)
Theorem mask_set_inverse q z :
  (0 <= z < float_exact)%Z ->
  exists l, bits_set q (NInt z) = Ok l /\ bits_mask q (nset l) = Ok (NInt z).
Proof.
  intros [H0 H1]. unfold bits_set.
  assert (Hlim : (z < int_limit)%Z) by (unfold float_exact, int_limit in *; lia).
  destruct (z <? 0)%Z eqn:E0; [lia|]. destruct (z <? int_limit)%Z eqn:E1; [|lia].
  destruct (set_loop_ok 64 (Z.to_N z) (popcount_bound z (conj H0 Hlim))) as [l [Hl Hs]].
  exists l. split; [exact Hl|].
  rewrite bits_mask_nats; rewrite Hs, Z2N.id by lia; [reflexivity|lia].
Qed.

(* ---------- set (mask s) = s ---------- *)

(* strictly ascending, every member above lo (exclusive when lo is Some) *)
Fixpoint ascending_from (lo : N) (l : list N) : Prop :=
  match l with
  | [] => True
  | i :: l' => lo <= i /\ ascending_from (N.succ i) l'
  end.

Lemma tz_double v : v <> 0 -> tz (N.double v) = N.succ (tz v).
Proof. destruct v; [congruence|reflexivity]. Qed.

Lemma clear_lowest_doubleN v : v <> 0 -> clear_lowest (N.double v) = N.double (clear_lowest v).
Proof. destruct v as [|p]; [congruence|]. intros _. apply clear_lowest_double. Qed.

Lemma shift_tz_clear a : forall v, v <> 0 ->
  tz (2 ^ a * v) = a + tz v /\ clear_lowest (2 ^ a * v) = 2 ^ a * clear_lowest v.
Proof.
  induction a as [|a IH] using N.peano_ind; intros v Hv.
  - change (2 ^ 0) with 1. rewrite !N.mul_1_l. split; [lia|reflexivity].
  - rewrite N.pow_succ_r'. destruct (IH v Hv) as [I1 I2].
    assert (Hnz : 2 ^ a * v <> 0) by (apply N.neq_mul_0; split; [apply N.pow_nonzero; lia|exact Hv]).
    replace (2 * 2 ^ a * v) with (N.double (2 ^ a * v)) by lia.
    rewrite tz_double, clear_lowest_doubleN by exact Hnz. rewrite I1, I2.
    split; lia.
Qed.

(* a sum over positions all >= a is a multiple of 2^a *)
Lemma sum2_shift a : forall l, ascending_from a l -> exists m, sum2 l = 2 ^ a * m.
Proof.
  induction l as [|i l IH] using rev_ind; intros H.
  - exists 0. cbn. lia.
  - assert (G : forall l lo, ascending_from lo l -> forall x, In x l -> lo <= x).
    { clear. induction l as [|y l IH]; intros lo H x Hin; [contradiction|].
      destruct H as [H1 H2]. destruct Hin as [->|Hin]; [exact H1|].
      specialize (IH _ H2 x Hin). lia. }
    assert (S : forall l, (forall x, In x l -> a <= x) -> exists m, sum2 l = 2 ^ a * m).
    { clear. induction l as [|y l IH]; intros Hall.
      - exists 0. cbn. lia.
      - destruct IH as [m Hm]; [intros x Hx; apply Hall; right; exact Hx|].
        assert (a <= y) by (apply Hall; left; reflexivity).
        exists (2 ^ (y - a) + m). cbn [sum2]. rewrite Hm.
        rewrite N.mul_add_distr_l, <- N.pow_add_r. f_equal. f_equal. lia. }
    apply S. intros x Hx. exact (G _ _ H x Hx).
Qed.

Lemma set_loop_sorted : forall l fuel lo,
  ascending_from lo l -> (length l <= fuel)%nat -> set_loop fuel (sum2 l) = Ok l.
Proof.
  induction l as [|i l IH]; intros fuel lo H Hlen.
  - destruct fuel; reflexivity.
  - destruct H as [Hlo Hasc]. cbn [length] in Hlen. destruct fuel as [|f]; [lia|].
    destruct (sum2_shift (N.succ i) l Hasc) as [m Hm].
    assert (E : sum2 (i :: l) = 2 ^ i * N.succ_double m).
    { cbn [sum2]. rewrite Hm, N.pow_succ_r'. lia. }
    assert (Hodd : N.succ_double m <> 0) by lia.
    destruct (shift_tz_clear i (N.succ_double m) Hodd) as [T C].
    assert (Tz : tz (N.succ_double m) = 0) by (destruct m; reflexivity).
    assert (Cl : clear_lowest (N.succ_double m) = N.double m).
    { destruct m as [|p]; [reflexivity|]. cbn [N.succ_double]. rewrite clear_lowest_odd. reflexivity. }
    cbn [set_loop]. destruct (sum2 (i :: l) =? 0) eqn:Z.
    + apply N.eqb_eq in Z. rewrite E in Z. apply N.eq_mul_0 in Z.
      destruct Z as [Z|Z]; [exfalso; revert Z; apply N.pow_nonzero; lia|contradiction].
    + rewrite E, T, C, Tz, Cl.
      replace (2 ^ i * N.double m) with (sum2 l) by (rewrite Hm, N.pow_succ_r'; lia).
      rewrite (IH f (N.succ i) Hasc) by lia. cbn. f_equal. f_equal. lia.
Qed.

Lemma ascending_length : forall l lo n,
  ascending_from lo l -> Forall (fun i => i < n) l -> (N.of_nat (length l) <= n - lo).
Proof.
  induction l as [|i l IH]; intros lo n H F; cbn [length]; [lia|].
  destruct H as [H1 H2]. inversion F as [|? ? Hi F']; subst.
  specialize (IH _ _ H2 F'). lia.
Qed.

Lemma sum2_bound : forall l lo n,
  ascending_from lo l -> Forall (fun i => i < n) l -> sum2 l + 2 ^ lo <= 2 ^ n \/ l = [].
Proof.
  induction l as [|i l IH]; intros lo n H F; [right; reflexivity|left].
  destruct H as [H1 H2]. inversion F as [|? ? Hi F']; subst. cbn [sum2].
  assert (P1 : 2 ^ lo <= 2 ^ i) by (apply N.pow_le_mono_r; lia).
  destruct (IH _ _ H2 F') as [B| ->].
  - rewrite N.pow_succ_r' in B. lia.
  - cbn [sum2]. assert (2 ^ N.succ i <= 2 ^ n) by (apply N.pow_le_mono_r; lia).
    rewrite N.pow_succ_r' in *. lia.
Qed.

Theorem set_mask_inverse q l :
  ascending_from 0 l -> Forall (fun i => i < 53) l ->
  bits_mask q (nset l) = Ok (NInt (Z.of_N (sum2 l))) /\
  bits_set q (NInt (Z.of_N (sum2 l))) = Ok l.
Proof.
  intros H F.
  assert (B : sum2 l < 2 ^ 53).
  { destruct (sum2_bound l 0 53 H F) as [B| ->]; [|reflexivity]. change (2 ^ 0) with 1 in B. lia. }
  assert (B' : (Z.of_N (sum2 l) < float_exact)%Z).
  { unfold float_exact. change (2 ^ 53)%Z with (Z.of_N (2 ^ 53)). lia. }
  split; [apply bits_mask_nats; exact B'|].
  unfold bits_set. destruct (Z.of_N (sum2 l) <? 0)%Z eqn:E0; [lia|].
  assert (Z.of_N (sum2 l) < int_limit)%Z by (unfold float_exact, int_limit in *; lia).
  destruct (Z.of_N (sum2 l) <? int_limit)%Z eqn:E1; [|lia].
  rewrite N2Z.id. apply (set_loop_sorted l 64 0 H).
  pose proof (ascending_length l 0 53 H F). lia.
Qed.

(* what set returns is ascending, so the two statements compose *)
Lemma set_loop_ascending fuel : forall v l, set_loop fuel v = Ok l -> ascending_from 0 l.
Proof.
  assert (G : forall fuel v l lo, set_loop fuel v = Ok l -> (exists m, v = 2 ^ lo * m) -> ascending_from lo l).
  { clear. induction fuel as [|f IH]; intros v l lo H [m Hm]; cbn [set_loop] in H.
    - destruct (v =? 0); [injection H as <-; exact I|discriminate].
    - destruct (v =? 0) eqn:Z; [injection H as <-; exact I|].
      destruct (set_loop f (clear_lowest v)) as [l'| | |] eqn:E; try discriminate.
      cbn in H. injection H as <-. apply N.eqb_neq in Z.
      assert (Hm0 : m <> 0) by (intros ->; apply Z; lia).
      destruct (shift_tz_clear lo m Hm0) as [T C]. subst v. cbn [ascending_from]. split; [lia|].
      apply (IH _ _ _ E). rewrite C, T.
      destruct m as [|p]; [congruence|]. destruct (clear_lowest_spec p) as [S1 _].
      (* clear_lowest (Npos p) is a multiple of 2^(ctz p + 1) *)
      assert (D : exists k, clear_lowest (Npos p) = 2 ^ N.succ (ctz p) * k).
      { clear. induction p as [p IH|p IH|].
        - rewrite clear_lowest_odd. exists (Npos p). cbn [ctz]. change (2 ^ N.succ 0) with 2. lia.
        - rewrite clear_lowest_double. destruct IH as [k Hk]. exists k. cbn [ctz].
          rewrite Hk, (N.pow_succ_r' 2 (N.succ (ctz p))). lia.
        - exists 0. vm_compute. reflexivity. }
      destruct D as [k Hk]. exists k. cbn [tz]. rewrite Hk.
      replace (N.succ (lo + ctz p)) with (lo + N.succ (ctz p)) by lia.
      rewrite N.pow_add_r. lia. }
  intros v l H. apply (G fuel v l 0 H). exists v. change (2 ^ 0) with 1. lia.
Qed.

(* ---------- rejection and refutations ---------- *)

Lemma set_rejects_negative q z : (z < 0)%Z -> bits_set q (NInt z) = Err.
Proof. intros H. unfold bits_set. destruct (z <? 0)%Z eqn:E; [reflexivity|lia]. Qed.

Lemma set_rejects_fraction z : bits_set bquirks_off (NHalf z) = Err.
Proof. unfold bits_set. destruct (2 * z + 1 <? 0)%Z; reflexivity. Qed.

Lemma mask_sum_err_sticky q : forall l, fold_left (fun acc e => mask_step acc e q) l Err = Err.
Proof.
  induction l as [|e l IH]; [reflexivity|]. cbn [fold_left].
  replace (mask_step Err e q) with (@Err Z); [exact IH|].
  unfold mask_step. destruct (pow_half_units q e); reflexivity.
Qed.

Lemma mask_rejects_nonnatural : forall l,
  Exists (fun e => forall z, e <> vint z \/ (z < 0)%Z) l -> bits_mask bquirks_off (VSet l) = Err.
Proof.
  intros l H. unfold bits_mask, mask_sum.
  assert (G : forall acc, fold_left (fun acc e => mask_step acc e bquirks_off) l acc = Err).
  { induction H as [e l He|e l _ IH]; intros acc; cbn [fold_left].
    - replace (mask_step acc e bquirks_off) with (@Err Z); [apply mask_sum_err_sticky|].
      unfold mask_step, pow_half_units. destruct e as [[z|z]| |]; cbn; try reflexivity.
      destruct (He z) as [Hne|Hneg]; [exfalso; apply Hne; reflexivity|].
      destruct (0 <=? z)%Z eqn:E; [lia|reflexivity].
    - apply IH. }
  rewrite G. reflexivity.
Qed.

Lemma q_bits_set_unimplemented_refuted :
  bits_set bquirks_cur (NHalf 0) = Panic /\ bits_set bquirks_off (NHalf 0) = Err.
Proof. vm_compute. split; reflexivity. Qed.

Lemma q_bits_mask_nonnatural_refuted :
  bits_mask bquirks_cur (VSet [vint (-1)]) = Ok (NHalf 0) /\
  bits_set bquirks_cur (NHalf 0) = Panic /\
  bits_mask bquirks_off (VSet [vint (-1)]) = Err.
Proof. vm_compute. repeat split; reflexivity. Qed.

Lemma mask_perm_invariant q l l' : Permutation l l' -> bits_mask q (VSet l) = bits_mask q (VSet l').
Proof.
  intros P. unfold bits_mask, mask_sum. f_equal.
  assert (C : forall a x y, mask_step (mask_step a x q) y q = mask_step (mask_step a y q) x q).
  { intros a x y. unfold mask_step.
    destruct (pow_half_units q x), (pow_half_units q y), a; try reflexivity. f_equal. lia. }
  generalize (Ok 0%Z : res Z).
  induction P as [|x l l' P IH|x y l|l l' l'' P1 IH1 P2 IH2]; intros a; cbn [fold_left].
  - reflexivity.
  - apply IH.
  - rewrite C. reflexivity.
  - rewrite IH1. apply IH2.
Qed.
