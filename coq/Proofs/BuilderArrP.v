(* Arrays: the Array{values, offset, count} that asArray builds is a function of the set of item tuples given
   (one item per index), whatever the insertion order and repetitions. *)
From Arrai Require Import Base.Val Spec.SetAlg Proofs.ValOrder Proofs.SetAlgP Proofs.CanonP Rep.Builder.
From Arrai Require Import Proofs.BuilderP Proofs.BuilderSeqP.

Definition count_some (l : list (option rep)) : Z :=
  Z.of_nat (length (filter (fun o => match o with Some _ => true | None => false end) l)).

Lemma count_some_repeat n : count_some (repeat None n) = 0.
Proof. unfold count_some. induction n as [|n IH]; cbn [repeat filter length]; [reflexivity|exact IH]. Qed.

Lemma count_some_set_nth x l : forall i, (i < length l)%nat ->
  count_some (set_nth i (Some x) l) = match nth i l None with None => count_some l + 1 | Some _ => count_some l end.
Proof.
  unfold count_some. induction l as [|y l IH]; intros [|i] Hi; cbn [length] in Hi; try lia; cbn [set_nth nth filter].
  - destruct y; cbn [length]; lia.
  - specialize (IH i ltac:(lia)). destruct y; cbn [length]; destruct (nth i l None); lia.
Qed.

Lemma finish_array_count vs lo : forall cells cnt,
  (forall v, In v vs -> exists a x, v = RTupItem a x /\ lo <= a < lo + Z.of_nat (length cells)) ->
  cnt = count_some cells ->
  snd (fold_left (fun (st : list (option rep) * Z) (v : rep) =>
        match v with
        | RTupItem a x =>
            (set_nth (Z.to_nat (a - lo)) (Some x) (fst st),
             match nth (Z.to_nat (a - lo)) (fst st) None with None => snd st + 1 | Some _ => snd st end)
        | _ => st
        end) vs (cells, cnt)) =
  count_some (fst (fold_left (fun (st : list (option rep) * Z) (v : rep) =>
        match v with
        | RTupItem a x =>
            (set_nth (Z.to_nat (a - lo)) (Some x) (fst st),
             match nth (Z.to_nat (a - lo)) (fst st) None with None => snd st + 1 | Some _ => snd st end)
        | _ => st
        end) vs (cells, cnt))).
Proof.
  induction vs as [|v vs IH]; intros cells cnt Hall Hc; cbn [fold_left fst snd]; [exact Hc|].
  destruct (Hall v (or_introl eq_refl)) as [a [x [-> Hr]]]. cbn [fst snd].
  apply IH.
  - intros v' Hv'. destruct (Hall v' (or_intror Hv')) as [a' [x' [E Hr']]]. exists a', x'. rewrite set_nth_length. auto.
  - rewrite (count_some_set_nth x cells (Z.to_nat (a - lo))) by lia. rewrite Hc. reflexivity.
Qed.

Theorem finish_array_function_of_members vs vs' :
  vs <> [] -> all_items vs -> all_items vs' ->
  (forall a x x', In (RTupItem a x) vs -> In (RTupItem a x') vs -> x = x') ->
  (forall m, In m vs <-> In m vs') ->
  finish_array vs = finish_array vs'.
Proof.
  intros Hne Hall Hall' Hcoll Hsame.
  destruct vs as [|v0 vs0]; [contradiction|]. destruct vs' as [|v0' vs0']; [exfalso; apply (proj1 (Hsame v0)); left; reflexivity|].
  set (vs := v0 :: vs0) in *. set (vs' := v0' :: vs0') in *.
  unfold finish_array, vs, vs'. cbv beta iota zeta. fold vs. fold vs'.
  set (lo := zmin_list (seq_at v0) (map seq_at vs)). set (hi := zmax_list (seq_at v0) (map seq_at vs)).
  set (lo' := zmin_list (seq_at v0') (map seq_at vs')). set (hi' := zmax_list (seq_at v0') (map seq_at vs')).
  assert (Hidx : forall z, In z (seq_at v0 :: map seq_at vs) <-> In z (seq_at v0' :: map seq_at vs')).
  { intros z. split; intros [<-|Hz].
    - right. apply in_map_iff. exists v0. split; [reflexivity|]. apply Hsame. left. reflexivity.
    - right. apply in_map_iff in Hz. destruct Hz as [m [<- Hm]]. apply in_map_iff. exists m. split; [reflexivity|apply Hsame; exact Hm].
    - right. apply in_map_iff. exists v0'. split; [reflexivity|]. apply Hsame. left. reflexivity.
    - right. apply in_map_iff in Hz. destruct Hz as [m [<- Hm]]. apply in_map_iff. exists m. split; [reflexivity|apply Hsame; exact Hm]. }
  assert (Hle : forall (d : Z) l z, In z (d :: l) -> zmin_list d l <= z <= zmax_list d l).
  { intros d l z [<-|Hz]; split; try apply (proj1 (zmin_list_le l d)); try apply (proj1 (zmax_list_ge l d));
      [apply (proj2 (zmin_list_le l d)); exact Hz|apply (proj2 (zmax_list_ge l d)); exact Hz]. }
  assert (Elo : lo = lo').
  { pose proof (proj1 (zminmax_list_in (map seq_at vs) (seq_at v0))) as H1. pose proof (proj1 (zminmax_list_in (map seq_at vs') (seq_at v0'))) as H2.
    fold lo in H1. fold lo' in H2. apply Hidx in H1. apply Hidx in H2.
    pose proof (proj1 (Hle _ _ _ H1)). pose proof (proj1 (Hle _ _ _ H2)). fold lo in H0. fold lo' in H. lia. }
  assert (Ehi : hi = hi').
  { pose proof (proj2 (zminmax_list_in (map seq_at vs) (seq_at v0))) as H1. pose proof (proj2 (zminmax_list_in (map seq_at vs') (seq_at v0'))) as H2.
    fold hi in H1. fold hi' in H2. apply Hidx in H1. apply Hidx in H2.
    pose proof (proj2 (Hle _ _ _ H1)). pose proof (proj2 (Hle _ _ _ H2)). fold hi in H0. fold hi' in H. lia. }
  rewrite <- Elo, <- Ehi. set (n := Z.to_nat (hi - lo + 1)).
  assert (Hb : forall a x, In (RTupItem a x) vs -> lo <= a <= hi).
  { intros a x Hin. apply (Hle (seq_at v0) (map seq_at vs)). right. apply in_map_iff. exists (RTupItem a x). split; [reflexivity|exact Hin]. }
  assert (Hr : in_range lo (length (repeat (@None rep) n)) (item_pairs vs)).
  { intros a o Hin. apply item_pairs_some in Hin. destruct Hin as [x [-> Hx]]. rewrite repeat_length.
    pose proof (Hb a x Hx). unfold n. rewrite Z2Nat.id by lia. lia. }
  assert (Hr' : in_range lo (length (repeat (@None rep) n)) (item_pairs vs')).
  { intros a o Hin. apply item_pairs_some in Hin. destruct Hin as [x [-> Hx]]. apply Hsame in Hx. apply (Hr a (Some x)). apply item_pairs_in. exact Hx. }
  assert (Ecells : write_all lo (item_pairs vs) (repeat None n) = write_all lo (item_pairs vs') (repeat None n)).
  { apply nth_error_ext_eq. intros i.
    destruct (Nat.lt_ge_cases i n) as [Hi|Hi].
    - assert (Hi' : (i < length (repeat (@None rep) n))%nat) by (rewrite repeat_length; exact Hi).
      destruct (written_dec lo (item_pairs vs) i) as [Hw|Hno].
      + assert (Hw' : exists o, In (lo + Z.of_nat i, o) (item_pairs vs')).
        { destruct Hw as [o Ho]. exists o. apply item_pairs_some in Ho. destruct Ho as [x [-> Hx]]. apply item_pairs_in. apply Hsame. exact Hx. }
        destruct (write_all_written lo _ _ i Hr Hi' Hw) as [o [Hin Hc]].
        destruct (write_all_written lo _ _ i Hr' Hi' Hw') as [o' [Hin' Hc']].
        rewrite Hc, Hc'. f_equal.
        apply item_pairs_some in Hin. destruct Hin as [x [-> Hx]]. apply item_pairs_some in Hin'. destruct Hin' as [x' [-> Hx']].
        f_equal. apply (Hcoll (lo + Z.of_nat i) x x' Hx). apply Hsame. exact Hx'.
      + assert (Hno' : forall o, ~ In (lo + Z.of_nat i, o) (item_pairs vs')).
        { intros o Ho. apply (Hno o). apply item_pairs_some in Ho. destruct Ho as [x [-> Hx]]. apply item_pairs_in. apply Hsame. exact Hx. }
        rewrite (write_all_untouched lo _ _ i Hr Hno), (write_all_untouched lo _ _ i Hr' Hno'). reflexivity.
    - assert (E1 : nth_error (write_all lo (item_pairs vs) (repeat None n)) i = None)
        by (apply nth_error_None; rewrite write_all_length, repeat_length; exact Hi).
      assert (E2 : nth_error (write_all lo (item_pairs vs') (repeat None n)) i = None)
        by (apply nth_error_None; rewrite write_all_length, repeat_length; exact Hi).
      rewrite E1, E2. reflexivity. }
  assert (Hst : forall ws, (forall m, In m ws -> In m vs) ->
            forall v, In v ws -> exists a x, v = RTupItem a x /\ lo <= a < lo + Z.of_nat (length (repeat (@None rep) n))).
  { intros ws Hsub v Hv. destruct (Hall v (Hsub v Hv)) as [a [x ->]]. exists a, x. split; [reflexivity|].
    pose proof (Hb a x (Hsub _ Hv)). rewrite repeat_length. unfold n. rewrite Z2Nat.id by lia. lia. }
  rewrite (finish_array_count vs lo (repeat None n) 0 (Hst vs (fun m H => H)) (eq_sym (count_some_repeat n))).
  rewrite (finish_array_count vs' lo (repeat None n) 0 (Hst vs' (fun m H => proj2 (Hsame m) H)) (eq_sym (count_some_repeat n))).
  rewrite !finish_array_cells. rewrite Ecells. reflexivity.
Qed.
