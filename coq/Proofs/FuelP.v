(* The value of an expression does not depend on the fuel: more fuel never changes an
   answer (value, error or "outside the specified fragment"), it only turns OutOfFuel
   into an answer.  So "the value of e" in the property theorems is well defined. *)
From Arrai Require Import Base.Val Spec.SetAlg Eval.Interp.

Definition le_res {A} (r r' : res A) : Prop := r = OutOfFuel \/ r = r'.

Lemma le_refl {A} (r : res A) : le_res r r.
Proof. right; reflexivity. Qed.

Lemma rbind_le {A B} (r r' : res A) (f f' : A -> res B) :
  le_res r r' -> (forall a, le_res (f a) (f' a)) -> le_res (rbind r f) (rbind r' f').
Proof.
  intros [H|H] Hf; subst; [left; reflexivity|].
  destruct r' as [a| | |]; simpl; [apply Hf | right | right | right]; reflexivity.
Qed.

Lemma mapM_le {A B} (f f' : A -> res B) l :
  (forall x, le_res (f x) (f' x)) -> le_res (mapM f l) (mapM f' l).
Proof.
  intros Hf. induction l as [|x l IH]; simpl; [apply le_refl|].
  apply rbind_le; [apply Hf|]. intros y. apply rbind_le; [exact IH|]. intros r. apply le_refl.
Qed.

Section Mono.
Variables (ev ev' : env -> expr -> res value) (bd bd' : env -> pat -> value -> res env).
Hypothesis Hev : forall rho e, le_res (ev rho e) (ev' rho e).
Hypothesis Hbd : forall rho p v, le_res (bd rho p v) (bd' rho p v).

Ltac mono :=
  repeat first
    [ apply le_refl
    | assumption
    | apply Hev
    | apply Hbd
    | apply rbind_le; [ | intros ? ]
    | apply mapM_le; intros ?
    | match goal with
      | |- le_res (match ?x with _ => _ end) (match ?x with _ => _ end) => destruct x
      | |- le_res (if ?x then _ else _) (if ?x then _ else _) => destruct x
      end ].

Lemma evalF_mono rho e : le_res (evalF ev bd rho e) (evalF ev' bd' rho e).
Proof.
  destruct e; unfold evalF; cbv zeta beta; mono.
  - induction arms as [|[c v] arms IH]; mono.
  - induction arms as [|[p body] arms IH]; [apply le_refl|].
    destruct (Hbd rho p a) as [H|H]; rewrite H; [left; reflexivity|].
    destruct (bd' rho p a); mono.
Qed.

Lemma bindF_mono rho p v : le_res (bindF ev bd rho p v) (bindF ev' bd' rho p v).
Proof.
  destruct p; unfold bindF; cbv zeta beta; mono.
  - try (match goal with |- context [existsb ?f ?l] => generalize (existsb f l); intros hb end).
    match goal with |- le_res (?F ?a ?b ?c) (?G ?a ?b ?c) =>
      assert (HH : forall b' c', le_res (F a b' c') (G a b' c')); [| apply HH] end.
    induction items as [|it items IH]; intros xs acc; [mono|]. destruct it; mono; try apply IH.
  - try (match goal with |- context [existsb ?f ?l] => generalize (existsb f l); intros hb end).
    match goal with |- le_res (?F ?a ?b ?c ?d) (?G ?a ?b ?c ?d) =>
      assert (HH : forall b' c' d', le_res (F a b' c' d') (G a b' c' d')); [| apply HH] end.
    induction attrs as [|[n it] attrs IH]; intros remaining extra acc; [mono|]. destruct it; mono; try apply IH.
  - try (match goal with |- context [existsb ?f ?l] => generalize (existsb f l); intros hb end).
    match goal with |- le_res (?F ?a ?b ?c ?d) (?G ?a ?b ?c ?d) =>
      assert (HH : forall b' c' d', le_res (F a b' c' d') (G a b' c' d')); [| apply HH] end.
    induction entries as [|[ke it] entries IH]; intros remaining extra acc; [mono|]. destruct it; mono; try apply IH.
  - try (match goal with |- context [existsb ?f ?l] => generalize (existsb f l); intros hb end).
    match goal with |- le_res (?F ?a ?b ?c) (?G ?a ?b ?c) =>
      assert (HH : forall b' c', le_res (F a b' c') (G a b' c')); [| apply HH] end.
    induction items as [|it items IH]; intros remaining binder; [mono|]. destruct it; mono; try apply IH.
  - induction es as [|e es IH]; mono.
Qed.
End Mono.

Lemma le_trans {A} (a b c : res A) : le_res a b -> le_res b c -> le_res a c.
Proof. intros [H|H] [H'|H']; subst; auto; try (left; reflexivity); right; reflexivity. Qed.

Theorem fuel_step n :
  (forall rho e, le_res (eval n rho e) (eval (S n) rho e)) /\
  (forall rho p v, le_res (bind_pat n rho p v) (bind_pat (S n) rho p v)).
Proof.
  induction n as [|n [IHe IHb]]; [split; intros; left; reflexivity|].
  split.
  - intros rho e.
    change (le_res (evalF (eval n) (bind_pat n) rho e) (evalF (eval (S n)) (bind_pat (S n)) rho e)).
    apply evalF_mono; assumption.
  - intros rho p v.
    change (le_res (bindF (eval n) (bind_pat n) rho p v) (bindF (eval (S n)) (bind_pat (S n)) rho p v)).
    apply bindF_mono; assumption.
Qed.

Theorem eval_fuel_mono n m rho e : (n <= m)%nat -> le_res (eval n rho e) (eval m rho e).
Proof.
  induction 1 as [|m Hle IH]; [apply le_refl|].
  eapply le_trans; [exact IH | apply fuel_step].
Qed.

Theorem bind_fuel_mono n m rho p v : (n <= m)%nat -> le_res (bind_pat n rho p v) (bind_pat m rho p v).
Proof.
  induction 1 as [|m Hle IH]; [apply le_refl|].
  eapply le_trans; [exact IH | apply fuel_step].
Qed.

(* any two answers for the same expression agree, whatever the fuel *)
Theorem eval_fuel_independent n m rho e :
  eval n rho e <> OutOfFuel -> eval m rho e <> OutOfFuel -> eval n rho e = eval m rho e.
Proof.
  intros Hn Hm. destruct (Nat.le_ge_cases n m) as [H|H].
  - destruct (eval_fuel_mono n m rho e H) as [E|E]; [contradiction | exact E].
  - destruct (eval_fuel_mono m n rho e H) as [E|E]; [contradiction | symmetry; exact E].
Qed.

Theorem run_data_fuel_independent n m e v v' :
  run_data n e = Ok v -> run_data m e = Ok v' -> v = v'.
Proof.
  unfold run_data, run. intros H1 H2.
  assert (N1 : eval n [] e <> OutOfFuel) by (intros E; rewrite E in H1; discriminate).
  assert (N2 : eval m [] e <> OutOfFuel) by (intros E; rewrite E in H2; discriminate).
  rewrite (eval_fuel_independent n m [] e N1 N2) in H1. rewrite H1 in H2. congruence.
Qed.
