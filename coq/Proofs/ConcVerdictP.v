(* C11 proofs, part 4: the per-protocol statements in the quirk scheme
   (DESIGN 5.3) and the correctness of the model's verdict table. *)
From Coq Require Import List ZArith Bool Lia Arith.
Import ListNotations.
From Arrai Require Import Sys.Conc Proofs.ConcP Proofs.ConcImportP Proofs.ConcImportLiveP Proofs.ConcStdinP.

Lemma where_race_free_q : forall q perr N s, q_where_err_capture_race q = false ->
  reachable (where_progs q perr) N s -> ~ race (where_progs q perr) idloc N s.
Proof. intros [a b c] perr N s H; simpl in H; subst a. exact (where_fixed_race_free perr N s). Qed.

Lemma where_result_q : forall q perr N s, q_where_err_capture_race q = false ->
  reachable (where_progs q perr) N s -> (forall t, t < N -> halted (where_progs q perr) t s) ->
  (mem (sh s) 0 = 0%Z <-> forall t, t < N -> perr t = 0%Z) /\
  (mem (sh s) 0 <> 0%Z -> exists u, u < N /\ perr u = mem (sh s) 0).
Proof. intros [a b c] perr N s H; simpl in H; subst a. exact (where_fixed_result perr N s). Qed.

Lemma where_racy_q : forall q, q_where_err_capture_race q = true ->
  exists perr s, reachable (where_progs q perr) 2 s /\ race (where_progs q perr) idloc 2 s.
Proof.
  intros [a b c] H; simpl in H; subst a. exists where_witness_perr.
  set (P := where_progs {| q_where_err_capture_race := true; q_importcache_error_no_broadcast := b; q_join_attrs_append_alias := c |} where_witness_perr).
  destruct (run P init [0;0;0;0;0;0;0;1]) as [s|] eqn:E; [|vm_compute in E; discriminate].
  exists s. split.
  - eapply run_reachable; [apply r_init| |exact E]. repeat constructor.
  - apply (raceb_race _ _ 2 s 0 1); [lia|lia|discriminate|].
    vm_compute in E. inversion E; subst. vm_compute. reflexivity.
Qed.

Lemma import_deadlocks_q : forall q, q_importcache_error_no_broadcast q = true ->
  exists res s, reachable (import_progs q res) 2 s /\ deadlock (import_progs q res) 2 s.
Proof.
  intros [a b c] H; simpl in H; subst b. exists (-1)%Z.
  set (P := import_progs {| q_where_err_capture_race := a; q_importcache_error_no_broadcast := true; q_join_attrs_append_alias := c |} (-1)).
  destruct (run P init [0;0;0;0;0;0;  1;1;1;1;1;  0;0;0;0;0;0;0;0]) as [s|] eqn:E; [|vm_compute in E; discriminate].
  exists s. split.
  - eapply run_reachable; [apply r_init| |exact E]. repeat constructor.
  - vm_compute in E. inversion E; subst; clear E. split.
    + intros t Ht. unfold enabled. destruct t as [|[|t]]; [| |lia]; vm_compute; intro H; apply H; reflexivity.
    + exists 1. split; [lia|]. unfold halted. vm_compute. discriminate.
Qed.

(* what "race-free with serial results" means for each transcribed protocol *)
Definition proto_ok (q : Quirks) (p : proto) : Prop :=
  match p with
  | PTupleNames | PTupleBucket | POnceCell =>
      forall vN hB bucket N s, reachable (tuple_progs vN hB bucket) N s ->
        ~ race (tuple_progs vN hB bucket) idloc N s /\
        forall t, halted (tuple_progs vN hB bucket) t s -> result s t = tuple_serial vN hB bucket t
  | PRelposIndex =>
      forall key fn N s, reachable (relpos_progs key fn) N s ->
        ~ race (relpos_progs key fn) relpos_loc N s /\
        forall t, halted (relpos_progs key fn) t s -> result s t = relpos_serial key fn t
  | PWhereErr =>
      forall perr N s, reachable (where_progs q perr) N s ->
        ~ race (where_progs q perr) idloc N s /\
        ((forall t, t < N -> halted (where_progs q perr) t s) ->
         (mem (sh s) 0 = 0%Z <-> forall t, t < N -> perr t = 0%Z))
  | PImportCache =>
      forall res N s, reachable (import_progs q res) N s ->
        ~ race (import_progs q res) idloc N s /\
        ~ deadlock (import_progs q res) N s /\
        forall t, halted (import_progs q res) t s -> result s t = res
  | PJoinAttrs =>
      forall nm N s, reachable (p_join q nm) N s ->
        ~ race (p_join q nm) idloc N s /\
        forall t, halted (p_join q nm) t s -> result s t = nm t
  | PStdinCache =>
      forall K N s, reachable (fun _ => p_stdin K) N s ->
        ~ race (fun _ => p_stdin K) idloc N s /\
        forall t, halted (fun _ => p_stdin K) t s -> result s t = stdin_serial K
  | MTupleNoOnce | MRelposUnlockedRead | MStdinNarrowLock => True
  end.

Definition proto_broken (q : Quirks) (p : proto) : Prop :=
  match p with
  | PWhereErr => exists perr s, reachable (where_progs q perr) 2 s /\ race (where_progs q perr) idloc 2 s
  | PImportCache => exists res s, reachable (import_progs q res) 2 s /\ deadlock (import_progs q res) 2 s
  | PJoinAttrs => exists nm s, reachable (p_join q nm) 2 s /\ race (p_join q nm) idloc 2 s
  | MTupleNoOnce => exists s, reachable (fun _ => p_names_nocheck 5) 2 s /\ race (fun _ => p_names_nocheck 5) idloc 2 s
  | MRelposUnlockedRead => exists s, reachable (fun _ => p_relpos_unlocked_read 0 5) 2 s /\
                                     race (fun _ => p_relpos_unlocked_read 0 5) relpos_loc 2 s
  | _ => False
  end.

Definition model_bad (q : Quirks) (p : proto) : bool := model_racy q p || model_deadlocks q p.

(* the guard of the quirk scheme: this protocol does not depend on an enabled defective site *)
Theorem proto_ok_under_guard : forall q p, model_bad q p = model_bad quirks_off p -> proto_ok q p.
Proof.
  intros q p Hg. destruct p; simpl; auto; unfold model_bad in Hg; simpl in Hg.
  - intros; split; [now apply tuple_race_free | intros; eapply tuple_serial_results; eauto].
  - intros; split; [now apply tuple_race_free | intros; eapply tuple_serial_results; eauto].
  - intros; split; [now apply tuple_race_free | intros; eapply tuple_serial_results; eauto].
  - intros; split; [now apply relpos_race_free | intros; eapply relpos_serial_results; eauto].
  - rewrite orb_false_r in Hg. intros perr N s Hr. split; [now apply where_race_free_q|].
    intros Hh. now apply (where_result_q q perr N s Hg Hr Hh).
  - intros res N s Hr. split; [now apply import_race_free|]. split; [now apply import_fixed_no_deadlock|].
    intros; eapply import_serial_results; eauto.
  - rewrite orb_false_r in Hg. intros nm N s Hr. split; [now apply join_fixed_race_free|].
    intros; eapply join_fixed_result; eauto.
  - intros; split; [now apply stdin_race_free | intros; eapply stdin_serial_results; eauto].
Qed.

(* and whenever the table says "broken" there is a concrete 2-thread witness *)
Theorem model_bad_witness : forall q p, model_bad q p = true -> proto_broken q p.
Proof.
  intros q p H. destruct p; unfold model_bad in H; simpl in H; try discriminate; simpl.
  - rewrite orb_false_r in H. now apply where_racy_q.
  - now apply import_deadlocks_q.
  - rewrite orb_false_r in H. destruct (join_quirk_racy q (fun t => Z.of_nat t) H) as (s & H1 & H2). eauto.
  - apply tuple_no_once_racy.
  - apply relpos_unlocked_read_racy.
Qed.

(* non-vacuity: real runs with contention that reach the end *)
Example tuple_run_3 :
  exists s, reachable (tuple_progs 5 (Z.add 1) Nat.even) 3 s /\
            (forall t, t < 3 -> halted (tuple_progs 5 (Z.add 1) Nat.even) t s) /\
            result s 0 = 6%Z /\ result s 1 = 5%Z /\ on (sh s) 0 = ODone /\ on (sh s) 1 = ODone.
Proof.
  set (P := tuple_progs 5 (Z.add 1) Nat.even).
  (* thread 0 (bucket) enters both onces, thread 1 (names) and thread 2 (bucket) block/skip *)
  destruct (run P init [0;0;0;0;0; 1;1; 0;0;0;0; 2;2; 0]) as [s|] eqn:E; [|vm_compute in E; discriminate].
  exists s. split; [eapply run_reachable; [apply r_init| |exact E]; repeat constructor|].
  vm_compute in E. inversion E; subst; clear E. split.
  - intros t Ht. unfold halted. destruct t as [|[|[|t]]]; [| | |lia]; vm_compute; reflexivity.
  - vm_compute. repeat split.
Qed.

Example import_error_run_2 :
  exists s, reachable (import_progs quirks_off (-1)) 2 s /\
            (forall t, t < 2 -> halted (import_progs quirks_off (-1)) t s) /\
            result s 0 = (-1)%Z /\ result s 1 = (-1)%Z.
Proof.
  set (P := import_progs quirks_off (-1)).
  (* 0 marks and fails; 1 sleeps on the marker, is woken by the repaired error path, retries and fails itself *)
  destruct (run P init [0;0;0;0;0;0;  1;1;1;1;1;  0;0;0;0;0;0;0;0;  1;1;1;1;1;1;1;1;1;1;1;1;1;1;1]) as [s|] eqn:E;
    [|vm_compute in E; discriminate].
  exists s. split; [eapply run_reachable; [apply r_init| |exact E]; repeat constructor|].
  vm_compute in E. inversion E; subst; clear E. split.
  - intros t Ht. unfold halted. destruct t as [|[|t]]; [| |lia]; vm_compute; reflexivity.
  - vm_compute. split; reflexivity.
Qed.
