(* rel.NewSet denotes exactly the members it is given: assembly of the bucket partition, the per-bucket finishers
   and SetBuilder.Finish, inside the well-formed region and for members on which Equal is sound. *)
From Arrai Require Import Base.Val Spec.SetAlg Proofs.ValOrder Proofs.SetAlgP Proofs.CanonP Rep.Builder.
From Arrai Require Import Proofs.BuilderP Proofs.BuilderSeqP Proofs.BuilderDictP.

(* the well-formed region of a member list (everything outside is a recorded finding) *)
Record wf_members (ms : list rep) : Prop := {
  (* buckets that print alike are the same bucket (KF-C02-04) *)
  wf_keys : forall m m', In m ms -> In m' ms ->
              bucket_str (bucket_of m) = bucket_str (bucket_of m') -> bucket_of m = bucket_of m';
  (* tuples filed in one relation bucket have the same names (KF-C02-04), and no name twice *)
  wf_names : forall l l', In (RTupG l) ms -> In (RTupG l') ms -> l <> [] -> l' <> [] ->
              join_names (map fst l) = join_names (map fst l') -> map fst l = map fst l';
  wf_nodup : forall l, In (RTupG l) ms -> NoDup (map fst l);
  (* characters are not negative (a negative rune is a hole; KF-C02-02) *)
  wf_char : forall a c, In (RTupChar a c) ms -> 0 <= c;
  (* at most one payload per index (KF-C02-01) *)
  wf_char1 : forall a c c', In (RTupChar a c) ms -> In (RTupChar a c') ms -> c = c';
  wf_byte1 : forall a c c', In (RTupByte a c) ms -> In (RTupByte a c') ms -> c = c';
  wf_item1 : forall a x x', In (RTupItem a x) ms -> In (RTupItem a x') ms -> abs x = abs x';
  (* byte indices without gaps (KF-C02-03) *)
  wf_gap : forall a b c d i, In (RTupByte a c) ms -> In (RTupByte b d) ms -> a <= i <= b -> exists e, In (RTupByte i e) ms
}.

(* the members and what the builder compares of them: dict keys and values, relation cells *)
Definition component (ms : list rep) (x : rep) : Prop :=
  In x ms \/ (exists k v, In (RTupEntry k v) ms /\ (x = k \/ x = v)) \/ (exists l n, In (RTupG l) ms /\ In (n, x) l).

Definition equal_sound_on (ms : list rep) : Prop :=
  forall x y, component ms x -> component ms y -> rep_equal x y = true -> abs x = abs y.

Lemma rep_equal_empty_tuple x : rep_equal (RTupG []) x = true -> x = RTupG [].
Proof.
  destruct x; cbn [rep_equal tup_attrs forallb map]; intros H; try discriminate.
  all: try (cbn [forallb fst tfind] in H; discriminate).
  destruct attrs as [|[n v] attrs]; [reflexivity|]. cbn [forallb fst tfind] in H. discriminate.
Qed.

Lemma bucket_char m : bucket_of m = BChar -> exists a c, m = RTupChar a c.
Proof. destruct m; cbn [bucket_of]; intros H; try discriminate; [destruct attrs; discriminate|eauto]. Qed.
Lemma bucket_byte m : bucket_of m = BByte -> exists a c, m = RTupByte a c.
Proof. destruct m; cbn [bucket_of]; intros H; try discriminate; [destruct attrs; discriminate|eauto]. Qed.
Lemma bucket_item m : bucket_of m = BItem -> exists a x, m = RTupItem a x.
Proof. destruct m; cbn [bucket_of]; intros H; try discriminate; [destruct attrs; discriminate|eauto]. Qed.
Lemma bucket_entry m : bucket_of m = BEntry -> exists k v, m = RTupEntry k v.
Proof. destruct m; cbn [bucket_of]; intros H; try discriminate; [destruct attrs; discriminate|eauto]. Qed.
Lemma bucket_rel m key : bucket_of m = BRel key -> exists l, m = RTupG l /\ l <> [] /\ join_names (map fst l) = key.
Proof.
  destruct m; cbn [bucket_of]; intros H; try discriminate. destruct attrs as [|p attrs]; [discriminate|].
  inversion H. exists (p :: attrs). split; [reflexivity|]. split; [discriminate|reflexivity].
Qed.

Lemma NoDup_map_inj_on {A B} (f : A -> B) l :
  NoDup l -> (forall x y, In x l -> In y l -> f x = f y -> x = y) -> NoDup (map f l).
Proof.
  induction l as [|a l IH]; intros Hnd Hinj; cbn [map]; [constructor|].
  inversion Hnd as [|? ? Hni Hnd']; subst. constructor.
  - intros Hin. apply in_map_iff in Hin. destruct Hin as [y [Hy Hyl]].
    assert (y = a) by (apply Hinj; [right; exact Hyl|left; reflexivity|exact Hy]). subst y. contradiction.
  - apply IH; [exact Hnd'|]. intros x y Hx Hy. apply Hinj; right; assumption.
Qed.

Theorem build_denotes_members ms r :
  build ms = BOk r -> wf_members ms -> equal_sound_on ms -> abs r = mkset (map abs ms).
Proof.
  intros Hb Hwf Hs. destruct (bucketise_partition ms) as [Hnd [Hvs Hall]].
  assert (Hsub : forall b vs, In (b, vs) (bucketise ms) -> forall m, In m vs -> In m ms /\ bucket_of m = b).
  { intros b vs Hin m Hm. destruct (Hvs b vs Hin) as [Hf _]. rewrite Hf in Hm. apply filter_In in Hm.
    destruct Hm as [Hm Hb']. split; [exact Hm|]. unfold in_bucket in Hb'. apply bucket_eq_eq. exact Hb'. }
  apply (build_denotes_members_modular ms r Hb).
  - (* bucket strings pairwise different *)
    rewrite <- (map_map fst bucket_str). apply NoDup_map_inj_on; [exact Hnd|].
    intros b b' Hb1 Hb2 Heq. apply in_map_iff in Hb1. destruct Hb1 as [[b1 vs1] [E1 Hin1]]. cbn [fst] in E1. subst b1.
    apply in_map_iff in Hb2. destruct Hb2 as [[b2 vs2] [E2 Hin2]]. cbn [fst] in E2. subst b2.
    destruct (Hvs b vs1 Hin1) as [_ Hne1]. destruct (Hvs b' vs2 Hin2) as [_ Hne2].
    destruct vs1 as [|m1 vs1]; [contradiction|]. destruct vs2 as [|m2 vs2]; [contradiction|].
    destruct (Hsub b _ Hin1 m1 (or_introl eq_refl)) as [Hm1 Hbm1]. destruct (Hsub b' _ Hin2 m2 (or_introl eq_refl)) as [Hm2 Hbm2].
    rewrite <- Hbm1, <- Hbm2. apply (wf_keys ms Hwf); [exact Hm1|exact Hm2|]. rewrite Hbm1, Hbm2. exact Heq.
  - intros b vs s Hin Hfin. destruct (Hvs b vs Hin) as [_ Hne]. pose proof (Hsub b vs Hin) as Hmem.
    assert (Hcomp : forall m, In m vs -> component ms m) by (intros m Hm; left; apply (Hmem m Hm)).
    destruct b; cbn [finish_bucket] in Hfin.
    + inversion Hfin; subst s. apply finish_generic_denotes_members.
      * intros x y Hx Hy. apply Hs; apply Hcomp; assumption.
      * intros x Hx Hx0. apply rep_equal_empty_tuple in Hx0. subst x. reflexivity.
    + inversion Hfin; subst s. apply finish_string_denotes_members; [exact Hne| |].
      * intros m Hm. destruct (Hmem m Hm) as [Hin' Hbm]. destruct (bucket_char m Hbm) as [a [c ->]]. exists a, c. split; [reflexivity|].
        apply (wf_char ms Hwf a c Hin').
      * intros a c c' H1 H2. apply (wf_char1 ms Hwf a c c'); [apply (Hmem _ H1)|apply (Hmem _ H2)].
    + inversion Hfin; subst s. apply finish_bytes_denotes_members; [exact Hne| | |].
      * intros m Hm. destruct (Hmem m Hm) as [_ Hbm]. apply (bucket_byte m Hbm).
      * intros a c c' H1 H2. apply (wf_byte1 ms Hwf a c c'); [apply (Hmem _ H1)|apply (Hmem _ H2)].
      * intros a b c d i H1 H2 Hi. destruct (wf_gap ms Hwf a b c d i (proj1 (Hmem _ H1)) (proj1 (Hmem _ H2)) Hi) as [e He].
        exists e. destruct (Hvs BByte vs Hin) as [Hf _]. rewrite Hf. apply filter_In. split; [exact He|reflexivity].
    + inversion Hfin; subst s. apply finish_array_denotes_members; [exact Hne| |].
      * intros m Hm. destruct (Hmem m Hm) as [_ Hbm]. apply (bucket_item m Hbm).
      * intros a x x' H1 H2. apply (wf_item1 ms Hwf a x x'); [apply (Hmem _ H1)|apply (Hmem _ H2)].
    + inversion Hfin; subst s. apply finish_dict_denotes_members; [exact Hne| |].
      * intros m Hm. destruct (Hmem m Hm) as [_ Hbm]. apply (bucket_entry m Hbm).
      * intros k v k' v' H1 H2. pose proof (proj1 (Hmem _ H1)) as G1. pose proof (proj1 (Hmem _ H2)) as G2. split; intros Heq.
        -- apply Hs; [right; left; exists k, v; split; [exact G1|left; reflexivity]|right; left; exists k', v'; split; [exact G2|left; reflexivity]|exact Heq].
        -- apply Hs; [right; left; exists k, v; split; [exact G1|right; reflexivity]|right; left; exists k', v'; split; [exact G2|right; reflexivity]|exact Heq].
    + destruct vs as [|m0 vs0] eqn:Evs; [contradiction|]. rewrite <- Evs in *.
      assert (Hm0 : In m0 vs) by (rewrite Evs; left; reflexivity).
      destruct (Hmem m0 Hm0) as [Hin0 Hb0]. destruct (bucket_rel m0 key Hb0) as [l0 [-> [Hl0 Hj0]]].
      apply (finish_relation_denotes_members vs (map fst l0) s); [exact Hne| | | |exact Hfin].
      * intros m Hm. destruct (Hmem m Hm) as [Hin' Hbm]. destruct (bucket_rel m key Hbm) as [l [-> [Hl Hj]]].
        exists l. split; [reflexivity|]. apply (wf_names ms Hwf l l0 Hin' Hin0 Hl Hl0). rewrite Hj, Hj0. reflexivity.
      * apply (wf_nodup ms Hwf l0 Hin0).
      * intros x y [a [n [Ha Hx]]] [a' [n' [Ha' Hy]]]. apply Hs.
        -- right. right. exists a, n. split; [apply (Hmem _ Ha)|exact Hx].
        -- right. right. exists a', n'. split; [apply (Hmem _ Ha')|exact Hy].
Qed.

(* the soundness hypothesis is decidable on a given member list *)
Definition components (ms : list rep) : list rep :=
  ms ++ flat_map (fun m => match m with RTupEntry k v => [k; v] | RTupG l => map snd l | _ => [] end) ms.

Lemma component_in ms x : component ms x -> In x (components ms).
Proof.
  unfold components. intros [H|[[k [v [Hin Hx]]]|[l [n [Hin Hx]]]]]; apply in_or_app; [left; exact H| |].
  - right. apply in_flat_map. exists (RTupEntry k v). split; [exact Hin|]. destruct Hx as [->| ->]; [left|right; left]; reflexivity.
  - right. apply in_flat_map. exists (RTupG l). split; [exact Hin|]. apply in_map_iff. exists (n, x). split; [reflexivity|exact Hx].
Qed.

Definition equal_sound_onb (ms : list rep) : bool :=
  forallb (fun x => forallb (fun y => implb (rep_equal x y) (veqb (abs x) (abs y))) (components ms)) (components ms).

Lemma equal_sound_onb_ok ms : equal_sound_onb ms = true -> equal_sound_on ms.
Proof.
  intros H x y Hx Hy Heq. unfold equal_sound_onb in H. rewrite forallb_forall in H.
  pose proof (H x (component_in ms x Hx)) as H1. rewrite forallb_forall in H1.
  pose proof (H1 y (component_in ms y Hy)) as H2. rewrite Heq in H2. cbn [implb] in H2. apply veqb_eq. exact H2.
Qed.

(* ---------- strings: the representation is a function of the denotation ---------- *)
Lemma filter_all {A} (f : A -> bool) l : (forall x, In x l -> f x = true) -> filter f l = l.
Proof.
  induction l as [|x l IH]; intros H; cbn [filter]; [reflexivity|].
  rewrite (H x (or_introl eq_refl)). f_equal. apply IH. intros y Hy. apply H. right. exact Hy.
Qed.

Lemma single_bucket ms b : ms <> [] -> (forall m, In m ms -> bucket_of m = b) -> bucketise ms = [(b, ms)].
Proof.
  intros Hne Hb. destruct (bucketise_partition ms) as [Hnd [Hvs Hall]].
  assert (Hkey : forall b' vs', In (b', vs') (bucketise ms) -> b' = b /\ vs' = ms).
  { intros b' vs' Hin. destruct (Hvs b' vs' Hin) as [Hf Hne']. destruct vs' as [|m vs']; [contradiction|].
    assert (Hm : In m (filter (in_bucket b') ms)) by (rewrite <- Hf; left; reflexivity).
    apply filter_In in Hm. destruct Hm as [Hm Hmb]. unfold in_bucket in Hmb. apply bucket_eq_eq in Hmb.
    rewrite (Hb m Hm) in Hmb. subst b'. split; [reflexivity|]. rewrite Hf. apply filter_all.
    intros x Hx. unfold in_bucket. rewrite (Hb x Hx). apply bucket_eq_refl. }
  destruct (bucketise ms) as [|[b1 vs1] rest] eqn:E.
  - destruct ms as [|m ms']; [contradiction|]. exfalso. apply (Hall m (or_introl eq_refl)).
  - destruct (Hkey b1 vs1 (or_introl eq_refl)) as [-> ->].
    destruct rest as [|[b2 vs2] rest]; [reflexivity|].
    destruct (Hkey b2 vs2 (or_intror (or_introl eq_refl))) as [-> _].
    cbn [map fst] in Hnd. inversion Hnd as [|? ? Hni _]; subst. exfalso. apply Hni. left. reflexivity.
Qed.

Lemma mkset_same_elems l m : mkset l = mkset m -> forall x, In x l <-> In x m.
Proof. unfold mkset. intros H x. inversion H as [H1]. rewrite <- (vsort_in l x), <- (vsort_in m x), H1. reflexivity. Qed.

Lemma rep_equal_str_refl off cells holes : rep_equal (RStr off cells holes) (RStr off cells holes) = true.
Proof. cbn [rep_equal]. rewrite !Z.eqb_refl, zlist_eq_refl. reflexivity. Qed.

(* two well-formed lists of character tuples with the same denotation are built to the very same String (offset, runes,
   hole count), whatever the insertion order and repetitions - so the two results are Equal *)
Theorem string_representation_function_of_denotation ms ms' :
  ms <> [] -> all_chars ms -> all_chars ms' ->
  (forall a c c', In (RTupChar a c) ms -> In (RTupChar a c') ms -> c = c') ->
  mkset (map abs ms) = mkset (map abs ms') ->
  build ms = build ms' /\ exists r, build ms = BOk r /\ build ms' = BOk r /\ rep_equal r r = true.
Proof.
  intros Hne Hall Hall' Hcoll Hden.
  assert (Hsame : forall m, In m ms <-> In m ms').
  { assert (G : forall l l', (forall m, In m l -> exists a c, m = RTupChar a c /\ 0 <= c) ->
                  (forall m, In m l' -> exists a c, m = RTupChar a c /\ 0 <= c) ->
                  (forall x, In x (map abs l) -> In x (map abs l')) -> forall m, In m l -> In m l').
    { intros l l' Hl Hl' Hsub m Hm. destruct (Hl m Hm) as [a [c [-> _]]].
      assert (Hx : In (abs (RTupChar a c)) (map abs l')) by (apply Hsub; apply in_map; exact Hm).
      apply in_map_iff in Hx. destruct Hx as [m' [E Hm']]. destruct (Hl' m' Hm') as [a' [c' [-> _]]].
      cbn [abs] in E. unfold vpair, vint in E. inversion E; subst. exact Hm'. }
    intros m. split; apply G; try assumption; intros x Hx; apply (mkset_same_elems _ _ Hden); exact Hx. }
  assert (Hne' : ms' <> []).
  { destruct ms as [|m0 ms0]; [contradiction|]. intros E. subst ms'. apply (proj1 (Hsame m0)). left. reflexivity. }
  assert (Hb : forall l, (forall m, In m l -> exists a c, m = RTupChar a c /\ 0 <= c) -> forall m, In m l -> bucket_of m = BChar).
  { intros l Hl m Hm. destruct (Hl m Hm) as [a [c [-> _]]]. reflexivity. }
  unfold build. rewrite (single_bucket ms BChar Hne (Hb ms Hall)), (single_bucket ms' BChar Hne' (Hb ms' Hall')).
  cbn [finish_bucket]. rewrite (finish_string_function_of_members ms ms' Hne Hall Hall' Hcoll Hsame).
  split; [reflexivity|]. exists (finish_string ms'). split; [reflexivity|]. split; [reflexivity|].
  unfold finish_string. destruct ms' as [|v0 vs0]; [contradiction|]. cbv beta iota zeta. apply rep_equal_str_refl.
Qed.
