(* Proofs about Sys/Csv.v (property C13, CSV).  PARTIAL: see Properties/C13.v. *)
From Coq Require Import Lia.
From Arrai Require Import Base.Val Sys.Outcome Sys.Csv.

(* ---------- the quoting core ---------- *)
(* Doubling the quotes is inverted by the reader's quoted-field loop: for a
   field without a newline (so that it stays on one line), whatever it contains
   (quotes, commas, \r, spaces), the loop started inside the quotes on
   escape f ++ QUOTE :: tail  delivers exactly f and goes on after the closing
   quote.  The three possible continuations are the three lemmas below. *)

Lemma split_at_app_found c pre post :
  existsb (fun x => x =? c) pre = false -> split_at c (pre ++ c :: post) = (pre, Some post).
Proof.
  induction pre as [|x pre IH]; intros H; cbn [app split_at].
  - rewrite Z.eqb_refl. reflexivity.
  - cbn [existsb] in H. apply orb_false_elim in H. destruct H as [H1 H2].
    rewrite H1, (IH H2). reflexivity.
Qed.

(* longest quote-free prefix *)
Fixpoint span_nq (f : field) : field * field :=
  match f with
  | [] => ([], [])
  | c :: f' => if c =? QUOTE then ([], f) else let '(a, b) := span_nq f' in (c :: a, b)
  end.

Lemma span_nq_spec f : let '(a, b) := span_nq f in
  f = a ++ b /\ existsb (fun x => x =? QUOTE) a = false /\
  escape f = a ++ escape b /\ (length b <= length f)%nat /\
  match b with [] => True | c :: _ => c = QUOTE end.
Proof.
  induction f as [|c f IH]; cbn [span_nq].
  - repeat split; reflexivity || exact I || lia.
  - destruct (c =? QUOTE) eqn:E.
    + apply Z.eqb_eq in E. subst c. repeat split; reflexivity || lia.
    + destruct (span_nq f) as [a b]. destruct IH as [H1 [H2 [H3 [H4 H5]]]].
      repeat split.
      * cbn [app]. rewrite <- H1. reflexivity.
      * cbn [existsb]. rewrite E, H2. reflexivity.
      * cbn [escape app]. rewrite E, H3. reflexivity.
      * cbn [length]. lia.
      * exact H5.
Qed.

Definition after_quote (fuel : nat) (buf : list Z) (tail rest : list Z) (acc : record) : res (record * list Z) :=
  match tail with
  | [] => Ok (acc ++ [buf], rest)
  | c :: l'' =>
      if c =? QUOTE then parse fuel (Some (buf ++ [QUOTE])) l'' rest acc
      else if c =? COMMA then parse fuel None l'' rest (acc ++ [buf])
      else if (c =? NL) && match l'' with [] => true | _ => false end
           then Ok (acc ++ [buf], rest) else Err
  end.

Lemma quoted_core : forall n f fuel buf tail rest acc,
  (length f <= n)%nat -> (n < fuel)%nat ->
  match tail with c :: _ => c <> QUOTE | [] => True end ->
  exists fuel', (fuel' < fuel)%nat /\ (fuel - fuel' <= S (length f))%nat /\
  parse fuel (Some buf) (escape f ++ QUOTE :: tail) rest acc = after_quote fuel' (buf ++ f) tail rest acc.
Proof.
  induction n as [|n IH]; intros f fuel buf tail rest acc Hn Hf Ht.
  - destruct f; [|cbn in Hn; lia]. destruct fuel as [|fuel]; [lia|].
    exists fuel. split; [lia|]. split; [cbn [length]; lia|].
    cbn [escape app parse split_at]. rewrite Z.eqb_refl. rewrite !app_nil_r.
    unfold after_quote. reflexivity.
  - pose proof (span_nq_spec f) as S. destruct (span_nq f) as [a b]. destruct S as [S1 [S2 [S3 [S4 S5]]]].
    destruct fuel as [|fuel]; [lia|].
    destruct b as [|c b].
    + (* no quote in f *)
      rewrite app_nil_r in S1. subst a. cbn [escape] in S3. rewrite app_nil_r in S3.
      exists fuel. split; [lia|]. split; [lia|].
      cbn [parse]. rewrite S3, (split_at_app_found QUOTE f tail S2). unfold after_quote. reflexivity.
    + subst c. cbn [escape] in S3. rewrite Z.eqb_refl in S3.
      assert (Lb : (length b <= n)%nat).
      { rewrite S1 in Hn. rewrite app_length in Hn. cbn [length] in Hn. lia. }
      destruct (IH b fuel ((buf ++ a) ++ [QUOTE]) tail rest acc Lb ltac:(lia) Ht) as [fuel' [F1 [F2 F3]]].
      exists fuel'. split; [lia|]. split.
      { rewrite S1, app_length. cbn [length]. lia. }
      cbn [parse]. rewrite S3. rewrite <- app_assoc. cbn [app].
      rewrite (split_at_app_found QUOTE a (QUOTE :: escape b ++ QUOTE :: tail) S2).
      rewrite Z.eqb_refl. rewrite F3. rewrite S1. rewrite <- !app_assoc. reflexivity.
Qed.

(* ---------- bounded exhaustive check of the whole pipeline and of the guard ---------- *)
Fixpoint fields_upto (alpha : list Z) (n : nat) : list field :=
  match n with
  | O => [[]]
  | S k => [] :: flat_map (fun c => map (cons c) (fields_upto alpha k)) alpha
  end.

Fixpoint recs_eqb (a b : list record) : bool :=
  match a, b with
  | [], [] => true
  | x :: a', y :: b' =>
      (fix go (x y : record) : bool :=
         match x, y with
         | [], [] => true
         | f :: x', g :: y' => zs_eqb f g && go x' y'
         | _, _ => false
         end) x y && recs_eqb a' b'
  | _, _ => false
  end.

(* the guard is exact: inside it the matrix comes back, outside it does not *)
Definition rt_exact (m : list record) : bool :=
  match csv_decode (csv_encode m) with
  | Ok m' => Bool.eqb (recs_eqb m m') (csv_ok m)
  | Err => negb (csv_ok m)
  | _ => false
  end.

Definition alphabet : list Z := [97; QUOTE; COMMA; NL; CR; 32].
Definition small_fields : list field := fields_upto alphabet 2.
Definition scope : list (list record) :=
  map (fun f => [[f]]) (fields_upto alphabet 4) ++
  flat_map (fun f => map (fun g => [[f; g]]) small_fields) small_fields ++
  flat_map (fun f => map (fun g => [[f]; [g]]) small_fields) small_fields ++
  flat_map (fun f => map (fun g => [[f; g]; [g; f]]) small_fields) small_fields ++
  flat_map (fun f => map (fun g => [[f; g]; []; [g]]) small_fields) small_fields ++
  flat_map (fun f => map (fun g => [[f]; [g; f]]) small_fields) small_fields.

Lemma q_csv_empty_input_rejected_refuted :
  csv_encode [] = [] /\ csv_decode_arg true (csv_encode []) = Err /\ csv_decode_arg false (csv_encode []) = Ok [].
Proof. vm_compute. repeat split; reflexivity. Qed.

Lemma csv_roundtrip_bounded : forallb rt_exact scope = true.
Proof. vm_compute. reflexivity. Qed.
