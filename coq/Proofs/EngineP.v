(* Proofs about the engine model (Sys/Engine.v): for the repaired model
   (quirks off), over all histories, all evaluation oracles, all callbacks and
   all enumeration orders of the watcher map. *)
From Coq Require Import List ZArith Bool Lia Permutation.
From Arrai Require Import Sys.Engine.
Import ListNotations.
Open Scope Z_scope.

Section EngineP.
  Variables V E : Type.
  Variable eval : E -> V -> eres V.
  Variable ord : nat -> list (watcher V E) -> list (watcher V E).
  Hypothesis ord_perm : forall n l, Permutation (ord n l) l.

  Notation watcher := (watcher V E).
  Notation event := (event V E).
  Notation state := (state V E).
  Notation w_id := (w_id V E).
  Notation w_expr := (w_expr V E).
  Notation w_cb := (w_cb V E).
  Notation w_n := (w_n V E).
  Notation mkW := (mkW V E).
  Notation bump := (bump V E).
  Notation tag := (tag V E).
  Notation obs_trace := (obs_trace V).
  Notation deliver := (deliver V E eval).
  Notation w_update := (w_update V E eval).
  Notation notify := (notify V E eval).
  Notation close_all := (close_all V E).
  Notation has_id := (has_id V E).
  Notation remove_id := (remove_id V E).
  Notation step := (step V E eval ord).
  Notation run := (run V E eval ord).
  Notation spec_step := (spec_step V E eval).
  Notation spec_trace_from := (spec_trace_from V E eval).
  Notation spec_trace := (spec_trace V E eval).
  Notation spec_acks := (spec_acks V E eval).
  Notation spec_db := (spec_db V E eval).
  Notation db_step := (db_step V E eval).
  Notation is_stop := (is_stop V E).
  Notation erase_others := (erase_others V E).
  Notation concerns := (concerns V E).
  Notation off := quirks17_off.
  Notation ids := (map w_id).

  (* ---------- traces ---------- *)
  Lemma obs_trace_app : forall i a b, obs_trace i (a ++ b) = obs_trace i a ++ obs_trace i b.
  Proof. intros; unfold Engine.obs_trace; now rewrite filter_app, map_app. Qed.

  Lemma obs_trace_tag : forall i w ms, obs_trace i (tag w ms) = if w_id w =? i then ms else [].
  Proof.
    intros i w ms; unfold Engine.obs_trace, Engine.tag.
    induction ms as [|m ms IH]; simpl.
    - now destruct (w_id w =? i).
    - destruct (w_id w =? i) eqn:Hi; simpl; [now rewrite IH | exact IH].
  Qed.

  Lemma obs_flat_notin : forall (f : watcher -> list (msg V)) l i,
      ~ In i (ids l) -> obs_trace i (flat_map (fun x => tag x (f x)) l) = [].
  Proof.
    intros f l i; induction l as [|a l IH]; simpl; intros H; [reflexivity|].
    rewrite obs_trace_app, obs_trace_tag.
    destruct (Z.eqb_spec (w_id a) i) as [Heq|Hne]; [exfalso; apply H; now left|].
    simpl; apply IH; intros Hin; apply H; now right.
  Qed.

  Lemma obs_flat_in : forall (f : watcher -> list (msg V)) l w,
      NoDup (ids l) -> In w l -> obs_trace (w_id w) (flat_map (fun x => tag x (f x)) l) = f w.
  Proof.
    intros f l w; induction l as [|a l IH]; simpl; intros ND Hin; [contradiction|].
    inversion ND as [|x xs Hnot ND']; subst.
    rewrite obs_trace_app, obs_trace_tag.
    destruct Hin as [->|Hin].
    - rewrite Z.eqb_refl, obs_flat_notin by assumption. apply app_nil_r.
    - destruct (Z.eqb_spec (w_id a) (w_id w)) as [Heq|Hne].
      + exfalso; apply Hnot; rewrite Heq; now apply in_map.
      + simpl; now apply IH.
  Qed.

  (* ---------- watcher.update and the notification loop, repaired ---------- *)
  Definition keeps (db : V) (w : watcher) : bool :=
    match snd (deliver (w_expr w) (w_cb w) (w_n w) db) with OLive _ _ _ _ _ => true | ONone _ _ => false end.
  Definition msgs (db : V) (w : watcher) : list (msg V) := fst (deliver (w_expr w) (w_cb w) (w_n w) db).

  Lemma w_update_off : forall w db,
      w_update off w db = (msgs db w, if keeps db w then UKeep V E (bump w) else URemove V E).
  Proof.
    intros w db; unfold Engine.w_update, keeps, msgs, Engine.deliver; simpl.
    destruct (eval (w_expr w) db) as [v| |]; simpl; try reflexivity.
    destruct (w_cb w (w_n w) v); reflexivity.
  Qed.

  Definition surv (db : V) (l : list watcher) : list watcher :=
    flat_map (fun w => if keeps db w then [bump w] else []) l.

  Lemma notify_off : forall db l,
      notify off db l = (flat_map (fun w => tag w (msgs db w)) l, surv db l, false).
  Proof.
    intros db l; induction l as [|w l IH]; simpl; [reflexivity|].
    rewrite w_update_off, IH. unfold surv. cbn [flat_map]. destruct (keeps db w); reflexivity.
  Qed.

  Lemma ids_surv_incl : forall db l i, In i (ids (surv db l)) -> In i (ids l).
  Proof.
    intros db l i; induction l as [|w l IH]; simpl; [tauto|].
    unfold surv; simpl. rewrite map_app, in_app_iff. intros [H|H].
    - destruct (keeps db w); simpl in H; [destruct H as [H|[]]; now left | contradiction].
    - right; now apply IH.
  Qed.

  Lemma NoDup_surv : forall db l, NoDup (ids l) -> NoDup (ids (surv db l)).
  Proof.
    intros db l; induction l as [|w l IH]; simpl; intros ND; [constructor|].
    inversion ND as [|x xs Hnot ND']; subst.
    unfold surv; simpl. destruct (keeps db w); simpl.
    - constructor; [|now apply IH]. intros Hin; apply Hnot. now apply ids_surv_incl in Hin.
    - now apply IH.
  Qed.

  Lemma In_surv : forall db l w, In w l -> keeps db w = true -> In (bump w) (surv db l).
  Proof.
    intros db l w; induction l as [|a l IH]; simpl; intros Hin K; [contradiction|].
    unfold surv; simpl. apply in_or_app. destruct Hin as [->|Hin].
    - left. rewrite K. now left.
    - right. now apply IH.
  Qed.

  Lemma notin_surv : forall db l w, NoDup (ids l) -> In w l -> keeps db w = false -> ~ In (w_id w) (ids (surv db l)).
  Proof.
    intros db l w; induction l as [|a l IH]; simpl; intros ND Hin K; [contradiction|].
    inversion ND as [|x xs Hnot ND']; subst.
    unfold surv; simpl. rewrite map_app, in_app_iff. destruct Hin as [->|Hin].
    - rewrite K. simpl. intros [[]|H]. apply Hnot. now apply ids_surv_incl in H.
    - intros [H|H].
      + destruct (keeps db a); simpl in H; [|contradiction]. destruct H as [H|[]].
        apply Hnot. rewrite H. now apply in_map.
      + revert H. now apply IH.
  Qed.

  (* ---------- the map ---------- *)
  Lemma has_id_In : forall i l, has_id i l = true <-> In i (ids l).
  Proof.
    intros i l; unfold Engine.has_id. rewrite existsb_exists, in_map_iff. split.
    - intros [w [Hin Hw]]. exists w. split; [now apply Z.eqb_eq|assumption].
    - intros [w [Hw Hin]]. exists w. split; [assumption|now apply Z.eqb_eq].
  Qed.

  Lemma In_remove_id : forall i l w, In w (remove_id i l) <-> In w l /\ w_id w <> i.
  Proof.
    intros i l w; unfold Engine.remove_id. rewrite filter_In.
    destruct (Z.eqb_spec (w_id w) i); simpl; intuition congruence.
  Qed.

  Lemma ids_remove_id : forall i l j, In j (ids (remove_id i l)) <-> In j (ids l) /\ j <> i.
  Proof.
    intros i l j. rewrite !in_map_iff. split.
    - intros [w [Hw Hin]]. apply In_remove_id in Hin. destruct Hin as [Hin Hne]. subst j. split; [now exists w|assumption].
    - intros [[w [Hw Hin]] Hne]. exists w. split; [assumption|]. apply In_remove_id. subst j. now split.
  Qed.

  Lemma NoDup_remove_id : forall i l, NoDup (ids l) -> NoDup (ids (remove_id i l)).
  Proof.
    intros i l; induction l as [|w l IH]; simpl; intros ND; [constructor|].
    inversion ND as [|x xs Hnot ND']; subst.
    destruct (negb (w_id w =? i)); simpl; [|now apply IH].
    constructor; [|now apply IH]. intros Hin. apply ids_remove_id in Hin. tauto.
  Qed.

  Lemma ord_In : forall n l w, In w (ord n l) <-> In w l.
  Proof.
    intros n l w; split; apply Permutation_in; [apply ord_perm | apply Permutation_sym, ord_perm].
  Qed.
  Lemma ord_ids : forall n l i, In i (ids (ord n l)) <-> In i (ids l).
  Proof.
    intros n l i; split; apply Permutation_in; [|apply Permutation_sym]; apply Permutation_map, ord_perm.
  Qed.
  Lemma ord_NoDup : forall n l, NoDup (ids l) -> NoDup (ids (ord n l)).
  Proof.
    intros n l ND. eapply Permutation_NoDup; [|exact ND]. apply Permutation_sym, Permutation_map, ord_perm.
  Qed.

  Lemma obs_close_all_notin : forall l i, ~ In i (ids l) -> obs_trace i (close_all l) = [].
  Proof. intros l i H. exact (obs_flat_notin (fun _ => [MClose true]) l i H). Qed.
  Lemma obs_close_all_in : forall l w, NoDup (ids l) -> In w l -> obs_trace (w_id w) (close_all l) = [MClose true].
  Proof. intros l w ND H. exact (obs_flat_in (fun _ => [MClose true]) l w ND H). Qed.
  Arguments Engine.close_all : simpl never.

  (* ---------- one step of the repaired loop refines one step of the specification ---------- *)
  Definition Inv (i : Z) (st : state) (o : ostate V E) : Prop :=
    NoDup (ids (s_ws V E st)) /\
    match o with
    | OLive _ _ e cb n => In (mkW i e cb n) (s_ws V E st)
    | ONone _ _ => ~ In i (ids (s_ws V E st))
    end.

  Definition ack_of (db : V) (ev : event) : ack :=
    match ev with
    | Update e => AUpd (match eval e db with EVal _ => true | _ => false end)
    | _ => ADone
    end.

  Lemma deliver_shape : forall e cb n db,
      snd (deliver e cb n db) = OLive V E e cb (S n) \/ snd (deliver e cb n db) = ONone V E.
  Proof.
    intros; unfold Engine.deliver. destruct (eval e db); simpl; [destruct (cb n v)| |]; auto.
  Qed.

  Lemma step_refines : forall i st o ev,
      s_status V E st = Running -> Inv i st o ->
      let st' := step off st ev in
      obs_trace i (s_trace V E st') = obs_trace i (s_trace V E st) ++ fst (spec_step i (s_db V E st) o ev)
      /\ Inv i st' (snd (spec_step i (s_db V E st) o ev))
      /\ s_db V E st' = db_step (s_db V E st) ev
      /\ s_status V E st' = (if is_stop ev then Stopped else Running)
      /\ s_acks V E st' = s_acks V E st ++ [ack_of (s_db V E st) ev].
  Proof.
    intros i st o ev HR [ND Ho]. destruct st as [db ws stt tr acks n]. simpl in *. subst stt.
    destruct ev as [e | j ex cb | j | | ]; unfold Engine.step; simpl.
    - (* Update *)
      destruct (eval e db) as [v| |] eqn:Ev; simpl.
      2,3: rewrite app_nil_r; (unfold Inv; simpl; repeat split); assumption.
      + rewrite notify_off. simpl. rewrite obs_trace_app.
        pose proof (ord_NoDup n ws ND) as NDo.
        destruct o as [|ex cb k]; simpl.
        * rewrite obs_flat_notin by (now rewrite ord_ids). (unfold Inv; simpl; repeat split); auto using NoDup_surv.
          intros Hin. apply ids_surv_incl in Hin. now apply ord_ids in Hin.
        * pose proof (proj2 (ord_In n ws _) Ho) as Hin.
          pose proof (obs_flat_in (msgs v) _ _ NDo Hin) as Hm. simpl in Hm. rewrite Hm.
          (unfold Inv; simpl; repeat split); auto using NoDup_surv.
          destruct (deliver_shape ex cb k v) as [Hs|Hs]; rewrite Hs.
          -- apply (In_surv v _ _ Hin). unfold keeps; simpl. now rewrite Hs.
          -- apply (notin_surv v _ _ NDo Hin). unfold keeps; simpl. now rewrite Hs.
    - (* Observe *)
      rewrite w_update_off. unfold msgs; simpl.
      pose proof (NoDup_remove_id j ws ND) as NDr.
      assert (Hfresh : ~ In j (ids (remove_id j ws))) by (rewrite ids_remove_id; tauto).
      destruct (Z.eqb_spec j i) as [->|Hne].
      + destruct (keeps db (mkW i ex cb 0)) eqn:K; simpl; rewrite obs_trace_app, obs_trace_tag; simpl; rewrite Z.eqb_refl;
          unfold keeps in K; simpl in K;
          (destruct (deliver_shape ex cb 0%nat db) as [Hs|Hs]; rewrite Hs in K; try discriminate K); rewrite Hs;
          (unfold Inv; simpl; repeat split); auto; constructor; assumption.
      + assert (Ho' : forall w', w_id w' = j -> match o with
                                 | OLive _ _ e0 cb0 n0 => In (mkW i e0 cb0 n0) (w' :: remove_id j ws)
                                 | ONone _ _ => ~ In i (ids (w' :: remove_id j ws)) end).
        { intros w' Hw'. destruct o as [|e0 cb0 n0].
          - simpl. rewrite ids_remove_id. intros [H|[H _]]; [congruence|contradiction].
          - right. apply In_remove_id. split; [assumption|simpl; congruence]. }
        assert (Ho0 : match o with
                      | OLive _ _ e0 cb0 n0 => In (mkW i e0 cb0 n0) (remove_id j ws)
                      | ONone _ _ => ~ In i (ids (remove_id j ws)) end).
        { destruct o as [|e0 cb0 n0].
          - rewrite ids_remove_id. tauto.
          - apply In_remove_id. split; [assumption|simpl; congruence]. }
        destruct (keeps db (mkW j ex cb 0)); simpl; rewrite obs_trace_app, obs_trace_tag; simpl;
          (destruct (Z.eqb_spec j i); [contradiction|]); rewrite app_nil_r; (unfold Inv; simpl; repeat split); auto.
        * constructor; assumption.
        * exact (Ho' (bump (mkW j ex cb 0)) eq_refl).
    - (* Cancel *)
      destruct (has_id j ws) eqn:Hh; simpl.
      + apply has_id_In in Hh. rewrite obs_trace_app. unfold Engine.obs_trace at 2; simpl.
        destruct (Z.eqb_spec j i) as [->|Hne]; simpl.
        * destruct o as [|e0 cb0 n0]; [contradiction|]. simpl.
          (unfold Inv; simpl; repeat split); auto using NoDup_remove_id. rewrite ids_remove_id. tauto.
        * rewrite app_nil_r. (unfold Inv; simpl; repeat split); auto using NoDup_remove_id.
          destruct o as [|e0 cb0 n0].
          -- rewrite ids_remove_id. tauto.
          -- apply In_remove_id. split; [assumption|simpl; congruence].
      + assert (Hno : ~ In j (ids ws)) by (intros H; apply has_id_In in H; congruence).
        destruct (Z.eqb_spec j i) as [->|Hne]; simpl.
        * destruct o as [|e0 cb0 n0]; simpl.
          -- rewrite app_nil_r. (unfold Inv; simpl; repeat split); auto.
          -- exfalso. apply Hno. now apply (in_map w_id) in Ho.
        * rewrite app_nil_r. (unfold Inv; simpl; repeat split); auto.
    - (* Hangup *)
      rewrite obs_trace_app.
      pose proof (ord_NoDup n ws ND) as NDo.
      destruct o as [|e0 cb0 n0]; simpl.
      + rewrite obs_close_all_notin by (now rewrite ord_ids). (unfold Inv; simpl; repeat split); auto; constructor.
      + pose proof (proj2 (ord_In n ws _) Ho) as Hin.
        pose proof (obs_close_all_in _ _ NDo Hin) as Hm. simpl in Hm. rewrite Hm.
        (unfold Inv; simpl; repeat split); auto; constructor.
    - (* Stop *)
      rewrite obs_trace_app.
      pose proof (ord_NoDup n ws ND) as NDo.
      destruct o as [|e0 cb0 n0]; simpl.
      + rewrite obs_close_all_notin by (now rewrite ord_ids). (unfold Inv; simpl; repeat split); auto; constructor.
      + pose proof (proj2 (ord_In n ws _) Ho) as Hin.
        pose proof (obs_close_all_in _ _ NDo Hin) as Hm. simpl in Hm. rewrite Hm.
        (unfold Inv; simpl; repeat split); auto; constructor.
  Qed.

  (* once the loop is gone nothing is delivered and nothing is answered *)
  Lemma dead_forever : forall q h st, s_status V E st <> Running ->
      let st' := fold_left (step q) h st in
      s_trace V E st' = s_trace V E st /\ s_db V E st' = s_db V E st /\ s_status V E st' = s_status V E st
      /\ s_acks V E st' = s_acks V E st ++ map (fun _ => ANone) h.
  Proof.
    intros q h; induction h as [|ev h IH]; intros st Hs; simpl.
    - rewrite app_nil_r; auto.
    - assert (Hstep : step q st ev = mkS V E (s_db V E st) (s_ws V E st) (s_status V E st) (s_trace V E st)
                                         (s_acks V E st ++ [ANone]) (S (s_step V E st))).
      { unfold Engine.step. destruct (s_status V E st); try reflexivity. congruence. }
      assert (Hs' : s_status V E (step q st ev) <> Running) by (rewrite Hstep; exact Hs).
      specialize (IH _ Hs'). cbv zeta in IH. destruct IH as (A & B & C & D).
      rewrite A, B, C, D, Hstep. simpl. repeat split; auto.
      rewrite <- app_assoc. reflexivity.
  Qed.

  Lemma run_refines_from : forall i h st o,
      s_status V E st = Running -> Inv i st o ->
      let st' := fold_left (step off) h st in
      obs_trace i (s_trace V E st') = obs_trace i (s_trace V E st) ++ spec_trace_from i (s_db V E st) o h
      /\ s_db V E st' = spec_db (s_db V E st) h
      /\ s_status V E st' = (if existsb is_stop h then Stopped else Running)
      /\ s_acks V E st' = s_acks V E st ++ spec_acks (s_db V E st) h.
  Proof.
    intros i h; induction h as [|ev h IH]; intros st o HR HI; simpl.
    - rewrite !app_nil_r. auto.
    - destruct (step_refines i st o ev HR HI) as (T & I' & D & S & A).
      destruct (spec_step i (s_db V E st) o ev) as [ms o'] eqn:Hsp. simpl in T, I'.
      destruct (is_stop ev) eqn:Hstop.
      + assert (Hd : s_status V E (step off st ev) <> Running) by (rewrite S; discriminate).
        destruct (dead_forever off h _ Hd) as (T2 & D2 & S2 & A2).
        rewrite T2, D2, S2, A2, T, D, S, A, app_nil_r, <- app_assoc. simpl.
        repeat split; auto.
        destruct ev; simpl in Hstop; try discriminate. reflexivity.
      + destruct (IH _ _ S I') as (T2 & D2 & S2 & A2).
        rewrite T2, D2, S2, A2, T, D, A, <- !app_assoc. simpl.
        repeat split; auto.
  Qed.

  (* ---------- the theorems, for the repaired model ---------- *)
  Lemma Inv_init : forall i db0, Inv i (init V E db0) (ONone V E).
  Proof. intros; split; simpl; [constructor|tauto]. Qed.

  Theorem refinement_off : forall db0 h,
      (forall i, obs_trace i (s_trace V E (run off db0 h)) = spec_trace i db0 h)
      /\ s_db V E (run off db0 h) = spec_db db0 h
      /\ s_acks V E (run off db0 h) = spec_acks db0 h
      /\ s_status V E (run off db0 h) = (if existsb is_stop h then Stopped else Running).
  Proof.
    intros db0 h.
    assert (H : forall i, _) by (intros i; exact (run_refines_from i h (init V E db0) (ONone V E) eq_refl (Inv_init i db0))).
    simpl in H. repeat split.
    - intros i. now destruct (H i) as (T & _).
    - now destruct (H 0) as (_ & D & _).
    - now destruct (H 0) as (_ & _ & _ & A).
    - now destruct (H 0) as (_ & _ & S & _).
  Qed.

  Lemma spec_acks_answered : forall h db, existsb is_stop h = false -> Forall2 (answered V E) h (spec_acks db h).
  Proof.
    induction h as [|ev h IH]; intros db Hs; simpl; [constructor|].
    simpl in Hs. apply orb_false_iff in Hs. destruct Hs as [Hs1 Hs2]. rewrite Hs1.
    constructor; [|now apply IH].
    destruct ev; simpl; eauto.
  Qed.

  Theorem never_wedges_off : forall db0 h,
      s_status V E (run off db0 h) <> Wedged /\ s_status V E (run off db0 h) <> Crashed
      /\ (existsb is_stop h = false ->
          s_status V E (run off db0 h) = Running /\ Forall2 (answered V E) h (s_acks V E (run off db0 h))).
  Proof.
    intros db0 h. destruct (refinement_off db0 h) as (_ & _ & A & S).
    rewrite S, A. destruct (existsb is_stop h) eqn:Hs; repeat split; try discriminate.
    now apply spec_acks_answered.
  Qed.

  (* the specification of one observer does not look at the others *)
  Lemma spec_trace_erase : forall i h db o,
      spec_trace_from i db o (erase_others i h) = spec_trace_from i db o h.
  Proof.
    intros i h; induction h as [|ev h IH]; intros db o; simpl; [reflexivity|].
    destruct (concerns i ev) eqn:C; simpl.
    - destruct (spec_step i db o ev) as [ms o']. destruct (is_stop ev); [reflexivity|]. now rewrite IH.
    - destruct ev as [e|j ex cb|j| |]; simpl in C; try discriminate; simpl; rewrite C; simpl; apply IH.
  Qed.

  Theorem isolation_off : forall db0 i h h',
      erase_others i h = erase_others i h' ->
      obs_trace i (s_trace V E (run off db0 h)) = obs_trace i (s_trace V E (run off db0 h')).
  Proof.
    intros db0 i h h' He.
    destruct (refinement_off db0 h) as (T & _). destruct (refinement_off db0 h') as (T' & _).
    rewrite T, T'. unfold Engine.spec_trace. now rewrite <- (spec_trace_erase i h), <- (spec_trace_erase i h'), He.
  Qed.

  (* ---------- closed at most once, and nothing after the close ---------- *)
  Notation closed_once := (closed_once V).
  Notation observes := (observes V E).

  Lemma spec_none_silent : forall i h db,
      existsb (observes i) h = false -> spec_trace_from i db (ONone V E) h = [].
  Proof.
    intros i h; induction h as [|ev h IH]; intros db Hn; simpl; [reflexivity|].
    simpl in Hn. apply orb_false_iff in Hn. destruct Hn as [Hev Hh].
    assert (Hst : spec_step i db (ONone V E) ev = ([], ONone V E)).
    { destruct ev as [e|j ex cb|j| |]; simpl in *; try reflexivity.
      - destruct (eval e db); reflexivity.
      - now rewrite Hev.
      - destruct (j =? i); reflexivity. }
    rewrite Hst. simpl. destruct (is_stop ev); [reflexivity|]. now apply IH.
  Qed.

  Lemma deliver_good : forall e cb n db,
      match snd (deliver e cb n db) with
      | OLive _ _ _ _ _ => exists v, fst (deliver e cb n db) = [MUpdate v]
      | ONone _ _ => closed_once (fst (deliver e cb n db)) = true
      end.
  Proof.
    intros; unfold Engine.deliver. destruct (eval e db) as [v| |]; simpl; try reflexivity.
    destruct (cb n v); simpl; eauto.
  Qed.

  Lemma closed_once_after : forall (ms : list (msg V)) (o' : ostate V E) (rest : list (msg V)),
      match o' with
      | OLive _ _ _ _ _ => ms = [] \/ exists v, ms = [MUpdate v]
      | ONone _ _ => closed_once ms = true
      end ->
      (match o' with OLive _ _ _ _ _ => closed_once rest = true | ONone _ _ => rest = [] end) ->
      closed_once (ms ++ rest) = true.
  Proof.
    intros ms o' rest Hms Hrest. destruct o' as [|e cb n].
    - subst rest. now rewrite app_nil_r.
    - destruct Hms as [->|[v ->]]; simpl; assumption.
  Qed.

  Lemma spec_step_good : forall i db o ev, observes i ev = false ->
      match snd (spec_step i db o ev) with
      | OLive _ _ _ _ _ => fst (spec_step i db o ev) = [] \/ exists v, fst (spec_step i db o ev) = [MUpdate v]
      | ONone _ _ => closed_once (fst (spec_step i db o ev)) = true
      end.
  Proof.
    intros i db o ev Hev. destruct ev as [e|j ex cb|j| |]; simpl in *.
    - destruct (eval e db) as [v| |]; simpl.
      + destruct o as [|ex cb n]; simpl; [reflexivity|].
        pose proof (deliver_good ex cb n v) as G. destruct (snd (deliver ex cb n v)); [assumption|]. now right.
      + destruct o; simpl; auto.
      + destruct o; simpl; auto.
    - rewrite Hev. simpl. destruct o; simpl; auto.
    - destruct (j =? i); destruct o; simpl; auto.
    - destruct o; reflexivity.
    - destruct o; reflexivity.
  Qed.

  Lemma spec_closed_once_from : forall i h db o,
      existsb (observes i) h = false -> closed_once (spec_trace_from i db o h) = true.
  Proof.
    intros i h; induction h as [|ev h IH]; intros db o Hn; simpl; [reflexivity|].
    simpl in Hn. apply orb_false_iff in Hn. destruct Hn as [Hev Hh].
    pose proof (spec_step_good i db o ev Hev) as G.
    destruct (spec_step i db o ev) as [ms o'] eqn:Hst. simpl in G.
    apply (closed_once_after ms o'); [exact G|].
    destruct (is_stop ev).
    - destruct o'; reflexivity.
    - destruct o'; [now apply spec_none_silent | now apply IH].
  Qed.

  (* an id subscribed at most once in the history *)
  Fixpoint observed_once (i : Z) (h : list event) : bool :=
    match h with
    | [] => true
    | ev :: t => if observes i ev then negb (existsb (observes i) t) else observed_once i t
    end.

  Lemma spec_closed_once : forall i h db,
      observed_once i h = true -> closed_once (spec_trace_from i db (ONone V E) h) = true.
  Proof.
    intros i h; induction h as [|ev h IH]; intros db Ho; simpl; [reflexivity|].
    simpl in Ho. destruct (observes i ev) eqn:Hev.
    - apply negb_true_iff in Ho.
      destruct ev as [e|j ex cb|j| |]; simpl in Hev; try discriminate.
      simpl. rewrite Hev.
      pose proof (deliver_good ex cb 0%nat db) as G.
      destruct (deliver ex cb 0%nat db) as [ms o'] eqn:Hd. simpl in G.
      apply (closed_once_after ms o').
      + destruct o'; [assumption|]. now right.
      + destruct o'; [now apply spec_none_silent | now apply spec_closed_once_from].
    - assert (Hst : spec_step i db (ONone V E) ev = ([], ONone V E)).
      { destruct ev as [e|j ex cb|j| |]; simpl in *; try reflexivity.
        - destruct (eval e db); reflexivity.
        - now rewrite Hev.
        - destruct (j =? i); reflexivity. }
      rewrite Hst. simpl. destruct (is_stop ev); [reflexivity|]. now apply IH.
  Qed.

  Theorem closed_once_off : forall db0 h i,
      observed_once i h = true -> closed_once (obs_trace i (s_trace V E (run off db0 h))) = true.
  Proof.
    intros db0 h i Ho. destruct (refinement_off db0 h) as (T & _). rewrite T. now apply spec_closed_once.
  Qed.

  (* database and answers do not look at the observers at all *)
  Definition is_obs_event (ev : event) : bool :=
    match ev with Observe _ _ _ | Cancel _ | Hangup => true | _ => false end.
  Lemma spec_db_no_observers : forall h db, spec_db db (filter (fun ev => negb (is_obs_event ev)) h) = spec_db db h.
  Proof.
    induction h as [|ev h IH]; intros db; simpl; [reflexivity|].
    destruct ev; simpl; try apply IH. reflexivity.
  Qed.
End EngineP.

(* ---------- the same theorems for every quirk setting, under the guard
   "this run's observables are those of the repaired model" ---------- *)
Section Guarded.
  Variables V E : Type.
  Variable eval : E -> V -> eres V.
  Variable ord : nat -> list (watcher V E) -> list (watcher V E).
  Hypothesis ord_perm : forall n l, Permutation (ord n l) l.
  Variable q : Quirks17.
  Variable db0 : V.
  Variable h : list (event V E).
  Hypothesis guard : observables V E (run V E eval ord q db0 h) = observables V E (run V E eval ord quirks17_off db0 h).

  Lemma guard_proj :
    s_status V E (run V E eval ord q db0 h) = s_status V E (run V E eval ord quirks17_off db0 h)
    /\ s_acks V E (run V E eval ord q db0 h) = s_acks V E (run V E eval ord quirks17_off db0 h)
    /\ s_trace V E (run V E eval ord q db0 h) = s_trace V E (run V E eval ord quirks17_off db0 h)
    /\ s_db V E (run V E eval ord q db0 h) = s_db V E (run V E eval ord quirks17_off db0 h).
  Proof. unfold observables in guard. inversion guard. auto. Qed.

  Theorem never_wedges_q :
    s_status V E (run V E eval ord q db0 h) <> Wedged /\ s_status V E (run V E eval ord q db0 h) <> Crashed
    /\ (existsb (is_stop V E) h = false ->
        s_status V E (run V E eval ord q db0 h) = Running
        /\ Forall2 (answered V E) h (s_acks V E (run V E eval ord q db0 h))).
  Proof.
    destruct guard_proj as (S & A & _ & _). rewrite S, A. exact (never_wedges_off V E eval ord ord_perm db0 h).
  Qed.

  Theorem refinement_q :
    (forall i, obs_trace V i (s_trace V E (run V E eval ord q db0 h)) = spec_trace V E eval i db0 h)
    /\ s_db V E (run V E eval ord q db0 h) = spec_db V E eval db0 h
    /\ s_acks V E (run V E eval ord q db0 h) = spec_acks V E eval db0 h
    /\ s_status V E (run V E eval ord q db0 h) = (if existsb (is_stop V E) h then Stopped else Running).
  Proof.
    destruct guard_proj as (S & A & T & D). rewrite S, A, T, D. exact (refinement_off V E eval ord ord_perm db0 h).
  Qed.
End Guarded.

Theorem isolation_q : forall V E eval ord, (forall n l, Permutation (ord n l) l) ->
  forall q db0 i h h',
    observables V E (run V E eval ord q db0 h) = observables V E (run V E eval ord quirks17_off db0 h) ->
    observables V E (run V E eval ord q db0 h') = observables V E (run V E eval ord quirks17_off db0 h') ->
    erase_others V E i h = erase_others V E i h' ->
    obs_trace V i (s_trace V E (run V E eval ord q db0 h)) = obs_trace V i (s_trace V E (run V E eval ord q db0 h')).
Proof.
  intros V E eval ord Hp q db0 i h h' G G' He.
  destruct (guard_proj V E eval ord q db0 h G) as (_ & _ & T & _).
  destruct (guard_proj V E eval ord q db0 h' G') as (_ & _ & T' & _).
  rewrite T, T'. now apply isolation_off.
Qed.

(* the enumeration order of the watcher map is unobservable per observer *)
Theorem order_irrelevant_off : forall V E eval ord ord',
  (forall n l, Permutation (ord n l) l) -> (forall n l, Permutation (ord' n l) l) ->
  forall db0 h i,
    obs_trace V i (s_trace V E (run V E eval ord quirks17_off db0 h)) =
    obs_trace V i (s_trace V E (run V E eval ord' quirks17_off db0 h))
    /\ s_acks V E (run V E eval ord quirks17_off db0 h) = s_acks V E (run V E eval ord' quirks17_off db0 h).
Proof.
  intros V E eval ord ord' Hp Hp' db0 h i.
  destruct (refinement_off V E eval ord Hp db0 h) as (T & _ & A & _).
  destruct (refinement_off V E eval ord' Hp' db0 h) as (T' & _ & A' & _).
  now rewrite T, T', A, A'.
Qed.

(* ---------- witnesses on the concrete instance ---------- *)
Definition ord_id : nat -> list (watcher cval cexpr) -> list (watcher cval cexpr) := fun _ l => l.
Lemma ord_id_perm : forall n l, Permutation (ord_id n l) l.
Proof. intros; apply Permutation_refl. Qed.
Definition crun (q : Quirks17) (h : list (event cval cexpr)) := run cval cexpr ceval ord_id q None h.
Definition only_cancel_from_loop := mkQ17 true false false.
Definition only_double_cancel := mkQ17 false true false.
Definition only_update_panic := mkQ17 false false true.
Definition quirks17_all := mkQ17 true true true.

(* KF-C17-01: one observer whose expression fails; the next Update is never answered *)
Definition wit_expr_fails : list (event cval cexpr) := [Observe 1 CFail (cb_of None); Update (CConst 1)].
(* same defect, second call site: the observer's callback returns an error *)
Definition wit_cb_fails : list (event cval cexpr) :=
  [Observe 1 CRoot (cb_of (Some 1%nat)); Update (CConst 1); Update (CConst 2)].
(* KF-C17-02: the cancel function called twice *)
Definition wit_double_cancel : list (event cval cexpr) :=
  [Observe 1 CRoot (cb_of None); Cancel 1; Cancel 1; Update (CConst 1)].
(* the same nil dereference: cancel after hang-up *)
Definition wit_cancel_after_hangup : list (event cval cexpr) :=
  [Observe 1 CRoot (cb_of None); Hangup; Cancel 1].

Lemma cancel_from_loop_refuted :
  s_status _ _ (crun only_cancel_from_loop wit_expr_fails) = Wedged
  /\ s_acks _ _ (crun only_cancel_from_loop wit_expr_fails) = [ADone; ANone]
  /\ ~ Forall2 (answered cval cexpr) wit_expr_fails (s_acks _ _ (crun only_cancel_from_loop wit_expr_fails)).
Proof.
  repeat split; try (vm_compute; reflexivity).
  intros H. vm_compute in H. inversion H as [|? ? ? ? _ H2]; subst. inversion H2 as [|? ? ? ? H3 _]; subst.
  destruct H3 as [b Hb]. discriminate Hb.
Qed.

Lemma cancel_from_loop_refuted_callback :
  s_status _ _ (crun only_cancel_from_loop wit_cb_fails) = Wedged
  /\ s_acks _ _ (crun only_cancel_from_loop wit_cb_fails) = [ADone; AUpd true; ANone].
Proof. split; vm_compute; reflexivity. Qed.

Lemma double_cancel_refuted :
  s_status _ _ (crun only_double_cancel wit_double_cancel) = Crashed
  /\ s_acks _ _ (crun only_double_cancel wit_double_cancel) = [ADone; ADone; ADone; ANone]
  /\ s_status _ _ (crun only_double_cancel wit_cancel_after_hangup) = Crashed.
Proof. repeat split; vm_compute; reflexivity. Qed.

(* the repaired model on the same witnesses *)
Lemma witnesses_repaired :
  s_acks _ _ (crun quirks17_off wit_expr_fails) = [ADone; AUpd true]
  /\ obs_trace _ 1 (s_trace _ _ (crun quirks17_off wit_expr_fails)) = [MClose false]
  /\ s_acks _ _ (crun quirks17_off wit_cb_fails) = [ADone; AUpd true; AUpd true]
  /\ obs_trace _ 1 (s_trace _ _ (crun quirks17_off wit_cb_fails)) = [MUpdate None; MUpdate (Some 1)]
  /\ s_acks _ _ (crun quirks17_off wit_double_cancel) = [ADone; ADone; ADone; AUpd true]
  /\ obs_trace _ 1 (s_trace _ _ (crun quirks17_off wit_double_cancel)) = [MUpdate None; MClose true].
Proof. repeat split; vm_compute; reflexivity. Qed.

(* non-vacuity: with every quirk on, a history with a failing update, two
   observers, a cancel and a hang-up stays inside the guard and is non-trivial *)
Definition wit_guarded : list (event cval cexpr) :=
  [Observe 1 CRoot (cb_of None); Update (CConst 5); Update CFail; Observe 2 (CAdd 1) (cb_of None);
   Update (CMulAdd 3); Cancel 1; Update (CAdd 1); Hangup; Update (CConst 2)].
Lemma guard_nonvacuous :
  observables _ _ (crun quirks17_all wit_guarded) = observables _ _ (crun quirks17_off wit_guarded)
  /\ s_acks _ _ (crun quirks17_all wit_guarded) = [ADone; AUpd true; AUpd false; ADone; AUpd true; ADone; AUpd true; ADone; AUpd true]
  /\ obs_trace _ 1 (s_trace _ _ (crun quirks17_all wit_guarded)) = [MUpdate None; MUpdate (Some 5); MUpdate (Some 53); MClose true]
  /\ obs_trace _ 2 (s_trace _ _ (crun quirks17_all wit_guarded)) = [MUpdate (Some 6); MUpdate (Some 54); MUpdate (Some 55); MClose true].
Proof. repeat split; vm_compute; reflexivity. Qed.

(* ---------- panics ---------- *)
Theorem closed_once_q : forall V E eval ord, (forall n l, Permutation (ord n l) l) ->
  forall q db0 h i,
    observables V E (run V E eval ord q db0 h) = observables V E (run V E eval ord quirks17_off db0 h) ->
    observed_once V E i h = true ->
    closed_once V (obs_trace V i (s_trace V E (run V E eval ord q db0 h))) = true.
Proof.
  intros V E eval ord Hp q db0 h i G Ho.
  destruct (guard_proj V E eval ord q db0 h G) as (_ & _ & T & _). rewrite T. now apply closed_once_off.
Qed.

(* KF-C17-03: an update expression whose evaluation panics *)
Definition wit_update_panics : list (event cval cexpr) :=
  [Observe 1 CRoot (cb_of None); Update CPanic; Update (CConst 1)].
Lemma update_panic_refuted :
  s_status _ _ (crun only_update_panic wit_update_panics) = Crashed
  /\ s_acks _ _ (crun only_update_panic wit_update_panics) = [ADone; ANone; ANone]
  /\ s_acks _ _ (crun quirks17_off wit_update_panics) = [ADone; AUpd false; AUpd true].
Proof. repeat split; vm_compute; reflexivity. Qed.

(* an observed expression that panics from some state on, and a callback that panics at its second delivery:
   closed once with the panic, dropped, the other observer and the later updates unaffected *)
Definition wit_observer_panics : list (event cval cexpr) :=
  [Update (CConst 1); Observe 1 (CPanicGt 1) (cb_of None); Observe 2 CRoot (cb_full None [1%nat]); Observe 3 CRoot (cb_of None);
   Update (CConst 2); Update (CConst 3); Update (CConst 4)].
Lemma observer_panics_repaired :
  obs_trace _ 1 (s_trace _ _ (crun quirks17_off wit_observer_panics)) = [MUpdate (Some 1); MClose false]
  /\ obs_trace _ 2 (s_trace _ _ (crun quirks17_off wit_observer_panics)) = [MUpdate (Some 1); MUpdate (Some 2); MClose false]
  /\ obs_trace _ 3 (s_trace _ _ (crun quirks17_off wit_observer_panics)) = [MUpdate (Some 1); MUpdate (Some 2); MUpdate (Some 3); MUpdate (Some 4)]
  /\ s_acks _ _ (crun quirks17_off wit_observer_panics) = [AUpd true; ADone; ADone; ADone; AUpd true; AUpd true; AUpd true].
Proof. repeat split; vm_compute; reflexivity. Qed.
(* the code before the in-loop-removal fix kept a watcher whose update panicked: closed again and again *)
Lemma observer_panics_old_code :
  obs_trace _ 1 (s_trace _ _ (crun only_cancel_from_loop wit_observer_panics)) = [MUpdate (Some 1); MClose false; MClose false; MClose false]
  /\ closed_once _ (obs_trace _ 1 (s_trace _ _ (crun only_cancel_from_loop wit_observer_panics))) = false.
Proof. split; vm_compute; reflexivity. Qed.
