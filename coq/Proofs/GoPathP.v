(* Facts about the byte-string path algebra of Sys/GoPath.v. *)
From Coq Require Import List ZArith Bool Lia.
From Arrai Require Import Sys.GoPath.
Import ListNotations.
Open Scope Z_scope.

(* ---------- string equality ---------- *)
Lemma str_eqb_eq : forall a b, str_eqb a b = true <-> a = b.
Proof.
  induction a as [|x a IH]; destruct b as [|y b]; simpl; split; intro H; try congruence; auto.
  - apply andb_true_iff in H. destruct H as [H1 H2]. apply Z.eqb_eq in H1. apply IH in H2. congruence.
  - inversion H; subst. rewrite Z.eqb_refl. simpl. apply IH. reflexivity.
Qed.

Lemma str_eqb_refl : forall a, str_eqb a a = true.
Proof. intro a. apply str_eqb_eq. reflexivity. Qed.

Lemma str_eqb_neq : forall a b, str_eqb a b = false <-> a <> b.
Proof.
  intros a b. split; intro H.
  - intro E. apply str_eqb_eq in E. congruence.
  - destruct (str_eqb a b) eqn:E; auto. apply str_eqb_eq in E. contradiction.
Qed.

Definition normal (s : str) : Prop := normalb s = true.
Definition dotdot (s : str) : Prop := s = sDotDot.
Definition seg_ok (s : str) : Prop := s <> [] /\ noslash s = true.

Lemma normal_seg_ok : forall s, normal s -> seg_ok s.
Proof.
  unfold normal, normalb, seg_ok. intros s H.
  repeat (apply andb_true_iff in H; destruct H as [H ?]).
  split; auto. destruct s; simpl in *; congruence.
Qed.

Lemma normal_not_dot : forall s, normal s -> str_eqb s sDot = false /\ str_eqb s sDotDot = false.
Proof.
  unfold normal, normalb. intros s H.
  repeat (apply andb_true_iff in H; destruct H as [H ?]).
  split; apply negb_true_iff; auto.
Qed.

Lemma dotdot_seg_ok : forall s, dotdot s -> seg_ok s.
Proof. intros s H. rewrite H. split; [discriminate | reflexivity]. Qed.

(* ---------- split / join ---------- *)
Lemma split_nonnil : forall s, split s <> [].
Proof.
  induction s as [|c t IH]; simpl; [discriminate|].
  destruct (Z.eqb c 47); [discriminate|]. destruct (split t); discriminate.
Qed.

Lemma split_noslash : forall s, Forall (fun x => noslash x = true) (split s).
Proof.
  induction s as [|c t IH]; simpl.
  - constructor; [reflexivity | constructor].
  - destruct (Z.eqb c 47) eqn:E.
    + constructor; [reflexivity | exact IH].
    + destruct (split t) as [|h r]; [constructor; [|constructor] |].
      * simpl. unfold is_sl. rewrite E. reflexivity.
      * inversion IH; subst. constructor; auto. simpl. unfold is_sl. rewrite E. simpl. assumption.
Qed.

Lemma split_app_slash : forall a b, split (a ++ 47 :: b) = split a ++ split b.
Proof.
  induction a as [|c a IH]; intro b; simpl.
  - reflexivity.
  - destruct (Z.eqb c 47).
    + rewrite IH. reflexivity.
    + rewrite IH. destruct (split a) as [|h r] eqn:E.
      * exfalso. exact (split_nonnil a E).
      * reflexivity.
Qed.

Lemma split_noslash_id : forall x, noslash x = true -> split x = [x].
Proof.
  induction x as [|c t IH]; simpl; intro H; [reflexivity|].
  apply andb_true_iff in H. destruct H as [H1 H2]. unfold is_sl in H1.
  apply negb_true_iff in H1. rewrite H1. rewrite (IH H2). reflexivity.
Qed.

Lemma split_join : forall l, l <> [] -> Forall (fun x => noslash x = true) l -> split (join l) = l.
Proof.
  induction l as [|x r IH]; intros Hn Hf; [congruence|].
  inversion Hf; subst. destruct r as [|y r'].
  - simpl. apply split_noslash_id. assumption.
  - change (join (x :: y :: r')) with (x ++ 47 :: join (y :: r')).
    rewrite split_app_slash. rewrite split_noslash_id by assumption.
    rewrite IH; [reflexivity | discriminate | assumption].
Qed.

Lemma join_split : forall s, join (split s) = s.
Proof.
  induction s as [|c t IH]; simpl; [reflexivity|].
  destruct (Z.eqb c 47) eqn:E.
  - apply Z.eqb_eq in E. subst c. destruct (split t) as [|h r] eqn:Es.
    + exfalso. exact (split_nonnil t Es).
    + change (join ([] :: h :: r)) with ([] ++ 47 :: join (h :: r)). rewrite IH. reflexivity.
  - destruct (split t) as [|h r] eqn:Es.
    + exfalso. exact (split_nonnil t Es).
    + destruct r as [|h2 r2].
      * simpl in *. congruence.
      * change (join ((c :: h) :: h2 :: r2)) with ((c :: h) ++ 47 :: join (h2 :: r2)).
        change (join (h :: h2 :: r2)) with (h ++ 47 :: join (h2 :: r2)) in IH.
        rewrite <- IH. reflexivity.
Qed.

Lemma join_cons : forall x r, r <> [] -> join (x :: r) = x ++ 47 :: join r.
Proof. intros x [|y r] H; [congruence | reflexivity]. Qed.

Lemma join_snoc_app : forall A x e, join (A ++ [x]) ++ e = join (A ++ [x ++ e]).
Proof.
  induction A as [|a A IH]; intros x e; [reflexivity|].
  rewrite <- !app_comm_cons.
  rewrite !join_cons by (destruct A; discriminate).
  rewrite <- app_assoc. simpl. rewrite IH. reflexivity.
Qed.

(* first and last byte of a join of proper segments are not '/' *)
Lemma seg_ok_head : forall x, seg_ok x -> exists c t, x = c :: t /\ is_sl c = false.
Proof.
  intros [|c t] [Hn Hs]; [congruence|]. simpl in Hs. apply andb_true_iff in Hs.
  destruct Hs as [H1 _]. apply negb_true_iff in H1. eauto.
Qed.

Lemma noslash_app : forall a b, noslash (a ++ b) = noslash a && noslash b.
Proof. intros. unfold noslash. apply forallb_app. Qed.

Lemma seg_ok_last : forall x, seg_ok x -> exists t c, x = t ++ [c] /\ is_sl c = false.
Proof.
  intros x [Hn Hs]. destruct (exists_last Hn) as [t [c E]]. subst x.
  rewrite noslash_app in Hs. apply andb_true_iff in Hs. destruct Hs as [_ H2].
  simpl in H2. rewrite andb_true_r in H2. apply negb_true_iff in H2. eauto.
Qed.

Lemma join_head : forall l, l <> [] -> Forall seg_ok l -> exists c t, join l = c :: t /\ is_sl c = false.
Proof.
  intros [|x r] Hn Hf; [congruence|]. inversion Hf; subst.
  destruct (seg_ok_head x H1) as [c [t [E Hc]]]. subst x.
  destruct r; simpl; eauto.
Qed.

Lemma join_last : forall l, l <> [] -> Forall seg_ok l -> exists t c, join l = t ++ [c] /\ is_sl c = false.
Proof.
  induction l as [|x r IH]; intros Hn Hf; [congruence|]. inversion Hf; subst.
  destruct r as [|y r'].
  - simpl. apply seg_ok_last. assumption.
  - destruct IH as [t [c [E Hc]]]; [discriminate | assumption |].
    change (join (x :: y :: r')) with (x ++ 47 :: join (y :: r')). rewrite E.
    exists (x ++ 47 :: t), c. split; [|assumption]. rewrite <- app_assoc. reflexivity.
Qed.

(* ---------- Trim ---------- *)
Lemma drop_while_snoc_keep : forall f l c, f c = false -> drop_while f (l ++ [c]) = drop_while f l ++ [c].
Proof.
  induction l as [|x l IH]; intros c Hc; simpl.
  - rewrite Hc. reflexivity.
  - destruct (f x); [apply IH; assumption | reflexivity].
Qed.

Lemma trim_ends_id : forall f c t t' c', f c = false -> f c' = false -> c :: t = t' ++ [c'] ->
  trim f (c :: t) = c :: t.
Proof.
  intros f c t t' c' Hc Hc' E. unfold trim. simpl. rewrite Hc.
  rewrite E. rewrite rev_app_distr. simpl. rewrite Hc'.
  simpl. rewrite rev_involutive. reflexivity.
Qed.

Lemma trim_slash_join : forall l, l <> [] -> Forall seg_ok l -> trim_slash (join l) = join l.
Proof.
  intros l Hn Hf. destruct (join_head l Hn Hf) as [c [t [E Hc]]].
  destruct (join_last l Hn Hf) as [t' [c' [E' Hc']]].
  rewrite E. unfold trim_slash. apply (trim_ends_id is_sl c t t' c'); auto. congruence.
Qed.

Lemma trim_drop_head : forall f d s, f d = true -> trim f (d :: s) = trim f s.
Proof. intros f d s H. unfold trim. simpl. rewrite H. reflexivity. Qed.

Lemma trim_slash_rooted_join : forall l, l <> [] -> Forall seg_ok l -> trim_slash (47 :: join l) = join l.
Proof.
  intros l Hn Hf. unfold trim_slash. rewrite trim_drop_head by reflexivity.
  apply trim_slash_join; assumption.
Qed.

Lemma trim_ws_rooted : forall t, exists t', trim_ws (47 :: t) = 47 :: t'.
Proof.
  intro t. unfold trim_ws, trim. simpl.
  rewrite drop_while_snoc_keep by reflexivity. rewrite rev_app_distr. simpl. eauto.
Qed.

Lemma has_prefix_slash : forall s, has_prefix [47] s = true -> exists t, s = 47 :: t.
Proof.
  intros [|c t] H; [discriminate|].
  unfold has_prefix in H. apply andb_true_iff in H. destruct H as [H _].
  apply Z.eqb_eq in H. subst. eauto.
Qed.

(* ---------- Clean ---------- *)
Lemma cstep_normal : forall r out x, normal x -> cstep r out x = x :: out.
Proof.
  intros r out x H. destruct (normal_not_dot x H) as [H1 H2].
  destruct (normal_seg_ok x H) as [Hn _].
  unfold cstep. destruct x; [congruence|]. rewrite H1, H2. reflexivity.
Qed.

Lemma fold_normals : forall r ns out, Forall normal ns -> fold_left (cstep r) ns out = rev ns ++ out.
Proof.
  induction ns as [|x ns IH]; intros out H; simpl; [reflexivity|].
  inversion H; subst. rewrite cstep_normal by assumption. rewrite IH by assumption.
  rewrite <- app_assoc. reflexivity.
Qed.

Lemma fold_dotdots : forall dd out, Forall dotdot dd -> Forall dotdot out ->
  fold_left (cstep false) dd out = rev dd ++ out.
Proof.
  induction dd as [|x dd IH]; intros out H Ho; simpl; [reflexivity|].
  inversion H; subst. unfold dotdot in H2. subst x.
  assert (E : cstep false out sDotDot = sDotDot :: out).
  { destruct out as [|top rest]; [reflexivity|]. inversion Ho; subst. unfold dotdot in H2. subst top. reflexivity. }
  rewrite E. rewrite IH; auto.
  - rewrite <- app_assoc. reflexivity.
  - constructor; [reflexivity | assumption].
Qed.

(* shape of the (reversed) stack: normal segments on top of kept ".."s; no ".." when rooted *)
Definition shape (r : bool) (out : list str) : Prop :=
  exists ns dd, out = ns ++ dd /\ Forall normal ns /\ Forall dotdot dd /\ (r = true -> dd = []).

Lemma classify_seg : forall x, noslash x = true -> x = [] \/ x = sDot \/ x = sDotDot \/ normal x.
Proof.
  intros x H. destruct x as [|c t]; [auto|]. right.
  destruct (str_eqb (c :: t) sDot) eqn:E1; [apply str_eqb_eq in E1; auto|].
  destruct (str_eqb (c :: t) sDotDot) eqn:E2; [apply str_eqb_eq in E2; auto|].
  right. right. unfold normal, normalb. rewrite E1, E2, H. reflexivity.
Qed.

Lemma cstep_shape : forall r out x, noslash x = true -> shape r out -> shape r (cstep r out x).
Proof.
  intros r out x Hx [ns [dd [E [Hns [Hdd Hr]]]]].
  destruct (classify_seg x Hx) as [H | [H | [H | H]]].
  - subst x. simpl. exists ns, dd. auto.
  - subst x. simpl. exists ns, dd. auto.
  - subst x. simpl. subst out. destruct ns as [|n ns'].
    + simpl. destruct dd as [|d dd'].
      * destruct r.
        -- exists [], []. repeat split; auto.
        -- exists [], [sDotDot]. repeat split; auto. constructor; [reflexivity | constructor]. intro; discriminate.
      * inversion Hdd; subst. unfold dotdot in H1. subst d. simpl.
        destruct r; [specialize (Hr eq_refl); discriminate|].
        exists [], (sDotDot :: sDotDot :: dd'). repeat split; auto.
        constructor; [reflexivity | assumption]. intro; discriminate.
    + simpl. inversion Hns; subst. destruct (normal_not_dot n H1) as [_ H3]. rewrite H3.
      exists ns', dd. auto.
  - rewrite cstep_normal by assumption. subst out. exists (x :: ns), dd. repeat split; auto.
Qed.

Lemma fold_shape : forall r segs out, Forall (fun x => noslash x = true) segs -> shape r out ->
  shape r (fold_left (cstep r) segs out).
Proof.
  induction segs as [|x segs IH]; intros out H Ho; simpl; [assumption|].
  inversion H; subst. apply IH; [assumption|]. apply cstep_shape; assumption.
Qed.

(* forward shape of the cleaned stack *)
Definition canonical (r : bool) (st : list str) : Prop :=
  exists dd ns, st = dd ++ ns /\ Forall dotdot dd /\ Forall normal ns /\ (r = true -> dd = []).

Lemma cstack_canonical : forall s, canonical (rooted s) (cstack s).
Proof.
  intro s. unfold cstack.
  destruct (fold_shape (rooted s) (split s) [] (split_noslash s)) as [ns [dd [E [Hns [Hdd Hr]]]]].
  { exists [], []. repeat split; auto. }
  rewrite E. rewrite rev_app_distr. exists (rev dd), (rev ns). repeat split.
  - apply Forall_rev. assumption.
  - apply Forall_rev. assumption.
  - intro H. rewrite (Hr H). reflexivity.
Qed.

Lemma canonical_seg_ok : forall r st, canonical r st -> Forall seg_ok st.
Proof.
  intros r st [dd [ns [E [Hdd [Hns _]]]]]. subst st. apply Forall_app. split.
  - eapply Forall_impl; [|exact Hdd]. apply dotdot_seg_ok.
  - eapply Forall_impl; [|exact Hns]. apply normal_seg_ok.
Qed.

Lemma canonical_app : forall r st ns, canonical r st -> Forall normal ns -> canonical r (st ++ ns).
Proof.
  intros r st ns [dd [ns0 [E [Hdd [Hns Hr]]]]] H. subst st. exists dd, (ns0 ++ ns).
  repeat split; auto. - rewrite app_assoc. reflexivity. - apply Forall_app. auto.
Qed.

Lemma seg_ok_noslash_all : forall l, Forall seg_ok l -> Forall (fun x => noslash x = true) l.
Proof. intros l H. eapply Forall_impl; [|exact H]. intros a [_ Ha]. exact Ha. Qed.

Lemma rooted_app : forall a b, a <> [] -> rooted (a ++ b) = rooted a.
Proof. intros [|c a] b H; [congruence | reflexivity]. Qed.

Lemma rooted_join : forall l, l <> [] -> Forall seg_ok l -> rooted (join l) = false.
Proof.
  intros l Hn Hf. destruct (join_head l Hn Hf) as [c [t [E Hc]]]. rewrite E. exact Hc.
Qed.

(* the stack of a clean path is the path's own segments: Clean is idempotent *)
Lemma fold_canonical : forall r st, canonical r st -> fold_left (cstep r) st [] = rev st.
Proof.
  intros r st [dd [ns [E [Hdd [Hns Hr]]]]]. subst st. rewrite fold_left_app.
  destruct r.
  - rewrite (Hr eq_refl). simpl. rewrite fold_normals by assumption. apply app_nil_r.
  - rewrite (fold_dotdots dd [] Hdd (Forall_nil _)). rewrite fold_normals by assumption.
    rewrite app_nil_r. rewrite rev_app_distr. reflexivity.
Qed.

Lemma cstack_render : forall r st, canonical r st -> cstack (render r st) = st /\ rooted (render r st) = r.
Proof.
  intros r st Hc. pose proof (canonical_seg_ok r st Hc) as Hok.
  destruct r.
  - unfold render, cstack. simpl rooted. split; [|reflexivity].
    change (split (47 :: join st)) with ([] :: split (join st)). simpl fold_left.
    destruct st as [|x st'].
    + reflexivity.
    + rewrite split_join; [| discriminate | apply seg_ok_noslash_all; assumption].
      rewrite (fold_canonical true) by assumption. apply rev_involutive.
  - unfold render. destruct st as [|x st'].
    + split; reflexivity.
    + assert (Hr : rooted (join (x :: st')) = false) by (apply rooted_join; [discriminate | assumption]).
      split; [|assumption]. unfold cstack. rewrite Hr.
      rewrite split_join; [| discriminate | apply seg_ok_noslash_all; assumption].
      rewrite (fold_canonical false) by assumption. apply rev_involutive.
Qed.

Lemma render_nonnil : forall r st, canonical r st -> render r st <> [].
Proof.
  intros r st Hc. unfold render. destruct r; [discriminate|].
  destruct st as [|x st']; [discriminate|].
  destruct (join_head (x :: st')) as [c [t [E _]]]; [discriminate | eapply canonical_seg_ok; eauto | congruence].
Qed.

Lemma clean_nonnil : forall s, clean s <> [].
Proof.
  intros [|c t]; [discriminate|]. unfold clean. apply render_nonnil. apply cstack_canonical.
Qed.

Lemma clean_render : forall s, s <> [] -> clean s = render (rooted s) (cstack s).
Proof. intros [|c t] H; [congruence | reflexivity]. Qed.

Lemma clean_idempotent : forall s, clean (clean s) = clean s.
Proof.
  intro s. destruct s as [|c t]; [reflexivity|].
  rewrite (clean_render (c :: t)) by discriminate.
  pose proof (cstack_canonical (c :: t)) as Hc.
  rewrite clean_render by (apply render_nonnil; assumption).
  destruct (cstack_render _ _ Hc) as [E1 E2]. rewrite E1, E2. reflexivity.
Qed.

(* cleaning d/n where n consists of normal segments only appends them to d's stack *)
Lemma cstack_app_normals : forall d ns, d <> [] -> ns <> [] -> Forall normal ns ->
  cstack (d ++ 47 :: join ns) = cstack d ++ ns.
Proof.
  intros d ns Hd Hn Hf. unfold cstack. rewrite rooted_app by assumption.
  rewrite split_app_slash. rewrite split_join; [| assumption |].
  - rewrite fold_left_app. rewrite fold_normals by assumption.
    rewrite rev_app_distr. rewrite rev_involutive. reflexivity.
  - eapply Forall_impl; [|exact Hf]. intros a Ha. apply (normal_seg_ok a Ha).
Qed.

(* insensitivity of Clean to spelling: "./" segments, repeated separators and x/../ detours *)
Lemma cstack_skip_dot : forall a b, a <> [] ->
  cstack (a ++ 47 :: 46 :: 47 :: b) = cstack (a ++ 47 :: b).
Proof.
  intros a b Ha. unfold cstack. rewrite !rooted_app by assumption.
  change (47 :: 46 :: 47 :: b) with (47 :: [46] ++ 47 :: b).
  rewrite !split_app_slash. rewrite !fold_left_app. reflexivity.
Qed.

Lemma cstack_skip_slash : forall a b, a <> [] ->
  cstack (a ++ 47 :: 47 :: b) = cstack (a ++ 47 :: b).
Proof.
  intros a b Ha. unfold cstack. rewrite !rooted_app by assumption.
  change (47 :: 47 :: b) with (47 :: [] ++ 47 :: b).
  rewrite !split_app_slash. rewrite !fold_left_app. reflexivity.
Qed.

Lemma cstack_skip_detour : forall a x b, a <> [] -> normal x ->
  cstack (a ++ 47 :: x ++ 47 :: 46 :: 46 :: 47 :: b) = cstack (a ++ 47 :: b).
Proof.
  intros a x b Ha Hx. unfold cstack. rewrite !rooted_app by assumption.
  change (47 :: 46 :: 46 :: 47 :: b) with (47 :: [46; 46] ++ 47 :: b).
  rewrite !split_app_slash. rewrite !fold_left_app.
  rewrite (split_noslash_id x) by (apply (normal_seg_ok x Hx)).
  simpl fold_left at 3. rewrite cstep_normal by assumption.
  simpl fold_left at 2. destruct (normal_not_dot x Hx) as [_ H2]. rewrite H2. reflexivity.
Qed.

(* ---------- the segment automaton ---------- *)
Inductive pst := S0 | S1 | S2 | SN | SBad.

Definition delta (st : pst) (c : Z) : pst :=
  match st with
  | SBad => SBad
  | S0 => if Z.eqb c 47 then SBad else if Z.eqb c 46 then S1 else SN
  | S1 => if Z.eqb c 47 then SBad else if Z.eqb c 46 then S2 else SN
  | S2 => if Z.eqb c 47 then SBad else SN
  | SN => if Z.eqb c 47 then S0 else SN
  end.

Fixpoint run (st : pst) (s : str) : pst :=
  match s with
  | [] => st
  | c :: t => run (delta st c) t
  end.

Definition pst_rank (st : pst) : nat :=
  match st with SBad => 0 | S0 => 1 | S1 => 2 | S2 => 3 | SN => 4 end%nat.
Definition ple (a b : pst) : Prop := (pst_rank a <= pst_rank b)%nat.

Lemma delta_mono : forall a b c, ple a b -> ple (delta a c) (delta b c).
Proof.
  intros a b c H. unfold ple in *.
  destruct a, b; simpl in *; try lia;
    destruct (Z.eqb c 47); destruct (Z.eqb c 46); simpl; lia.
Qed.

Lemma run_bad : forall s, run SBad s = SBad.
Proof. induction s; simpl; auto. Qed.

Lemma run_app : forall a b st, run st (a ++ b) = run (run st a) b.
Proof. induction a; intros; simpl; auto. Qed.

(* deleting "../" never turns an all-normal-segments path into one with a bad segment *)
Lemma strip_keeps_ok_len : forall n s a b, (length s <= n)%nat -> ple a b -> run a s = SN ->
  run b (strip_dotdotslash s) = SN.
Proof.
  induction n as [|n IH]; intros s a b Hl Hab Hr.
  - destruct s; [|simpl in Hl; lia]. simpl in *. subst a. unfold ple in Hab. destruct b; simpl in *; try lia. reflexivity.
  - destruct s as [|c t].
    + simpl in *. subst a. unfold ple in Hab. destruct b; simpl in *; try lia. reflexivity.
    + simpl strip_dotdotslash. destruct t as [|c2 [|c3 t']].
      * simpl in *. pose proof (delta_mono a b c Hab) as H. rewrite Hr in H.
        unfold ple in H. destruct (delta b c); simpl in *; try lia. reflexivity.
      * simpl. apply (IH [c2] (delta a c) (delta b c)); [simpl in *; lia | apply delta_mono; assumption | exact Hr].
      * destruct (Z.eqb c 46 && Z.eqb c2 46 && Z.eqb c3 47) eqn:E.
        -- apply andb_true_iff in E. destruct E as [E E3]. apply andb_true_iff in E. destruct E as [E1 E2].
           apply Z.eqb_eq in E1, E2, E3. subst c c2 c3.
           assert (Ha : run S0 t' = SN).
           { simpl in Hr. destruct a; simpl in Hr; rewrite ?run_bad in Hr; try discriminate; assumption. }
           assert (Hb : ple S0 b).
           { unfold ple in *. simpl in Hr.
             destruct a; simpl in Hr; rewrite ?run_bad in Hr; try discriminate; destruct b; simpl in *; lia. }
           apply (IH t' S0 b); [simpl in *; lia | exact Hb | exact Ha].
        -- change (run b (c :: strip_dotdotslash (c2 :: c3 :: t')) = SN).
           simpl run. apply (IH (c2 :: c3 :: t') (delta a c) (delta b c));
             [simpl in *; lia | apply delta_mono; assumption | exact Hr].
Qed.

Lemma strip_keeps_ok : forall s, run S0 s = SN -> run S0 (strip_dotdotslash s) = SN.
Proof. intros s H. apply (strip_keeps_ok_len (length s) s S0 S0); auto. unfold ple. lia. Qed.

Lemma run_SN_noslash : forall t, noslash t = true -> run SN t = SN.
Proof.
  induction t as [|c t IH]; simpl; intro H; [reflexivity|].
  apply andb_true_iff in H. destruct H as [H1 H2]. unfold is_sl in H1. apply negb_true_iff in H1.
  rewrite H1. apply IH. assumption.
Qed.

Lemma run_normal : forall x, normal x -> run S0 x = SN.
Proof.
  intros x H. destruct (normal_not_dot x H) as [H1 H2]. destruct (normal_seg_ok x H) as [Hn Hs].
  destruct x as [|c t]; [congruence|].
  simpl in Hs. apply andb_true_iff in Hs. destruct Hs as [Hc Ht]. unfold is_sl in Hc. apply negb_true_iff in Hc.
  simpl. rewrite Hc. destruct (Z.eqb c 46) eqn:Ec; [| apply run_SN_noslash; assumption].
  apply Z.eqb_eq in Ec. subst c.
  destruct t as [|c2 t2]; [simpl in H1; discriminate|].
  simpl in Ht. apply andb_true_iff in Ht. destruct Ht as [Hc2 Ht2]. unfold is_sl in Hc2. apply negb_true_iff in Hc2.
  simpl. rewrite Hc2. destruct (Z.eqb c2 46) eqn:Ec2; [| apply run_SN_noslash; assumption].
  apply Z.eqb_eq in Ec2. subst c2.
  destruct t2 as [|c3 t3]; [simpl in H2; discriminate|].
  simpl in Ht2. apply andb_true_iff in Ht2. destruct Ht2 as [Hc3 Ht3]. unfold is_sl in Hc3. apply negb_true_iff in Hc3.
  simpl. rewrite Hc3. apply run_SN_noslash; assumption.
Qed.

Lemma run_join_normals : forall ns, ns <> [] -> Forall normal ns -> run S0 (join ns) = SN.
Proof.
  induction ns as [|x r IH]; intros Hn Hf; [congruence|]. inversion Hf; subst.
  destruct r as [|y r'].
  - simpl. apply run_normal. assumption.
  - change (join (x :: y :: r')) with (x ++ 47 :: join (y :: r')).
    rewrite run_app. rewrite run_normal by assumption. simpl. apply IH; [discriminate | assumption].
Qed.

Definition headok (st : pst) (h : str) : Prop :=
  match st with
  | S0 => normal h
  | S1 => normal (46 :: h)
  | S2 => normal (46 :: 46 :: h)
  | SN => noslash h = true
  | SBad => False
  end.

Lemma normal_cons_other : forall c h, Z.eqb c 47 = false -> Z.eqb c 46 = false -> noslash h = true -> normal (c :: h).
Proof.
  intros c h E47 E46 Hh. unfold normal, normalb. simpl. rewrite E46. simpl.
  unfold is_sl. rewrite E47. simpl. exact Hh.
Qed.

Lemma normal_dot_other : forall c h, Z.eqb c 47 = false -> Z.eqb c 46 = false -> noslash h = true -> normal (46 :: c :: h).
Proof.
  intros c h E47 E46 Hh. unfold normal, normalb. simpl. rewrite E46. simpl.
  unfold is_sl. rewrite E47. simpl. exact Hh.
Qed.

Lemma normal_dotdot_any : forall c h, Z.eqb c 47 = false -> noslash h = true -> normal (46 :: 46 :: c :: h).
Proof.
  intros c h E47 Hh. unfold normal, normalb. simpl.
  unfold is_sl. rewrite E47. simpl. rewrite Hh. reflexivity.
Qed.

Lemma run_ok_split : forall s st, run st s = SN ->
  exists h r, split s = h :: r /\ headok st h /\ Forall normal r.
Proof.
  induction s as [|c t IH]; intros st H.
  - simpl in H. subst st. exists [], []. repeat split; auto.
  - simpl in H. simpl split. destruct (Z.eqb c 47) eqn:Ec.
    + assert (st = SN /\ delta st c = S0) as [Est Ed].
      { destruct st; simpl in H; rewrite ?Ec in H; rewrite ?run_bad in H; try discriminate.
        split; [reflexivity | simpl; rewrite Ec; reflexivity]. }
      subst st. rewrite Ed in H. destruct (IH S0 H) as [h [r [E [Hh Hr]]]].
      exists [], (split t). repeat split; auto. rewrite E. constructor; assumption.
    + destruct (IH (delta st c) H) as [h [r [E [Hh Hr]]]]. rewrite E.
      exists (c :: h), r. split; [reflexivity|]. split; [|assumption].
      destruct st; simpl in Hh; rewrite ?Ec in Hh; simpl.
      * destruct (Z.eqb c 46) eqn:E46.
        -- apply Z.eqb_eq in E46. subst c. exact Hh.
        -- apply normal_cons_other; assumption.
      * destruct (Z.eqb c 46) eqn:E46.
        -- apply Z.eqb_eq in E46. subst c. exact Hh.
        -- apply normal_dot_other; assumption.
      * apply normal_dotdot_any; assumption.
      * unfold is_sl. rewrite Ec. simpl. exact Hh.
      * exact Hh.
Qed.

Lemma run_ok_normals : forall s, run S0 s = SN -> split s <> [] /\ Forall normal (split s).
Proof.
  intros s H. destruct (run_ok_split s S0 H) as [h [r [E [Hh Hr]]]]. rewrite E.
  split; [discriminate | constructor; assumption].
Qed.
