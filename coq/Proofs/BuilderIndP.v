(* A nested induction principle for representations, and soundness of Equal, without any invariant, on "simple"
   representations: first-order ones and, hereditarily, arrays and generic sets of simple representations. *)
From Arrai Require Import Base.Val Spec.SetAlg Proofs.ValOrder Proofs.SetAlgP Proofs.CanonP Rep.Builder.
From Arrai Require Import Proofs.BuilderP Proofs.BuilderAllP Proofs.BuilderLeafP.

Section RepInd.
  Variable P : rep -> Prop.
  Hypothesis Hnum : forall n, P (RNum n).
  Hypothesis Htg : forall l, Forall (fun p : name * rep => P (snd p)) l -> P (RTupG l).
  Hypothesis Htc : forall a c, P (RTupChar a c).
  Hypothesis Htb : forall a c, P (RTupByte a c).
  Hypothesis Hti : forall a x, P x -> P (RTupItem a x).
  Hypothesis Hte : forall k v, P k -> P v -> P (RTupEntry k v).
  Hypothesis Hem : P REmpty.
  Hypothesis Htr : P RTrue.
  Hypothesis Hstr : forall o c h, P (RStr o c h).
  Hypothesis Hby : forall o b, P (RBytes o b).
  Hypothesis Harr : forall o cells c, Forall (fun x : option rep => match x with Some y => P y | None => True end) cells -> P (RArr o cells c).
  Hypothesis Hdict : forall es, Forall (fun e : rep * bool * list rep => P (fst (fst e)) /\ Forall P (snd e)) es -> P (RDict es).
  Hypothesis Hrel : forall ns rows, Forall (Forall P) rows -> P (RRel ns rows).
  Hypothesis Hgen : forall l, Forall P l -> P (RGen l).
  Hypothesis Huni : forall bs, Forall (fun b : list Z * rep => P (snd b)) bs -> P (RUnion bs).

  Fixpoint rep_ind' (r : rep) : P r :=
    match r with
    | RNum n => Hnum n
    | RTupG l =>
        Htg l ((fix go (l : list (name * rep)) : Forall (fun p : name * rep => P (snd p)) l :=
                  match l with
                  | [] => Forall_nil _
                  | (n, v) :: l' => Forall_cons (n, v) (rep_ind' v) (go l')
                  end) l)
    | RTupChar a c => Htc a c
    | RTupByte a c => Htb a c
    | RTupItem a x => Hti a x (rep_ind' x)
    | RTupEntry k v => Hte k v (rep_ind' k) (rep_ind' v)
    | REmpty => Hem
    | RTrue => Htr
    | RStr o c h => Hstr o c h
    | RBytes o b => Hby o b
    | RArr o cells c =>
        Harr o cells c ((fix go (l : list (option rep)) : Forall (fun x : option rep => match x with Some y => P y | None => True end) l :=
                           match l with
                           | [] => Forall_nil _
                           | Some y :: l' => Forall_cons (Some y) (rep_ind' y) (go l')
                           | None :: l' => Forall_cons None I (go l')
                           end) cells)
    | RDict es =>
        Hdict es ((fix go (l : list (rep * bool * list rep)) : Forall (fun e : rep * bool * list rep => P (fst (fst e)) /\ Forall P (snd e)) l :=
                     match l with
                     | [] => Forall_nil _
                     | (k, m, vs) :: l' =>
                         Forall_cons (k, m, vs)
                           (conj (rep_ind' k)
                                 ((fix gov (vs : list rep) : Forall P vs :=
                                     match vs with [] => Forall_nil _ | v :: vs' => Forall_cons v (rep_ind' v) (gov vs') end) vs))
                           (go l')
                     end) es)
    | RRel ns rows =>
        Hrel ns rows ((fix go (l : list (list rep)) : Forall (Forall P) l :=
                         match l with
                         | [] => Forall_nil _
                         | row :: l' =>
                             Forall_cons row
                               ((fix gov (vs : list rep) : Forall P vs :=
                                   match vs with [] => Forall_nil _ | v :: vs' => Forall_cons v (rep_ind' v) (gov vs') end) row)
                               (go l')
                         end) rows)
    | RGen l =>
        Hgen l ((fix gov (vs : list rep) : Forall P vs :=
                   match vs with [] => Forall_nil _ | v :: vs' => Forall_cons v (rep_ind' v) (gov vs') end) l)
    | RUnion bs =>
        Huni bs ((fix go (l : list (list Z * rep)) : Forall (fun b : list Z * rep => P (snd b)) l :=
                    match l with
                    | [] => Forall_nil _
                    | (k, s) :: l' => Forall_cons (k, s) (rep_ind' s) (go l')
                    end) bs)
    end.
End RepInd.

Fixpoint simple (r : rep) : bool :=
  match r with
  | RNum _ | RTupChar _ _ | RTupByte _ _ | REmpty | RTrue | RStr _ _ _ | RBytes _ _ => true
  | RTupItem _ x => simple x
  | RTupEntry k v => simple k && simple v
  | RArr _ cells _ => forallb (fun o => match o with Some x => simple x | None => true end) cells
  | RGen l => forallb simple l
  | _ => false
  end.

Lemma simple_sound a : simple a = true -> forall b, rep_equal a b = true -> abs a = abs b.
Proof.
  induction a using rep_ind'; cbn [simple]; intros Hl w Heq; try discriminate; destruct w; cbn [rep_equal] in Heq; try discriminate.
  - apply num_eq_eq in Heq. subst. reflexivity.
  - apply andb_true_iff in Heq. destruct Heq as [H1 H2]. apply Z.eqb_eq in H1. apply Z.eqb_eq in H2. subst. reflexivity.
  - apply andb_true_iff in Heq. destruct Heq as [H1 H2]. apply Z.eqb_eq in H1. apply Z.eqb_eq in H2. subst. reflexivity.
  - apply andb_true_iff in Heq. destruct Heq as [H1 H2]. apply Z.eqb_eq in H1. subst. cbn [abs]. rewrite (IHa Hl _ H2). reflexivity.
  - apply andb_true_iff in Hl. destruct Hl as [Hk Hv]. apply andb_true_iff in Heq. destruct Heq as [H1 H2].
    cbn [abs]. rewrite (IHa1 Hk _ H1), (IHa2 Hv _ H2). reflexivity.
  - reflexivity.
  - reflexivity.
  - apply andb_true_iff in Heq. destruct Heq as [H12 H3]. apply andb_true_iff in H12. destruct H12 as [H1 H2].
    apply Z.eqb_eq in H1. apply zlist_eq_eq in H3. subst. reflexivity.
  - apply andb_true_iff in Heq. destruct Heq as [H1 H2]. apply Z.eqb_eq in H1. apply zlist_eq_eq in H2. subst. reflexivity.
  - (* arrays: cell by cell *)
    apply andb_true_iff in Heq. destruct Heq as [H123 Hgo]. apply andb_true_iff in H123. destruct H123 as [H12 _].
    apply andb_true_iff in H12. destruct H12 as [Hlen Ho]. apply Z.eqb_eq in Ho. subst off. apply Nat.eqb_eq in Hlen.
    cbn [abs]. f_equal. f_equal.
    revert cells0 Hlen Hgo. induction cells as [|cl cells IHc]; intros [|cl' cells'] Hlen Hgo; cbn [length] in Hlen; try discriminate; [reflexivity|].
    inversion H as [|? ? Hc Hcs]; subst. cbn [forallb] in Hl. apply andb_true_iff in Hl. destruct Hl as [Hlc Hlcs].
    cbn [map]. destruct cl as [x|], cl' as [y|]; try discriminate.
    + apply andb_true_iff in Hgo. destruct Hgo as [Hxy Hrest]. cbn [option_map]. rewrite (Hc Hlc _ Hxy). f_equal.
      apply (IHc Hcs Hlcs cells'); [inversion Hlen; reflexivity|exact Hrest].
    + cbn [option_map]. f_equal. apply (IHc Hcs Hlcs cells'); [inversion Hlen; reflexivity|exact Hgo].
  - (* generic sets: mutual inclusion *)
    apply andb_true_iff in Heq. destruct Heq as [H12 H3]. apply andb_true_iff in H12. destruct H12 as [_ H2].
    cbn [abs]. apply mkset_ext. intros v. rewrite !in_map_iff.
    rewrite forallb_forall in H2, H3, Hl. rewrite Forall_forall in H. split.
    + intros [x [<- Hx]]. pose proof (H2 x Hx) as Hex. apply existsb_exists in Hex. destruct Hex as [y [Hy Hxy]].
      exists y. split; [symmetry; apply (H x Hx (Hl x Hx) y Hxy)|exact Hy].
    + intros [y [<- Hy]]. pose proof (H3 y Hy) as Hex. apply existsb_exists in Hex. destruct Hex as [x [Hx Hxy]].
      exists x. split; [apply (H x Hx (Hl x Hx) y Hxy)|exact Hx].
Qed.

Definition all_simple (ms : list rep) : Prop := forall x, component ms x -> simple x = true.

Theorem build_simple_denotes_members ms r :
  build ms = BOk r -> wf_members ms -> all_simple ms -> abs r = mkset (map abs ms).
Proof.
  intros Hb Hw Hf. apply (build_denotes_members ms r Hb Hw).
  intros x y Hx Hy Heq. apply (simple_sound x (Hf x Hx) y Heq).
Qed.
