(* The compatible closure read right to left: simultaneous rewrites preserve meaning in both directions. *)
From Arrai Require Import Base.Val Spec.SetAlg Eval.Interp Eval.Rewrite Proofs.FuelP Proofs.RelValP Proofs.CongrP.

Scheme crel_m := Minimality for crel Sort Prop
with cstep_m := Minimality for cstep Sort Prop
with crel_list_m := Minimality for crel_list Sort Prop
with crel_attrs_m := Minimality for crel_attrs Sort Prop
with crel_opt_m := Minimality for crel_opt Sort Prop
with crel_opts_m := Minimality for crel_opts Sort Prop
with crel_pairs_m := Minimality for crel_pairs Sort Prop
with crel_parms_m := Minimality for crel_parms Sort Prop
with prel_m := Minimality for prel Sort Prop
with irel_m := Minimality for irel Sort Prop
with irel_list_m := Minimality for irel_list Sort Prop
with irel_attrs_m := Minimality for irel_attrs Sort Prop
with irel_entries_m := Minimality for irel_entries Sort Prop.

Section Flip.
Variable R : expr -> expr -> Prop.
Definition flipR : expr -> expr -> Prop := fun a b => R b a.

Lemma crel_flip e e' : crel R e e' -> crel flipR e' e.
Proof.
  apply (crel_m R
           (fun a b => crel flipR b a) (fun a b => cstep flipR b a) (fun a b => crel_list flipR b a)
           (fun a b => crel_attrs flipR b a) (fun a b => crel_opt flipR b a) (fun a b => crel_opts flipR b a)
           (fun a b => crel_pairs flipR b a) (fun a b => crel_parms flipR b a) (fun a b => prel flipR b a)
           (fun a b => irel flipR b a) (fun a b => irel_list flipR b a) (fun a b => irel_attrs flipR b a)
           (fun a b => irel_entries flipR b a)); intros; try (constructor; assumption).
Qed.
End Flip.

(* any number of meaning-preserving rewrites at once: the two programs have exactly the same function-free answers *)
Theorem rewrites_everywhere_data (R : expr -> expr -> Prop) : (forall e e', R e e' -> same_meaning e e') ->
  forall e e', crel R e e' -> same_data_meaning e e'.
Proof.
  intros HR e e' Hc rho r Hr. split; intros [n Hn].
  - destruct (rewrites_everywhere R HR e e' Hc rho n) as [m Hm]; [rewrite Hn; apply data_answer_not_oof, Hr|].
    exists m. rewrite Hn in Hm. eapply related_data_answer; eassumption.
  - assert (HR' : forall a b, flipR R a b -> same_meaning a b) by (intros a b Hab; apply same_meaning_sym, HR, Hab).
    destruct (rewrites_everywhere (flipR R) HR' e' e (crel_flip R e e' Hc) rho n) as [m Hm];
      [rewrite Hn; apply data_answer_not_oof, Hr|].
    exists m. rewrite Hn in Hm. eapply related_data_answer; eassumption.
Qed.

Theorem documented_rewrites_everywhere_data e e' : crel documented e e' -> same_data_meaning e e'.
Proof. apply rewrites_everywhere_data. exact documented_same_meaning. Qed.
