(* A dict literal whose keys are literals with pairwise different values has the same meaning as its spelled-out
   set of tuples, so the sugar may be spelled out at every position (property C08). *)
From Arrai Require Import Base.Val Spec.SetAlg Eval.Interp Eval.Rewrite Proofs.FuelP Proofs.SugarP Proofs.RelValP Proofs.CongrP.

Lemma literal_keys_never_clash l k rho : distinct_literal_keys l -> ~ dict_keys_clash (S k) rho l.
Proof.
  intros Hd (l1 & p & l2 & q & l3 & a & -> & Hp & Hq).
  destruct (Hd l1 p l2 q l3 eq_refl) as (x & y & Ex & Ey & Hne).
  rewrite Ex in Hp. rewrite Ey in Hq. cbn [eval evalF] in Hp, Hq. congruence.
Qed.

Theorem dict_literal_same_meaning l : distinct_literal_keys l -> same_meaning (EDictE l) (spell_dict l).
Proof.
  intros Hd. apply (fuel_same_meaning _ _ 2 3). intros k rho.
  destruct (dict_literal_spelled k rho l) as [E|(_ & _ & Hc)]; [exact E|].
  exfalso. exact (literal_keys_never_clash l k rho Hd Hc).
Qed.

Theorem dict_sugar_at_position l : distinct_literal_keys l ->
  forall C, same_data_meaning (plug C (EDictE l)) (plug C (spell_dict l)).
Proof. intros Hd. apply rewrite_at_position_data, dict_literal_same_meaning, Hd. Qed.
