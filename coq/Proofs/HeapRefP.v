(* The steps of the heap model (Sys/Heap.v, property C03) compute the cell-level functions whose
   refinement to the mathematical with / without is proved in Rep/SeqRep.v (property C01):
   whatever storage a derivation shares or copies, the new value denotes exactly
   with_cells / without_cells of its parent's cells. *)
From Arrai Require Import Base.Val Sys.Heap Rep.SeqRep.
From Coq Require Import ZifyBool ZifyNat.

Lemma skipn_skipn' {A} (a b : nat) (l : list A) : skipn a (skipn b l) = skipn (b + a) l.
Proof.
  revert l; induction b as [|b IH]; intros l; simpl; [reflexivity|].
  destruct l as [|x l]; [destruct a; reflexivity | apply IH].
Qed.

Lemma trim_front_skipn c off :
  exists k, (k <= length c)%nat /\ trim_front c off = (skipn k c, off + Z.of_nat k).
Proof.
  unfold trim_front. revert off; induction c as [|x c IH]; intros off.
  - exists 0%nat. simpl. split; [lia | f_equal; lia].
  - simpl. destruct (x <? 0).
    + destruct (IH (off + 1)) as (k & Hk & E). exists (S k). split; [simpl; lia|].
      rewrite E. simpl. f_equal. lia.
    + exists 0%nat. split; [lia|]. simpl. f_equal. lia.
Qed.

Lemma rev_skipn_firstn {A} k (l : list A) : (k <= length l)%nat -> rev (skipn k (rev l)) = firstn (length l - k) l.
Proof.
  intros Hk. rewrite <- (firstn_skipn (length l - k) l) at 1. rewrite rev_app_distr.
  assert (E : length (rev (skipn (length l - k) l)) = k) by (rewrite rev_length, skipn_length; lia).
  rewrite <- E at 1. rewrite skipn_app, skipn_all, Nat.sub_diag. simpl. apply rev_involutive.
Qed.

Lemma trim_back_firstn c : exists m, (m <= length c)%nat /\ trim_back c = firstn m c.
Proof.
  unfold trim_back. destruct (trim_front_skipn (rev c) 0) as (k & Hk & E). rewrite E. simpl.
  rewrite rev_length in Hk. exists (length c - k)%nat. split; [lia|]. apply rev_skipn_firstn, Hk.
Qed.

Lemma cells_alloc h c off : den (fst (alloc h c off)) (snd (alloc h c off)) = (off, c).
Proof.
  unfold alloc, den, cells. simpl. rewrite app_nth2, Nat.sub_diag by lia. simpl. rewrite firstn_all. reflexivity.
Qed.

(* a window of a window *)
Lemma window_of_window {A} (arr : list A) start len k m :
  (k + m <= len)%nat ->
  firstn m (skipn k (firstn len (skipn start arr))) = firstn m (skipn (start + k) arr).
Proof.
  intros H. rewrite skipn_firstn_comm, skipn_skipn', firstn_firstn. f_equal. lia.
Qed.

Theorem step_without_denotes b h vals p v at_ char :
  nth_error vals p = Some v ->
  let st' := step b (h, vals) (OWithout p at_ char) in
  exists v', snd st' = vals ++ [v'] /\
    den (fst st') v' = (snd (without_cells (cells h v) (s_off v) at_ char), fst (without_cells (cells h v) (s_off v) at_ char)).
Proof.
  intros Hp. cbn [step]. rewrite Hp. unfold without_cells.
  set (c := cells h v). set (i := at_ - s_off v).
  destruct ((0 <=? i) && (i <? Z.of_nat (length c)) && (nth (Z.to_nat i) c (-1) =? char) && (0 <=? char)) eqn:Ecnd.
  2: { eexists. split; [reflexivity|]. reflexivity. }
  destruct ((i =? 0) || (i =? Z.of_nat (length c) - 1)) eqn:Eend.
  2: { pose proof (cells_alloc h (set_nth (Z.to_nat i) (-1) c) (s_off v)) as Ha.
       destruct (alloc h (set_nth (Z.to_nat i) (-1) c) (s_off v)) as [h' v'] eqn:Eal. simpl in Ha.
       exists v'. split; [reflexivity|]. simpl. exact Ha. }
  (* re-slice: the new window is the trimmed list *)
  apply andb_true_iff in Ecnd as [Ecnd _]. apply andb_true_iff in Ecnd as [Ecnd _]. apply andb_true_iff in Ecnd as [E0 Elen].
  set (c1 := if i =? 0 then tl c else removelast c).
  set (off1 := if i =? 0 then s_off v + 1 else s_off v).
  destruct (trim_front_skipn c1 off1) as (k & Hk & Etf). rewrite Etf.
  destruct (trim_back_firstn (skipn k c1)) as (m & Hm & Etb).
  eexists. split; [reflexivity|]. cbn [fst snd]. unfold den. cbn [s_off]. f_equal.
  unfold cells. cbn [s_arr s_start s_len]. fold c. rewrite Etb.
  rewrite skipn_length in Hm.
  assert (Hoff : Z.to_nat (off1 + Z.of_nat k - off1) = k) by lia. rewrite Hoff.
  rewrite firstn_length, skipn_length. 
  unfold c, cells in *. set (arr := nth (s_arr v) h []) in *. set (len := s_len v) in *. set (start := s_start v) in *.
  destruct (i =? 0) eqn:Ei.
  - (* first cell removed: c1 = tl c = skipn 1 c *)
    assert (Ec1 : c1 = skipn 1 (firstn len (skipn start arr))) by (unfold c1; destruct (firstn len (skipn start arr)); reflexivity).
    rewrite Ec1 in *. rewrite skipn_length in *. rewrite skipn_skipn'.
    rewrite Nat.min_l by lia.
    rewrite (window_of_window arr start len (1 + k) m) by (rewrite firstn_length, skipn_length in *; lia).
    reflexivity.
  - (* last cell removed: c1 = removelast c = firstn (length c - 1) c *)
    assert (Ec1 : c1 = firstn (length (firstn len (skipn start arr)) - 1) (firstn len (skipn start arr))).
    { unfold c1. rewrite removelast_firstn_len, Nat.sub_1_r. reflexivity. }
    rewrite Ec1 in *.
    set (C := firstn len (skipn start arr)) in *.
    assert (HL : (length C <= len)%nat) by (unfold C; rewrite firstn_length; lia).
    assert (HL2 : (length C <= length (skipn start arr))%nat) by (unfold C; rewrite firstn_length; lia).
    assert (EC : firstn (length C - 1) C = firstn (length C - 1) (skipn start arr))
      by (unfold C at 2; rewrite firstn_firstn; f_equal; lia).
    rewrite EC in *. rewrite firstn_length in Hk, Hm.
    rewrite firstn_length, Nat.min_l by lia.
    rewrite (window_of_window arr start (length C - 1) k m) by lia.
    replace (start + (0 + k))%nat with (start + k)%nat by lia. reflexivity.
Qed.

Lemma set_nth_same_value n (l : list Z) x : nth_error l n = Some x -> set_nth n x l = l.
Proof.
  revert n; induction l as [|y l IH]; intros n; destruct n; simpl; try discriminate.
  - intros [= <-]. reflexivity.
  - intros H. rewrite (IH n H). reflexivity.
Qed.

Theorem step_with_denotes h vals p v at_ char :
  nth_error vals p = Some v -> cells h v <> [] ->
  let st' := step false (h, vals) (OWith p at_ char) in
  exists v', snd st' = vals ++ [v'] /\
    den (fst st') v' = (snd (with_cells (cells h v) (s_off v) at_ char), fst (with_cells (cells h v) (s_off v) at_ char)).
Proof.
  intros Hp Hne. cbn [step]. rewrite Hp. set (c := cells h v) in *. set (i := at_ - s_off v).
  destruct ((0 <=? i) && (i <? Z.of_nat (length c)) && (nth (Z.to_nat i) c 0 =? char)) eqn:Ecnd.
  - (* the character is already there: the value itself *)
    apply andb_true_iff in Ecnd as [Ecnd Enth]. apply andb_true_iff in Ecnd as [E0 Elen].
    exists v. split; [reflexivity|]. unfold with_cells. fold i.
    destruct c as [|c0 cs] eqn:Ec; [congruence|]. rewrite <- Ec in *.
    assert (Hi : (i <? 0) = false) by lia. rewrite Hi, Elen. cbn [fst snd].
    rewrite set_nth_same_value; [reflexivity|].
    rewrite (nth_error_nth' c 0) by lia. apply Z.eqb_eq in Enth. rewrite Enth. reflexivity.
  - cbn [andb].
    pose proof (cells_alloc h (fst (with_cells c (s_off v) at_ char)) (snd (with_cells c (s_off v) at_ char))) as Ha.
    destruct (with_cells c (s_off v) at_ char) as [c' off'] eqn:Ew. cbn [fst snd] in Ha.
    destruct (alloc h c' off') as [h' v'] eqn:Eal. cbn [fst snd] in Ha.
    exists v'. split; [reflexivity|]. exact Ha.
Qed.
