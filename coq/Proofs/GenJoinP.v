(* The generic join engine (Rep/GenJoin.v) computes the specification join (property C04). *)
From Arrai Require Import Base.Val Spec.SetAlg Eval.Interp Proofs.ValOrder Proofs.SetAlgP Proofs.KeyedP Proofs.CanonP
  Proofs.RelP Proofs.PermP Proofs.PatternP Rep.RelJoin Proofs.RelJoinP Rep.GenJoin.


Lemma veqb_refl x : veqb x x = true.
Proof. apply veqb_eq. reflexivity. Qed.

(* ---------- the map from key to the two slots ---------- *)

Fixpoint sl_get (k : val) (m : slots) : option (list val * list val) :=
  match m with
  | [] => None
  | (k', e) :: m' => if veqb k k' then Some e else sl_get k m'
  end.
Definition sl_entry (k : val) (m : slots) : list val * list val :=
  match sl_get k m with Some e => e | None => ([], []) end.

Lemma sl_get_add k k' v rt m :
  sl_get k (sl_add k' v rt m) = if veqb k k' then Some (slot_with (sl_entry k m) v rt) else sl_get k m.
Proof.
  unfold sl_entry. induction m as [|[k0 e] m IH]; cbn [sl_add sl_get].
  - destruct (veqb k k'); reflexivity.
  - destruct (veqb k' k0) eqn:E0; cbn [sl_get].
    + apply veqb_eq in E0. subst k0. destruct (veqb k k'); reflexivity.
    + destruct (veqb k k0) eqn:E1.
      * apply veqb_eq in E1. subst k0. destruct (veqb k k') eqn:E2; [|reflexivity].
        apply veqb_eq in E2. subst. rewrite veqb_refl in E0. discriminate.
      * exact IH.
Qed.

Lemma entry_add k k' v rt m :
  sl_entry k (sl_add k' v rt m) = if veqb k k' then slot_with (sl_entry k m) v rt else sl_entry k m.
Proof. unfold sl_entry at 1. rewrite sl_get_add. destruct (veqb k k'); reflexivity. Qed.

Lemma sl_add_keys k v rt m x : In x (map fst (sl_add k v rt m)) <-> In x (map fst m) \/ x = k.
Proof.
  induction m as [|[k' e] m IH]; simpl; [intuition|].
  destruct (veqb k k') eqn:E; simpl.
  - apply veqb_eq in E. subst. intuition.
  - rewrite IH. intuition.
Qed.

Lemma sl_add_nodup k v rt m : NoDup (map fst m) -> NoDup (map fst (sl_add k v rt m)).
Proof.
  induction m as [|[k' e] m IH]; simpl; intros H.
  - constructor; [intros [] | constructor].
  - destruct (veqb k k') eqn:E; simpl; [assumption|].
    inversion H as [|? ? Hn Hm]; subst. constructor; [|apply IH, Hm].
    rewrite sl_add_keys. intros [H1| ->]; [contradiction | rewrite veqb_refl in E; discriminate].
Qed.

Lemma sl_get_in k m e : sl_get k m = Some e -> In (k, e) m.
Proof.
  induction m as [|[k' e'] m IH]; simpl; [discriminate|].
  destruct (veqb k k') eqn:E; [apply veqb_eq in E; subst; intros H; injection H as ->; left; reflexivity | intros H; right; apply IH, H].
Qed.

Lemma in_sl_get k m e : NoDup (map fst m) -> In (k, e) m -> sl_get k m = Some e.
Proof.
  induction m as [|[k' e'] m IH]; simpl; [intros _ []|]. intros Hnd [H|H].
  - injection H as -> ->. rewrite veqb_refl. reflexivity.
  - inversion Hnd as [|? ? Hn Hm]; subst. destruct (veqb k k') eqn:E; [|apply IH; assumption].
    apply veqb_eq in E. subst k'. exfalso. apply Hn. apply (in_map fst) in H. exact H.
Qed.

Section Acc.
  Variable key : val -> val.
  Let acc (s : list val) (rt : bool) (m : slots) := fold_left (fun m v => sl_add (key v) v rt m) s m.

  Lemma acc_nodup s rt : forall m, NoDup (map fst m) -> NoDup (map fst (acc s rt m)).
  Proof. induction s as [|v s IH]; intros m H; [exact H | apply IH, sl_add_nodup, H]. Qed.

  Lemma acc_entry s rt k : forall m x,
    (In x (fst (sl_entry k (acc s rt m))) <-> In x (fst (sl_entry k m)) \/ (rt = false /\ In x s /\ key x = k)) /\
    (In x (snd (sl_entry k (acc s rt m))) <-> In x (snd (sl_entry k m)) \/ (rt = true /\ In x s /\ key x = k)).
  Proof.
    induction s as [|v s IH]; intros m x.
    - cbn [acc fold_left In]. split; intuition.
    - change (acc (v :: s) rt m) with (acc s rt (sl_add (key v) v rt m)).
      destruct (IH (sl_add (key v) v rt m) x) as [IH1 IH2]. rewrite IH1, IH2. clear IH IH1 IH2.
      rewrite entry_add. cbn [In].
      destruct (veqb k (key v)) eqn:E.
      + apply veqb_eq in E. unfold slot_with. destruct rt; cbn [fst snd]; rewrite ?s_with_spec; split; intuition (subst; auto; try congruence).
      + assert (Hne : key v <> k) by (intros H; rewrite <- H, veqb_refl in E; discriminate).
        split; intuition (subst; auto; try congruence).
  Qed.
End Acc.

(* ---------- mapM and the union of the parts ---------- *)

Lemma mapM_o_some {A B} (f : A -> option B) l : (forall x, In x l -> f x <> None) -> exists r, mapM_o f l = Some r.
Proof.
  induction l as [|x l IH]; intros H; [exists []; reflexivity|].
  destruct IH as (r & E); [intros y Hy; apply H; right; exact Hy|].
  cbn [mapM_o]. destruct (f x) as [y|] eqn:Ey; [|exfalso; apply (H x (or_introl eq_refl)), Ey].
  rewrite E. eexists; reflexivity.
Qed.

Lemma mapM_o_in {A B} (f : A -> option B) l : forall r, mapM_o f l = Some r ->
  forall y, In y r <-> exists x, In x l /\ f x = Some y.
Proof.
  induction l as [|x l IH]; intros r E y; cbn [mapM_o] in E.
  - injection E as <-. split; [intros [] | intros (x & [] & _)].
  - destruct (f x) as [y0|] eqn:Ex; [|discriminate]. destruct (mapM_o f l) as [r0|] eqn:Er; [|discriminate].
    injection E as <-. cbn [In]. rewrite (IH r0 eq_refl). split.
    + intros [<-|(x' & H1 & H2)]; [exists x; split; [left; reflexivity | exact Ex] | exists x'; split; [right; exact H1 | exact H2]].
    + intros (x' & [<-|H1] & H2); [left; congruence | right; exists x'; split; assumption].
Qed.

Lemma mapM_o_each {A B} (f : A -> option B) l : forall r, mapM_o f l = Some r -> forall x, In x l -> exists y, f x = Some y.
Proof.
  induction l as [|x0 l IH]; intros r E x Hx; [destruct Hx|]. cbn [mapM_o] in E.
  destruct (f x0) as [y0|] eqn:Ex; [|discriminate]. destruct (mapM_o f l) as [r0|] eqn:Er; [|discriminate].
  destruct Hx as [<-|Hx]; [exists y0; exact Ex | apply (IH r0 eq_refl x Hx)].
Qed.

Lemma fold_union_in parts : forall acc x,
  In x (fold_left (fun acc part => s_union acc (vsort part)) parts acc) <-> In x acc \/ exists part, In part parts /\ In x part.
Proof.
  induction parts as [|p parts IH]; intros acc x; cbn [fold_left].
  - split; [auto | intros [H|(p & [] & _)]; exact H].
  - rewrite IH, s_union_spec, vsort_in. split.
    + intros [[H|H]|(q & H1 & H2)]; [left; exact H | right; exists p; split; [left; reflexivity | exact H] | right; exists q; split; [right; exact H1 | exact H2]].
    + intros [H|(q & [<-|H1] & H2)]; [left; left; exact H | left; right; exact H2 | right; exists q; split; assumption].
Qed.

Lemma fold_union_sorted parts : forall acc, ssorted acc -> ssorted (fold_left (fun acc part => s_union acc (vsort part)) parts acc).
Proof. induction parts as [|p parts IH]; intros acc H; cbn [fold_left]; [exact H | apply IH, s_union_canon]. Qed.

(* ---------- keys and combinations of sorted tuples ---------- *)

Definition tuple_sorted (m : val) : Prop := match m with VTup t => asorted t | _ => True end.

Section Tuples.
  Variables (ta tb : list (name * val)) (common : list name).
  Hypothesis Hta : asorted ta.
  Hypothesis Htb : asorted tb.
  Hypothesis Hc : forall n, name_in n common = name_in n (map fst ta) && name_in n (map fst tb).

  Lemma tget_some_iff n (t : list (name * val)) : name_in n (map fst t) = true <-> tget n t <> None.
  Proof.
    rewrite name_in_iff. split.
    - intros H E. apply tget_none in E. contradiction.
    - intros H. destruct (in_dec (list_eq_dec Z.eq_dec) n (map fst t)) as [i|ni]; [exact i | apply tget_none in ni; contradiction].
  Qed.

  Lemma key_agree : g_key common (VTup ta) = g_key common (VTup tb) <-> agree common ta tb = true.
  Proof.
    cbn [g_key]. rewrite agree_spec. split.
    - intros E n Hn. injection E as E. apply name_in_iff in Hn.
      assert (F1 : tget n (tproject (fun x => name_in x common) ta) = if name_in n common then tget n ta else None)
        by apply (tget_filter n (fun x => name_in x common) ta).
      assert (F2 : tget n (tproject (fun x => name_in x common) tb) = if name_in n common then tget n tb else None)
        by apply (tget_filter n (fun x => name_in x common) tb).
      rewrite E, Hn in F1. rewrite Hn in F2. rewrite F2 in F1.
      rewrite Hc in Hn. apply andb_true_iff in Hn as [H1 _]. apply tget_some_iff in H1.
      destruct (tget n ta) as [x|] eqn:Ex; [|congruence]. exists x. split; [reflexivity | congruence].
    - intros H. f_equal. apply asorted_ext; [apply filter_asorted', Hta | apply filter_asorted', Htb|].
      intros n. unfold tproject. rewrite !(tget_filter n (fun x => name_in x common)).
      destruct (name_in n common) eqn:Hn; [|reflexivity].
      destruct (H n (proj1 (name_in_iff n common) Hn)) as (x & -> & ->). reflexivity.
  Qed.

  Lemma merge_agree : agree common ta tb = true -> g_merge ta tb = Some (build_tuple (ta ++ tb)).
  Proof.
    intros H. unfold g_merge.
    assert (F : forallb (fun p => match tget (fst p) tb with Some y => veqb (snd p) y | None => true end) ta = true); [|rewrite F; reflexivity].
    apply forallb_forall. intros [n v] Hp. cbn [fst snd].
    destruct (tget n tb) as [y|] eqn:Ey; [|reflexivity].
    assert (Hn : name_in n common = true).
    { rewrite Hc. apply andb_true_iff. split; [apply name_in_iff; apply (in_map fst) in Hp; exact Hp | apply tget_some_iff; congruence]. }
    destruct (proj1 (agree_spec common ta tb) H n (proj1 (name_in_iff n common) Hn)) as (x & E1 & E2).
    assert (E3 : tget n ta = Some v) by (apply (tget_in_iff n v ta (asorted_nodup ta Hta)), Hp).
    apply veqb_eq. congruence.
  Qed.

  Lemma merge_disjoint : let notc := fun n => negb (name_in n common) in
    g_merge (tproject notc ta) (tproject notc tb) = Some (build_tuple (tproject notc ta ++ tproject notc tb)).
  Proof.
    intros notc. unfold g_merge.
    assert (F : forallb (fun p => match tget (fst p) (tproject notc tb) with Some y => veqb (snd p) y | None => true end) (tproject notc ta) = true); [|rewrite F; reflexivity].
    apply forallb_forall. intros [n v] Hp. cbn [fst snd]. unfold tproject in *. apply filter_In in Hp as [Hp Hk]. cbn [fst] in Hk.
    rewrite (tget_filter n notc tb), Hk.
    destruct (tget n tb) as [y|] eqn:Ey; [|reflexivity]. exfalso.
    unfold notc in Hk. apply negb_true_iff in Hk. rewrite Hc in Hk. apply andb_false_iff in Hk as [Hk|Hk].
    - apply name_in_false in Hk. apply Hk. apply (in_map fst) in Hp. exact Hp.
    - assert (X : name_in n (map fst tb) = true) by (apply tget_some_iff; congruence). congruence.
  Qed.

  Lemma combine_agree op : agree common ta tb = true -> g_combine op common ta tb = Some (jcombine op common ta tb).
  Proof.
    intros H. destruct op; cbn [g_combine jcombine]; try reflexivity; [apply merge_agree, H | apply merge_disjoint].
  Qed.
End Tuples.

(* ---------- GenericJoin = the specification join ---------- *)

Lemma relation_attrs_heading l : l <> [] -> relation_attrs l = match heading l with Some h => Ok h | None => Err end.
Proof.
  destruct l as [|[n|t|s] r]; try congruence; intros _; try reflexivity.
  unfold relation_attrs, heading. destruct (forallb _ r); reflexivity.
Qed.

Theorem generic_join_is_join_data op a b :
  Forall tuple_sorted a -> Forall tuple_sorted b -> generic_join op a b = Some (join_data op a b).
Proof.
  intros Sa Sb. destruct a as [|a0 a']; [reflexivity|]. destruct b as [|b0 b']; [reflexivity|].
  set (a := a0 :: a') in *. set (b := b0 :: b') in *.
  assert (Ha : a <> []) by discriminate. assert (Hb : b <> []) by discriminate.
  rewrite (join_data_nonempty op a b Ha Hb).
  change (generic_join op a b) with
    (match relation_attrs a, relation_attrs b with
     | Ok ha, Ok hb =>
         let common := filter (fun n => name_in n hb) ha in
         let m := accumulate common b true (accumulate common a false []) in
         match mapM_o (fun e => g_pairs op common (fst (snd e)) (snd (snd e))) m with
         | Some parts => Some (Ok (VSet (fold_left (fun acc part => s_union acc (vsort part)) parts [])))
         | None => None
         end
     | _, _ => Some Err
     end).
  rewrite (relation_attrs_heading a Ha), (relation_attrs_heading b Hb).
  destruct (heading a) as [ha|] eqn:Eha; [|reflexivity]. destruct (heading b) as [hb|] eqn:Ehb; [|reflexivity].
  apply heading_spec in Eha as [_ HA]. apply heading_spec in Ehb as [_ HB].
  cbv zeta. set (common := filter (fun n => name_in n hb) ha).
  set (m := accumulate common b true (accumulate common a false [])).
  assert (Hnd : NoDup (map fst m)) by (apply acc_nodup, acc_nodup; constructor).
  assert (Hfst : forall k x, In x (fst (sl_entry k m)) <-> In x a /\ g_key common x = k).
  { intros k x. unfold m, accumulate.
    rewrite (proj1 (acc_entry (g_key common) b true k _ x)), (proj1 (acc_entry (g_key common) a false k [] x)).
    cbn [sl_entry sl_get fst In]. intuition congruence. }
  assert (Hsnd : forall k x, In x (snd (sl_entry k m)) <-> In x b /\ g_key common x = k).
  { intros k x. unfold m, accumulate.
    rewrite (proj2 (acc_entry (g_key common) b true k _ x)), (proj2 (acc_entry (g_key common) a false k [] x)).
    cbn [sl_entry sl_get snd In]. intuition congruence. }
  assert (Hentry : forall k sa sb, In (k, (sa, sb)) m -> sl_entry k m = (sa, sb)).
  { intros k sa sb H. unfold sl_entry. rewrite (in_sl_get _ _ _ Hnd H). reflexivity. }
  (* a pair of members with one key combines *)
  assert (Hpair : forall x y, In x a -> In y b ->
            exists ta tb, x = VTup ta /\ y = VTup tb /\
              (g_key common x = g_key common y <-> agree common ta tb = true) /\
              (agree common ta tb = true -> g_combine op common ta tb = Some (jcombine op common ta tb))).
  { intros x y Hx Hy. destruct (HA x Hx) as (ta & -> & Ea). destruct (HB y Hy) as (tb & -> & Eb).
    assert (Sta : asorted ta) by exact (proj1 (Forall_forall tuple_sorted a) Sa (VTup ta) Hx).
    assert (Stb : asorted tb) by exact (proj1 (Forall_forall tuple_sorted b) Sb (VTup tb) Hy).
    assert (Hc : forall n, name_in n common = name_in n (map fst ta) && name_in n (map fst tb)).
    { intros n. unfold common. rewrite name_in_filter, Ea, Eb. reflexivity. }
    exists ta, tb. split; [reflexivity|]. split; [reflexivity|]. split.
    - apply key_agree; assumption.
    - apply combine_agree; assumption. }
  (* every entry's slots combine *)
  destruct (mapM_o_some (fun e => g_pairs op common (fst (snd e)) (snd (snd e))) m) as (parts & Eparts).
  { intros [k [sa sb]] He. cbn [fst snd]. unfold g_pairs.
    destruct (mapM_o_some (fun p => match p with (VTup ta, VTup tb) => g_combine op common ta tb | _ => None end)
                (flat_map (fun x => map (fun y => (x, y)) sb) sa)) as (r & ->); [|discriminate].
    intros [x y] Hp. apply in_flat_map in Hp as (x' & Hx & Hp). apply in_map_iff in Hp as (y' & E & Hy). injection E as -> ->.
    pose proof (Hentry k sa sb He) as Ee.
    assert (Hx' : In x (fst (sl_entry k m))) by (rewrite Ee; exact Hx). assert (Hy' : In y (snd (sl_entry k m))) by (rewrite Ee; exact Hy).
    apply Hfst in Hx' as [Hxa Hkx]. apply Hsnd in Hy' as [Hyb Hky].
    destruct (Hpair x y Hxa Hyb) as (ta & tb & -> & -> & Hk & Hcomb).
    rewrite Hcomb by (apply Hk; congruence). discriminate. }
  rewrite Eparts. f_equal. f_equal. unfold mkset. f_equal.
  apply ssorted_ext; [apply fold_union_sorted; exact I | apply vsort_sorted|].
  intros x. rewrite fold_union_in, vsort_in. cbn [In]. split.
  - intros [[]|(part & Hpart & Hx)].
    apply (mapM_o_in _ _ _ Eparts) in Hpart as ([k [sa sb]] & He & Ep). cbn [fst snd] in Ep. unfold g_pairs in Ep.
    apply (mapM_o_in _ _ _ Ep) in Hx as ([u v] & Hp & Ec).
    apply in_flat_map in Hp as (u' & Hu & Hp). apply in_map_iff in Hp as (v' & E & Hv). injection E as -> ->.
    pose proof (Hentry k sa sb He) as Ee.
    assert (Hu' : In u (fst (sl_entry k m))) by (rewrite Ee; exact Hu). assert (Hv' : In v (snd (sl_entry k m))) by (rewrite Ee; exact Hv).
    apply Hfst in Hu' as [Hua Hku]. apply Hsnd in Hv' as [Hvb Hkv].
    destruct (Hpair u v Hua Hvb) as (ta & tb & -> & -> & Hk & Hcomb).
    assert (Hag : agree common ta tb = true) by (apply Hk; congruence).
    rewrite (Hcomb Hag) in Ec. injection Ec as <-.
    apply in_flat_map. exists (VTup ta). split; [exact Hua|]. apply in_flat_map. exists (VTup tb). split; [exact Hvb|].
    rewrite Hag. left; reflexivity.
  - intros Hx. right. apply in_flat_map in Hx as (u & Hua & Hx). destruct (HA u Hua) as (ta & -> & _).
    apply in_flat_map in Hx as (v & Hvb & Hx). destruct (HB v Hvb) as (tb & -> & _).
    destruct (agree common ta tb) eqn:Hag; [|destruct Hx]. destruct Hx as [<-|[]].
    destruct (Hpair (VTup ta) (VTup tb) Hua Hvb) as (ta' & tb' & E1 & E2 & Hk & Hcomb). injection E1 as <-. injection E2 as <-.
    set (k := g_key common (VTup ta)).
    assert (Hu : In (VTup ta) (fst (sl_entry k m))) by (apply Hfst; split; [exact Hua | reflexivity]).
    assert (Hv : In (VTup tb) (snd (sl_entry k m))) by (apply Hsnd; split; [exact Hvb | symmetry; apply Hk, Hag]).
    destruct (sl_get k m) as [[sa sb]|] eqn:Eg; [|unfold sl_entry in Hu; rewrite Eg in Hu; destruct Hu].
    assert (Ee : sl_entry k m = (sa, sb)) by (unfold sl_entry; rewrite Eg; reflexivity). rewrite Ee in Hu, Hv. cbn [fst snd] in Hu, Hv.
    pose proof (sl_get_in _ _ _ Eg) as He.
    destruct (mapM_o_each _ _ _ Eparts (k, (sa, sb)) He) as (part & Ep). cbn [fst snd] in Ep.
    exists part. split.
    + apply (mapM_o_in _ _ _ Eparts). exists (k, (sa, sb)). split; [exact He | exact Ep].
    + unfold g_pairs in Ep. apply (mapM_o_in _ _ _ Ep). exists (VTup ta, VTup tb). split.
      * apply in_flat_map. exists (VTup ta). split; [exact Hu|]. apply in_map_iff. exists (VTup tb). split; [reflexivity | exact Hv].
      * apply Hcomb, Hag.
Qed.
