(* Canonical forms (property C02): norm is idempotent, canonical values are
   fixed points, equality of canonical values is identity. *)
From Arrai Require Import Base.Val Spec.SetAlg Eval.Interp Proofs.ValOrder Proofs.SetAlgP Proofs.KeyedP.

Lemma vinsert_lt_all x l : (forall y, In y l -> vcmp x y = Lt) -> vinsert x l = x :: l.
Proof.
  destruct l as [|z l]; [reflexivity|]. intros H. simpl. rewrite (H z (or_introl eq_refl)). reflexivity.
Qed.

Lemma vsort_sorted_id l : ssorted l -> vsort l = l.
Proof.
  induction l as [|x l IH]; [reflexivity|]. intros [Hx Hl]. unfold vsort in *. simpl.
  rewrite (IH Hl). apply vinsert_lt_all. exact Hx.
Qed.

(* attribute lists sorted strictly by name *)
Fixpoint asorted (l : list (name * val)) : Prop :=
  match l with
  | [] => True
  | p :: l' => (forall q, In q l' -> name_cmp (fst p) (fst q) = Lt) /\ asorted l'
  end.

Lemma name_cmp_eq a b : name_cmp a b = Eq -> a = b.
Proof. apply (name_cmp_ordR a b b). Qed.
Lemma name_cmp_trans a b c : name_cmp a b = Lt -> name_cmp b c = Lt -> name_cmp a c = Lt.
Proof. apply (name_cmp_ordR a b c). Qed.
Lemma name_cmp_gt_lt a b : name_cmp a b = Gt -> name_cmp b a = Lt.
Proof. intros H. destruct (name_cmp_ordR a b b) as (_ & _ & Hanti & _). rewrite Hanti, H. reflexivity. Qed.

Lemma ainsert_fst x l q : In q (ainsert x l) -> q = x \/ In q l.
Proof.
  induction l as [|z l IH]; simpl; [intuition|].
  destruct (name_cmp (fst x) (fst z)); simpl; intuition.
Qed.

Lemma ainsert_sorted x l : asorted l -> asorted (ainsert x l).
Proof.
  induction l as [|z l IH]; simpl; [intros _; split; [intros q []|exact I]|].
  intros [Hz Hl]. destruct (name_cmp (fst x) (fst z)) eqn:E.
  - apply name_cmp_eq in E. simpl. split; [|exact Hl]. intros q Hq. rewrite E. apply Hz, Hq.
  - simpl. split; [|split; assumption].
    intros q [<-|Hq]; [exact E|]. eapply name_cmp_trans; [exact E | apply Hz, Hq].
  - simpl. split; [|apply IH, Hl].
    intros q Hq. apply ainsert_fst in Hq as [->|Hq]; [apply name_cmp_gt_lt, E | apply Hz, Hq].
Qed.

Lemma asort_sorted l : asorted (asort l).
Proof. induction l as [|x l IH]; simpl; [exact I | apply ainsert_sorted, IH]. Qed.

Lemma ainsert_lt_all x l : (forall q, In q l -> name_cmp (fst x) (fst q) = Lt) -> ainsert x l = x :: l.
Proof.
  destruct l as [|z l]; [reflexivity|]. intros H. simpl. rewrite (H z (or_introl eq_refl)). reflexivity.
Qed.

Lemma asort_sorted_id l : asorted l -> asort l = l.
Proof.
  induction l as [|x l IH]; [reflexivity|]. intros [Hx Hl]. unfold asort in *. simpl.
  rewrite (IH Hl). apply ainsert_lt_all, Hx.
Qed.

Lemma asort_in l q : In q (asort l) -> In q l.
Proof.
  induction l as [|x l IH]; simpl; [intros []|]. intros H. apply ainsert_fst in H as [->|H]; [left; reflexivity | right; apply IH, H].
Qed.

Theorem norm_idem v : norm (norm v) = norm v.
Proof.
  induction v as [n|l IH|l IH] using val_ind'; simpl; [reflexivity| |].
  - f_equal.
    assert (E : map (fun p => (fst p, norm (snd p))) (asort (map (fun p => (fst p, norm (snd p))) l))
                = asort (map (fun p => (fst p, norm (snd p))) l)).
    { rewrite <- (map_id (asort _)) at 2. apply map_ext_in. intros q Hq.
      apply asort_in, in_map_iff in Hq as (p & <- & Hp). simpl.
      rewrite Forall_forall in IH. rewrite (IH p Hp). reflexivity. }
    rewrite E. apply asort_sorted_id, asort_sorted.
  - f_equal.
    assert (E : map norm (vsort (map norm l)) = vsort (map norm l)).
    { rewrite <- (map_id (vsort _)) at 2. apply map_ext_in. intros x Hx.
      apply vsort_in, in_map_iff in Hx as (y & <- & Hy).
      rewrite Forall_forall in IH. apply IH, Hy. }
    rewrite E. apply vsort_sorted_id, vsort_sorted.
Qed.

Theorem norm_canon v : Canon (norm v).
Proof. apply norm_idem. Qed.

(* equal values collapse to one member of a set and select the same dictionary entry *)
Theorem equal_values_one_member a b : veqb a b = true -> mkset [a; b] = mkset [a].
Proof. intros H; apply veqb_eq in H; subst b. unfold mkset, vsort; simpl. rewrite vcmp_refl. reflexivity. Qed.

Theorem equal_keys_select_same_entry a b v :
  veqb a b = true -> call_data [ventry a v] b = CROne v.
Proof.
  intros H. unfold call_data, ventry, vpair. cbn [lookup_all as_pair].
  assert (E : name_cmp n_at n_at = Eq) by reflexivity. rewrite E.
  assert (E2 : veqb b a = true) by (apply veqb_eq; apply veqb_eq in H; congruence).
  rewrite E2. reflexivity.
Qed.
