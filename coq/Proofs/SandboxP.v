(* Proofs for C18 (Sys/Sandbox.v): confinement of the repaired model, soundness of the
   observation, the inventory lemma over the regenerated table, and the quirk witnesses. *)
From Coq Require Import List String Bool Arith Lia.
From Arrai Require Import Sys.Sandbox Gen.Stdlib.
Import ListNotations.
Open Scope string_scope.
Open Scope list_scope.

Ltac inv H := inversion H; subst; clear H.
Local Opaque String.eqb.

(* goals of the form  incl X Y  from hypotheses of the same form: backtracking search *)
Ltac istep :=
  match goal with
  | H : In _ [] |- _ => destruct H
  | H : False |- _ => destruct H
  | H : In ?a ?X |- In ?a ?X => exact H
  | H : In _ (_ ++ _) |- _ => apply in_app_or in H; destruct H; istep
  | H : forall x, In x ?X -> _, H' : In ?a ?X |- _ =>
      let N := fresh in pose proof (H a H') as N; clear H; istep
  | |- In _ (_ ++ _) => apply in_or_app; ((left; istep) || (right; istep))
  end.
Ltac isolve := unfold incl in *; intros; simpl in *; istep.

(* ---------- booleans on classes ---------- *)
Lemma mem_In : forall c l, mem c l = true <-> In c l.
Proof.
  unfold mem; intros; rewrite existsb_exists; split.
  - intros [x [Hx He]]; apply cls_eqb_eq in He; subst; assumption.
  - intros H; exists c; split; [assumption | apply cls_eqb_eq; reflexivity].
Qed.

Lemma subset_incl : forall a b, subset a b = true <-> incl a b.
Proof.
  unfold subset, incl; intros; rewrite forallb_forall; split; intros H x Hx.
  - apply mem_In; auto.
  - apply mem_In; auto.
Qed.

Lemma wf_b_WF : forall S F w, wf_b S F w = true -> WF S F w.
Proof.
  unfold wf_b, WF; intros S F w H; apply andb_true_iff in H; destruct H as [H1 H2].
  split; apply subset_incl; assumption.
Qed.

(* ---------- tuples ---------- *)
Lemma vget_auth : forall S F a t v, vget a t = Some v -> incl (auth S F v) (auth S F t).
Proof.
  induction t; simpl; intros v0 H; try discriminate.
  destruct (String.eqb a a0).
  - inv H. isolve.
  - specialize (IHt2 _ H). isolve.
Qed.

Lemma vapp_auth : forall S F t b, incl (auth S F (vapp t b)) (auth S F t ++ auth S F b).
Proof.
  induction t; simpl; intros; try (apply incl_refl); try (apply incl_appr, incl_refl).
  specialize (IHt2 b). isolve.
Qed.

Lemma vget_vapp : forall a t b,
  vget a (vapp t b) = match vget a t with Some v => Some v | None => vget a b end.
Proof.
  induction t; simpl; intros; try reflexivity.
  destruct (String.eqb a a0); auto.
Qed.

Lemma pkg_only_auth : forall S F env, incl (auth S F (pkg_only env)) (auth S F env).
Proof.
  unfold pkg_only; intros; destruct (vget pkg env) eqn:E; simpl; [|isolve].
  apply (vget_auth S F) in E. isolve.
Qed.

Lemma pkg_only_binds : forall env, binds (pkg_only env) = binds env.
Proof.
  unfold binds, pkg_only; intros; destruct (vget pkg env) eqn:E; simpl; reflexivity.
Qed.

Lemma binds_cons : forall x v env, binds (VTupCons x v env) = (String.eqb pkg x || binds env).
Proof. unfold binds; simpl; intros; destruct (String.eqb pkg x); reflexivity. Qed.

(* ---------- pf / ca / needs ---------- *)
Lemma pf_ca : forall e, pf e = true -> ca e = true.
Proof.
  induction e; simpl; intros H; auto; try discriminate;
    try (apply andb_true_iff in H; destruct H; apply andb_true_iff; split; auto).
  destruct pkgonly; auto.
Qed.

Lemma needs_incl : forall F b e e',
  (ca e = true -> ca e' = true) -> (pf e = true -> pf e' = true) ->
  incl (needs F b e') (needs F b e).
Proof.
  unfold needs; intros F b e e' Hc Hp; destruct b.
  - destruct (ca e); [rewrite Hc by reflexivity; apply incl_refl | destruct (ca e'); isolve].
  - destruct (pf e); [rewrite Hp by reflexivity; apply incl_refl | destruct (pf e'); isolve].
Qed.

Lemma needs_weaken : forall F b b' e, (b = true -> b' = true) -> incl (needs F b' e) (needs F b e).
Proof.
  unfold needs; intros F b b' e H; destruct b.
  - rewrite H by reflexivity; apply incl_refl.
  - destruct b'; [|apply incl_refl].
    destruct (pf e) eqn:P; [rewrite (pf_ca _ P); apply incl_refl | destruct (ca e); isolve].
Qed.

Lemma and_l : forall a b, a && b = true -> a = true.
Proof. intros a b H; apply andb_true_iff in H; tauto. Qed.
Lemma and_r : forall a b, a && b = true -> b = true.
Proof. intros a b H; apply andb_true_iff in H; tauto. Qed.

Lemma effs_app : forall l1 l2, effs (l1 ++ l2) = effs l1 ++ effs l2.
Proof. intros; unfold effs; apply flat_map_app. Qed.

Lemma no_import_app : forall l1 l2, no_import l1 -> no_import l2 -> no_import (l1 ++ l2).
Proof. unfold no_import; intros l1 l2 H1 H2 e H; apply in_app_iff in H; destruct H; auto. Qed.

Lemma no_import_nil : no_import [].
Proof. intros e H; destruct H. Qed.

#[export] Hint Resolve no_import_app no_import_nil : sbx.

(* ---------- confinement of the repaired model ---------- *)
Section Confinement.
Variable w : world.
Variable S F : list cls.
Hypothesis HWF : WF S F w.

Notation au := (auth S F).
Definition A (env : val) (e : expr) : list cls := au env ++ needs F (binds env) e.

Definition good (l : list eff) (r : res) (B : list cls) : Prop :=
  incl (effs l) B /\ no_import l /\ (forall v, r = Val v -> incl (au v) B).

Definition eval_ok (fuel : nat) := forall env e r l,
  eval quirks_off w fuel env e = (r, l) -> good l r (A env e).
Definition apply_ok (fuel : nat) := forall vf va r l,
  apply quirks_off w fuel vf va = (r, l) -> good l r (au vf ++ au va).
Definition compile_ok (fuel : nat) := forall lib e c l,
  compile quirks_off w fuel (Some lib) e = (c, l) ->
  incl (effs l) (au lib) /\ no_import l /\ (forall e', c = COk e' -> ca e' = true).
Definition run_ok (fuel : nat) := forall lib env s r l,
  run quirks_off w fuel (Some lib) env s = (r, l) ->
  binds env = true -> incl (au lib) (au env) -> good l r (au env).

Lemma good_nil_err : forall B, good [] Err B.
Proof. unfold good; intros; split; [isolve | split; [apply no_import_nil | intros; discriminate]]. Qed.
Lemma good_nil_fuel : forall B, good [] Fuel B.
Proof. unfold good; intros; split; [isolve | split; [apply no_import_nil | intros; discriminate]]. Qed.

Lemma good_mono : forall l r B B', good l r B -> incl B B' -> good l r B'.
Proof.
  unfold good; intros l r B B' [H1 [H2 H3]] Hi; split; [isolve | split; [assumption|]].
  intros v Hv; specialize (H3 v Hv); isolve.
Qed.

Lemma good_app : forall l1 l2 r1 r2 B, good l1 r1 B -> good l2 r2 B -> good (l1 ++ l2) r2 B.
Proof.
  unfold good; intros l1 l2 r1 r2 B [H1 [H2 _]] [H4 [H5 H6]]; rewrite effs_app.
  split; [isolve | split; [auto with sbx | assumption]].
Qed.

Lemma good_val : forall l r B v, good l r B -> r = Val v -> incl (au v) B.
Proof. unfold good; intros; intuition. Qed.

Lemma good_weaken_res : forall l r B, good l r B -> good l Err B.
Proof. unfold good; intros l r B [H1 [H2 _]]; repeat split; auto; intros; discriminate. Qed.


Lemma good_intro : forall l r B,
  incl (effs l) B -> no_import l -> (forall v, r = Val v -> incl (au v) B) -> good l r B.
Proof. unfold good; intros; repeat split; assumption. Qed.

Lemma good_nil_val : forall v B, incl (au v) B -> good [] (Val v) B.
Proof.
  intros; apply good_intro; [simpl; intros x Hx; destruct Hx | apply no_import_nil |].
  intros v0 Hv; inv Hv; assumption.
Qed.

Lemma good_sub_val : forall l v x B, good l (Val v) B -> incl (au x) (au v) -> good l (Val x) B.
Proof.
  intros l v x B [H1 [H2 H3]] Hi; apply good_intro; auto.
  intros v0 Hv; inv Hv. specialize (H3 v eq_refl). isolve.
Qed.

Lemma good_set_val : forall l r v B, good l r B -> incl (au v) B -> good l (Val v) B.
Proof.
  intros l r v B [H1 [H2 _]] Hi; apply good_intro; auto. intros v0 Hv; inv Hv; assumption.
Qed.

Lemma A_sub : forall env e e',
  (ca e = true -> ca e' = true) -> (pf e = true -> pf e' = true) -> incl (A env e') (A env e).
Proof. unfold A; intros; pose proof (needs_incl F (binds env) e e' H H0); isolve. Qed.

Lemma ctx_env_pkg : forall l sc, exists lib,
  vget pkg (ctx_env w l sc) = Some lib.
Proof.
  intros; unfold ctx_env; rewrite vget_vapp; destruct (vget pkg sc); eauto.
  simpl. rewrite String.eqb_refl. eauto.
Qed.

Lemma parse_cfg_auth : forall cfg l sc, parse_cfg cfg = Some (l, sc) ->
  incl (au (ctx_env w l sc)) (S ++ au cfg).
Proof.
  unfold parse_cfg; intros cfg l sc H.
  destruct (is_tuple cfg); [|discriminate].
  assert (Hsc : incl (au (match vget "scope" cfg with Some s => s | None => VTupNil end)) (au cfg)).
  { destruct (vget "scope" cfg) eqn:E; [apply (vget_auth S F) in E; assumption | simpl; isolve]. }
  destruct (is_tuple (match vget "scope" cfg with Some s => s | None => VTupNil end)); [|discriminate].
  destruct HWF as [Hs _].
  destruct (vget "stdlib" cfg) eqn:E.
  - destruct (is_tuple v); [|discriminate]. inv H.
    apply (vget_auth S F) in E. unfold ctx_env.
    pose proof (vapp_auth S F (match vget "scope" cfg with Some s => s | None => VTupNil end)
                  (VTupCons pkg (lib_or_safe w (Some v)) VTupNil)) as Hv. simpl in Hv. isolve.
  - inv H. unfold ctx_env.
    pose proof (vapp_auth S F (match vget "scope" cfg with Some s => s | None => VTupNil end)
                  (VTupCons pkg (lib_or_safe w None) VTupNil)) as Hv. simpl in Hv. isolve.
Qed.

Lemma step : forall f, eval_ok f /\ apply_ok f /\ compile_ok f /\ run_ok f ->
  eval_ok (Datatypes.S f) /\ apply_ok (Datatypes.S f) /\ compile_ok (Datatypes.S f) /\ run_ok (Datatypes.S f).
Proof.
  intros f [IHe [IHa [IHc IHr]]].
  assert (Hrun : run_ok (Datatypes.S f)).
  { intros lib env s r l H Hb Hl. simpl in H.
    destruct (compile quirks_off w f (Some lib) s) as [c l1] eqn:Hc.
    apply IHc in Hc. destruct Hc as [C1 [C2 C3]].
    assert (G1 : good l1 Err (au env)).
    { unfold good; split; [isolve | split; [assumption | intros; discriminate]]. }
    destruct c.
    - destruct (eval quirks_off w f env e) as [r2 l2] eqn:He. inv H.
      apply IHe in He. eapply good_app; [exact G1|].
      eapply good_mono; [exact He|]. unfold A, needs. rewrite Hb. rewrite (C3 e eq_refl). isolve.
    - inv H. exact G1.
    - inv H. destruct G1 as [? [? ?]]; repeat split; auto; intros; discriminate. }
  split; [|split; [|split; [|exact Hrun]]].
  - (* eval *)
    intros env e r l H. destruct e; simpl in H.
    + inv H. apply good_nil_val; simpl; isolve.
    + destruct (vget x env) eqn:E; inv H; [|apply good_nil_err].
      apply good_nil_val. apply (vget_auth S F) in E. unfold A. isolve.
    + destruct (vget pkg env) eqn:E; inv H; apply good_nil_val.
      * apply (vget_auth S F) in E. unfold A. isolve.
      * unfold A, needs, binds. rewrite E. simpl. destruct HWF as [_ Hf]. isolve.
    + destruct (eval quirks_off w f env e) as [r1 l1] eqn:E1. apply IHe in E1.
      assert (Hs : incl (A env e) (A env (EDot e a))) by (apply A_sub; simpl; auto).
      apply (fun g => good_mono _ _ _ _ g Hs) in E1.
      destruct r1; [| inv H; exact E1 | inv H; exact E1].
      destruct (vget a v) eqn:Eg; inv H.
      * eapply good_sub_val; [exact E1|]. apply (vget_auth S F) in Eg. exact Eg.
      * eapply good_weaken_res; exact E1.
    + inv H. apply good_nil_val; simpl; isolve.
    + destruct (eval quirks_off w f env e1) as [r1 l1] eqn:E1. apply IHe in E1.
      assert (Hs1 : incl (A env e1) (A env (ETupCons a e1 e2)))
        by (apply A_sub; simpl; intros Hx; [apply and_l in Hx | apply and_l in Hx]; assumption).
      assert (Hs2 : incl (A env e2) (A env (ETupCons a e1 e2)))
        by (apply A_sub; simpl; intros Hx; [apply and_r in Hx | apply and_r in Hx]; assumption).
      apply (fun g => good_mono _ _ _ _ g Hs1) in E1.
      destruct r1; [| inv H; exact E1 | inv H; exact E1].
      destruct (eval quirks_off w f env e2) as [r2 l2] eqn:E2. apply IHe in E2.
      apply (fun g => good_mono _ _ _ _ g Hs2) in E2.
      destruct r2; [| inv H; eapply good_app; eauto | inv H; eapply good_app; eauto].
      pose proof (good_app _ _ _ _ _ E1 E2) as G.
      destruct (is_tuple v0); inv H.
      * eapply good_set_val; [exact G|]. simpl.
        pose proof (good_val _ _ _ _ E1 eq_refl). pose proof (good_val _ _ _ _ E2 eq_refl). isolve.
      * eapply good_weaken_res. exact G.
    + inv H. apply good_nil_val. simpl. unfold A.
      assert (incl (needs F (String.eqb pkg x || binds env) e) (needs F (binds env) (EFn x e))).
      { eapply incl_tran; [apply (needs_weaken F (binds env)); intros Hb; rewrite Hb; apply orb_true_r|].
        apply needs_incl; simpl; auto. }
      isolve.
    + destruct (eval quirks_off w f env e1) as [r1 l1] eqn:E1. apply IHe in E1.
      assert (Hs1 : incl (A env e1) (A env (EApp e1 e2)))
        by (apply A_sub; simpl; intros Hx; [apply and_l in Hx | apply and_l in Hx]; assumption).
      assert (Hs2 : incl (A env e2) (A env (EApp e1 e2)))
        by (apply A_sub; simpl; intros Hx; [apply and_r in Hx | apply and_r in Hx]; assumption).
      apply (fun g => good_mono _ _ _ _ g Hs1) in E1.
      destruct r1; [| inv H; exact E1 | inv H; exact E1].
      destruct (eval quirks_off w f env e2) as [r2 l2] eqn:E2. apply IHe in E2.
      apply (fun g => good_mono _ _ _ _ g Hs2) in E2.
      destruct r2; [| inv H; eapply good_app; eauto | inv H; eapply good_app; eauto].
      destruct (apply quirks_off w f v v0) as [r3 l3] eqn:E3. inv H. apply IHa in E3.
      pose proof (good_val _ _ _ _ E1 eq_refl). pose proof (good_val _ _ _ _ E2 eq_refl).
      eapply good_app; [exact E1|]. eapply good_app; [exact E2|].
      eapply good_mono; [exact E3|]. isolve.
    + destruct (eval quirks_off w f env e1) as [r1 l1] eqn:E1. apply IHe in E1.
      assert (Hs1 : incl (A env e1) (A env (ELet x e1 e2)))
        by (apply A_sub; simpl; intros Hx; [apply and_l in Hx | apply and_l in Hx]; assumption).
      apply (fun g => good_mono _ _ _ _ g Hs1) in E1.
      destruct r1; [| inv H; exact E1 | inv H; exact E1].
      destruct (eval quirks_off w f (VTupCons x v env) e2) as [r2 l2] eqn:E2. inv H. apply IHe in E2.
      eapply good_app; [exact E1|]. eapply good_mono; [exact E2|].
      pose proof (good_val _ _ _ _ E1 eq_refl). unfold A in *. rewrite binds_cons. simpl.
      assert (incl (needs F (String.eqb pkg x || binds env) e2) (needs F (binds env) (ELet x e1 e2))).
      { eapply incl_tran; [apply (needs_weaken F (binds env)); intros Hb; rewrite Hb; apply orb_true_r|].
        apply needs_incl; simpl; intros Hx; [apply and_r in Hx | apply and_r in Hx]; assumption. }
      isolve.
    + inv H. apply good_nil_val; simpl; isolve.
    + inv H. apply good_nil_err.
    + inv H. apply good_nil_err.
    + apply IHe in H. eapply good_mono; [exact H|].
      unfold A, needs. simpl. destruct (binds env); isolve.
    + destruct (eval quirks_off w f (if pkgonly then pkg_only env else VTupNil) e) as [r1 l1] eqn:E1.
      inv H. apply IHe in E1. destruct E1 as [_ [_ H3]].
      apply good_intro; [simpl; intros x Hx; destruct Hx | apply no_import_nil |].
      intros v Hv. specialize (H3 v Hv).
      eapply incl_tran; [exact H3|]. unfold A. destruct pkgonly.
      * rewrite pkg_only_binds. pose proof (pkg_only_auth S F env). unfold needs in *. simpl. isolve.
      * unfold needs. simpl. destruct (binds env); isolve.
  - (* apply *)
    intros vf va r l H. simpl in H. destruct vf; try (inv H; apply good_nil_err).
    + destruct arity as [|[|n]].
      * destruct va; inv H;
          try (apply good_intro; [simpl; intros z Hz; destruct Hz
                                 | intros ef Hef; simpl in Hef; destruct Hef as [Hef|[]]; subst; reflexivity
                                 | intros; discriminate]).
        apply good_intro; [simpl; rewrite app_nil_r; isolve | | intros v Hv; inv Hv; simpl; isolve].
        intros e He; simpl in He; destruct He as [He|[]]; subst; reflexivity.
      * destruct va; inv H;
          try (apply good_intro; [simpl; intros z Hz; destruct Hz
                                 | intros ef Hef; simpl in Hef; destruct Hef as [Hef|[]]; subst; reflexivity
                                 | intros; discriminate]).
        apply good_intro; [simpl; rewrite app_nil_r; isolve | | intros v Hv; inv Hv; simpl; isolve].
        intros e He; simpl in He; destruct He as [He|[]]; subst; reflexivity.
      * inv H. apply good_nil_val. simpl. isolve.
    + destruct va; try (inv H; apply good_nil_err).
      assert (Hsrc : run quirks_off w f (Some (w_safe w)) (VTupCons pkg (w_safe w) VTupNil) e = (r, l)
                     \/ (r, l) = (Err, [])).
      { destruct (src_arm r0) as [[|]|]; simpl in H; auto. }
      clear H. destruct Hsrc as [H|H]; [|inv H; apply good_nil_err].
      assert (Hb : binds (VTupCons pkg (w_safe w) VTupNil) = true)
        by (unfold binds; simpl; rewrite String.eqb_refl; reflexivity).
      assert (Hi : incl (au (w_safe w)) (au (VTupCons pkg (w_safe w) VTupNil))) by (simpl; isolve).
      pose proof (IHr _ _ _ _ _ H Hb Hi) as G.
      eapply good_mono; [exact G|]. simpl. destruct HWF as [Hs _]. isolve.
    + inv H. apply good_nil_val. simpl. isolve.
    + destruct (parse_cfg vf) as [[lo sc]|] eqn:P; [|inv H; apply good_nil_err].
      destruct va; try (inv H; apply good_nil_err).
      assert (Hsrc : run quirks_off w f (vget pkg (ctx_env w lo sc)) (ctx_env w lo sc) e = (r, l)
                     \/ (r, l) = (Err, [])).
      { destruct (src_arm r0) as [[|]|]; simpl in H; auto. }
      clear H. destruct Hsrc as [H|H]; [|inv H; apply good_nil_err].
      destruct (ctx_env_pkg lo sc) as [lib Hl]. rewrite Hl in H.
      assert (Hb : binds (ctx_env w lo sc) = true) by (unfold binds; rewrite Hl; reflexivity).
      assert (Hi : incl (au lib) (au (ctx_env w lo sc))) by (apply (vget_auth S F) in Hl; exact Hl).
      pose proof (IHr _ _ _ _ _ H Hb Hi) as G.
      eapply good_mono; [exact G|]. pose proof (parse_cfg_auth _ _ _ P). simpl. isolve.
    + apply IHe in H. eapply good_mono; [exact H|].
      unfold A. rewrite binds_cons. simpl. isolve.
  - (* compile *)
    intros lib e c l H. destruct e; simpl in H;
      try (inv H; repeat split; try apply no_import_nil; try isolve; intros e' He'; inv He'; reflexivity).
    + destruct (compile quirks_off w f (Some lib) e) as [c1 l1] eqn:E1. apply IHc in E1.
      destruct E1 as [H1 [H2 H3]]. destruct c1; inv H; repeat split; auto; try (intros; discriminate).
      intros e' He'; inv He'; simpl; auto.
    + destruct (compile quirks_off w f (Some lib) e1) as [c1 l1] eqn:E1. apply IHc in E1.
      destruct E1 as [H1 [H2 H3]].
      destruct c1; [| inv H; repeat split; auto; intros; discriminate | inv H; repeat split; auto; intros; discriminate].
      destruct (compile quirks_off w f (Some lib) e2) as [c2 l2] eqn:E2. apply IHc in E2.
      destruct E2 as [H4 [H5 H6]].
      destruct c2; inv H; rewrite effs_app; repeat split; auto with sbx; try isolve; try (intros; discriminate).
      intros e' He'; inv He'; simpl. rewrite (H3 _ eq_refl), (H6 _ eq_refl). reflexivity.
    + destruct (compile quirks_off w f (Some lib) e) as [c1 l1] eqn:E1. apply IHc in E1.
      destruct E1 as [H1 [H2 H3]]. destruct c1; inv H; repeat split; auto; try (intros; discriminate).
      intros e' He'; inv He'; simpl; auto.
    + destruct (compile quirks_off w f (Some lib) e1) as [c1 l1] eqn:E1. apply IHc in E1.
      destruct E1 as [H1 [H2 H3]].
      destruct c1; [| inv H; repeat split; auto; intros; discriminate | inv H; repeat split; auto; intros; discriminate].
      destruct (compile quirks_off w f (Some lib) e2) as [c2 l2] eqn:E2. apply IHc in E2.
      destruct E2 as [H4 [H5 H6]].
      destruct c2; inv H; rewrite effs_app; repeat split; auto with sbx; try isolve; try (intros; discriminate).
      intros e' He'; inv He'; simpl. rewrite (H3 _ eq_refl), (H6 _ eq_refl). reflexivity.
    + destruct (compile quirks_off w f (Some lib) e1) as [c1 l1] eqn:E1. apply IHc in E1.
      destruct E1 as [H1 [H2 H3]].
      destruct c1; [| inv H; repeat split; auto; intros; discriminate | inv H; repeat split; auto; intros; discriminate].
      destruct (compile quirks_off w f (Some lib) e2) as [c2 l2] eqn:E2. apply IHc in E2.
      destruct E2 as [H4 [H5 H6]].
      destruct c2; inv H; rewrite effs_app; repeat split; auto with sbx; try isolve; try (intros; discriminate).
      intros e' He'; inv He'; simpl. rewrite (H3 _ eq_refl), (H6 _ eq_refl). reflexivity.
    + (* import: refused inside a sandbox *)
      unfold import_allowed in H. simpl in H. destruct t; simpl in H; inv H;
        repeat split; try apply no_import_nil; try isolve; intros; discriminate.
    + (* macro: evaluated with the sandbox's own `//` *)
      destruct (compile quirks_off w f (Some lib) e) as [c1 l1] eqn:E1. apply IHc in E1.
      destruct E1 as [H1 [H2 H3]].
      destruct c1; [| inv H; repeat split; auto; intros; discriminate | inv H; repeat split; auto; intros; discriminate].
      simpl in H.
      destruct (eval quirks_off w f (VTupCons pkg lib VTupNil) e0) as [r2 l2] eqn:E2. apply IHe in E2.
      assert (G : good l2 r2 (au lib)).
      { eapply good_mono; [exact E2|]. unfold A, needs, binds. simpl. rewrite String.eqb_refl. rewrite (H3 _ eq_refl). isolve. }
      destruct G as [G1 [G2 _]].
      destruct r2; inv H; rewrite effs_app; repeat split; auto with sbx; try isolve; try (intros; discriminate).
      intros e' He'; inv He'. simpl. auto.
Qed.

Lemma all_ok : forall f, eval_ok f /\ apply_ok f /\ compile_ok f /\ run_ok f.
Proof.
  induction f.
  - unfold eval_ok, apply_ok, compile_ok, run_ok.
    split; [|split; [|split]]; intros;
      match goal with H : _ = (_, _) |- _ => simpl in H; inv H end;
      try apply good_nil_fuel.
    split; [simpl; intros x Hx; destruct Hx | split; [apply no_import_nil | intros; discriminate]].
  - apply step; assumption.
Qed.

(* contextualEval with any configuration: everything the evaluation does or returns is
   within the authority of config.stdlib (the safe library by default) and config.scope,
   and no import is resolved. *)
Theorem contextual_confined : forall fuel l sc s r log,
  contextual quirks_off w fuel l sc s = (r, log) ->
  let B := au (lib_or_safe w l) ++ au sc in
  incl (effs log) B /\ no_import log /\ (forall v, r = Val v -> incl (au v) B).
Proof.
  intros fuel l sc s r log H B. unfold contextual in H.
  destruct (ctx_env_pkg l sc) as [lib Hl]. rewrite Hl in H.
  destruct (all_ok fuel) as [_ [_ [_ Hr]]].
  assert (Hb : binds (ctx_env w l sc) = true) by (unfold binds; rewrite Hl; reflexivity).
  assert (Hi : incl (au lib) (au (ctx_env w l sc))) by (apply (vget_auth S F) in Hl; exact Hl).
  pose proof (Hr _ _ _ _ _ H Hb Hi) as G.
  eapply good_mono; [exact G|]. unfold ctx_env, B.
  pose proof (vapp_auth S F sc (VTupCons pkg (lib_or_safe w l) VTupNil)) as Hv. simpl in Hv. isolve.
Qed.

(* what the harness observes of a value is within the value's authority *)
Lemma observe_auth : forall fuel probes v, incl (observe quirks_off w fuel probes v) (au v).
Proof.
  induction fuel; intros probes v; simpl; [isolve|].
  destruct v; try (simpl; isolve; fail).
  - specialize (IHfuel probes). pose proof (IHfuel v1). pose proof (IHfuel v2). simpl. isolve.
  - destruct probes; [isolve|].
    destruct (eval quirks_off w fuel (VTupCons x VTupNil v) b) as [r l] eqn:E.
    destruct r; try isolve.
    destruct (all_ok fuel) as [He _]. apply He in E. destruct E as [_ [_ H3]].
    specialize (H3 v0 eq_refl). specialize (IHfuel probes v0).
    unfold A in H3. rewrite binds_cons in H3. simpl in *. isolve.
Qed.

End Confinement.

(* ---------- quirk scheme: the theorem for every q under the decidable guard ---------- *)
Theorem contextual_confined_guarded : forall q w S F, WF S F w -> forall fuel l sc s r log,
  contextual q w fuel l sc s = contextual quirks_off w fuel l sc s ->
  contextual q w fuel l sc s = (r, log) ->
  let B := auth S F (lib_or_safe w l) ++ auth S F sc in
  incl (effs log) B /\ no_import log /\ (forall v, r = Val v -> incl (auth S F v) B).
Proof.
  intros q w S F HWF fuel l sc s r log Hg H. rewrite Hg in H.
  exact (contextual_confined w S F HWF fuel l sc s r log H).
Qed.

(* a `//` member that is not in the library given to the sandbox fails, whatever the quirks *)
Lemma unknown_member_fails : forall q w l sc a fuel,
  vget pkg sc = None -> vget a (lib_or_safe w l) = None ->
  contextual q w (3 + fuel) l sc (EDot EPkg a) = (Err, []).
Proof.
  intros q w l sc a fuel Hsc Ha. unfold contextual.
  assert (Hp : vget pkg (ctx_env w l sc) = Some (lib_or_safe w l)).
  { unfold ctx_env. rewrite vget_vapp, Hsc. simpl. rewrite String.eqb_refl. reflexivity. }
  rewrite Hp. simpl. rewrite Hp. rewrite Ha. reflexivity.
Qed.

(* ---------- the inventory (Gen/Stdlib.v), re-checked by coqc on every run ---------- *)
From Arrai Require Import Sys.SandboxGen.
Local Transparent String.eqb.

Lemma classified_generic : forall exc t, safe_natives_classified_except exc t = true ->
  forall r, In r t -> excepted exc (row_path r) = false ->
  forbidden (row_class r) = false /\ ambient (row_class r) = false.
Proof.
  unfold safe_natives_classified_except; intros exc t H r Hr He.
  rewrite forallb_forall in H. specialize (H r Hr). unfold row_ok in H. rewrite He in H.
  rewrite orb_false_r in H. apply negb_true_iff in H. apply orb_false_iff in H. exact H.
Qed.

Lemma safe_table_classified : safe_natives_classified_except known_exceptions safe_table = true.
Proof. vm_compute. reflexivity. Qed.

Lemma safe_natives_classified : forall r, In r safe_table ->
  excepted known_exceptions (row_path r) = false ->
  forbidden (row_class r) = false /\ ambient (row_class r) = false.
Proof. exact (classified_generic known_exceptions safe_table safe_table_classified). Qed.

(* the exceptions are real: without them the check fails (open findings) *)
Lemma safe_has_exec_refuted :
  safe_natives_classified_except [] safe_table = false /\ In CExec gen_S.
Proof. split; [vm_compute; reflexivity | vm_compute; auto]. Qed.

Lemma safe_has_ambient_refuted :
  safe_natives_classified_except [["deprecated"; "exec"]] safe_table = false /\
  In CFsMeta gen_S /\ In CEnv gen_S /\ In CStdin gen_S.
Proof. split; [vm_compute; reflexivity | vm_compute; auto 10]. Qed.

Local Opaque gen_world gen_S gen_F safe_table full_table.

Lemma gen_world_wf : WF gen_S gen_F gen_world.
Proof. apply wf_b_WF. vm_compute. reflexivity. Qed.

Lemma gen_S_no_file_net : mem CFile gen_S = false /\ mem CNet gen_S = false /\ mem CUnclassified gen_S = false.
Proof. vm_compute. auto. Qed.

(* default sandbox of the running implementation's inventory: nothing obtained or done inside it
   has file-reading or network authority (command execution is the open finding) *)
Theorem default_sandbox_no_file_net : forall fuel s r log,
  run_safe quirks_off gen_world fuel s = (r, log) ->
  no_import log /\
  (forall c, In c (effs log) -> c <> CFile /\ c <> CNet /\ c <> CUnclassified) /\
  (forall v c, r = Val v -> In c (auth gen_S gen_F v) -> c <> CFile /\ c <> CNet /\ c <> CUnclassified).
Proof.
  intros fuel s r log H. unfold run_safe in H.
  destruct (contextual_confined gen_world gen_S gen_F gen_world_wf fuel None VTupNil s r log H) as [H1 [H2 H3]].
  destruct gen_S_no_file_net as [N1 [N2 N3]].
  assert (Hsafe : incl (auth gen_S gen_F (lib_or_safe gen_world None) ++ auth gen_S gen_F VTupNil) gen_S).
  { destruct gen_world_wf as [Hs _]. simpl. rewrite app_nil_r. exact Hs. }
  assert (K : forall c, In c gen_S -> c <> CFile /\ c <> CNet /\ c <> CUnclassified).
  { intros c Hc. apply mem_In in Hc.
    split; [|split]; intros E; rewrite E in Hc.
    - rewrite N1 in Hc; discriminate.
    - rewrite N2 in Hc; discriminate.
    - rewrite N3 in Hc; discriminate. }
  split; [exact H2|]. split.
  - intros c Hc. apply K. apply Hsafe. apply H1. exact Hc.
  - intros v c Hv Hc. apply K. apply Hsafe. apply (H3 v Hv). exact Hc.
Qed.

(* ---------- witnesses: each quirk alone breaks confinement ---------- *)
Definition only_evalvalue := {| q_evalvalue_full_scope := true; q_sandbox_local_import := false;
                                q_sandbox_remote_import := false; q_macro_full_scope := false |}.
Definition only_local_import := {| q_evalvalue_full_scope := false; q_sandbox_local_import := true;
                                   q_sandbox_remote_import := false; q_macro_full_scope := false |}.
Definition only_remote_import := {| q_evalvalue_full_scope := false; q_sandbox_local_import := false;
                                    q_sandbox_remote_import := true; q_macro_full_scope := false |}.
Definition only_macro := {| q_evalvalue_full_scope := false; q_sandbox_local_import := false;
                            q_sandbox_remote_import := false; q_macro_full_scope := true |}.

Definition os_file : expr := EDot (EDot EPkg "os") "file".

(* //eval.eval("//eval.value(\"//os.file\")") *)
Lemma q_evalvalue_full_scope_refuted : exists fuel s v log,
  run_safe only_evalvalue gen_world fuel s = (Val v, log) /\
  ~ incl (auth gen_S gen_F v) (auth gen_S gen_F (w_safe gen_world)).
Proof.
  exists 12%nat, (EApp (EDot (EDot EPkg "eval") "value") (EQuote RString os_file)), (VPlain CFile 1), [].
  split; [vm_compute; reflexivity|].
  intros H. assert (Hin : In CFile (auth gen_S gen_F (w_safe gen_world))) by (apply H; simpl; auto).
  destruct gen_world_wf as [Hs _]. apply Hs in Hin. apply mem_In in Hin. vm_compute in Hin. discriminate.
Qed.

(* //eval.evaluator((stdlib: ())).eval("//{./secret}") *)
Lemma q_sandbox_local_import_refuted : exists fuel s r log,
  contextual only_local_import gen_world fuel (Some VTupNil) VTupNil s = (r, log) /\ ~ no_import log.
Proof.
  exists 12%nat, (EImport (TLocal "secret")), (Val VData), [EffImportLocal "secret"].
  split; [vm_compute; reflexivity|].
  intros H. specialize (H _ (or_introl eq_refl)). discriminate.
Qed.

(* and what the imported file evaluates to has the full library's authority:
   //eval.eval("//{./lib}") with lib.arrai = //os.file *)
Lemma q_sandbox_local_import_refuted_value : exists fuel s v log,
  contextual only_local_import gen_world fuel (Some VTupNil) VTupNil s = (Val v, log) /\
  ~ incl (auth gen_S gen_F v) [].
Proof.
  exists 12%nat, (EImport (TLocal "lib")), (VPlain CFile 1), [EffImportLocal "lib"].
  split; [vm_compute; reflexivity|].
  intros H. exact (H CFile (or_introl eq_refl)).
Qed.

(* //eval.eval("//{https://host/x}"): the fetch is attempted *)
Lemma q_sandbox_remote_import_refuted : exists fuel s r log,
  contextual only_remote_import gen_world fuel (Some VTupNil) VTupNil s = (r, log) /\ ~ no_import log.
Proof.
  exists 12%nat, (EImport TRemote), Err, [EffImportRemote].
  split; [vm_compute; reflexivity|].
  intros H. specialize (H _ (or_introl eq_refl)). discriminate.
Qed.

(* //eval.evaluator((stdlib: ())).eval("{:(@grammar: G, @transform: (x: \\ast //os.file)):a:}") *)
Lemma q_macro_full_scope_refuted : exists fuel s v log,
  contextual only_macro gen_world fuel (Some VTupNil) VTupNil s = (Val v, log) /\
  ~ incl (auth gen_S gen_F v) [].
Proof.
  exists 12%nat, (EMacro os_file), (VPlain CFile 1), [].
  split; [vm_compute; reflexivity|].
  intros H. exact (H CFile (or_introl eq_refl)).
Qed.

(* ---------- non-vacuity: a configuration that passes a capability in, a program that
   uses names from scope and stdlib, nested evaluation included; all quirks on, guard true ---------- *)
Definition nv_lib : val := VTupCons "os" (VTupCons "file" (VPlain CFile 1) VTupNil)
                           (VTupCons "eval" (VTupCons "eval" (VEvalWith VTupNil) VTupNil) VTupNil).
Definition nv_scope : val := VTupCons "f" (VClo VTupNil "x" (ETupCons "got" (EVar "x") ETupNil)) VTupNil.
Definition nv_src : expr :=
  ETupCons "a" (EApp (EVar "f") os_file)
  (ETupCons "b" (EApp (EDot (EDot EPkg "eval") "eval") (EQuote RBytes (EDot (EDot EPkg "str") "lower"))) ETupNil).

Lemma nonvacuous :
  contextual quirks_on gen_world 20 (Some nv_lib) nv_scope nv_src =
  contextual quirks_off gen_world 20 (Some nv_lib) nv_scope nv_src /\
  exists v, contextual quirks_on gen_world 20 (Some nv_lib) nv_scope nv_src = (Val v, []) /\
            In CFile (auth gen_S gen_F v) /\
            incl (auth gen_S gen_F v) (auth gen_S gen_F (lib_or_safe gen_world (Some nv_lib)) ++ auth gen_S gen_F nv_scope).
Proof.
  split; [vm_compute; reflexivity|].
  eexists. split; [vm_compute; reflexivity|]. split; [vm_compute; auto|].
  apply subset_incl. vm_compute. reflexivity.
Qed.

(* ---------- every accepted representation of source text reaches the same evaluation ---------- *)
Lemma source_representation_irrelevant : forall q w fuel r1 r2 s,
  src_arm r1 <> None -> src_arm r2 <> None ->
  apply q w fuel VEvalValue (VSrc r1 s) = apply q w fuel VEvalValue (VSrc r2 s) /\
  forall cfg, apply q w fuel (VEvalWith cfg) (VSrc r1 s) = apply q w fuel (VEvalWith cfg) (VSrc r2 s).
Proof.
  intros q w fuel r1 r2 s H1 H2. destruct fuel; [split; reflexivity|].
  destruct r1; simpl in H1; try congruence; destruct r2; simpl in H2; try congruence;
    (split; [reflexivity | intros cfg; simpl; destruct (parse_cfg cfg) as [[? ?]|]; reflexivity]).
Qed.

Lemma non_source_refused : forall q w fuel r s,
  src_arm r = None ->
  apply q w (Datatypes.S fuel) VEvalValue (VSrc r s) = (Err, []) /\
  forall cfg, apply q w (Datatypes.S fuel) (VEvalWith cfg) (VSrc r s) = (Err, []).
Proof.
  intros q w fuel r s H. simpl. rewrite H. split; [reflexivity|].
  intros cfg. destruct (parse_cfg cfg) as [[? ?]|]; reflexivity.
Qed.
