(* C11 proofs, part 5: the stdin cache (a mutex-guarded cell whose fill
   consumes a one-shot stream). *)
From Coq Require Import List ZArith Bool Lia Arith.
Import ListNotations.
From Arrai Require Import Sys.Conc Proofs.ConcP.

Lemma geK_true : forall k z, geK k z = true -> (k <= z)%Z.
Proof. unfold geK; intros; now apply Z.leb_le. Qed.
Lemma geK_false : forall k z, geK k z = false -> (z < k)%Z.
Proof. unfold geK; intros k z H; apply Z.leb_gt in H; lia. Qed.
Ltac tests2 := tests;
  repeat match goal with
         | H : geK _ _ = true |- _ => apply geK_true in H
         | H : geK _ _ = false |- _ => apply geK_false in H
         end.

Section StdinP.
  Variable K : nat.
  Notation progs := (fun _ : tid => p_stdin K).
  Notation KZ := (Z.of_nat K).

  Definition stdin_G (s : shared) : Prop :=
    (mem s 0 <> 0%Z -> mem s 0 = Z.succ KZ /\ mem s 1 = KZ) /\
    (0 <= mem s 1%nat <= KZ)%Z /\
    (lk s 0 = None -> mem s 0 = 0%Z -> mem s 1 = 0%Z).
  Definition stdin_A (t : tid) (ts : tstate) (s : shared) : Prop :=
    match pc ts with
    | 0 | 17 => match pc ts with 17 => regs ts 0 = Z.succ KZ | _ => True end
    | 1 => lk s 0 = Some t /\ (mem s 0 = 0%Z -> mem s 1 = 0%Z)
    | 2 => lk s 0 = Some t /\ regs ts 0 = mem s 0 /\ (mem s 0 = 0%Z -> mem s 1 = 0%Z)
    | 3 => lk s 0 = Some t /\ mem s 0 = 0%Z /\ mem s 1 = 0%Z
    | 4 | 5 | 11 => lk s 0 = Some t /\ mem s 0 = 0%Z /\ regs ts 2 = mem s 1
    | 6 => lk s 0 = Some t /\ mem s 0 = 0%Z /\ regs ts 2 = mem s 1 /\ regs ts 1 = mem s 1
    | 7 => lk s 0 = Some t /\ mem s 0 = 0%Z /\ regs ts 2 = mem s 1 /\ regs ts 1 = mem s 1 /\ (mem s 1%nat < KZ)%Z
    | 8 => lk s 0 = Some t /\ mem s 0 = 0%Z /\ regs ts 2 = mem s 1 /\ regs ts 1 = Z.succ (mem s 1) /\ (mem s 1%nat < KZ)%Z
    | 9 | 10 => lk s 0 = Some t /\ mem s 0 = 0%Z /\ Z.succ (regs ts 2) = mem s 1
    | 12 | 13 => lk s 0 = Some t /\ mem s 0 = 0%Z /\ regs ts 2 = KZ /\ mem s 1 = KZ
    | 14 => lk s 0 = Some t /\ mem s 0 = 0%Z /\ regs ts 0 = Z.succ KZ /\ mem s 1 = KZ
    | 15 | 16 => lk s 0 = Some t /\ regs ts 0 = Z.succ KZ /\ mem s 0 <> 0%Z
    | _ => False
    end.

  Lemma stdin_init : stdin_G sh0 /\ forall t, stdin_A t ts0 sh0.
  Proof. split; [|intro; exact I]. unfold stdin_G; simpl. repeat split; try lia; intro H; now elim H. Qed.

  Ltac finz := simpl in *; unfold upd, const in *; simpl in *; try tauto; try congruence; try lia;
    intuition (try congruence; try lia).

  Lemma stdin_local : forall N t ts s ts' s', t < N -> stdin_G s -> stdin_A t ts s ->
      exec (progs t) t ts s = Some (ts', s') -> stdin_G s' /\ stdin_A t ts' s'.
  Proof.
    intros N t [p rg w] s ts' s' _ (G1 & G2 & G3) HA He.
    unfold stdin_G, stdin_A, exec, p_stdin in *; simpl pc in *.
    destr_pc p; simpl in He; exec_inv He; tests2; finz.
  Qed.

  Lemma stdin_interf : forall N t u ts tu s ts' s', t < N -> t <> u -> stdin_G s -> stdin_A t ts s -> stdin_A u tu s ->
      exec (progs t) t ts s = Some (ts', s') -> stdin_A u tu s'.
  Proof.
    intros N t u [p rg w] [p' rg' w'] s ts' s' _ Hne (G1 & G2 & G3) HA HB He.
    unfold stdin_G, stdin_A, exec, p_stdin in *; simpl pc in *.
    destr_pc p; simpl in He; exec_inv He; tests2; destr_pc p'; finz.
  Qed.

  Lemma stdin_excl : forall t u ts tu s x y w1 w2, t <> u -> stdin_G s -> stdin_A t ts s -> stdin_A u tu s ->
      access (progs t) ts = Some (x, w1) -> access (progs u) tu = Some (y, w2) ->
      idloc x = idloc y -> (w1 || w2) = false.
  Proof.
    intros t u [p rg w] [p' rg' w'] s x y w1 w2 Hne (G1 & G2 & G3) HA HB Ha Hb Hl.
    unfold stdin_G, stdin_A, access, p_stdin, idloc in *; simpl pc in *.
    destr_pc p; simpl in Ha; try discriminate Ha; inversion Ha; subst; clear Ha;
    destr_pc p'; simpl in Hb; try discriminate Hb; inversion Hb; subst; clear Hb; finz.
  Qed.

  Theorem stdin_race_free : forall N s, reachable progs N s -> ~ race progs idloc N s.
  Proof.
    intro N. apply (method_race_free progs idloc N stdin_G stdin_A).
    - apply stdin_init.
    - apply stdin_local.
    - apply stdin_interf.
    - apply stdin_excl.
  Qed.

  (* every caller gets the whole stream *)
  Theorem stdin_serial_results : forall N s t, reachable progs N s -> halted progs t s ->
      result s t = stdin_serial K.
  Proof.
    intros N s t Hr Hh.
    destruct (method_inv progs N stdin_G stdin_A stdin_init (stdin_local N) (stdin_interf N) s Hr) as [_ IA].
    specialize (IA t). unfold halted, result, stdin_serial, stdin_A, p_stdin in *.
    destruct (thr s t) as [p rg w]; simpl pc in *.
    destr_pc p; simpl in Hh; try discriminate Hh; finz.
  Qed.
End StdinP.

(* the narrowed critical section: two first readers share the two chunks of the
   stream and thread 0 publishes (and returns) its fragment *)
Lemma stdin_narrow_lock_nonserial :
  exists s, reachable (fun _ => p_stdin_narrow 2) 2 s /\ halted (fun _ => p_stdin_narrow 2) 0 s /\
            result s 0 <> stdin_serial 2 /\ ~ race (fun _ => p_stdin_narrow 2) idloc 2 s.
Proof.
  set (P := fun _ : tid => p_stdin_narrow 2).
  destruct (run P init [0;0;0;0;0; 0;0;0;0;0;0;0;0;  1;1;1;1;1; 1;1;1;1;1;1;1;1;
                        0;0;0;0; 0;0;0;0;0;0;0]) as [s|] eqn:E; [|vm_compute in E; discriminate].
  exists s. split; [eapply run_reachable; [apply r_init| |exact E]; repeat constructor|].
  vm_compute in E. inversion E; subst; clear E. split; [vm_compute; reflexivity|]. split; [vm_compute; discriminate|].
  intros (t & u & x & y & w1 & w2 & Ht & Hu & Hne & Ha & Hb & _).
  destruct t as [|[|t]]; [| |lia]; vm_compute in Ha; discriminate.
Qed.
