(* The dictionary representation refines finite sets of (@: k, @value: v) pairs (properties C01, C02):
   under the representation invariant (distinct keys; a several-values slot holds at least two different
   values) every operation of rel/value_set_dict.go yields exactly the mathematical result on the denoted
   set, preserves the invariant, and representation-wise equality is extensional equality. *)
From Arrai Require Import Base.Val Spec.SetAlg Eval.Interp Proofs.ValOrder Proofs.SetAlgP Proofs.PatternP Rep.DictRep.
From Coq Require Import Lia.

(* ---------- duplicate-free lists as frozen sets ---------- *)

Lemma veqb_refl x : veqb x x = true.
Proof. apply veqb_eq. reflexivity. Qed.

Lemma veqb_neq x y : veqb x y = false <-> x <> y.
Proof.
  split.
  - intros H E. subst. rewrite veqb_refl in H. discriminate.
  - intros H. destruct (veqb x y) eqn:E; [|reflexivity]. apply veqb_eq in E. contradiction.
Qed.

Lemma nodupb_NoDup l : nodupb l = true <-> NoDup l.
Proof.
  induction l as [|x l IH]; simpl.
  - split; [constructor | reflexivity].
  - rewrite andb_true_iff, negb_true_iff, vmem_false, IH. split.
    + intros [H1 H2]. constructor; assumption.
    + intros H. inversion H; subst. split; assumption.
Qed.

Lemma fs_with_in x s y : In y (fs_with x s) <-> y = x \/ In y s.
Proof.
  unfold fs_with. destruct (vmem x s) eqn:E.
  - apply vmem_in in E. split; [intros H; right; exact H | intros [->|H]; assumption].
  - rewrite in_app_iff. simpl. split; [intros [H|[<-|[]]]; [right; exact H | left; reflexivity] | intros [->|H]; [right; left; reflexivity | left; exact H]].
Qed.

Lemma NoDup_snoc (x : val) s : NoDup s -> ~ In x s -> NoDup (s ++ [x]).
Proof.
  induction s as [|a s IH]; simpl; intros Hn Hx.
  - constructor; [intros [] | constructor].
  - inversion Hn; subst. constructor.
    + rewrite in_app_iff. simpl. intros [H|[H|[]]]; [contradiction | subst; apply Hx; left; reflexivity].
    + apply IH; [assumption | intros H; apply Hx; right; exact H].
Qed.

Lemma fs_with_NoDup x s : NoDup s -> NoDup (fs_with x s).
Proof.
  intros H. unfold fs_with. destruct (vmem x s) eqn:E; [exact H|].
  apply NoDup_snoc; [exact H | apply vmem_false, E].
Qed.

Lemma fs_with_length x s : (length s <= length (fs_with x s))%nat.
Proof. unfold fs_with. destruct (vmem x s); [lia | rewrite app_length; simpl; lia]. Qed.

Lemma fs_without_in x s y : In y (fs_without x s) <-> In y s /\ y <> x.
Proof.
  unfold fs_without. rewrite filter_In, negb_true_iff, veqb_neq. tauto.
Qed.

Lemma NoDup_filter {A} (p : A -> bool) l : NoDup l -> NoDup (filter p l).
Proof.
  induction 1 as [|x l Hx Hn IH]; simpl; [constructor|].
  destruct (p x); [constructor; [rewrite filter_In; tauto | exact IH] | exact IH].
Qed.

Lemma fs_without_NoDup x s : NoDup s -> NoDup (fs_without x s).
Proof. apply NoDup_filter. Qed.

Lemma fs_without_length x s : NoDup s -> In x s -> S (length (fs_without x s)) = length s.
Proof.
  unfold fs_without. induction s as [|a s IH]; simpl; intros Hn Hx; [contradiction|].
  inversion Hn; subst. destruct (veqb a x) eqn:E; simpl.
  - apply veqb_eq in E. subst a. f_equal.
    assert (F : filter (fun y => negb (veqb y x)) s = s).
    { clear IH Hn Hx H2. induction s as [|b s IHs]; simpl; [reflexivity|].
      assert (Hb : veqb b x = false) by (apply veqb_neq; intros ->; apply H1; left; reflexivity).
      rewrite Hb. simpl. f_equal. apply IHs. intros H. apply H1. right. exact H. }
    rewrite F. reflexivity.
  - f_equal. apply IH; [assumption|]. destruct Hx as [->|Hx]; [rewrite veqb_refl in E; discriminate | exact Hx].
Qed.

Lemma fs_of_acc l : forall acc, NoDup acc ->
  NoDup (fold_left (fun a x => fs_with x a) l acc) /\
  forall y, In y (fold_left (fun a x => fs_with x a) l acc) <-> In y acc \/ In y l.
Proof.
  induction l as [|x l IH]; simpl; intros acc Hn.
  - split; [exact Hn | intros y; tauto].
  - destruct (IH (fs_with x acc) (fs_with_NoDup x acc Hn)) as [H1 H2]. split; [exact H1|].
    intros y. rewrite H2, fs_with_in. split; [intros [[->|H]|H]; auto | intros [H|[<-|H]]; auto].
Qed.

Lemma fs_of_NoDup l : NoDup (fs_of l).
Proof. apply (fs_of_acc l []). constructor. Qed.
Lemma fs_of_in l y : In y (fs_of l) <-> In y l.
Proof. unfold fs_of. destruct (fs_of_acc l [] (NoDup_nil _)) as [_ H]. rewrite H. simpl. tauto. Qed.

(* two duplicate-free lists with the same members have the same length *)
Lemma NoDup_same_length (a b : list val) : NoDup a -> NoDup b -> (forall y, In y a <-> In y b) -> length a = length b.
Proof.
  intros Ha Hb H. apply Nat.le_antisymm; apply NoDup_incl_length; try assumption; intros y Hy; apply H; exact Hy.
Qed.

Lemma fs_equal_spec a b : NoDup a -> NoDup b -> (fs_equal a b = true <-> forall y, In y a <-> In y b).
Proof.
  intros Ha Hb. unfold fs_equal. rewrite andb_true_iff, Nat.eqb_eq, forallb_forall. split.
  - intros [Hl Hs] y. split.
    + intros Hy. apply vmem_in, Hs, Hy.
    + intros Hy. assert (Hi : incl a b) by (intros z Hz; apply vmem_in, Hs, Hz).
      apply (NoDup_length_incl Ha) in Hi; [apply Hi, Hy | lia].
  - intros H. split; [apply NoDup_same_length; assumption | intros x Hx; apply vmem_in, H, Hx].
Qed.

(* ---------- association lists as frozen maps ---------- *)

Lemma fm_get_with_same k s m : fm_get k (fm_with k s m) = Some s.
Proof.
  induction m as [|[k' s'] m IH]; simpl; [rewrite veqb_refl; reflexivity|].
  destruct (veqb k' k) eqn:E; simpl; [rewrite veqb_refl; reflexivity | rewrite E; exact IH].
Qed.

Lemma fm_get_with_other k s m k2 : k2 <> k -> fm_get k2 (fm_with k s m) = fm_get k2 m.
Proof.
  intros Hne. induction m as [|[k' s'] m IH]; simpl.
  - assert (E : veqb k k2 = false) by (apply veqb_neq; congruence). rewrite E. reflexivity.
  - destruct (veqb k' k) eqn:E; simpl.
    + apply veqb_eq in E. subst k'.
      assert (E2 : veqb k k2 = false) by (apply veqb_neq; congruence). rewrite E2. reflexivity.
    + destruct (veqb k' k2); [reflexivity | exact IH].
Qed.

Lemma fm_get_without_same k m : fm_get k (fm_without k m) = None.
Proof.
  unfold fm_without. induction m as [|[k' s'] m IH]; simpl; [reflexivity|].
  destruct (veqb k' k) eqn:E; simpl; [exact IH | rewrite E; exact IH].
Qed.

Lemma fm_get_without_other k m k2 : k2 <> k -> fm_get k2 (fm_without k m) = fm_get k2 m.
Proof.
  intros Hne. unfold fm_without. induction m as [|[k' s'] m IH]; simpl; [reflexivity|].
  destruct (veqb k' k) eqn:E; simpl.
  - apply veqb_eq in E. subst k'. assert (E2 : veqb k k2 = false) by (apply veqb_neq; congruence).
    rewrite E2. exact IH.
  - destruct (veqb k' k2); [reflexivity | exact IH].
Qed.

Lemma fm_keys_with k s m : forall y, In y (map fst (fm_with k s m)) <-> y = k \/ In y (map fst m).
Proof.
  induction m as [|[k' s'] m IH]; simpl; intros y.
  - split; [intros [<-|[]]; left; reflexivity | intros [->|[]]; left; reflexivity].
  - destruct (veqb k' k) eqn:E; simpl.
    + apply veqb_eq in E. subst k'. split; [intros [<-|H]; [left; reflexivity | right; right; exact H] | intros [->|[<-|H]]; [left; reflexivity | left; reflexivity | right; exact H]].
    + rewrite IH. split; [intros [<-|[->|H]]; auto | intros [->|[<-|H]]; auto].
Qed.

Lemma fm_with_keys_NoDup k s m : NoDup (map fst m) -> NoDup (map fst (fm_with k s m)).
Proof.
  induction m as [|[k' s'] m IH]; simpl; intros Hn.
  - constructor; [intros [] | constructor].
  - inversion Hn; subst. destruct (veqb k' k) eqn:E; simpl.
    + apply veqb_eq in E. subst k'. constructor; assumption.
    + constructor; [|apply IH; assumption]. rewrite fm_keys_with. intros [->|H]; [rewrite veqb_refl in E; discriminate | contradiction].
Qed.

Lemma fm_without_keys_NoDup k m : NoDup (map fst m) -> NoDup (map fst (fm_without k m)).
Proof.
  unfold fm_without. induction m as [|[k' s'] m IH]; simpl; intros Hn; [constructor|].
  inversion Hn; subst. destruct (veqb k' k); simpl; [apply IH; assumption|].
  constructor; [|apply IH; assumption].
  intros H. apply H1. apply in_map_iff in H. destruct H as ([k2 s2] & <- & H). apply filter_In in H.
  apply in_map_iff. exists (k2, s2). split; [reflexivity | apply H].
Qed.

Lemma fm_get_in k s m : fm_get k m = Some s -> In (k, s) m.
Proof.
  induction m as [|[k' s'] m IH]; simpl; [discriminate|].
  destruct (veqb k' k) eqn:E; [apply veqb_eq in E; subst; intros [= ->]; left; reflexivity | intros H; right; apply IH, H].
Qed.

Lemma fm_in_get k s m : NoDup (map fst m) -> In (k, s) m -> fm_get k m = Some s.
Proof.
  induction m as [|[k' s'] m IH]; simpl; intros Hn; [intros []|].
  inversion Hn; subst. intros [[= -> ->]|H].
  - rewrite veqb_refl. reflexivity.
  - destruct (veqb k' k) eqn:E; [|apply IH; assumption].
    apply veqb_eq in E. subst k'. exfalso. apply H1. apply in_map_iff. exists (k, s). split; [reflexivity | exact H].
Qed.

Lemma fm_in_with k s m k2 s2 : NoDup (map fst m) ->
  (In (k2, s2) (fm_with k s m) <-> (k2 = k /\ s2 = s) \/ (k2 <> k /\ In (k2, s2) m)).
Proof.
  intros Hn. pose proof (fm_with_keys_NoDup k s m Hn) as Hn'. split.
  - intros H. apply (fm_in_get _ _ _ Hn') in H. destruct (veqb k2 k) eqn:E.
    + apply veqb_eq in E. subst k2. rewrite fm_get_with_same in H. injection H as <-. left. split; reflexivity.
    + apply veqb_neq in E. rewrite (fm_get_with_other _ _ _ _ E) in H. right. split; [exact E | apply fm_get_in, H].
  - intros [[-> ->]|[Hne H]]; apply fm_get_in.
    + apply fm_get_with_same.
    + rewrite (fm_get_with_other _ _ _ _ Hne). apply fm_in_get; assumption.
Qed.

Lemma fm_in_without k m k2 s2 : In (k2, s2) (fm_without k m) <-> k2 <> k /\ In (k2, s2) m.
Proof.
  unfold fm_without. rewrite filter_In. simpl. rewrite negb_true_iff, veqb_neq. tauto.
Qed.

(* ---------- members ---------- *)

Definition slot_entries (k : val) (s : slot) : list val :=
  match s with One v => [ventry k v] | Multi vs => map (ventry k) vs end.
Definition slot_vals (s : slot) : list val := match s with One v => [v] | Multi vs => vs end.

Lemma slot_entries_vals k s : slot_entries k s = map (ventry k) (slot_vals s).
Proof. destruct s; reflexivity. Qed.

Definition slots_ok (d : dict) : Prop := forall k s, In (k, s) d -> slot_ok s = true.

Lemma dict_ok_spec d : dict_ok d = true <-> NoDup (map fst d) /\ slots_ok d.
Proof.
  unfold dict_ok, slots_ok. rewrite andb_true_iff, nodupb_NoDup, forallb_forall. split; intros [H1 H2]; split; try exact H1.
  - intros k s Hin. apply (H2 (k, s) Hin).
  - intros [k s] Hin. apply (H2 k s Hin).
Qed.

Lemma dict_enum_full d : slots_ok d -> dict_enum d = flat_map (fun p => slot_entries (fst p) (snd p)) d.
Proof.
  induction d as [|[k s] d IH]; intros Hok; [reflexivity|].
  assert (IH' : dict_enum d = flat_map (fun p => slot_entries (fst p) (snd p)) d)
    by (apply IH; intros k' s' H; apply (Hok k' s'); right; exact H).
  simpl. destruct s as [v|vs]; simpl; [rewrite IH'; reflexivity|].
  destruct vs as [|v vs]; [|rewrite IH'; reflexivity].
  specialize (Hok k (Multi []) (or_introl eq_refl)). discriminate.
Qed.

Lemma ventry_inj k v k' v' : ventry k v = ventry k' v' -> k = k' /\ v = v'.
Proof. unfold ventry, vpair. intros [= -> ->]. split; reflexivity. Qed.

(* v is one of the values paired with k *)
Definition paired (d : dict) (k v : val) : Prop :=
  match fm_get k d with Some s => In v (slot_vals s) | None => False end.

Lemma enum_spec d : dict_ok d = true ->
  forall x, In x (dict_enum d) <-> exists k v, x = ventry k v /\ paired d k v.
Proof.
  intros Hok x. apply dict_ok_spec in Hok. destruct Hok as [Hn Hs].
  rewrite (dict_enum_full d Hs), in_flat_map. unfold paired. split.
  - intros ([k s] & Hin & Hx). simpl in Hx. rewrite slot_entries_vals in Hx. apply in_map_iff in Hx.
    destruct Hx as (v & <- & Hv). exists k, v. split; [reflexivity|].
    rewrite (fm_in_get _ _ _ Hn Hin). exact Hv.
  - intros (k & v & -> & Hp). destruct (fm_get k d) as [s|] eqn:E; [|contradiction].
    exists (k, s). split; [apply fm_get_in, E|]. simpl. rewrite slot_entries_vals. apply in_map, Hp.
Qed.

Lemma as_entry_spec m k x : as_entry m = Some (k, x) <-> m = ventry k x.
Proof.
  split.
  - destruct m as [|[|[n1 a] [|[n2 b] [|? ?]]]|]; simpl; try discriminate.
    destruct (name_eqb n1 n_at) eqn:E1; simpl; [|discriminate].
    destruct (name_eqb n2 n_value) eqn:E2; [|discriminate].
    apply name_eqb_eq in E1, E2. subst. intros [= -> ->]. reflexivity.
  - intros ->. reflexivity.
Qed.

(* ---------- slots ---------- *)

Lemma new_multiple_vals l y : In y (slot_vals (new_multiple l)) <-> In y l.
Proof.
  unfold new_multiple. rewrite <- (fs_of_in l y). destruct (fs_of l) as [|a [|b r]]; simpl; tauto.
Qed.

Lemma new_multiple_ok l : l <> [] -> slot_ok (new_multiple l) = true.
Proof.
  intros Hne. unfold new_multiple. pose proof (fs_of_NoDup l) as Hn. pose proof (fs_of_in l) as Hi.
  destruct (fs_of l) as [|a [|b r]] eqn:E; simpl.
  - destruct l as [|x l]; [contradiction|]. exfalso. apply (proj2 (Hi x)). left. reflexivity.
  - reflexivity.
  - rewrite andb_true_r. change (nodupb (a :: b :: r) = true). apply nodupb_NoDup, Hn.
Qed.

Lemma slot_vals_NoDup s : slot_ok s = true -> NoDup (slot_vals s).
Proof.
  destruct s as [v|vs]; simpl; [intros _; constructor; [intros [] | constructor]|].
  rewrite andb_true_iff. intros [H _]. apply nodupb_NoDup, H.
Qed.

(* ---------- replacing / removing the slot of one key ---------- *)

Lemma enum_split d k : dict_ok d = true ->
  forall y, In y (dict_enum d) <->
    (exists v, y = ventry k v /\ paired d k v) \/ (exists k2 v, y = ventry k2 v /\ k2 <> k /\ paired d k2 v).
Proof.
  intros Hok y. rewrite (enum_spec d Hok). split.
  - intros (k2 & v & -> & Hp). destruct (veqb k2 k) eqn:E.
    + apply veqb_eq in E. subst. left. eauto.
    + apply veqb_neq in E. right. exists k2, v. auto.
  - intros [(v & -> & Hp)|(k2 & v & -> & _ & Hp)]; eauto.
Qed.

Lemma upd_ok d k s' : dict_ok d = true -> slot_ok s' = true -> dict_ok (fm_with k s' d) = true.
Proof.
  intros Hok Hs. apply dict_ok_spec in Hok. destruct Hok as [Hn Hso]. apply dict_ok_spec. split.
  - apply fm_with_keys_NoDup, Hn.
  - intros k2 s2 Hin. apply (fm_in_with _ _ _ _ _ Hn) in Hin. destruct Hin as [[-> ->]|[_ Hin]]; [exact Hs | apply (Hso k2 s2 Hin)].
Qed.

Lemma upd_members d k s' : dict_ok d = true -> slot_ok s' = true ->
  forall y, In y (dict_enum (fm_with k s' d)) <->
    (exists v, y = ventry k v /\ In v (slot_vals s')) \/ (exists k2 v, y = ventry k2 v /\ k2 <> k /\ paired d k2 v).
Proof.
  intros Hok Hs y. rewrite (enum_split _ k (upd_ok d k s' Hok Hs)). unfold paired.
  rewrite fm_get_with_same. split.
  - intros [H|(k2 & v & -> & Hne & Hp)]; [left; exact H | right; exists k2, v].
    rewrite (fm_get_with_other _ _ _ _ Hne) in Hp. auto.
  - intros [H|(k2 & v & -> & Hne & Hp)]; [left; exact H | right; exists k2, v].
    rewrite (fm_get_with_other _ _ _ _ Hne). auto.
Qed.

Lemma del_ok d k : dict_ok d = true -> dict_ok (fm_without k d) = true.
Proof.
  intros Hok. apply dict_ok_spec in Hok. destruct Hok as [Hn Hso]. apply dict_ok_spec. split.
  - apply fm_without_keys_NoDup, Hn.
  - intros k2 s2 Hin. apply fm_in_without in Hin. apply (Hso k2 s2), Hin.
Qed.

Lemma del_members d k : dict_ok d = true ->
  forall y, In y (dict_enum (fm_without k d)) <-> exists k2 v, y = ventry k2 v /\ k2 <> k /\ paired d k2 v.
Proof.
  intros Hok y. rewrite (enum_split _ k (del_ok d k Hok)). unfold paired. rewrite fm_get_without_same. split.
  - intros [(v & _ & [])|(k2 & v & -> & Hne & Hp)]. exists k2, v. rewrite (fm_get_without_other _ _ _ Hne) in Hp. auto.
  - intros (k2 & v & -> & Hne & Hp). right. exists k2, v. rewrite (fm_get_without_other _ _ _ Hne). auto.
Qed.

(* ---------- the operations ---------- *)

Definition res_members (r : dres) : list val :=
  match r with RDict d => dict_enum d | RNone => [] | RErr => [] | RNotDict ms => ms end.
(* a Dict value is never empty (the empty dictionary is the empty set None) and meets the invariant *)
Definition res_ok (r : dres) : Prop :=
  match r with RDict d => dict_ok d = true /\ d <> [] | RNone => True | RErr => False | RNotDict _ => True end.

Lemma fm_with_nonempty k s d : fm_with k s d <> [].
Proof. destruct d as [|[k' s'] d]; simpl; [discriminate | destruct (veqb k' k); discriminate]. Qed.

(* With: exactly one more member, nothing else changes *)
Theorem dict_with_spec d v : dict_ok d = true ->
  res_ok (dict_with d v) /\ forall y, In y (res_members (dict_with d v)) <-> y = v \/ In y (dict_enum d).
Proof.
  intros Hok. unfold dict_with. destruct (as_entry v) as [[k x]|] eqn:Ev.
  2:{ split; [exact I | intros y; simpl; split; [intros [<-|H]; auto | intros [->|H]; auto]]. }
  apply as_entry_spec in Ev. subst v.
  assert (Hslots : forall s, fm_get k d = Some s -> slot_ok s = true).
  { intros s E. apply dict_ok_spec in Hok. apply (proj2 Hok k s), fm_get_in, E. }
  set (s' := match fm_get k d with
             | Some (Multi vs) => Multi (fs_with x vs)
             | Some (One u) => new_multiple [u; x]
             | None => One x
             end).
  assert (Hs' : slot_ok s' = true /\ forall y, In y (slot_vals s') <-> y = x \/ paired d k y).
  { unfold s', paired. destruct (fm_get k d) as [[u|vs]|] eqn:E.
    - split; [apply new_multiple_ok; discriminate|]. intros y. rewrite new_multiple_vals. simpl. split; [intros [<-|[<-|[]]]; auto | intros [->|[<-|[]]]; auto].
    - pose proof (Hslots _ eq_refl) as Hv. cbn [slot_ok] in Hv. apply andb_true_iff in Hv. destruct Hv as [Hnd Hlen].
      split.
      + cbn [slot_ok]. apply andb_true_iff. split; [apply nodupb_NoDup, fs_with_NoDup, nodupb_NoDup, Hnd|].
        apply Nat.leb_le. apply Nat.leb_le in Hlen. pose proof (fs_with_length x vs). lia.
      + intros y. simpl. apply fs_with_in.
    - split; [reflexivity|]. intros y. simpl. split; [intros [<-|[]]; auto | intros [->|[]]; auto]. }
  destruct Hs' as [Hs1 Hs2].
  assert (E : match fm_get k d with
              | Some (Multi vs) => RDict (fm_with k (Multi (fs_with x vs)) d)
              | Some (One u) => RDict (fm_with k (new_multiple [u; x]) d)
              | None => RDict (fm_with k (One x) d)
              end = RDict (fm_with k s' d)).
  { unfold s'. destruct (fm_get k d) as [[u|vs]|]; reflexivity. }
  rewrite E. simpl. split; [split; [apply upd_ok; assumption | apply fm_with_nonempty]|].
  intros y. rewrite (upd_members d k s' Hok Hs1), (enum_split d k Hok). split.
  - intros [(w & -> & Hw)|H]; [|right; right; exact H].
    apply Hs2 in Hw. destruct Hw as [->|Hp]; [left; reflexivity | right; left; eauto].
  - intros [->|[(w & -> & Hp)|H]]; [left; exists x; split; [reflexivity | apply Hs2; left; reflexivity] | left; exists w; split; [reflexivity | apply Hs2; right; exact Hp] | right; exact H].
Qed.

(* Without: exactly that member goes, nothing else changes; the last entry leaves the empty set *)
Theorem dict_without_spec d v : dict_ok d = true -> d <> [] ->
  res_ok (dict_without d v) /\ forall y, In y (res_members (dict_without d v)) <-> In y (dict_enum d) /\ y <> v.
Proof.
  intros Hok Hne. unfold dict_without.
  assert (Hsame : forall k x, v = ventry k x -> ~ paired d k x ->
            forall y, In y (dict_enum d) <-> In y (dict_enum d) /\ y <> v).
  { intros k x -> Hnp y. split; [|tauto]. intros Hy. split; [exact Hy|]. intros ->.
    apply (enum_spec d Hok) in Hy. destruct Hy as (k2 & v2 & Ee & Hp). apply ventry_inj in Ee. destruct Ee as [-> ->]. contradiction. }
  destruct (as_entry v) as [[k x]|] eqn:Ev.
  2:{ simpl. split; [split; assumption|]. intros y. split; [|tauto]. intros Hy. split; [exact Hy|]. intros ->.
      apply (enum_spec d Hok) in Hy. destruct Hy as (k2 & v2 & Ee & _). apply as_entry_spec in Ee. congruence. }
  apply as_entry_spec in Ev.
  destruct (fm_get k d) as [[u|vs]|] eqn:E.
  - (* one value *)
    destruct (veqb x u) eqn:Exu.
    + apply veqb_eq in Exu. subst u.
      assert (Hm : forall y, In y (dict_enum (fm_without k d)) <-> In y (dict_enum d) /\ y <> v).
      { intros y. rewrite (del_members d k Hok), (enum_split d k Hok). subst v. unfold paired. rewrite E. simpl. split.
        - intros (k2 & w & -> & Hk & Hp). split; [right; eauto|]. intros Ee. apply ventry_inj in Ee. destruct Ee; contradiction.
        - intros [[(w & -> & [<-|[]])|(k2 & w & -> & Hk & Hp)] Hy]; [contradiction | eauto]. }
      destruct (fm_without k d) as [|p m] eqn:Ed.
      * simpl. split; [exact I|]. intros y. rewrite <- Hm. simpl. tauto.
      * simpl. split; [split; [rewrite <- Ed; apply del_ok, Hok | discriminate]|]. exact Hm.
    + simpl. split; [split; assumption|]. apply (Hsame k x Ev). unfold paired. rewrite E. simpl. intros [->|[]].
      rewrite veqb_refl in Exu. discriminate.
  - (* several values *)
    assert (Hso : slot_ok (Multi vs) = true) by (apply dict_ok_spec in Hok; apply (proj2 Hok k), fm_get_in, E).
    cbn [slot_ok] in Hso. apply andb_true_iff in Hso. destruct Hso as [Hnd Hlen]. apply nodupb_NoDup in Hnd. apply Nat.leb_le in Hlen.
    destruct (vmem x vs) eqn:Ex.
    + apply vmem_in in Ex. set (s' := new_multiple (fs_without x vs)).
      assert (Hne' : fs_without x vs <> []).
      { pose proof (fs_without_length x vs Hnd Ex) as Hl. destruct (fs_without x vs); [simpl in Hl; lia | discriminate]. }
      assert (Hs1 : slot_ok s' = true) by (apply new_multiple_ok, Hne').
      simpl. split; [split; [apply upd_ok; assumption | apply fm_with_nonempty]|].
      intros y. rewrite (upd_members d k s' Hok Hs1), (enum_split d k Hok). subst v. unfold paired. rewrite E. simpl. split.
      * intros [(w & -> & Hw)|(k2 & w & -> & Hk & Hp)].
        -- unfold s' in Hw. apply new_multiple_vals, fs_without_in in Hw. destruct Hw as [Hw Hwx].
           split; [left; eauto|]. intros Ee. apply ventry_inj in Ee. destruct Ee; contradiction.
        -- split; [right; eauto|]. intros Ee. apply ventry_inj in Ee. destruct Ee; contradiction.
      * intros [[(w & -> & Hw)|H] Hy]; [|right; exact H].
        left. exists w. split; [reflexivity|]. unfold s'. apply new_multiple_vals, fs_without_in. split; [exact Hw | congruence].
    + simpl. split; [split; assumption|]. apply (Hsame k x Ev). unfold paired. rewrite E. simpl. apply vmem_false, Ex.
  - simpl. split; [split; assumption|]. apply (Hsame k x Ev). unfold paired. rewrite E. exact (fun f => f).
Qed.

(* Has is membership *)
Theorem dict_has_spec d v : dict_ok d = true -> (dict_has d v = true <-> In v (dict_enum d)).
Proof.
  intros Hok. rewrite (enum_spec d Hok). unfold dict_has, paired. destruct (as_entry v) as [[k x]|] eqn:Ev.
  - apply as_entry_spec in Ev. subst v. split.
    + intros H. exists k, x. split; [reflexivity|]. destruct (fm_get k d) as [[u|vs]|]; simpl.
      * apply veqb_eq in H. left. congruence.
      * apply vmem_in, H.
      * discriminate.
    + intros (k2 & x2 & Ee & Hp). apply ventry_inj in Ee. destruct Ee as [<- <-].
      destruct (fm_get k d) as [[u|vs]|]; simpl in Hp.
      * destruct Hp as [->|[]]. apply veqb_refl.
      * apply vmem_in, Hp.
      * contradiction.
  - split; [discriminate|]. intros (k & x & -> & _). simpl in Ev. discriminate.
Qed.

(* Count is the number of members, and no member is enumerated twice *)
Lemma dict_count_full d : dict_count d = length (flat_map (fun p => slot_entries (fst p) (snd p)) d).
Proof.
  induction d as [|[k [v|vs]] d IH]; simpl; [reflexivity | rewrite IH; reflexivity|].
  rewrite app_length, map_length, IH. reflexivity.
Qed.

Lemma NoDup_app_intro {A} (a b : list A) :
  NoDup a -> NoDup b -> (forall y, In y a -> In y b -> False) -> NoDup (a ++ b).
Proof.
  induction a as [|x a IH]; simpl; intros Ha Hb Hd; [exact Hb|].
  inversion Ha; subst. constructor.
  - rewrite in_app_iff. intros [H|H]; [contradiction | apply (Hd x); [left; reflexivity | exact H]].
  - apply IH; [assumption | assumption | intros y Hy1 Hy2; apply (Hd y); [right; exact Hy1 | exact Hy2]].
Qed.

Lemma NoDup_map_inj {A B} (f : A -> B) l : (forall a b, f a = f b -> a = b) -> NoDup l -> NoDup (map f l).
Proof.
  intros Hinj. induction 1 as [|x l Hx Hn IH]; simpl; constructor; [|exact IH].
  intros H. apply in_map_iff in H. destruct H as (y & E & Hy). apply Hinj in E. subst. contradiction.
Qed.

Theorem dict_count_spec d : dict_ok d = true -> dict_count d = length (dict_enum d) /\ NoDup (dict_enum d).
Proof.
  intros Hok. pose proof Hok as Hok2. apply dict_ok_spec in Hok2. destruct Hok2 as [Hn Hs].
  rewrite (dict_enum_full d Hs). split; [apply dict_count_full|].
  clear Hok. induction d as [|[k s] d IH]; simpl; [constructor|].
  inversion Hn; subst.
  assert (Hs' : slots_ok d) by (intros k' s' H; apply (Hs k' s'); right; exact H).
  specialize (IH H2 Hs'). rewrite slot_entries_vals.
  apply NoDup_app_intro.
  - apply NoDup_map_inj; [intros a b Ee; apply ventry_inj in Ee; apply Ee | apply slot_vals_NoDup, (Hs k s), or_introl, eq_refl].
  - exact IH.
  - intros y Hy1 Hy2. apply in_map_iff in Hy1. destruct Hy1 as (v & <- & _).
    apply in_flat_map in Hy2. destruct Hy2 as ([k2 s2] & Hin & Hy2). simpl in Hy2. rewrite slot_entries_vals in Hy2.
    apply in_map_iff in Hy2. destruct Hy2 as (v2 & Ee & _). apply ventry_inj in Ee. destruct Ee as [-> _].
    apply H1. apply in_map_iff. exists (k, s2). split; [reflexivity | exact Hin].
Qed.

(* ---------- representation-wise equality is extensional ---------- *)

Lemma slot_equal_spec s s2 : slot_ok s = true -> slot_ok s2 = true ->
  (slot_equal s s2 = true <-> forall v, In v (slot_vals s) <-> In v (slot_vals s2)).
Proof.
  intros H1 H2. destruct s as [u|vs], s2 as [u2|vs2]; simpl.
  - rewrite veqb_eq. split; [intros -> v; tauto | intros H; destruct (proj2 (H u2) (or_introl eq_refl)) as [E|[]]; exact E].
  - split; [discriminate|]. intros H. exfalso. cbn [slot_ok] in H2. apply andb_true_iff in H2. destruct H2 as [Hn Hl].
    apply nodupb_NoDup in Hn. destruct vs2 as [|a [|b r]]; simpl in Hl; try discriminate.
    assert (Ea : u = a) by (destruct (proj2 (H a) (or_introl eq_refl)) as [E|[]]; exact E).
    assert (Eb : u = b) by (destruct (proj2 (H b) (or_intror (or_introl eq_refl))) as [E|[]]; exact E).
    subst. inversion Hn; subst. apply H3. left. reflexivity.
  - split; [discriminate|]. intros H. exfalso. cbn [slot_ok] in H1. apply andb_true_iff in H1. destruct H1 as [Hn Hl].
    apply nodupb_NoDup in Hn. destruct vs as [|a [|b r]]; simpl in Hl; try discriminate.
    assert (Ea : u2 = a) by (destruct (proj1 (H a) (or_introl eq_refl)) as [E|[]]; exact E).
    assert (Eb : u2 = b) by (destruct (proj1 (H b) (or_intror (or_introl eq_refl))) as [E|[]]; exact E).
    subst. inversion Hn; subst. apply H3. left. reflexivity.
  - cbn [slot_ok] in H1, H2. apply andb_true_iff in H1, H2. destruct H1 as [Hn1 _], H2 as [Hn2 _].
    apply fs_equal_spec; apply nodupb_NoDup; assumption.
Qed.

Lemma slot_vals_nonempty s : slot_ok s = true -> exists v, In v (slot_vals s).
Proof.
  destruct s as [u|[|a r]]; simpl; [exists u; left; reflexivity | discriminate | exists a; left; reflexivity].
Qed.

Lemma key_has_member d k : dict_ok d = true -> (In k (map fst d) <-> exists v, paired d k v).
Proof.
  intros Hok. pose proof Hok as Hok2. apply dict_ok_spec in Hok2. destruct Hok2 as [Hn Hs]. unfold paired. split.
  - intros H. apply in_map_iff in H. destruct H as ([k' s] & <- & Hin). simpl.
    rewrite (fm_in_get _ _ _ Hn Hin). apply slot_vals_nonempty, (Hs k' s Hin).
  - intros (v & Hp). destruct (fm_get k d) as [s|] eqn:E; [|contradiction].
    apply fm_get_in in E. apply in_map_iff. exists (k, s). split; [reflexivity | exact E].
Qed.

Theorem dict_equal_extensional d d2 : dict_ok d = true -> dict_ok d2 = true ->
  (dict_equal d d2 = true <-> forall y, In y (dict_enum d) <-> In y (dict_enum d2)).
Proof.
  intros Hok Hok2.
  pose proof (proj1 (dict_ok_spec d) Hok) as [Hn Hs]. pose proof (proj1 (dict_ok_spec d2) Hok2) as [Hn2 Hs2].
  unfold dict_equal. rewrite andb_true_iff, Nat.eqb_eq, forallb_forall. split.
  - intros [Hlen Hall].
    assert (Hfw : forall k s, In (k, s) d -> exists s2, fm_get k d2 = Some s2 /\ forall v, In v (slot_vals s) <-> In v (slot_vals s2)).
    { intros k s Hin. specialize (Hall (k, s) Hin). simpl in Hall. destruct (fm_get k d2) as [s2|] eqn:E; [|discriminate].
      exists s2. split; [reflexivity|]. apply slot_equal_spec; [apply (Hs k s Hin) | apply (Hs2 k s2), fm_get_in, E | exact Hall]. }
    assert (Hkeys : incl (map fst d2) (map fst d)).
    { apply NoDup_length_incl; [exact Hn | rewrite !map_length; lia|].
      intros k Hk. apply in_map_iff in Hk. destruct Hk as ([k' s] & <- & Hin). simpl.
      destruct (Hfw k' s Hin) as (s2 & E & _). apply fm_get_in in E. apply in_map_iff. exists (k', s2). split; [reflexivity | exact E]. }
    intros y. rewrite (enum_spec d Hok), (enum_spec d2 Hok2). unfold paired. split.
    + intros (k & v & -> & Hp). exists k, v. split; [reflexivity|].
      destruct (fm_get k d) as [s|] eqn:E; [|contradiction]. destruct (Hfw k s (fm_get_in _ _ _ E)) as (s2 & -> & Hv). apply Hv, Hp.
    + intros (k & v & -> & Hp). exists k, v. split; [reflexivity|].
      destruct (fm_get k d2) as [s2|] eqn:E2; [|contradiction].
      assert (Hk : In k (map fst d)) by (apply Hkeys, in_map_iff; exists (k, s2); split; [reflexivity | apply fm_get_in, E2]).
      apply in_map_iff in Hk. destruct Hk as ([k' s] & Ek & Hin). simpl in Ek. subst k'.
      rewrite (fm_in_get _ _ _ Hn Hin). destruct (Hfw k s Hin) as (s2' & E2' & Hv). rewrite E2 in E2'. injection E2' as <-. apply Hv, Hp.
  - intros Hext.
    assert (Hp : forall k v, paired d k v <-> paired d2 k v).
    { intros k v. split; intros H.
      - assert (Hy : In (ventry k v) (dict_enum d)) by (apply (enum_spec d Hok); eauto).
        apply Hext, (enum_spec d2 Hok2) in Hy. destruct Hy as (k' & v' & Ee & H'). apply ventry_inj in Ee. destruct Ee as [-> ->]. exact H'.
      - assert (Hy : In (ventry k v) (dict_enum d2)) by (apply (enum_spec d2 Hok2); eauto).
        apply Hext, (enum_spec d Hok) in Hy. destruct Hy as (k' & v' & Ee & H'). apply ventry_inj in Ee. destruct Ee as [-> ->]. exact H'. }
    assert (Hkeys : forall k, In k (map fst d) <-> In k (map fst d2)).
    { intros k. rewrite (key_has_member d k Hok), (key_has_member d2 k Hok2). split; intros (v & H); exists v; apply Hp, H. }
    split.
    + rewrite <- (map_length fst d), <- (map_length fst d2). apply NoDup_same_length; assumption.
    + intros [k s] Hin. simpl.
      assert (Hk : In k (map fst d2)) by (apply Hkeys, in_map_iff; exists (k, s); split; [reflexivity | exact Hin]).
      apply in_map_iff in Hk. destruct Hk as ([k' s2] & Ek & Hin2). simpl in Ek. subst k'.
      rewrite (fm_in_get _ _ _ Hn2 Hin2). apply slot_equal_spec; [apply (Hs k s Hin) | apply (Hs2 k s2 Hin2)|].
      intros v. specialize (Hp k v). unfold paired in Hp. rewrite (fm_in_get _ _ _ Hn Hin), (fm_in_get _ _ _ Hn2 Hin2) in Hp. exact Hp.
Qed.

(* the invariant is needed: a one-element several-values slot denotes the same set as a bare value but is not equal to it *)
Example dict_equal_needs_invariant :
  let k := vint 1 in let v := vint 2 in
  dict_enum [(k, Multi [v])] = dict_enum [(k, One v)] /\ dict_equal [(k, Multi [v])] [(k, One v)] = false /\
  dict_ok [(k, Multi [v])] = false.
Proof. vm_compute. repeat split. Qed.

(* CallAll: exactly the values paired with the key *)
Theorem dict_call_all_spec d k x : dict_ok d = true -> (In x (dict_call_all d k) <-> In (ventry k x) (dict_enum d)).
Proof.
  intros Hok. rewrite (enum_spec d Hok). unfold dict_call_all, paired. split.
  - intros H. exists k, x. split; [reflexivity|]. destruct (fm_get k d) as [[u|vs]|]; exact H.
  - intros (k' & x' & Ee & H). apply ventry_inj in Ee. destruct Ee as [<- <-]. destruct (fm_get k d) as [[u|vs]|]; [exact H | exact H | contradiction].
Qed.

(* ---------- NewDict and Where ---------- *)

Lemma step_is_with m k x :
  new_dict_step true (Some m) (k, x) = match dict_with m (ventry k x) with RDict m' => Some m' | _ => None end.
Proof.
  unfold new_dict_step, dict_with. simpl. destruct (fm_get k m) as [[u|vs]|]; reflexivity.
Qed.

Lemma new_dict_fold es : forall m, dict_ok m = true ->
  exists m', fold_left (new_dict_step true) es (Some m) = Some m' /\ dict_ok m' = true /\ (m <> [] \/ es <> [] -> m' <> []) /\
             forall y, In y (dict_enum m') <-> In y (dict_enum m) \/ In y (map (fun e => ventry (fst e) (snd e)) es).
Proof.
  induction es as [|[k x] es IH]; intros m Hok; cbn [fold_left].
  - exists m. split; [reflexivity|]. split; [exact Hok|]. split; [intros [H|H]; [exact H | contradiction] | intros y; simpl; tauto].
  - rewrite step_is_with. destruct (dict_with_spec m (ventry k x) Hok) as [Hr Hm].
    destruct (dict_with m (ventry k x)) as [m1| | |ms] eqn:E; simpl in Hr.
    + destruct Hr as [Hok1 Hne1]. destruct (IH m1 Hok1) as (m' & Ef & Hok' & Hne' & Hm').
      exists m'. split; [exact Ef|]. split; [exact Hok'|]. split; [intros _; apply Hne'; left; exact Hne1|].
      intros y. rewrite Hm'. simpl in Hm. rewrite Hm. simpl. split; [intros [[->|H]|H]; auto | intros [H|[<-|H]]; auto].
    + exfalso. unfold dict_with in E. simpl in E. destruct (fm_get k m) as [[u|vs]|]; discriminate.
    + contradiction.
    + exfalso. unfold dict_with in E. simpl in E. destruct (fm_get k m) as [[u|vs]|]; discriminate.
Qed.

(* NewDict(true, entries): the set of exactly these entries (repeated entries collapse) *)
Theorem new_dict_spec es :
  res_ok (new_dict true es) /\
  forall y, In y (res_members (new_dict true es)) <-> In y (map (fun e => ventry (fst e) (snd e)) es).
Proof.
  destruct es as [|e es]; [split; [exact I | intros y; simpl; tauto]|].
  destruct (new_dict_fold (e :: es) [] eq_refl) as (m' & Ef & Hok & Hne & Hm).
  change (new_dict true (e :: es)) with (match fold_left (new_dict_step true) (e :: es) (Some []) with Some m => RDict m | None => RErr end).
  unfold dict in *. rewrite Ef.
  split; [split; [exact Hok | apply Hne; right; discriminate]|].
  intros y. simpl res_members. rewrite Hm. simpl. tauto.
Qed.

Lemma entries_of_enum d : dict_ok d = true -> forall p,
  map (fun e => ventry (fst e) (snd e)) (entries_of (filter p (dict_enum d))) = filter p (dict_enum d).
Proof.
  intros Hok p. assert (H : forall y, In y (filter p (dict_enum d)) -> exists k x, y = ventry k x).
  { intros y Hy. apply filter_In in Hy. destruct Hy as [Hy _]. apply (enum_spec d Hok) in Hy. destruct Hy as (k & x & -> & _). eauto. }
  induction (filter p (dict_enum d)) as [|y l IH]; [reflexivity|].
  destruct (H y (or_introl eq_refl)) as (k & x & ->). simpl. f_equal. apply IH. intros z Hz. apply H. right. exact Hz.
Qed.

(* Where: exactly the members the predicate keeps *)
Theorem dict_where_spec d p : dict_ok d = true ->
  res_ok (dict_where p d) /\ forall y, In y (res_members (dict_where p d)) <-> In y (dict_enum d) /\ p y = true.
Proof.
  intros Hok. unfold dict_where. destruct (new_dict_spec (entries_of (filter p (dict_enum d)))) as [H1 H2].
  split; [exact H1|]. intros y. rewrite H2, (entries_of_enum d Hok p). apply filter_In.
Qed.

(* ---------- in terms of the specification's set functions ---------- *)

Theorem dict_with_refines d v : dict_ok d = true ->
  mkset (res_members (dict_with d v)) = VSet (s_with (vsort (dict_enum d)) v).
Proof.
  intros Hok. unfold mkset. f_equal. apply ssorted_ext; [apply vsort_sorted | apply vinsert_sorted, vsort_sorted|].
  intros y. unfold s_with. rewrite vsort_in, vinsert_in, vsort_in. apply (proj2 (dict_with_spec d v Hok)).
Qed.

Theorem dict_without_refines d v : dict_ok d = true -> d <> [] ->
  mkset (res_members (dict_without d v)) = VSet (s_without (vsort (dict_enum d)) v).
Proof.
  intros Hok Hne. unfold mkset. f_equal. apply ssorted_ext; [apply vsort_sorted | |].
  - unfold s_without. apply filter_sorted, vsort_sorted.
  - intros y. unfold s_without. rewrite vsort_in, filter_In, vsort_in, negb_true_iff, veqb_neq.
    apply (proj2 (dict_without_spec d v Hok Hne)).
Qed.

(* ---------- every history ---------- *)

Definition in_dict (r : dres) : Prop := match r with RDict _ | RNone => True | _ => False end.

Lemma new_dict_in_dict es : in_dict (new_dict true es).
Proof.
  pose proof (proj1 (new_dict_spec es)) as H. destruct (new_dict true es) eqn:E; try exact I; try contradiction.
  exfalso. unfold new_dict in E. destruct es; [discriminate|]. destruct (fold_left _ _ _); discriminate.
Qed.

Lemma dstep_spec r o : res_ok r -> in_dict r -> op_in_dict o = true ->
  res_ok (dstep r o) /\ in_dict (dstep r o) /\
  forall y, In y (res_members (dstep r o)) <-> In y (sstep (res_members r) o).
Proof.
  intros Hok Hin Ho. destruct r as [d| | |ms]; try contradiction.
  - destruct Hok as [Hok Hne]. destruct o as [v|v|p]; simpl.
    + destruct (dict_with_spec d v Hok) as [H1 H2]. split; [exact H1|]. split.
      * simpl in Ho. unfold dict_with. destruct (as_entry v) as [[k x]|]; [|discriminate]. destruct (fm_get k d) as [[u|vs]|]; exact I.
      * intros y. rewrite H2. split; [intros [->|H]; auto | intros [<-|H]; auto].
    + destruct (dict_without_spec d v Hok Hne) as [H1 H2]. split; [exact H1|]. split.
      * unfold dict_without. destruct (as_entry v) as [[k x]|]; [|exact I]. destruct (fm_get k d) as [[u|vs]|]; try exact I.
        -- destruct (veqb x u); [destruct (fm_without k d); exact I | exact I].
        -- destruct (vmem x vs); exact I.
      * intros y. rewrite H2, filter_In, negb_true_iff, veqb_neq. tauto.
    + destruct (dict_where_spec d p Hok) as [H1 H2]. split; [exact H1|]. split.
      * apply new_dict_in_dict.
      * intros y. rewrite H2, filter_In. tauto.
  - destruct o as [v|v|p]; simpl; try (split; [exact I | split; [exact I | intros y; simpl; tauto]]).
    simpl in Ho. destruct (as_entry v) as [[k x]|] eqn:Ev; [|discriminate].
    destruct (new_dict_spec [(k, x)]) as [H1 H2]. split; [exact H1|]. split.
    + reflexivity.
    + intros y. rewrite H2. apply as_entry_spec in Ev. subst v. simpl. tauto.
Qed.

(* After any history of With / Without / Where that stays within dictionary entries, the representation
   still meets its invariant and denotes exactly the set the same history computes on the members. *)
Theorem dict_history ops : forall r, res_ok r -> in_dict r -> forallb op_in_dict ops = true ->
  res_ok (fold_left dstep ops r) /\ in_dict (fold_left dstep ops r) /\
  forall y, In y (res_members (fold_left dstep ops r)) <-> In y (fold_left sstep ops (res_members r)).
Proof.
  induction ops as [|o ops IH]; intros r Hok Hin Ho; cbn [fold_left].
  - split; [exact Hok|]. split; [exact Hin | intros y; tauto].
  - simpl in Ho. apply andb_true_iff in Ho. destruct Ho as [Ho Hos].
    destruct (dstep_spec r o Hok Hin Ho) as (H1 & H2 & H3).
    destruct (IH (dstep r o) H1 H2 Hos) as (K1 & K2 & K3). split; [exact K1|]. split; [exact K2|].
    intros y. rewrite K3. clear -H3. revert H3. generalize (res_members (dstep r o)) (sstep (res_members r) o).
    induction ops as [|o2 ops IH2]; intros a b Hab; cbn [fold_left]; [apply Hab|].
    apply IH2. intros z. destruct o2 as [v|v|p]; simpl.
    + rewrite Hab. tauto.
    + rewrite !filter_In, Hab. tauto.
    + rewrite !filter_In, Hab. tauto.
Qed.
