(* Model of the server engine actor loop: /repo/engine/engine.go.

   The Go code is one goroutine ("the loop") selecting on five unbuffered
   channels (updateDB, addWatcher, removeWatcher, stop, hangup); the public
   API (Update / Observe / the cancel closure returned by Observe / Hangup /
   Stop) is a rendezvous with that goroutine.  A history is the list of API
   calls in ACKNOWLEDGEMENT order, i.e. in the order in which the loop's select
   received them (the loop is the only receiver, so this order is total).

   What is transcribed, handler by handler (same case structure as the Go code):
     - the rendezvous itself: the client's send completes (the call is
       "acknowledged") before the handler body runs; an Update additionally
       waits for `req.failed <- err|nil`, which the loop sends BEFORE it
       notifies the watchers;
     - watcher.update: evaluate the observed expression, call onupdate, and on
       failure call w.cancel(), which is `e.removeWatcher <- id`: a send
       performed by the loop goroutine on a channel that only the loop receives
       from.  That send can never complete: outcome [Wedged] (SelfBlock);
     - the removeWatcher handler: `watchers[id].close()` dereferences a nil
       *watcher when the id is absent: outcome [Crashed] (Panic in the loop
       goroutine, which nothing recovers: the process dies);
     - `for _, w := range watchers`: Go map iteration order is arbitrary; the
       model iterates over [ord n ws], an arbitrary permutation oracle that may
       change at every step n.
   Oracles (Section variables): expression evaluation [eval] (None = the
   expression fails to evaluate on that database value), the observer callbacks
   (part of the Observe event: a function of the number of values delivered so
   far and the value, false = onupdate returned an error), and [ord].
   Outside the model: panics inside Eval or inside callbacks (C10 territory /
   callback contract), callbacks that block (the gRPC front-end's `retch`). *)
From Coq Require Import List ZArith Bool Lia Permutation.
Import ListNotations.
Open Scope Z_scope.

(* One boolean per defective call site; true = what the Go code does today. *)
Record Quirks17 := mkQ17 {
  (* engine.go watcher.update: `w.cancel()` from inside the loop goroutine
     (both call sites: failed Eval and failed onupdate).  on: the loop parks
     forever in the send.  off (repair): the loop removes the watcher itself. *)
  q_cancel_from_loop : bool;
  (* engine.go Start, case id := <-e.removeWatcher: `watchers[id].close()`
     without a presence check.  on: nil dereference, process dies.
     off (repair): cancelling an absent id is a no-op. *)
  q_double_cancel_nil : bool;
  (* engine.go Start, case req := <-e.updateDB: `req.expr.Eval(ctx, global)` runs
     on the loop goroutine with no recover.  on: an update expression whose
     evaluation panics kills the process (the caller is never answered).
     off (repair): the panic is recovered and answered like an evaluation error. *)
  q_update_panic_kills : bool
}.
Definition quirks17_off := mkQ17 false false false.
Definition quirks17_eqb (a b : Quirks17) : bool :=
  Bool.eqb (q_cancel_from_loop a) (q_cancel_from_loop b) && Bool.eqb (q_double_cancel_nil a) (q_double_cancel_nil b)
  && Bool.eqb (q_update_panic_kills a) (q_update_panic_kills b).

(* what evaluating an expression / calling onupdate can do *)
Inductive eres (V : Type) := EVal (v : V) | EErr | EPanic.   (* value | error returned | Go panic *)
Arguments EVal {V} _.
Arguments EErr {V}.
Arguments EPanic {V}.
Inductive cbres := CbOk | CbErr | CbPanic.                   (* nil | error returned | Go panic *)

Section Engine.
  Variables V E : Type.
  Variable eval : E -> V -> eres V.

  Inductive msg := MUpdate (v : V) | MClose (clean : bool). (* onupdate(v) | onclose(nil) / onclose(err) *)
  Definition callback := nat -> V -> cbres.
  Record watcher := mkW { w_id : Z; w_expr : E; w_cb : callback; w_n : nat }.
  Inductive event :=
  | Update (e : E) | Observe (i : Z) (e : E) (cb : callback) | Cancel (i : Z) | Hangup | Stop.
  Inductive status := Running | Stopped | Wedged | Crashed.
  (* what the caller of the API sees: Update returned nil / an error; another
     call returned; the call never returns *)
  Inductive ack := AUpd (ok : bool) | ADone | ANone.

  Variable ord : nat -> list watcher -> list watcher.

  Record state := mkS {
    s_db : V; s_ws : list watcher; s_status : status;
    s_trace : list (Z * msg);      (* every callback invocation, in order *)
    s_acks : list ack;             (* one per event, in order *)
    s_step : nat }.

  Definition bump (w : watcher) : watcher := mkW (w_id w) (w_expr w) (w_cb w) (S (w_n w)).
  Definition tag (w : watcher) (ms : list msg) : list (Z * msg) := map (pair (w_id w)) ms.
  Definition has_id (i : Z) (ws : list watcher) : bool := existsb (fun w => w_id w =? i) ws.
  Definition remove_id (i : Z) (ws : list watcher) : list watcher := filter (fun w => negb (w_id w =? i)) ws.

  (* watcher.update *)
  Inductive uout := UKeep (w : watcher) | URemove | UBlock.
  Definition w_update (q : Quirks17) (w : watcher) (db : V) : list msg * uout :=
    match eval (w_expr w) db with
    | EErr =>                                   (* value, err := w.expr.Eval; err != nil *)
        if q_cancel_from_loop q then ([], UBlock)             (* w.cancel() never returns; onclose(err) not reached *)
        else ([MClose false], URemove)                        (* repair: onclose(err), loop deletes the watcher *)
    | EPanic =>                                 (* the deferred recover: onclose("update panic: ...") *)
        (* repaired code: the named result `alive` is still false, the loop drops the watcher;
           old code: update had no result, the closed watcher stayed registered *)
        ([MClose false], if q_cancel_from_loop q then UKeep w else URemove)
    | EVal v =>
        match w_cb w (w_n w) v with
        | CbOk => ([MUpdate v], UKeep (bump w))
        | CbErr => ([MUpdate v], if q_cancel_from_loop q then UBlock else URemove)
        | CbPanic =>                            (* onupdate was entered with v, then the recover path as above *)
            ([MUpdate v; MClose false], if q_cancel_from_loop q then UKeep (bump w) else URemove)
        end
    end.

  (* for _, w := range watchers { w.update(ctx, global) }  over the chosen order *)
  Fixpoint notify (q : Quirks17) (db : V) (todo : list watcher) : list (Z * msg) * list watcher * bool :=
    match todo with
    | [] => ([], [], false)
    | w :: rest =>
        let (ms, o) := w_update q w db in
        match o with
        | UBlock => (tag w ms, w :: rest, true)
        | UKeep w' => let '(t, ws, b) := notify q db rest in (tag w ms ++ t, w' :: ws, b)
        | URemove => let '(t, ws, b) := notify q db rest in (tag w ms ++ t, ws, b)
        end
    end.

  (* closeAllWatchers *)
  Definition close_all (l : list watcher) : list (Z * msg) := flat_map (fun w => tag w [MClose true]) l.

  Definition step (q : Quirks17) (st : state) (ev : event) : state :=
    let n := s_step st in
    match s_status st with
    | Running =>
        match ev with
        | Update e =>
            match eval e (s_db st) with
            | EErr =>      (* req.failed <- err; continue *)
                mkS (s_db st) (s_ws st) Running (s_trace st) (s_acks st ++ [AUpd false]) (S n)
            | EPanic =>    (* nothing recovers a panic of req.expr.Eval on the loop goroutine *)
                if q_update_panic_kills q then
                  mkS (s_db st) [] Crashed (s_trace st ++ close_all (ord n (s_ws st))) (s_acks st ++ [ANone]) (S n)
                else
                  mkS (s_db st) (s_ws st) Running (s_trace st) (s_acks st ++ [AUpd false]) (S n)
            | EVal v =>    (* req.failed <- nil; global = ...; range watchers *)
                let '(t, ws, blocked) := notify q v (ord n (s_ws st)) in
                mkS v ws (if blocked then Wedged else Running) (s_trace st ++ t) (s_acks st ++ [AUpd true]) (S n)
            end
        | Observe i e cb =>   (* watchers[w.id] = w; w.update(ctx, global) *)
            let w := mkW i e cb 0 in
            let ws0 := remove_id i (s_ws st) in
            let (ms, o) := w_update q w (s_db st) in
            let '(ws, stt) := match o with
                              | UKeep w' => (w' :: ws0, Running)
                              | URemove => (ws0, Running)
                              | UBlock => (w :: ws0, Wedged)
                              end in
            mkS (s_db st) ws stt (s_trace st ++ tag w ms) (s_acks st ++ [ADone]) (S n)
        | Cancel i =>         (* watchers[id].close(); delete(watchers, id) *)
            if has_id i (s_ws st) then
              mkS (s_db st) (remove_id i (s_ws st)) Running (s_trace st ++ [(i, MClose true)]) (s_acks st ++ [ADone]) (S n)
            else if q_double_cancel_nil q then
              (* nil dereference; the deferred closeAllWatchers still runs while the panic unwinds *)
              mkS (s_db st) [] Crashed (s_trace st ++ close_all (ord n (s_ws st))) (s_acks st ++ [ADone]) (S n)
            else
              mkS (s_db st) (s_ws st) Running (s_trace st) (s_acks st ++ [ADone]) (S n)
        | Hangup =>
            mkS (s_db st) [] Running (s_trace st ++ close_all (ord n (s_ws st))) (s_acks st ++ [ADone]) (S n)
        | Stop =>             (* return; deferred closeAllWatchers *)
            mkS (s_db st) [] Stopped (s_trace st ++ close_all (ord n (s_ws st))) (s_acks st ++ [ADone]) (S n)
        end
    | stt =>  (* nobody receives any more: the call blocks forever *)
        mkS (s_db st) (s_ws st) stt (s_trace st) (s_acks st ++ [ANone]) (S n)
    end.

  Definition init (db0 : V) : state := mkS db0 [] Running [] [] 0.
  Definition run (q : Quirks17) (db0 : V) (h : list event) : state := fold_left (step q) h (init db0).

  (* the messages delivered to observer i, in order *)
  Definition obs_trace (i : Z) (tr : list (Z * msg)) : list msg :=
    map snd (filter (fun p => fst p =? i) tr).

  (* ---------- the sequential specification ---------- *)

  (* the database: accepted updates one at a time, failed ones install nothing *)
  Definition db_step (db : V) (ev : event) : V :=
    match ev with
    | Update e => match eval e db with EVal v => v | _ => db end
    | _ => db
    end.
  Definition is_stop (ev : event) : bool := match ev with Stop => true | _ => false end.

  Fixpoint spec_acks (db : V) (h : list event) : list ack :=
    match h with
    | [] => []
    | ev :: t =>
        (match ev with
         | Update e => AUpd (match eval e db with EVal _ => true | _ => false end)
         | _ => ADone
         end) :: (if is_stop ev then map (fun _ => ANone) t else spec_acks (db_step db ev) t)
    end.
  Fixpoint spec_db (db : V) (h : list event) : V :=
    match h with
    | [] => db
    | ev :: t => if is_stop ev then db else spec_db (db_step db ev) t
    end.

  (* one observer, looked at alone *)
  Inductive ostate := ONone | OLive (e : E) (cb : callback) (n : nat).
  Definition deliver (e : E) (cb : callback) (n : nat) (db : V) : list msg * ostate :=
    match eval e db with
    | EErr | EPanic => ([MClose false], ONone)        (* closed once with the error / the panic, and dropped *)
    | EVal v =>
        match cb n v with
        | CbOk => ([MUpdate v], OLive e cb (S n))
        | CbErr => ([MUpdate v], ONone)               (* the callback reported the failure itself: ends silently *)
        | CbPanic => ([MUpdate v; MClose false], ONone)
        end
    end.
  Definition spec_step (i : Z) (db : V) (o : ostate) (ev : event) : list msg * ostate :=
    match ev with
    | Update e =>
        match eval e db with
        | EVal v => match o with OLive ex cb n => deliver ex cb n v | ONone => ([], ONone) end
        | _ => ([], o)                                      (* failed update: no state installed *)
        end
    | Observe j ex cb => if j =? i then deliver ex cb 0%nat db else ([], o)
    | Cancel j => if j =? i then match o with OLive _ _ _ => ([MClose true], ONone) | ONone => ([], ONone) end else ([], o)
    | Hangup | Stop => match o with OLive _ _ _ => ([MClose true], ONone) | ONone => ([], ONone) end
    end.
  Fixpoint spec_trace_from (i : Z) (db : V) (o : ostate) (h : list event) : list msg :=
    match h with
    | [] => []
    | ev :: t => let (ms, o') := spec_step i db o ev in
                 ms ++ (if is_stop ev then [] else spec_trace_from i (db_step db ev) o' t)
    end.
  Definition spec_trace (i : Z) (db0 : V) (h : list event) : list msg := spec_trace_from i db0 ONone h.

  (* events that concern observer i or the database; everything about other observers erased *)
  Definition concerns (i : Z) (ev : event) : bool :=
    match ev with
    | Observe j _ _ | Cancel j => j =? i
    | _ => true
    end.
  Definition erase_others (i : Z) (h : list event) : list event := filter (concerns i) h.

  (* everything a client or an observer can see of a run *)
  Definition observables (st : state) : status * list ack * list (Z * msg) * V :=
    (s_status st, s_acks st, s_trace st, s_db st).

  (* an observer is closed at most once and is told nothing after that *)
  Fixpoint closed_once (tr : list msg) : bool :=
    match tr with
    | [] => true
    | MUpdate _ :: t => closed_once t
    | MClose _ :: t => match t with [] => true | _ => false end
    end.
  Definition observes (i : Z) (ev : event) : bool := match ev with Observe j _ _ => j =? i | _ => false end.

  Definition answered (ev : event) (a : ack) : Prop :=
    match ev with Update _ => exists b, a = AUpd b | _ => a = ADone end.
End Engine.

Arguments MUpdate {V} _.
Arguments MClose {V} _.
Arguments Update {V E} _.
Arguments Observe {V E} _ _ _.
Arguments Cancel {V E} _.
Arguments Hangup {V E}.
Arguments Stop {V E}.

(* ---------- the concrete instance used by the correspondence run ---------- *)
(* database values: {} (the initial rel.None) or an integer; expressions are the
   arr.ai sources listed next to each constructor, evaluated with `$` bound to
   the database. *)
Definition cval := option Z.
Inductive cexpr :=
| CConst (n : Z)     (* n                                   *)
| CRoot              (* $                                   *)
| CAdd (n : Z)       (* $ + n          fails on {}          *)
| CMulAdd (n : Z)    (* $ * 10 + n     fails on {}          *)
| CFail              (* (a: 1).b       always fails         *)
| CFailGt (n : Z)    (* cond {$ > n: (a: 1).b, _: $}   fails on {} ({} > n holds) and above n *)
| CPanic             (* a rel.Expr of the harness whose Eval panics                           *)
| CPanicGt (n : Z).  (* a rel.Expr of the harness: $ when it is a number <= n, panics otherwise *)
Definition ceval (e : cexpr) (db : cval) : eres cval :=
  match e, db with
  | CConst n, _ => EVal (Some n)
  | CRoot, _ => EVal db
  | CAdd n, Some x => EVal (Some (x + n))
  | CMulAdd n, Some x => EVal (Some (x * 10 + n))
  | CFailGt n, Some x => if x >? n then EErr else EVal (Some x)
  | CPanic, _ => EPanic
  | CPanicGt n, Some x => if x >? n then EPanic else EVal (Some x)
  | CPanicGt n, None => EPanic
  | _, _ => EErr
  end.
(* callbacks used by the harness: return an error at the k-th delivery (0-based), panic at the deliveries listed *)
Definition cb_full (k : option nat) (panics : list nat) : callback cval :=
  fun n _ => if existsb (Nat.eqb n) panics then CbPanic
             else match k with Some k => if Nat.eqb n k then CbErr else CbOk | None => CbOk end.
Definition cb_of (k : option nat) : callback cval := cb_full k [].
