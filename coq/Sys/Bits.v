(* Model of syntax/std_bits.go (//bits.set, //bits.mask), property C13.

     func set(v):  n must be a Number >= 0, else error.
                   if float64(n) == float64(int(n)):
                       for v := int(n); v != 0; v &= v - 1 { add TrailingZeros64(v) }
                   else panic("unimplemented")
     func mask(v): v must be a Set; for each element (must be a Number, else
                   error) total += math.Pow(2, n); return total.

   Data-sized numbers live in N/Z (never nat).  The only nat is the loop fuel:
   a Go int has 64 bits and every iteration clears one, so 64 iterations always
   suffice; running out of fuel is OutOfModel and is excluded by the theorems. *)
From Coq Require Import NArith.
From Arrai Require Import Base.Val Sys.Outcome.

Record bquirks := {
  (* std_bits.go:set — a non-integral argument reaches panic("unimplemented");
     repaired: an error like every other unsupported argument *)
  q_bits_set_unimplemented : bool;
  (* std_bits.go:mask — elements that are not natural numbers are fed to
     math.Pow: mask({-1}) = 0.5, a number //bits.set cannot take back;
     repaired: an error *)
  q_bits_mask_nonnatural : bool
}.
Definition bquirks_off := {| q_bits_set_unimplemented := false; q_bits_mask_nonnatural := false |}.
Definition bquirks_cur := {| q_bits_set_unimplemented := true; q_bits_mask_nonnatural := true |}.

(* bits.TrailingZeros64 *)
Fixpoint ctz (p : positive) : N :=
  match p with
  | xO p' => N.succ (ctz p')
  | _ => 0%N
  end.
Definition tz (v : N) : N := match v with N0 => 64%N | Npos p => ctz p end.

(* v &= v - 1 *)
Definition clear_lowest (v : N) : N := N.land v (N.pred v).

Fixpoint set_loop (fuel : nat) (v : N) : res (list N) :=
  if (v =? 0)%N then Ok []
  else match fuel with
       | O => OutOfModel
       | S f => rmap (cons (tz v)) (set_loop f (clear_lowest v))
       end.

Definition int_limit : Z := 2 ^ 63.

(* //bits.set on a number; the result is the set's members in insertion order
   (ascending, distinct: each iteration yields the next higher set bit). *)
Definition bits_set (q : bquirks) (n : num) : res (list N) :=
  match n with
  | NInt z =>
      if z <? 0 then Err
      else if z <? int_limit then set_loop 64 (Z.to_N z)
      else OutOfModel                       (* int(n) overflows: unspecified in Go *)
  | NHalf z =>
      if 2 * z + 1 <? 0 then Err
      else if q_bits_set_unimplemented q then Panic else Err
  end.

(* one element of mask's sum, in half units (2 * 2^e), so that 2^-1 is exact *)
Definition pow_half_units (q : bquirks) (e : val) : res Z :=
  match e with
  | VNum (NInt z) =>
      if 0 <=? z then Ok (2 ^ (z + 1))
      else if q_bits_mask_nonnatural q
           then (if z =? -1 then Ok 1 else OutOfModel)      (* 2^-2 ... : not a half-integer *)
           else Err
  | VNum (NHalf _) => if q_bits_mask_nonnatural q then OutOfModel else Err
  | _ => Err                                 (* element not a number *)
  end.

(* The Go loop returns at the first non-number; no other exit exists, so the
   outcome "error" does not depend on the enumeration order.  Err is therefore
   made dominant: it wins over OutOfModel whatever the order. *)
Definition mask_step (acc : res Z) (e : val) (q : bquirks) : res Z :=
  match pow_half_units q e, acc with
  | Err, _ => Err
  | _, Err => Err
  | Ok p, Ok a => Ok (a + p)
  | Panic, _ | _, Panic => Panic
  | _, _ => OutOfModel
  end.

Definition mask_sum (q : bquirks) (l : list val) : res Z :=
  fold_left (fun acc e => mask_step acc e q) l (Ok 0).

Definition float_exact : Z := 2 ^ 53.

Definition bits_mask (q : bquirks) (v : val) : res num :=
  match v with
  | VSet l =>
      bind (mask_sum q l) (fun t =>
        if t <? 2 * float_exact
        then Ok (if Z.even t then NInt (t / 2) else NHalf (t / 2))
        else OutOfModel)                     (* float64 addition may round *)
  | _ => Err
  end.

Definition nset (l : list N) : val := VSet (map (fun i => vint (Z.of_N i)) l).
