(* Byte-string models of the Go standard-library functions that the local-import
   code of arr.ai (syntax/compile.go compilePackage, syntax/import.go) is built
   from: path.Clean / filepath.Clean (unix), filepath.Join, filepath.Dir,
   filepath.Ext (emptiness only), filepath.Abs, strings.HasPrefix, strings.Trim,
   strings.ReplaceAll(s, "../", "").
   The standard library is outside /repo: these are reference models, validated
   against the real functions by the `gopath` stream of the C16 check.
   Strings are lists of bytes (Z in 0..255).  Clean is modelled at the level of
   '/'-separated segments (what the function computes), not of Go's lazybuf. *)
From Coq Require Import List ZArith Bool Lia.
Import ListNotations.
Open Scope Z_scope.

Definition str := list Z.

Definition SL : Z := 47.   (* '/' *)
Definition DOT : Z := 46.  (* '.' *)
Definition sDot : str := [46].
Definition sDotDot : str := [46; 46].
Definition sArrai : str := [46; 97; 114; 114; 97; 105].      (* ".arrai" *)
Definition sGoMod : str := [103; 111; 46; 109; 111; 100].     (* "go.mod" *)

Fixpoint str_eqb (a b : str) : bool :=
  match a, b with
  | [], [] => true
  | x :: a', y :: b' => Z.eqb x y && str_eqb a' b'
  | _, _ => false
  end.

Definition is_nilb (s : str) : bool := match s with [] => true | _ => false end.

(* strings.HasPrefix *)
Fixpoint has_prefix (p s : str) : bool :=
  match p, s with
  | [], _ => true
  | x :: p', y :: s' => Z.eqb x y && has_prefix p' s'
  | _ :: _, [] => false
  end.

(* strings.Trim(s, cutset) *)
Fixpoint drop_while (f : Z -> bool) (s : str) : str :=
  match s with
  | [] => []
  | c :: t => if f c then drop_while f t else s
  end.
Definition trim (f : Z -> bool) (s : str) : str := rev (drop_while f (rev (drop_while f s))).
Definition is_ws (c : Z) : bool := Z.eqb c 32 || Z.eqb c 9 || Z.eqb c 10.   (* " \t\n" *)
Definition is_sl (c : Z) : bool := Z.eqb c 47.
Definition trim_ws : str -> str := trim is_ws.
Definition trim_slash : str -> str := trim is_sl.

(* strings.ReplaceAll(s, "../", ""): leftmost non-overlapping occurrences *)
Fixpoint strip_dotdotslash (s : str) : str :=
  match s with
  | [] => []
  | c :: t =>
      match t with
      | c2 :: c3 :: t' =>
          if Z.eqb c 46 && Z.eqb c2 46 && Z.eqb c3 47 then strip_dotdotslash t'
          else c :: strip_dotdotslash t
      | _ => c :: strip_dotdotslash t
      end
  end.

(* segments *)
Fixpoint split (s : str) : list str :=
  match s with
  | [] => [[]]
  | c :: t => if Z.eqb c 47 then [] :: split t
              else match split t with
                   | h :: r => (c :: h) :: r
                   | [] => [[c]]
                   end
  end.

Fixpoint join (l : list str) : str :=
  match l with
  | [] => []
  | [x] => x
  | x :: r => x ++ 47 :: join r
  end.

Definition rooted (s : str) : bool := match s with c :: _ => Z.eqb c 47 | [] => false end.

(* one step of Clean on the (reversed) output stack: empty and "." segments are
   dropped; ".." removes the previous segment unless there is none (dropped when
   rooted, kept otherwise) or the previous one is itself a kept ".." *)
Definition cstep (r : bool) (out : list str) (seg : str) : list str :=
  match seg with
  | [] => out
  | _ => if str_eqb seg sDot then out
         else if str_eqb seg sDotDot then
                match out with
                | top :: rest => if str_eqb top sDotDot then seg :: out else rest
                | [] => if r then [] else [seg]
                end
              else seg :: out
  end.

Definition cstack (s : str) : list str := rev (fold_left (cstep (rooted s)) (split s) []).

Definition render (r : bool) (st : list str) : str :=
  if r then 47 :: join st else match st with [] => sDot | _ => join st end.

(* path.Clean = filepath.Clean on unix *)
Definition clean (s : str) : str :=
  match s with
  | [] => sDot
  | _ => render (rooted s) (cstack s)
  end.

(* filepath.Join(a, b) on unix: the first non-empty element onwards, joined by '/', cleaned *)
Definition join_path (a b : str) : str :=
  match a, b with
  | [], [] => []
  | [], _ => clean b
  | _, _ => clean (a ++ 47 :: b)
  end.

(* filepath.Dir: clean of everything up to and including the last '/' *)
Definition dir_part (s : str) : str := rev (drop_while (fun c => negb (is_sl c)) (rev s)).
Definition dir (s : str) : str := clean (dir_part s).

(* filepath.Ext(s) <> "": the last segment contains a '.' *)
Fixpoint take_while (f : Z -> bool) (s : str) : str :=
  match s with
  | [] => []
  | c :: t => if f c then c :: take_while f t else []
  end.
Definition last_seg (s : str) : str := rev (take_while (fun c => negb (is_sl c)) (rev s)).
Definition has_ext (s : str) : bool := existsb (fun c => Z.eqb c 46) (last_seg s).

(* filepath.Abs with working directory cwd *)
Definition abs_path (cwd s : str) : str := if rooted s then clean s else join_path cwd s.

(* segment classification *)
Definition noslash (s : str) : bool := forallb (fun c => negb (is_sl c)) s.
Definition normalb (s : str) : bool :=
  negb (is_nilb s) && negb (str_eqb s sDot) && negb (str_eqb s sDotDot) && noslash s.
