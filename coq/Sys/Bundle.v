(* Executable model of arr.ai bundling (property C15).

   Go code transcribed (/repo as of 313410f: local imports that clean to the
   empty path are rejected, the import path is trimmed before cleaning):
     syntax/compile.go   compilePackage (local-import branch)        -> do_import (first half)
     syntax/import.go    importLocalFile, findRootFromModule,
                         fileValue                                    -> do_import, find_root
     syntax/bundle.go    SetupBundle, addModuleSentinel,
                         bundleLocalFile, createConfig                -> bundle, hook_sentinel, hook_file
                         WithBundleRun, GetMainBundleSource,
                         withBundledConfig                            -> resolve_bun
     pkg/ctxfs/ctxzip.go ZipCreate (first write wins)                 -> add
     pkg/bundle/bundle.go BundledScripts                              -> bundle
     syntax/eval.go      EvaluateExpr / EvaluateBundleCtx             -> resolve_src / resolve_bun

   The compiler is ONE function (comp) that reads files from a layout and,
   when a bundle configuration is present (the Go hooks are no-ops unless
   isBundling(ctx)), also writes into the archive being assembled.  Running a
   bundle is the same function over the archive as the layout, started at the
   main file named by /config.arrai - exactly what EvaluateBundleCtx does
   (the isRunningBundle branches of import.go concern only module/URL imports
   and Windows paths, which are outside this model).

   Evaluation itself is abstracted: the observable is the resolved import tree
   (which file contents were read, how each is decoded, in which nesting).

   Quirks (on = what the Go code does today, off = repaired):
     q_unnamed_sentinel  addModuleSentinel stores the go.mod of a nested module
                         of a module-less tree under /module/<rel>/go.mod while
                         the files go to /unnamed/<rel>/... (repaired: /unnamed)
     q_modre_anchored    SetupBundle recognises the module line only by
                         ^module ([^\n]+)\n  at byte 0 of go.mod (repaired:
                         (?m)^module[ \t]+(\S+) - any line, CRLF / no final newline ok)
     q_cfg_goquote       config.arrai is written with Go's %q, whose \xNN / \uNNNN
                         escapes the arr.ai string parser does not understand
                         (repaired: the main_file path round-trips) *)
From Arrai Require Import Sys.BPath.

Record quirks := { q_unnamed_sentinel : bool; q_modre_anchored : bool; q_cfg_goquote : bool }.
Definition quirks_off := {| q_unnamed_sentinel := false; q_modre_anchored := false; q_cfg_goquote := false |}.
Definition quirks_on := {| q_unnamed_sentinel := true; q_modre_anchored := true; q_cfg_goquote := true |}.

Definition only_sentinel := {| q_unnamed_sentinel := true; q_modre_anchored := false; q_cfg_goquote := false |}.
Definition only_modre := {| q_unnamed_sentinel := false; q_modre_anchored := true; q_cfg_goquote := false |}.
Definition only_cfg := {| q_unnamed_sentinel := false; q_modre_anchored := false; q_cfg_goquote := true |}.

Inductive res (A : Type) := Ok (a : A) | Err | Panic | OOF.
Arguments Ok {A} a. Arguments Err {A}. Arguments Panic {A}. Arguments OOF {A}.

(* //{./a/b}  : i_root = false, i_segs = [a; b]      (PKGPATH "/a/b" split at '/')
   //{/a/b}   : i_root = true
   //[dec]{..}: i_dec = true *)
Record import := { i_root : bool; i_segs : list seg; i_dec : bool }.

(* a file: identity of its bytes (f_tag + f_bytes), and the local imports its
   text contains if it parses as an arr.ai script (None = does not parse) *)
Record file := { f_tag : Z; f_imps : option (list import); f_bytes : list Z }.

Definition layout := list (path * file).

Fixpoint lookup (L : layout) (p : path) : option file :=
  match L with
  | [] => None
  | (k, f) :: r => if path_eqb k p then Some f else lookup r p
  end.

Definition mem (L : layout) (p : path) : bool := match lookup L p with Some _ => true | None => false end.

(* ctxfs.ZipCreate: creates the file unless it exists *)
Definition add (A : layout) (k : path) (f : file) : layout := if mem A k then A else (k, f) :: A.

Inductive kind := KScript | KImplicit (ext : seg) | KExplicit.
Inductive tree := Node (f : file) (k : kind) (ch : list tree).

(* ---- findRootFromModule: walk up from dir until <cur>/go.mod exists ---- *)
Definition has_gomod (L : layout) (d : path) : bool := mem L (d ++ [s_gomod]).

(* rd is the directory reversed (innermost element first) *)
Fixpoint find_root_up (L : layout) (rd : list seg) : option (list seg) :=
  if has_gomod L (rev rd) then Some rd
  else match rd with [] => None | _ :: up => find_root_up L up end.

Definition find_root (L : layout) (d : path) : option path :=
  match find_root_up L (rev d) with Some r => Some (rev r) | None => None end.

(* ---- bundle configuration (bundleConfig) ---- *)
Record cfg := {
  c_named : bool;          (* mainRoot <> "" *)
  c_prefix : list seg;     (* "module" :: split mainRoot   or   ["unnamed"]  (not yet cleaned) *)
  c_abs_root : path        (* absRootPath *)
}.

(* path.Join(dir, path.Join(mainRoot, strings.TrimPrefix(filePath, absRootPath))) *)
Definition bundle_path_with (pre : list seg) (root : path) (p : path) : path :=
  clean_abs (pre ++ split_slash (str_trim_prefix (join_str p) (join_str root))).
Definition bundle_path (c : cfg) (p : path) : path := bundle_path_with (c_prefix c) (c_abs_root c) p.

(* ---- go.mod module line ---- *)
Fixpoint take_while (f : Z -> bool) (l : list Z) : list Z :=
  match l with [] => [] | x :: r => if f x then x :: take_while f r else [] end.
Fixpoint drop_while (f : Z -> bool) (l : list Z) : list Z :=
  match l with [] => [] | x :: r => if f x then drop_while f r else l end.

Definition s_module_sp : list Z := s_module ++ [32].

(* regexp ^module ([^\n]+)\n *)
Definition modre_anchored (b : list Z) : option (list Z) :=
  if str_has_prefix b s_module_sp then
    let rest := skipn 7 b in
    let name := take_while (fun c => negb (c =? 10)) rest in
    match name with
    | [] => None
    | _ => if (length name <? length rest)%nat then Some name else None
    end
  else None.

Definition is_space (c : Z) : bool := (c =? 32) || (c =? 9) || (c =? 10) || (c =? 12) || (c =? 13).
Definition is_sp_tab (c : Z) : bool := (c =? 32) || (c =? 9).

Definition mod_line (l : list Z) : option (list Z) :=
  if str_has_prefix l s_module then
    let r := skipn 6 l in
    let r' := drop_while is_sp_tab r in
    if (length r' <? length r)%nat then
      match take_while (fun c => negb (is_space c)) r' with [] => None | n => Some n end
    else None
  else None.

Fixpoint first_some {A B} (f : A -> option B) (l : list A) : option B :=
  match l with [] => None | x :: r => match f x with Some y => Some y | None => first_some f r end end.

(* regexp (?m)^module[ \t]+(\S+) *)
Definition modre_lines (b : list Z) : option (list Z) := first_some mod_line (split_on 10 b []).

Definition parse_mod (q : quirks) (b : list Z) : option (list Z) :=
  if q_modre_anchored q then modre_anchored b else modre_lines b.

(* ---- the compiler with bundling hooks ---- *)
Section Comp.
  Variable q : quirks.
  Variable L : layout.          (* the file system imports are read from *)
  Variable hook : option cfg.   (* Some = isBundling(ctx) *)

  (* addModuleSentinel *)
  Definition hook_sentinel (root : path) (A : layout) : res layout :=
    match hook with
    | None => Ok A
    | Some c =>
        let gm := root ++ [s_gomod] in
        match lookup L gm with
        | None => Err
        | Some buf =>
            let pre := if c_named c then c_prefix c
                       else if q_unnamed_sentinel q then [s_module] else [s_unnamed] in
            Ok (add A (bundle_path_with pre (c_abs_root c) gm) buf)
        end
    end.

  (* bundleLocalFile (the caller has already appended .arrai) *)
  Definition hook_file (fn : path) (A : layout) : res layout :=
    match hook with
    | None => Ok A
    | Some c =>
        match lookup L fn with
        | None => Err
        | Some src => Ok (add A (bundle_path c fn) src)
        end
    end.

  (* second half of importLocalFile: bundleLocalFile + fileValue on the located path *)
  Definition load (self : path -> list import -> layout -> res (list tree * layout))
      (ip : path) (i : import) (A1 : layout) : res (tree * layout) :=
    let fn := add_arrai ip in
    match hook_file fn A1 with
    | Ok A2 =>
        match lookup L fn with
        | None => Err
        | Some f =>
            if i_dec i then Ok (Node f KExplicit [], A2)
            else if negb (seg_eqb (path_ext fn) s_arrai_ext) then Ok (Node f (KImplicit (path_ext fn)) [], A2)
            else match f_imps f with
                 | None => Err
                 | Some imps =>
                     match self (removelast fn) imps A2 with
                     | Ok (ch, A3) => Ok (Node f KScript ch, A3)
                     | Err => Err | Panic => Panic | OOF => OOF
                     end
                 end
        end
    | Err => Err | Panic => Panic | OOF => OOF
    end.

  (* compilePackage (local branch) + importLocalFile for one import found in a
     script whose directory is dir; self compiles an imported script *)
  Definition do_import (self : path -> list import -> layout -> res (list tree * layout))
      (dir : path) (A : layout) (i : import) : res (tree * layout) :=
    let cl := if i_root i then (O, clean_abs (i_segs i)) else clean_rel (i_segs i) in
    let r := snd cl in
    if negb (i_root i) && ((0 <? fst cl)%nat || starts_dotdot (hd [] r)) then Err
    else if match r with [] => true | _ => false end then Err     (* "does not name a file" (313410f) *)
    else if i_root i then
      match find_root L dir with
      | None => Err
      | Some root =>
          match hook_sentinel root A with
          | Ok A1 => load self (root ++ r) i A1
          | Err => Err | Panic => Panic | OOF => OOF
          end
      end
    else load self (dir ++ r) i A.

  Fixpoint comp_list (self : path -> list import -> layout -> res (list tree * layout))
      (dir : path) (imps : list import) (A : layout) : res (list tree * layout) :=
    match imps with
    | [] => Ok ([], A)
    | i :: rest =>
        match do_import self dir A i with
        | Ok (t, A1) =>
            match comp_list self dir rest A1 with
            | Ok (ts, A2) => Ok (t :: ts, A2)
            | Err => Err | Panic => Panic | OOF => OOF
            end
        | Err => Err | Panic => Panic | OOF => OOF
        end
    end.

  (* fuel bounds the import nesting depth *)
  Fixpoint comp (fuel : nat) (dir : path) (imps : list import) (A : layout) : res (list tree * layout) :=
    match fuel with
    | O => OOF
    | S k => comp_list (comp k) dir imps A
    end.
End Comp.

(* ---- evaluation from source: EvaluateExpr(ctx, main, source of main) ---- *)
Definition resolve_in (q : quirks) (fuel : nat) (L : layout) (main : path) (f : file) : res tree :=
  match f_imps f with
  | None => Err
  | Some imps =>
      match comp q L None fuel (removelast main) imps [] with
      | Ok (ch, _) => Ok (Node f KScript ch)
      | Err => Err | Panic => Panic | OOF => OOF
      end
  end.

Definition resolve_src (q : quirks) (fuel : nat) (L : layout) (main : path) : res tree :=
  match lookup L main with
  | None => Err
  | Some f => resolve_in q fuel L main f
  end.

(* ---- arrai bundle: BundledScripts = SetupBundle + Compile + OutputArraiz ---- *)
Record archive := { a_files : layout; a_cfg : option path (* main_file of /config.arrai *) }.

Definition bundle_with (q : quirks) (fuel : nat) (L : layout) (main : path) (src : file) (c : cfg)
    (mf : path) (A : layout) : res archive :=
  match f_imps src with
  | None => Err
  | Some imps =>
      match comp q L (Some c) fuel (removelast main) imps A with
      | Ok (_, A') => Ok {| a_files := A'; a_cfg := Some mf |}
      | Err => Err | Panic => Panic | OOF => OOF
      end
  end.

Definition bundle (q : quirks) (fuel : nat) (L : layout) (main : path) : res archive :=
  match lookup L main with
  | None => Err
  | Some src =>
      let d := removelast main in
      match find_root L d with
      | None =>
          let mf := [s_unnamed; last_seg main] in
          let c := {| c_named := false; c_prefix := [s_unnamed]; c_abs_root := d |} in
          bundle_with q fuel L main src c mf (add [] mf src)
      | Some root =>
          match lookup L (root ++ [s_gomod]) with
          | None => Err
          | Some gm =>
              match parse_mod q (f_bytes gm) with
              | None => Err
              | Some name =>
                  let pre := s_module :: split_slash name in
                  let c := {| c_named := true; c_prefix := pre; c_abs_root := root |} in
                  let A0 := add [] (clean_abs (pre ++ [s_gomod])) gm in
                  let mf := bundle_path c main in
                  bundle_with q fuel L main src c mf (add A0 mf src)
              end
          end
      end
  end.

(* ---- arrai run x.arraiz: EvaluateBundleCtx ---- *)
(* bytes that survive fmt %q -> arr.ai string literal: printable ASCII and the
   escapes \a \b \t \n \v \f \r; bytes >= 128 are outside the modelled alphabet *)
Definition cfg_safe_byte (c : Z) : bool :=
  ((32 <=? c) && (c <? 127)) || ((7 <=? c) && (c <=? 13)) || (128 <=? c).
Definition cfg_survives (q : quirks) (p : path) : bool :=
  negb (q_cfg_goquote q) || forallb (forallb cfg_safe_byte) p.

Definition resolve_bun (q : quirks) (fuel : nat) (a : archive) : res tree :=
  match a_cfg a with
  | None => Panic                                   (* withBundledConfig: config not generated *)
  | Some mf =>
      if cfg_survives q mf then
        match lookup (a_files a) mf with
        | None => Panic                             (* GetMainBundleSource: main file not accessible *)
        | Some f => resolve_in q fuel (a_files a) mf f
        end
      else Panic
  end.

(* bundle, then run the bundle *)
Definition run_bundle (q : quirks) (fuel : nat) (L : layout) (main : path) : res tree :=
  match bundle q fuel L main with
  | Ok a => resolve_bun q fuel a
  | Err => Err | Panic => Panic | OOF => OOF
  end.

(* ---- well-formedness (decidable; what the generators satisfy) ---- *)
Definition cleaned (i : import) : nat * path :=
  if i_root i then (O, clean_abs (i_segs i)) else clean_rel (i_segs i).

Definition wf_import (i : import) : bool :=
  forallb slashfree (i_segs i) &&
  negb (existsb ws_edge (snd (cleaned i))) &&          (* strings.Trim(importPath, " \t\n") is a no-op *)
  negb (existsb ends_dotdot (snd (cleaned i))).        (* strings.ReplaceAll(importPath, "../", "") is a no-op *)

Definition wf_file (f : file) : bool :=
  match f_imps f with Some imps => forallb wf_import imps | None => true end.

Definition wf_layout (L : layout) : bool := forallb (fun pf => wf_file (snd pf)) L.

Definition ascii_path (p : path) : bool := forallb (forallb (fun c => (0 <? c) && (c <? 128))) p.

(* main is a proper file path below a non-root directory; the go.mod of its
   module (if any) names a module made of ordinary path elements; no go.mod at "/" *)
Definition wf_main (L : layout) (main : path) : bool :=
  names main && (2 <=? length main)%nat && negb (mem L [s_gomod]) && ascii_path main &&
  match find_root L (removelast main) with
  | None => true
  | Some root =>
      match lookup L (root ++ [s_gomod]) with
      | None => false
      | Some gm => match modre_lines (f_bytes gm) with
                   | Some name => names (split_slash name) && ascii_path (split_slash name)
                   | None => false
                   end
      end
  end.

Definition pre (L : layout) (main : path) : bool := wf_layout L && wf_main L main.
