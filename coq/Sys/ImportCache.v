(* Model of the compile-time import protocol of arr.ai:
     syntax/import.go        fileValue (ReadFile, then bytesValue -> GetOrAddFromCache(filename, compile))
     pkg/importcache         getOrAdd (mutex + cond, nil entry = "someone is adding this key")
   Compilation is sequential: compiling a file compiles its local imports, in
   source order, on the same goroutine, before it returns.  So at any moment the
   keys whose cache entry is the in-flight marker (nil) are exactly the files
   on the import stack.  getOrAdd on such a key calls cond.Wait(); the only
   goroutine that could ever Broadcast is the waiter itself: a hang.
   The main script is compiled directly (no cache entry of its own).

   A file is a key; the graph gives, for every existing file, its local imports
   in source order.  `done` = keys with a compiled entry; `stack` = in-flight
   keys (innermost first); the trace lists every ReadFile in order. *)
From Coq Require Import List ZArith Bool Lia.
Import ListNotations.
Open Scope Z_scope.

Definition key := Z.
Definition graph := list (key * list key).

Fixpoint lookup (g : graph) (k : key) : option (list key) :=
  match g with
  | [] => None
  | (k', imps) :: r => if Z.eqb k k' then Some imps else lookup r k
  end.

Definition mem (k : key) (l : list key) : bool := existsb (Z.eqb k) l.

Inductive cres :=
| COk
| CErrRead      (* ReadFile failed: the imported file does not exist *)
| CErrCycle     (* repaired behaviour: import of a file that is on the import stack *)
| CHang         (* cond.Wait() on an entry only the waiter itself could complete *)
| COutOfFuel.

Definition cstate := (list key * list key)%type.    (* done, trace of reads *)

Fixpoint visit_list (v : cstate -> key -> cres * cstate) (l : list key) (st : cstate) : cres * cstate :=
  match l with
  | [] => (COk, st)
  | i :: r => match v st i with
              | (COk, st') => visit_list v r st'
              | other => other
              end
  end.

Section Compile.
  Variable hang : bool.      (* q_import_cycle_hangs *)
  Variable g : graph.

  (* an import of file k while `stack` is in flight *)
  Fixpoint visit (fuel : nat) (stack : list key) (st : cstate) (k : key) : cres * cstate :=
    match fuel with
    | O => (COutOfFuel, st)
    | S f =>
        let '(done, tr) := st in
        let tr' := tr ++ [k] in
        match lookup g k with
        | None => (CErrRead, (done, tr'))                       (* fileValue: ReadFile fails *)
        | Some imps =>
            if mem k done then (COk, (done, tr'))                (* getOrAdd: cached value *)
            else if mem k stack then                             (* getOrAdd: entry present and nil *)
                   ((if hang then CHang else CErrCycle), (done, tr'))
                 else                                            (* mark in flight, compile, store *)
                   match visit_list (visit f (k :: stack)) imps (done, tr') with
                   | (COk, (done', tr'')) => (COk, (k :: done', tr''))
                   | other => other                              (* error: marker deleted, nothing stored *)
                   end
        end
    end.

  (* compiling the main script whose local imports are `imps` *)
  Definition compile_main (imps : list key) : cres * cstate :=
    visit_list (visit (S (length g)) []) imps ([], []).
End Compile.

(* import relation of the graph *)
Definition edge (g : graph) (a b : key) : Prop := exists imps, lookup g a = Some imps /\ In b imps.
Inductive plus (g : graph) : key -> key -> Prop :=
| plus_one : forall a b, edge g a b -> plus g a b
| plus_step : forall a b c, edge g a b -> plus g b c -> plus g a c.
Definition reach (g : graph) (a b : key) : Prop := a = b \/ plus g a b.
