(* Model of local-import resolution of arr.ai:
     syntax/compile.go  compilePackage   (PKGPATH branch, names starting with '/')
     syntax/import.go   importLocalFile, findRootFromModule, fileValue (name of the file read)
     tools/file_util.go FileExists (through the oracle `gomod`)
   `//{./p}` has dot = true and name = "/p"; `//{/p}` has dot = false and name = "/p".
   The model returns the sequence of Stat calls made while looking for the module
   root and the outcome: an error before any file is read, or the exact file
   name handed to afero.ReadFile.  The file system is an oracle: `gomod d` says
   whether a regular file go.mod exists in directory d (absolute, clean). *)
From Coq Require Import List ZArith Bool Lia.
From Arrai Require Import Sys.GoPath.
Import ListNotations.
Open Scope Z_scope.

(* One boolean per defective call site; true = what the Go code does today,
   false = the repaired behaviour. *)
Record Quirks := {
  (* importLocalFile trims " \t\n" from the already cleaned, checked and joined
     path; repaired: compilePackage trims the name before cleaning and the late
     trim is gone *)
  q_import_trim_after_join : bool;
  (* compilePackage accepts an import path that names no file ("", "."), so
     fileValue appends ".arrai" to the importing directory itself; repaired:
     such a path is rejected *)
  q_import_dir_as_file : bool;
  (* importcache.getOrAdd waits for an in-flight entry even when the waiter is
     the goroutine that is computing it; repaired: an import of a file that is
     on the import stack is an error (see Sys/ImportCache.v) *)
  q_import_cycle_hangs : bool
}.
Definition quirks_off : Quirks := {| q_import_trim_after_join := false; q_import_dir_as_file := false; q_import_cycle_hangs := false |}.
Definition quirks_go : Quirks := {| q_import_trim_after_join := true; q_import_dir_as_file := true; q_import_cycle_hangs := true |}.

Inductive outcome :=
| External          (* name does not start with '/': not a local import *)
| Reject            (* error returned by compilePackage before any file system access *)
| NoModule          (* findRootFromModule: no go.mod up to the file-system root *)
| Read (p : str)    (* afero.ReadFile(SourceFs, p) *)
| OutOfFuel.

(* findRootFromModule (no bundle, empty root cache): walk up from Abs(sourceDir) *)
Fixpoint find_root (fuel : nat) (gomod : str -> bool) (cur : str) (stats : list str)
  : list str * option (option str) :=
  match fuel with
  | O => (stats, None)
  | S f =>
      let probe := join_path cur sGoMod in
      let stats' := stats ++ [probe] in
      if gomod cur then (stats', Some (Some cur))
      else if str_eqb cur [47] then (stats', Some None)
      else find_root f gomod (dir cur) stats'
  end.

(* fileValue: the name read *)
Definition file_name (p : str) : str := if has_ext p then p else p ++ sArrai.

Section Resolve.
  Variable q : Quirks.
  Variable cwd : str.               (* working directory: absolute, clean *)
  Variable gomod : str -> bool.

  (* importLocalFile *)
  Definition import_local (from_root : bool) (import_path source_dir : str) : list str * outcome :=
    let ip := if q_import_trim_after_join q then trim_ws import_path else import_path in
    if from_root then
      let start := abs_path cwd source_dir in
      match find_root (S (length start)) gomod start [] with
      | (st, None) => (st, OutOfFuel)
      | (st, Some None) => (st, NoModule)
      | (st, Some (Some root)) =>
          let ip' := if has_prefix [47] ip then ip else root ++ 47 :: strip_dotdotslash ip in
          (st, Read (file_name ip'))
      end
    else ([], Read (file_name ip)).

  (* compilePackage, PKGPATH branch *)
  Definition resolve (dot : bool) (name source_dir : str) : list str * outcome :=
    if negb (has_prefix [47] name) then ([], External)
    else
      let name0 := if q_import_trim_after_join q then name else trim_ws name in
      let from_root := negb dot in
      let name1 := if dot then 46 :: name0 else name0 in
      let name2 := clean name1 in
      if has_prefix sDotDot name2 then ([], Reject)
      else
        let file_path := trim_slash name2 in
        if is_nilb source_dir then ([], Reject)
        else if negb (q_import_dir_as_file q) && (is_nilb file_path || str_eqb file_path sDot) then ([], Reject)
        else
          let import_path := if from_root then clean file_path else join_path source_dir file_path in
          import_local from_root import_path source_dir.
End Resolve.

(* ---------- the confinement notion ---------- *)
(* p lies strictly beneath directory d (lexically, as the operating system
   resolves the two names from the same working directory): after Clean, p's
   segments are d's segments followed by one or more ordinary names (non-empty,
   not ".", not "..", no '/'), and p is absolute iff d is. *)
Definition beneath (d p : str) : Prop :=
  rooted p = rooted d /\
  exists ns, ns <> [] /\ Forall (fun x => normalb x = true) ns /\ cstack p = cstack d ++ ns.

(* d' is d or lies beneath d *)
Definition within (d d' : str) : Prop :=
  rooted d' = rooted d /\
  exists ns, Forall (fun x => normalb x = true) ns /\ cstack d' = cstack d ++ ns.

Fixpoint drop_prefix (l p : list str) : option (list str) :=
  match p, l with
  | [], _ => Some l
  | x :: p', y :: l' => if str_eqb x y then drop_prefix l' p' else None
  | _ :: _, [] => None
  end.

Definition beneathb (d p : str) : bool :=
  Bool.eqb (rooted p) (rooted d) &&
  match drop_prefix (cstack p) (cstack d) with
  | Some (x :: r) => forallb normalb (x :: r)
  | _ => false
  end.

(* ---------- the module root and the per-evaluation root cache ---------- *)
(* Specification of "the module root of directory cur": the nearest directory,
   walking up from cur, that holds go.mod (None: none up to "/").  It depends on
   the file system only - not on what was resolved earlier in the evaluation. *)
Inductive Root (gomod : str -> bool) : str -> option str -> Prop :=
| root_here : forall cur, gomod cur = true -> Root gomod cur (Some cur)
| root_none : forall cur, gomod cur = false -> str_eqb cur [47] = true -> Root gomod cur None
| root_up : forall cur r, gomod cur = false -> str_eqb cur [47] = false ->
    Root gomod (dir cur) r -> Root gomod cur r.

(* pkg/ctxrootcache as used by findRootFromModule: LoadRoot(currentPath) first;
   after a successful walk StoreRoot(p, root) for every directory p passed *)
Definition root_cache := list (str * str).

Fixpoint cache_load (c : root_cache) (d : str) : option str :=
  match c with
  | [] => None
  | (d', r) :: t => if str_eqb d d' then Some r else cache_load t d
  end.

(* the walk, also returning the directories passed (start first) *)
Fixpoint walk_root (fuel : nat) (gomod : str -> bool) (cur : str) (passed : list str)
  : option (option str * list str) :=
  match fuel with
  | O => None
  | S f =>
      let passed' := passed ++ [cur] in
      if gomod cur then Some (Some cur, passed')
      else if str_eqb cur [47] then Some (None, passed')
      else walk_root f gomod (dir cur) passed'
  end.

Definition find_root_cached (fuel : nat) (gomod : str -> bool) (c : root_cache) (cur : str)
  : option (option str * root_cache) :=
  match cache_load c cur with
  | Some r => Some (Some r, c)
  | None =>
      match walk_root fuel gomod cur [] with
      | None => None
      | Some (Some root, passed) => Some (Some root, map (fun p => (p, root)) passed ++ c)
      | Some (None, _) => Some (None, c)
      end
  end.

Definition cache_sound (gomod : str -> bool) (c : root_cache) : Prop :=
  forall d r, In (d, r) c -> Root gomod d (Some r).
