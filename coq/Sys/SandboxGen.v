(* The world of the correspondence runs: the two libraries are built from the inventory
   regenerated from the running implementation (Gen/Stdlib.v); the files are the ones the
   harness puts into its in-memory file system (harness/c18.go: c18Files). *)
From Coq Require Import List String Bool.
From Arrai Require Import Sys.Sandbox Gen.Stdlib.
Import ListNotations.
Open Scope string_scope.

Definition gen_files : list (string * expr) :=
  [ ("secret", EData);                                  (* secret.arrai: "TOPSECRET" *)
    ("lib", EDot (EDot EPkg "os") "file");              (* lib.arrai:    //os.file   *)
    ("pure", EFn "x" (EVar "x"));                       (* pure.arrai:   \x x        *)
    ("data.txt", EData) ].

Definition gen_world : world :=
  {| w_safe := lib_of_table safe_table; w_full := lib_of_table full_table; w_files := gen_files |}.

(* authority of the two libraries = the classes of the functions listed in the inventory *)
Definition gen_S : list cls := table_caps safe_table.
Definition gen_F : list cls := table_caps full_table.

(* ---- the inventory check: which members of the safe library may carry which class ---- *)
Definition forbidden (c : cls) : bool :=          (* the property text: file-reading, network, command execution *)
  match c with CFile | CNet | CExec | CUnclassified => true | _ => false end.
Definition ambient (c : cls) : bool :=            (* ambient authority beyond the letter of the text *)
  match c with CFsMeta | CEnv | CStdin => true | _ => false end.

Fixpoint path_eqb (a b : list string) : bool :=
  match a, b with
  | [], [] => true
  | x :: a', y :: b' => String.eqb x y && path_eqb a' b'
  | _, _ => false
  end.

Definition strip_std_safe (p : list string) : list string :=
  match p with
  | a :: b :: r => if String.eqb a "std" && String.eqb b "safe" then r else p
  | _ => p
  end.

Definition row_path (r : row) : list string := fst (fst (fst r)).
Definition excepted (exc : list (list string)) (p : list string) : bool :=
  existsb (path_eqb (strip_std_safe p)) exc.

Definition row_ok (exc : list (list string)) (r : row) : bool :=
  negb (forbidden (row_class r) || ambient (row_class r)) || excepted exc (row_path r).

Definition safe_natives_classified_except (exc : list (list string)) (t : list row) : bool :=
  forallb (row_ok exc) t.

(* open findings KF-C18-05 (exec) and KF-C18-06 (ambient os.* members) *)
Definition known_exceptions : list (list string) :=
  [ ["deprecated"; "exec"];
    ["os"; "exists"]; ["os"; "tree"]; ["os"; "get_env"]; ["os"; "&args"]; ["os"; "&stdin"] ].
