(* C11: a tiny concurrent IR with an interleaving (sequentially consistent)
   small-step semantics over N threads, the definition of a data race, and
   the hand-transcribed synchronisation protocols of arr-ai/arrai.

   What is modelled: the *protocols* (which shared cell is touched under which
   sync.Once / sync.Mutex / sync.Cond), not Go.  The Go memory model, the
   scheduler and frozen's internal fan-out are outside; they are sampled by
   the race detector in the correspondence run (gen/c11.py).

   Instructions are flat (program counter + jumps) so that every reachable
   thread state of a fixed protocol is one of finitely many program points:
     OnceEnter o skip / OnceExit o   are the two halves of  o.Do(func(){ body })
        (fresh: become the runner and fall into the body; running elsewhere:
         block; done: jump to skip -- Go's fast path + doSlow),
     Wait c m   is sync.Cond.Wait (release m, sleep until a later Broadcast,
        re-acquire m); wake-ups are modelled by a generation counter per
        condition variable, so every step changes only the stepping thread
        and the shared state,
     Compute r f a   is a pure, thread-local computation (the cached function).
*)
From Coq Require Import List ZArith Bool Lia Arith.
Import ListNotations.

Definition tid := nat.
Definition var := nat.
Definition reg := nat.
Definition mutex := nat.
Definition onceid := nat.
Definition condid := nat.

Inductive instr :=
| Nop
| Read (x : var) (r : reg)                 (* r := mem[x]            (shared read)  *)
| Write (x : var) (r : reg)                (* mem[x] := r            (shared write) *)
| Compute (r : reg) (f : Z -> Z) (a : reg) (* r := f a               (local, pure)  *)
| Jmp (l : nat)
| JmpIf (p : Z -> bool) (r : reg) (l : nat)
| Lock (m : mutex)
| Unlock (m : mutex)
| OnceEnter (o : onceid) (skip : nat)
| OnceExit (o : onceid)
| Wait (c : condid) (m : mutex)
| Broadcast (c : condid)
| Halt.

Inductive ostate := OFresh | ORunning (t : tid) | ODone.

Record tstate := TS { pc : nat; regs : reg -> Z; wt : option nat }.
Record shared := SH { mem : var -> Z; lk : mutex -> option tid; on : onceid -> ostate; gen : condid -> nat }.
Record state := ST { sh : shared; thr : tid -> tstate }.

Definition upd {B} (f : nat -> B) (k : nat) (v : B) : nat -> B := fun j => if Nat.eqb k j then v else f j.

Definition next (ts : tstate) : tstate := TS (S (pc ts)) (regs ts) (wt ts).
Definition goto (ts : tstate) (l : nat) : tstate := TS l (regs ts) (wt ts).
Definition setreg (ts : tstate) (r : reg) (v : Z) : tstate := TS (pc ts) (upd (regs ts) r v) (wt ts).
Definition set_wt (ts : tstate) (w : option nat) : tstate := TS (pc ts) (regs ts) w.

Definition set_mem (s : shared) x v := SH (upd (mem s) x v) (lk s) (on s) (gen s).
Definition set_lk (s : shared) m v := SH (mem s) (upd (lk s) m v) (on s) (gen s).
Definition set_on (s : shared) o v := SH (mem s) (lk s) (upd (on s) o v) (gen s).
Definition set_gen (s : shared) c v := SH (mem s) (lk s) (on s) (upd (gen s) c v).

(* One step of thread t running program p; None = blocked, halted or fault. *)
Definition exec (p : list instr) (t : tid) (ts : tstate) (s : shared) : option (tstate * shared) :=
  match nth_error p (pc ts) with
  | None => None
  | Some i =>
    match i with
    | Nop => Some (next ts, s)
    | Read x r => Some (setreg (next ts) r (mem s x), s)
    | Write x r => Some (next ts, set_mem s x (regs ts r))
    | Compute r f a => Some (setreg (next ts) r (f (regs ts a)), s)
    | Jmp l => Some (goto ts l, s)
    | JmpIf p r l => Some (if p (regs ts r) then goto ts l else next ts, s)
    | Lock m => match lk s m with
                | None => Some (next ts, set_lk s m (Some t))
                | Some _ => None
                end
    | Unlock m => match lk s m with
                  | Some u => if Nat.eqb u t then Some (next ts, set_lk s m None) else None
                  | None => None
                  end
    | OnceEnter o skip => match on s o with
                          | ODone => Some (goto ts skip, s)
                          | OFresh => Some (next ts, set_on s o (ORunning t))
                          | ORunning _ => None
                          end
    | OnceExit o => Some (next ts, set_on s o ODone)
    | Wait c m =>
        match wt ts with
        | None => match lk s m with
                  | Some u => if Nat.eqb u t then Some (set_wt ts (Some (gen s c)), set_lk s m None) else None
                  | None => None
                  end
        | Some g => if Nat.eqb (gen s c) g then None
                    else match lk s m with
                         | None => Some (next (set_wt ts None), set_lk s m (Some t))
                         | Some _ => None
                         end
        end
    | Broadcast c => Some (next ts, set_gen s c (S (gen s c)))
    | Halt => None
    end
  end.

Definition ts0 : tstate := TS 0 (fun _ => 0%Z) None.
Definition sh0 : shared := SH (fun _ => 0%Z) (fun _ => None) (fun _ => OFresh) (fun _ => 0).
Definition init : state := ST sh0 (fun _ => ts0).

Section System.
  Variable progs : tid -> list instr.   (* the program each thread runs *)
  Variable loc : var -> nat.            (* Go memory location of a logical cell: cells that share one
                                           location (entries of one persistent map field) conflict *)

  Inductive step (N : nat) : state -> state -> Prop :=
  | step_thread : forall s t ts' sh',
      t < N -> exec (progs t) t (thr s t) (sh s) = Some (ts', sh') ->
      step N s (ST sh' (upd (thr s) t ts')).

  Inductive reachable (N : nat) : state -> Prop :=
  | r_init : reachable N init
  | r_step : forall s s', reachable N s -> step N s s' -> reachable N s'.

  (* the shared-memory access a thread is about to make *)
  Definition access (p : list instr) (ts : tstate) : option (var * bool) :=
    match nth_error p (pc ts) with
    | Some (Read x _) => Some (x, false)
    | Some (Write x _) => Some (x, true)
    | _ => None
    end.

  (* Data race: two different threads are both about to access the same
     location, at least one of them writing.  (Read and Write are always
     enabled, so "about to" = "simultaneously enabled": the two accesses are
     adjacent in some sequentially consistent execution, i.e. unordered by
     any lock/once/cond edge.) *)
  Definition race (N : nat) (s : state) : Prop :=
    exists t u x y w1 w2, t < N /\ u < N /\ t <> u /\
      access (progs t) (thr s t) = Some (x, w1) /\
      access (progs u) (thr s u) = Some (y, w2) /\
      loc x = loc y /\ (w1 || w2) = true.

  Definition halted (t : tid) (s : state) : Prop := nth_error (progs t) (pc (thr s t)) = Some Halt.
  Definition enabled (t : tid) (s : state) : Prop := exec (progs t) t (thr s t) (sh s) <> None.
  (* a non-final state in which nobody can move: some thread sleeps forever *)
  Definition deadlock (N : nat) (s : state) : Prop :=
    (forall t, t < N -> ~ enabled t s) /\ exists t, t < N /\ ~ halted t s.

  (* executable versions, for witnesses *)
  Definition run1 (s : state) (t : tid) : option state :=
    match exec (progs t) t (thr s t) (sh s) with
    | Some (ts', sh') => Some (ST sh' (upd (thr s) t ts'))
    | None => None
    end.
  Fixpoint run (s : state) (sched : list tid) : option state :=
    match sched with
    | [] => Some s
    | t :: r => match run1 s t with Some s' => run s' r | None => None end
    end.
  Definition raceb (s : state) (t u : tid) : bool :=
    match access (progs t) (thr s t), access (progs u) (thr s u) with
    | Some (x, w1), Some (y, w2) => Nat.eqb (loc x) (loc y) && (w1 || w2)
    | _, _ => false
    end.
  Definition isHalt (i : option instr) : bool := match i with Some Halt => true | _ => false end.
  Definition haltedb (s : state) (t : tid) : bool := isHalt (nth_error (progs t) (pc (thr s t))).
  Definition enabledb (s : state) (t : tid) : bool :=
    match exec (progs t) t (thr s t) (sh s) with Some _ => true | None => false end.
  Definition result (s : state) (t : tid) : Z := regs (thr s t) 0.
End System.

(* ------------------------------------------------------------------ *)
(* Defects of the unchanged code, one flag per call site (on = today's Go
   code, off = repaired).  DESIGN 5.3.                                   *)
Record Quirks := {
  q_where_err_capture_race : bool;        (* rel/value_set_generic.go GenericSet.Where and
                                             rel/value_set_relpos.go positionalRelation.Where:
                                             the captured `err` is read and written by parallel callbacks *)
  q_importcache_error_no_broadcast : bool;(* pkg/importcache/import_cache.go getOrAdd: the deferred
                                             cleanup after a failed add() deletes the marker without Broadcast *)
  q_join_attrs_append_alias : bool        (* rel/value_set_rel.go Relation.Join: append(leftOutput, rightOutput...)
                                             where leftOutput is the shared relation's own attrs slice: with spare
                                             capacity every join writes the same backing-array slot *)
}.
Definition quirks_off := {| q_where_err_capture_race := false; q_importcache_error_no_broadcast := false; q_join_attrs_append_alias := false |}.
Definition quirks_cur := {| q_where_err_capture_race := true; q_importcache_error_no_broadcast := true; q_join_attrs_append_alias := true |}.
Definition only_where := {| q_where_err_capture_race := true; q_importcache_error_no_broadcast := false; q_join_attrs_append_alias := false |}.
Definition only_import := {| q_where_err_capture_race := false; q_importcache_error_no_broadcast := true; q_join_attrs_append_alias := false |}.
Definition only_join := {| q_where_err_capture_race := false; q_importcache_error_no_broadcast := false; q_join_attrs_append_alias := true |}.

Definition const (v : Z) : Z -> Z := fun _ => v.
Definition isZero (z : Z) : bool := Z.eqb z 0.
Definition nonZero (z : Z) : bool := negb (Z.eqb z 0).
Definition isNeg (z : Z) : bool := Z.ltb z 0.
Definition idloc (x : var) : nat := x.

(* ------------------------------------------------------------------ *)
(* P1. GenericTuple lazies (rel/value_tuple.go).
   cell 0 / once 0: cachedNames / cachedNamesOnce  (Names());  the same shape is
     TupleOrderedNames (names / orderNamesOnce), syntax.StdScope, SafeStdScope,
     FixFuncs, implicitDecoder, deprecate.delayDuration: a once-guarded cell.
   cell 1 / once 1: cachedBucket / cachedBucketOnce (getBucket()), whose body
     calls t.Names() -- a Once nested in a Once body.
   Threads with bucket t = true call getBucket(), the others Names().
   vN is the (pure) name set, hB the pure function newHashableNamesSlice. *)
Section Tuple.
  Variable vN : Z.
  Variable hB : Z -> Z.
  Variable bucket : tid -> bool.

  Definition p_names : list instr :=
    [ OnceEnter 0 4;            (* t.cachedNamesOnce.Do(func() {          *)
      Compute 1 (const vN) 0;   (*    b := ... enumerate attrs ...        *)
      Write 0 1;                (*    t.cachedNames = Names(b.Finish())   *)
      OnceExit 0;               (* })                                     *)
      Read 0 0;                 (* return t.cachedNames                   *)
      Halt ].
  Definition p_bucket : list instr :=
    [ OnceEnter 1 9;            (* t.cachedBucketOnce.Do(func() {         *)
      OnceEnter 0 5;            (*   t.Names(): cachedNamesOnce.Do(...    *)
      Compute 1 (const vN) 0;
      Write 0 1;
      OnceExit 0;               (*   })                                   *)
      Read 0 2;                 (*   ... return t.cachedNames             *)
      Compute 3 hB 2;           (*   newHashableNamesSlice(names.OrderedNames()) *)
      Write 1 3;                (*   t.cachedBucket = ...                 *)
      OnceExit 1;               (* })                                     *)
      Read 1 0;                 (* return t.cachedBucket                  *)
      Halt ].
  Definition tuple_progs (t : tid) : list instr := if bucket t then p_bucket else p_names.
  Definition tuple_serial (t : tid) : Z := if bucket t then hB vN else vN.
End Tuple.

(* The mutant of P1 the check must catch (a plain nil-check instead of the
   Once): used only for a "racy" verdict, never in a theorem about Go. *)
Definition p_names_nocheck (vN : Z) : list instr :=
  [ Read 0 0;                   (* if t.cachedNames == nil {               *)
    JmpIf nonZero 0 4;
    Compute 1 (const vN) 0;
    Write 0 1;                  (*    t.cachedNames = ...  }               *)
    Read 0 0;
    Halt ].

(* ------------------------------------------------------------------ *)
(* P2. positionalRelation.getMeta / computeIndex (rel/value_set_relpos.go).
   cell 0 = r.meta (once 0), cells 1+k = entry k of prm.indices (one Go field:
   relpos_loc maps them all to location 1), mutex 0 = prm.Mutex.
   Thread t asks for projector key t; fn k is the pure group-by index
   (a positive number: 0 encodes "absent"). *)
Section Relpos.
  Variable key : tid -> nat.
  Variable fn : nat -> positive.

  Definition relpos_loc (x : var) : nat := match x with 0 => 0 | _ => 1 end.
  Definition p_relpos (k : nat) : list instr :=
    [ OnceEnter 0 4;                        (* r.once.Do(func() {                        *)
      Compute 1 (const 1) 0;
      Write 0 1;                            (*    r.meta = &positionalRelationMetadata{} *)
      OnceExit 0;                           (* })                                        *)
      Read 0 1;                             (* return r.meta                             *)
      Lock 0;                               (* prm.Lock(); defer prm.Unlock()            *)
      Read (S k) 0;                         (* index, has := prm.indices.Get(key)        *)
      JmpIf nonZero 0 10;                   (* if has { return index }                   *)
      Compute 0 (const (Zpos (fn k))) 0;    (* index := fn()                             *)
      Write (S k) 0;                        (* prm.indices = prm.indices.With(key,index) *)
      Unlock 0;
      Halt ].
  Definition relpos_progs (t : tid) : list instr := p_relpos (key t).
  Definition relpos_serial (t : tid) : Z := Zpos (fn (key t)).
End Relpos.

(* mutant of P2: the index cache is consulted before taking the lock *)
Definition p_relpos_unlocked_read (k : nat) (v : Z) : list instr :=
  [ OnceEnter 0 4; Compute 1 (const 1) 0; Write 0 1; OnceExit 0; Read 0 1;
    Read (S k) 0;                           (* prm.indices.Get(key) outside the lock *)
    JmpIf nonZero 0 11;
    Lock 0;
    Compute 0 (const v) 0;
    Write (S k) 0;
    Unlock 0;
    Halt ].

(* ------------------------------------------------------------------ *)
(* P3. The captured `err` of GenericSet.Where / positionalRelation.Where.
   frozen runs the callback for different elements on different goroutines
   (sets above the fan-out threshold); thread t is the callback on element t,
   perr t its predicate's error (0 = nil).  cell 0 = err.
   Quirk on: the code as it is (plain accesses).  Quirk off: the proposed
   repair, a mutex around both accesses (fixes/C11-where-err.diff). *)
Section Where.
  Variable q : Quirks.
  Variable perr : tid -> Z.

  Definition guard (i : instr) : instr := if q_where_err_capture_race q then Nop else i.
  Definition p_where (e : Z) : list instr :=
    [ guard (Lock 0);
      Read 0 0;                 (* if err != nil { return false } *)
      guard (Unlock 0);
      JmpIf nonZero 0 9;
      Compute 1 (const e) 0;    (* match, err2 := p(elem) *)
      JmpIf isZero 1 9;         (* if err2 != nil {        *)
      guard (Lock 0);
      Write 0 1;                (*    err = err2           *)
      guard (Unlock 0);         (*    return false }       *)
      Halt ].
  Definition where_progs (t : tid) : list instr := p_where (perr t).
End Where.

(* ------------------------------------------------------------------ *)
(* P4. importCache.getOrAdd (pkg/importcache/import_cache.go), one key.
   cell 0 = cache[key]:  0 absent, negative = present with a nil Expr (the
   "somebody is adding" marker), positive = the cached Expr.
   Auxiliary variable (Owicki-Gries): the marker written by thread t is
   -(1+t) instead of an anonymous nil, so that the invariant can name the
   adder; the program only ever tests the sign.
   res = what add() returns: > 0 a value, 0 (nil, nil), < 0 an error.
   Quirk on: the deferred cleanup of the error path deletes the marker and
   unlocks without Broadcast.  Quirk off: it broadcasts. *)
Definition marker (t : tid) : Z := (- (1 + Z.of_nat t))%Z.
Arguments marker : simpl never.

Section Import.
  Variable q : Quirks.
  Variable res : Z.

  Definition p_import (t : tid) : list instr :=
    [ Lock 0;                                   (*  0 service.mutex.Lock(); defer ...         *)
      Read 0 0;                                 (*  1 val, has := service.cache[key]          *)
      JmpIf isZero 0 7;                         (*  2 !has -> break                           *)
      JmpIf isNeg 0 5;                          (*  3 val == nil -> wait                      *)
      Jmp 16;                                   (*  4 return val, nil                         *)
      Wait 0 0;                                 (*  5 service.cond.Wait()                     *)
      Jmp 1;                                    (*  6 (loop)                                  *)
      Compute 1 (const (marker t)) 0;           (*  7                                         *)
      Write 0 1;                                (*  8 service.cache[key] = nil                *)
      Unlock 0;                                 (*  9 service.mutex.Unlock(); adding = true   *)
      Compute 0 (const res) 0;                  (* 10 val, err := add()                       *)
      JmpIf isNeg 0 18;                         (* 11 if err != nil { return nil, err }       *)
      Lock 0;                                   (* 12 adding = false; service.mutex.Lock()    *)
      Write 0 0;                                (* 13 cache[key] = val / delete(cache, key)   *)
      Broadcast 0;                              (* 14 service.cond.Broadcast()                *)
      Jmp 16;                                   (* 15 return val, nil                         *)
      Unlock 0;                                 (* 16 deferred: service.mutex.Unlock()        *)
      Halt;                                     (* 17                                         *)
      Lock 0;                                   (* 18 deferred, adding: service.mutex.Lock()  *)
      Compute 1 (const 0) 0;                    (* 19                                         *)
      Write 0 1;                                (* 20 delete(service.cache, key)              *)
      (if q_importcache_error_no_broadcast q then Nop else Broadcast 0);   (* 21 *)
      Jmp 16 ].                                 (* 22                                         *)
  Definition import_progs (t : tid) : list instr := p_import t.
End Import.

(* ------------------------------------------------------------------ *)
(* P5. Relation.Join building the result heading (rel/value_set_rel.go):
     attrs := append(leftOutput, rightOutput...)
   For `<&>` leftOutput is r1.attrs itself (ops_rel.go `join`), a slice whose
   backing array is shared by every use of the relation.  cell 0 = the first
   spare slot of that array.  Quirk on: the append writes it (thread t joins
   with an operand contributing attribute name nm t).  Quirk off (repair):
   the heading is built in a fresh array, which is no shared access at all. *)
Section JoinAttrs.
  Variable q : Quirks.
  Variable nm : tid -> Z.
  Definition p_join (t : tid) : list instr :=
    [ Compute 1 (const (nm t)) 0;
      (if q_join_attrs_append_alias q then Write 0 1 else Nop);   (* attrs := append(leftOutput, rightOutput...) *)
      Compute 0 (const (nm t)) 1;                                 (* the heading this join returns *)
      Halt ].
End JoinAttrs.

(* ------------------------------------------------------------------ *)
(* P6. The stdin cache behind //os.stdin (method read of stdOsStdin, syntax/std_os.go):
   a mutex-guarded cell whose fill consumes a ONE-SHOT stream.
   cell 0 = d.bytes (0 = nil, otherwise 1 + number of chunks it holds),
   cell 1 = number of chunks already taken from the stream (K chunks in all),
   mutex 0 = d.mutex, mutex 1 = the atomicity of one Read call on the source
   (an *os.File / pipe hands every chunk to exactly one caller).
   io.ReadAll is the loop 4..11: take a chunk until end of stream.
   Specification: every caller gets the whole stream (1 + K), the serial result. *)
Definition geK (k : Z) (z : Z) : bool := Z.leb k z.
Section Stdin.
  Variable K : nat.
  Definition p_stdin : list instr :=
    [ Lock 0;                              (*  0 d.mutex.Lock(); defer d.mutex.Unlock()   *)
      Read 0 0;                            (*  1 if d.bytes != nil {                      *)
      JmpIf nonZero 0 16;                  (*  2    return d.bytes, nil }                 *)
      Compute 2 (const 0) 0;               (*  3 f, err := io.ReadAll(reader):  acc := 0  *)
      Lock 1;                              (*  4   one Read call ...                      *)
      Read 1 1;                            (*  5                                          *)
      JmpIf (geK (Z.of_nat K)) 1 12;       (*  6   ... end of stream                      *)
      Compute 1 Z.succ 1;                  (*  7                                          *)
      Write 1 1;                           (*  8   ... or takes the next chunk            *)
      Unlock 1;                            (*  9                                          *)
      Compute 2 Z.succ 2;                  (* 10   acc = append(acc, chunk)               *)
      Jmp 4;                               (* 11                                          *)
      Unlock 1;                            (* 12                                          *)
      Compute 0 Z.succ 2;                  (* 13 rel.NewBytes(f)                          *)
      Write 0 0;                           (* 14 d.bytes = ...                            *)
      Nop;                                 (* 15                                          *)
      Unlock 0;                            (* 16 deferred                                 *)
      Halt ].                              (* 17 result: register 0                       *)
  Definition stdin_serial : Z := Z.succ (Z.of_nat K).

  (* the variant the check must catch (no data race, wrong results): the mutex
     is released around the blocking read and the result published with a
     double check *)
  Definition p_stdin_narrow : list instr :=
    [ Lock 0;                              (*  0 *)
      Read 0 0;                            (*  1 cached := d.bytes *)
      Unlock 0;                            (*  2 *)
      JmpIf nonZero 0 21;                  (*  3 if cached != nil { return cached } *)
      Compute 2 (const 0) 0;               (*  4 io.ReadAll(reader) outside the lock *)
      Lock 1;                              (*  5 *)
      Read 1 1;                            (*  6 *)
      JmpIf (geK (Z.of_nat K)) 1 13;       (*  7 *)
      Compute 1 Z.succ 1;                  (*  8 *)
      Write 1 1;                           (*  9 *)
      Unlock 1;                            (* 10 *)
      Compute 2 Z.succ 2;                  (* 11 *)
      Jmp 5;                               (* 12 *)
      Unlock 1;                            (* 13 *)
      Lock 0;                              (* 14 d.mutex.Lock() *)
      Read 0 0;                            (* 15 if d.bytes == nil { *)
      JmpIf nonZero 0 19;                  (* 16 *)
      Compute 0 Z.succ 2;                  (* 17 *)
      Write 0 0;                           (* 18    d.bytes = rel.NewBytes(f) } *)
      Unlock 0;                            (* 19 *)
      Jmp 21;                              (* 20 *)
      Halt ].                              (* 21 *)
End Stdin.

(* ------------------------------------------------------------------ *)
(* The verdict of the model per protocol, compared with the race detector. *)
Inductive proto := PTupleNames | PTupleBucket | POnceCell | PRelposIndex | PWhereErr | PImportCache | PJoinAttrs | PStdinCache | MStdinNarrowLock
                 | MTupleNoOnce | MRelposUnlockedRead.
Definition model_racy (q : Quirks) (p : proto) : bool :=
  match p with
  | PWhereErr => q_where_err_capture_race q
  | PJoinAttrs => q_join_attrs_append_alias q
  | MTupleNoOnce | MRelposUnlockedRead => true
  | _ => false
  end.
Definition model_deadlocks (q : Quirks) (p : proto) : bool :=
  match p with
  | PImportCache => q_importcache_error_no_broadcast q
  | _ => false
  end.

(* variants that are free of data races but give non-serial results *)
Definition model_nonserial (p : proto) : bool :=
  match p with MStdinNarrowLock => true | _ => false end.
