(* Slices over a heap of arrays (property C03): the aliasing behaviour of the
   []rune / []byte / []Value backed representations (rel/value_set_str.go,
   value_set_bytes.go, value_set_array.go).  A value is a window into an array
   of the heap; deriving a value either allocates a fresh array (copy) or
   re-slices the parent's array (sharing).  The only way an existing value can
   change is a write into an existing array; the quirk [q_append_in_place]
   models Go's append() writing into spare capacity, which is what String.with
   and Bytes.with did before they were fixed. *)
From Arrai Require Import Base.Val.

Definition heap := list (list Z).                 (* array id = position; cells are runes, -1 = hole *)

Record slice := { s_arr : nat; s_start : nat; s_len : nat; s_off : Z }.

Definition cells (h : heap) (v : slice) : list Z :=
  firstn (s_len v) (skipn (s_start v) (nth (s_arr v) h [])).

(* what the value denotes: its offset and its cells *)
Definition den (h : heap) (v : slice) : Z * list Z := (s_off v, cells h v).

Fixpoint set_nth (n : nat) (x : Z) (l : list Z) : list Z :=
  match l, n with
  | [], _ => []
  | _ :: l', O => x :: l'
  | y :: l', S n' => y :: set_nth n' x l'
  end.

Fixpoint upd_heap (a : nat) (f : list Z -> list Z) (h : heap) : heap :=
  match h, a with
  | [], _ => []
  | x :: h', O => f x :: h'
  | x :: h', S a' => x :: upd_heap a' f h'
  end.

Definition alloc (h : heap) (c : list Z) (off : Z) : heap * slice :=
  (h ++ [c], {| s_arr := length h; s_start := 0; s_len := length c; s_off := off |}).

Inductive op :=
| OLit (c : list Z) (spare : nat)       (* a fresh string whose array has [spare] unused cells behind it *)
| OWith (parent : nat) (at_ : Z) (char : Z)
| OWithout (parent : nat) (at_ : Z) (char : Z)
| OOffset (parent : nat) (n : Z).       (* n \ s : same storage, other offset *)

Definition trim_front (c : list Z) (off : Z) : list Z * Z :=
  (fix go (c : list Z) (off : Z) : list Z * Z :=
     match c with
     | x :: c' => if x <? 0 then go c' (off + 1) else (c, off)
     | [] => ([], off)
     end) c off.
Definition trim_back (c : list Z) : list Z :=
  rev (fst (trim_front (rev c) 0)).

(* String.with after the fix: every branch builds a fresh array *)
Definition with_cells (c : list Z) (off at_ char : Z) : list Z * Z :=
  let i := at_ - off in
  if match c with [] => true | _ => false end then ([char], at_)    (* the empty set has no offset *)
  else if i <? 0 then (char :: repeat (-1) (Z.to_nat (- i - 1)) ++ c, at_)
  else if i <? Z.of_nat (length c) then (set_nth (Z.to_nat i) char c, off)
  else (c ++ repeat (-1) (Z.to_nat (i - Z.of_nat (length c))) ++ [char], off).

Definition step (in_place : bool) (st : heap * list slice) (o : op) : heap * list slice :=
  let (h, vals) := st in
  match o with
  | OLit c spare =>
      let (h', v) := alloc h (c ++ repeat 0 spare) 0 in
      (h', vals ++ [{| s_arr := s_arr v; s_start := 0; s_len := length c; s_off := 0 |}])
  | OWith p at_ char =>
      match nth_error vals p with None => st | Some v =>
      let c := cells h v in
      let i := at_ - s_off v in
      if (0 <=? i) && (i <? Z.of_nat (length c)) && (nth (Z.to_nat i) c 0 =? char) then (h, vals ++ [v])
      else if in_place && (i =? Z.of_nat (s_len v))
              && (s_start v + s_len v <? length (nth (s_arr v) h []))%nat then
        (* append(s.s, char) with spare capacity: writes into the shared array *)
        (upd_heap (s_arr v) (set_nth (s_start v + s_len v) char) h,
         vals ++ [{| s_arr := s_arr v; s_start := s_start v; s_len := S (s_len v); s_off := s_off v |}])
      else
        let (c', off') := with_cells c (s_off v) at_ char in
        let (h', v') := alloc h c' off' in (h', vals ++ [v'])
      end
  | OWithout p at_ char =>
      match nth_error vals p with None => st | Some v =>
      let c := cells h v in
      let i := at_ - s_off v in
      if (0 <=? i) && (i <? Z.of_nat (length c)) && (nth (Z.to_nat i) c (-1) =? char) && (0 <=? char) then
        if (i =? 0) || (i =? Z.of_nat (length c) - 1) then
          (* re-slice (shares storage), then trim the holes the removal exposes *)
          let c1 := if i =? 0 then tl c else removelast c in
          let off1 := if i =? 0 then s_off v + 1 else s_off v in
          let (c2, off2) := trim_front c1 off1 in
          let c3 := trim_back c2 in
          let skip := ((if Z.eqb i 0 then 1%nat else 0%nat) + Z.to_nat (off2 - off1)%Z)%nat in
          (h, vals ++ [{| s_arr := s_arr v; s_start := (s_start v + skip)%nat; s_len := length c3; s_off := off2 |}])
        else
          let (h', v') := alloc h (set_nth (Z.to_nat i) (-1) c) (s_off v) in (h', vals ++ [v'])
      else (h, vals ++ [v])
      end
  | OOffset p n =>
      match nth_error vals p with None => st | Some v =>
      (h, vals ++ [{| s_arr := s_arr v; s_start := s_start v; s_len := s_len v; s_off := s_off v + n |}])
      end
  end.

Definition run (in_place : bool) (hist : list op) : heap * list slice :=
  fold_left (step in_place) hist ([], []).

(* all values of the final state, as denotations *)
Definition dens (st : heap * list slice) : list (Z * list Z) := map (den (fst st)) (snd st).
