(* Model of syntax/std_seq.go + std_seq_array_helper.go + std_seq_bytes_helper.go
   on dense, zero-based sequences (property C14).  Abstract sequences are lists;
   the three encodings (string, byte array, array) differ only in which Go code
   path computes the answer.  The string and bytes paths delegate to Go's
   strings/bytes packages, which are represented by the reference functions of
   this file (trusted, and exercised by the correspondence run); the array paths
   are transcriptions of the hand-written helpers. *)
From Arrai Require Import Base.Val.

Section Seq.
Context {A : Type} (eqb : A -> A -> bool).

(* ---------- reference functions (what strings.* / bytes.* compute) ---------- *)

(* s starts with sub *)
Fixpoint starts_with (sub s : list A) : bool :=
  match sub, s with
  | [], _ => true
  | _ :: _, [] => false
  | x :: sub', y :: s' => eqb x y && starts_with sub' s'
  end.

(* index of the first occurrence of sub in s (strings.Index) *)
Fixpoint index_from (i : Z) (sub s : list A) : option Z :=
  if starts_with sub s then Some i
  else match s with
       | [] => None
       | _ :: s' => index_from (i + 1) sub s'
       end.
Definition index (sub s : list A) : option Z := index_from 0 sub s.

Definition ref_contains (sub s : list A) : bool :=
  match index sub s with Some _ => true | None => false end.
Definition ref_has_prefix (p s : list A) : bool := starts_with p s.
Definition ref_has_suffix (p s : list A) : bool := starts_with (rev p) (rev s).

(* strings.Split(s, sep) for sep <> []: cut at the first occurrence, recurse on
   the rest (leftmost, non-overlapping).  fuel = S (length s) always suffices. *)
Fixpoint split_loop (fuel : nat) (sep s : list A) : list (list A) :=
  match fuel with
  | O => [s]
  | S k =>
      match index sep s with
      | Some i => firstn (Z.to_nat i) s :: split_loop k sep (skipn (Z.to_nat i + length sep) s)
      | None => [s]
      end
  end.
Definition ref_split (sep s : list A) : list (list A) :=
  match sep with
  | [] => map (fun x => [x]) s            (* Split(s, "") explodes s *)
  | _ => split_loop (S (length s)) sep s
  end.

Fixpoint ref_join (sep : list A) (parts : list (list A)) : list A :=
  match parts with
  | [] => []
  | [p] => p
  | p :: rest => p ++ sep ++ ref_join sep rest
  end.

(* strings.ReplaceAll *)
Definition ref_sub (old new s : list A) : list A :=
  match old with
  | [] => new ++ flat_map (fun x => x :: new) s
  | _ => ref_join new (ref_split old s)
  end.

Definition ref_trim_prefix (p s : list A) : list A :=
  if starts_with p s then skipn (length p) s else s.
Definition ref_trim_suffix (p s : list A) : list A :=
  if ref_has_suffix p s then firstn (length s - length p) s else s.

Fixpoint ref_repeat (n : nat) (s : list A) : list A :=
  match n with O => [] | S k => s ++ ref_repeat k s end.

(* ---------- transcriptions of the array helpers (std_seq_array_helper.go) ---------- *)

(* search(): for i := 0; i+len(sub) <= len(subject); i++ { compare window } ; -1 *)
Fixpoint window_eq (sub s : list A) : bool :=       (* inner loop: j runs over sub *)
  match sub with
  | [] => true
  | x :: sub' => match s with
                 | [] => false                        (* excluded by the loop bound *)
                 | y :: s' => if eqb y x then window_eq sub' s' else false
                 end
  end.
Fixpoint search_from (i : Z) (subject sub : list A) : Z :=
  if (length sub <=? length subject)%nat
  then if window_eq sub subject then i
       else match subject with
            | [] => -1
            | _ :: rest => search_from (i + 1) rest sub
            end
  else -1.
Definition search (subject sub : list A) : Z := search_from 0 subject sub.

Definition array_contains (sub subject : list A) : bool := (-1 <? search subject sub).

(* arrayHasPrefix: loop over the subject comparing with prefixVals[prefixOffset] *)
Fixpoint array_has_prefix_loop (prefix subject : list A) : bool :=
  match prefix with
  | [] => true
  | p :: prefix' =>
      match subject with
      | [] => true                                   (* enumerator exhausted: falls out of the loop *)
      | x :: subject' => if eqb x p then array_has_prefix_loop prefix' subject' else false
      end
  end.
Definition array_has_prefix (prefix subject : list A) : bool :=
  match prefix with
  | [] => true
  | _ => if (length subject <? length prefix)%nat then false
         else array_has_prefix_loop prefix subject
  end.

(* arrayHasSuffix (after the fix): compare suffixVals with subjectVals[start:] *)
Fixpoint all_eq (a b : list A) : bool :=
  match a, b with
  | [], _ => true
  | x :: a', y :: b' => if eqb y x then all_eq a' b' else false
  | _ :: _, [] => false
  end.
Definition array_has_suffix (suffix subject : list A) : bool :=
  match suffix with
  | [] => true
  | _ => if (length subject <? length suffix)%nat then false
         else all_eq suffix (skipn (length subject - length suffix) subject)
  end.

(* arraySplit: repeated search + reslice; fuel = length of the subject + 1 *)
Fixpoint array_split_loop (fuel : nat) (delim subject : list A) : list (list A) :=
  match fuel with
  | O => [subject]
  | S k =>
      let i := search subject delim in
      if 0 <=? i
      then firstn (Z.to_nat i) subject
           :: array_split_loop k delim (skipn (Z.to_nat i + length delim) subject)
      else [subject]
  end.
Definition array_split (delim subject : list A) : list (list A) :=
  match delim with
  | [] => map (fun x => [x]) subject
  | _ => array_split_loop (S (length subject)) delim subject
  end.

(* arrayJoin *)
Fixpoint array_join_loop (first : bool) (joiner : list A) (parts : list (list A)) : list A :=
  match parts with
  | [] => []
  | p :: rest => (if first then [] else joiner) ++ p ++ array_join_loop false joiner rest
  end.
Definition array_join (joiner : list A) (parts : list (list A)) : list A :=
  array_join_loop true joiner parts.

(* arraySub *)
Fixpoint array_sub_loop (fuel : nat) (old new subject : list A) : list A :=
  match fuel with
  | O => subject
  | S k =>
      let i := search subject old in
      if 0 <=? i
      then firstn (Z.to_nat i) subject ++ new
           ++ array_sub_loop k old new (skipn (Z.to_nat i + length old) subject)
      else subject
  end.
Definition array_sub (old new subject : list A) : list A :=
  match old with
  | [] => flat_map (fun e => new ++ [e]) subject ++ new
  | _ => array_sub_loop (S (length subject)) old new subject
  end.

(* arrayTrimPrefix / arrayTrimSuffix: has_prefix + set difference + shift,
   modelled at list level (the Difference/Shift path itself is part of the
   representation model used by C01/C05). *)
Definition array_trim_prefix (prefix subject : list A) : list A :=
  match prefix, subject with
  | _ :: _, _ :: _ => if array_has_prefix prefix subject then skipn (length prefix) subject else subject
  | _, _ => subject
  end.
Definition array_trim_suffix (suffix subject : list A) : list A :=
  match suffix, subject with
  | _ :: _, _ :: _ => if array_has_suffix suffix subject
                      then firstn (length subject - length suffix) subject else subject
  | _, _ => subject
  end.

Fixpoint array_repeat (n : nat) (s : list A) : list A :=
  match n with O => [] | S k => s ++ array_repeat k s end.

End Seq.

(* ---------- the //seq dispatch (std_seq.go), per encoding ---------- *)

Inductive enc := EStr | EBytes | EArr.
Definition enc_eqb (a b : enc) : bool :=
  match a, b with EStr, EStr | EBytes, EBytes | EArr, EArr => true | _, _ => false end.

Inductive sres :=
| RBool (b : bool)
| RSeq (e : enc) (l : list Z)
| RSeqs (e : enc) (ls : list (list Z))    (* an array of sequences *)
| RErr.

(* An empty sequence is the empty set in every encoding; stdSeq* switch on the
   Go type of the subject, so the empty subject takes the EmptySet branch. *)
Definition is_nil (l : list Z) : bool := match l with [] => true | _ => false end.

Definition m_contains (e : enc) (sub subject : list Z) : sres :=
  if is_nil subject then RBool (is_nil sub)
  else match e with
       | EStr | EBytes => RBool (ref_contains Z.eqb sub subject)
       | EArr => RBool (array_contains Z.eqb sub subject)
       end.

Definition m_has_prefix (e : enc) (p subject : list Z) : sres :=
  if is_nil subject then RBool (is_nil p)
  else match e with
       | EStr | EBytes => RBool (ref_has_prefix Z.eqb p subject)
       | EArr => RBool (array_has_prefix Z.eqb p subject)
       end.

Definition m_has_suffix (e : enc) (p subject : list Z) : sres :=
  if is_nil subject then RBool (is_nil p)
  else match e with
       | EStr | EBytes => RBool (ref_has_suffix Z.eqb p subject)
       | EArr => RBool (array_has_suffix Z.eqb p subject)
       end.

Definition m_split (e : enc) (delim subject : list Z) : sres :=
  if is_nil subject then
    (* GenericSet/EmptySet subject: String delimiter -> [subject]; Array/Bytes -> [[]]; empty -> subject *)
    if is_nil delim then RSeqs e [] else RSeqs e [[]]
  else match e with
       | EStr | EBytes => RSeqs e (ref_split Z.eqb delim subject)
       | EArr => RSeqs e (array_split Z.eqb delim subject)
       end.

(* join on an array of sequences (strings, byte arrays or arrays; join with a byte array as the
   SUBJECT intersperses single bytes and is a different operation, see DESIGN) *)
Definition m_join (e : enc) (joiner : list Z) (parts : list (list Z)) : sres :=
  match parts with
  | [] => RSeq e []
  | _ => match e with
         | EStr | EBytes => RSeq e (ref_join joiner parts)      (* strings.Join / bytes.Join *)
         | EArr => RSeq e (array_join joiner parts)
         end
  end.

Definition m_sub (e : enc) (old new subject : list Z) : sres :=
  if is_nil subject then (if is_nil old then RSeq e new else RSeq e [])
  else match e with
       | EStr | EBytes => RSeq e (ref_sub Z.eqb old new subject)
       | EArr => RSeq e (array_sub Z.eqb old new subject)
       end.

Definition m_trim_prefix (e : enc) (p subject : list Z) : sres :=
  if is_nil subject then RSeq e []
  else match e with
       | EStr | EBytes => RSeq e (ref_trim_prefix Z.eqb p subject)
       | EArr => RSeq e (array_trim_prefix Z.eqb p subject)
       end.

Definition m_trim_suffix (e : enc) (p subject : list Z) : sres :=
  if is_nil subject then RSeq e []
  else match e with
       | EStr | EBytes => RSeq e (ref_trim_suffix Z.eqb p subject)
       | EArr => RSeq e (array_trim_suffix Z.eqb p subject)
       end.

Definition m_repeat (e : enc) (n : Z) (subject : list Z) : sres :=
  if is_nil subject then RSeq e []
  else match e with
       | EStr | EBytes => RSeq e (ref_repeat (Z.to_nat n) subject)      (* strings.Repeat / bytes.Repeat *)
       | EArr => RSeq e (array_repeat (Z.to_nat n) subject)
       end.

Definition m_concat (e : enc) (parts : list (list Z)) : sres :=
  RSeq e (concat parts).

(* one //seq call *)
Inductive scall :=
| CContains (sub subject : list Z)
| CHasPrefix (p subject : list Z)
| CHasSuffix (p subject : list Z)
| CSplit (delim subject : list Z)
| CJoin (joiner : list Z) (parts : list (list Z))
| CSub (old new subject : list Z)
| CTrimPrefix (p subject : list Z)
| CTrimSuffix (p subject : list Z)
| CRepeat (n : Z) (subject : list Z)
| CConcat (parts : list (list Z)).

Definition run_call (e : enc) (c : scall) : sres :=
  match c with
  | CContains a b => m_contains e a b
  | CHasPrefix a b => m_has_prefix e a b
  | CHasSuffix a b => m_has_suffix e a b
  | CSplit a b => m_split e a b
  | CJoin a b => m_join e a b
  | CSub a b c => m_sub e a b c
  | CTrimPrefix a b => m_trim_prefix e a b
  | CTrimSuffix a b => m_trim_suffix e a b
  | CRepeat n s => m_repeat e n s
  | CConcat ps => m_concat e ps
  end.

(* The answer on abstract sequences, with no reference to encodings: what the
   property calls "the ordinary sequence operation". *)
Definition spec_call (c : scall) : sres :=
  let e := EStr in
  match c with
  | CContains a b => RBool (ref_contains Z.eqb a b)
  | CHasPrefix a b => RBool (ref_has_prefix Z.eqb a b)
  | CHasSuffix a b => RBool (ref_has_suffix Z.eqb a b)
  | CSplit a b => RSeqs e (match b with [] => (match a with [] => [] | _ => [[]] end) | _ => ref_split Z.eqb a b end)
  | CJoin a b => RSeq e (ref_join a b)
  | CSub a b c => RSeq e (ref_sub Z.eqb a b c)
  | CTrimPrefix a b => RSeq e (ref_trim_prefix Z.eqb a b)
  | CTrimSuffix a b => RSeq e (ref_trim_suffix Z.eqb a b)
  | CRepeat n s => RSeq e (ref_repeat (Z.to_nat n) s)
  | CConcat ps => RSeq e (concat ps)
  end.

(* results compared up to encoding *)
Definition forget (r : sres) : sres :=
  match r with
  | RSeq _ l => RSeq EStr l
  | RSeqs _ ls => RSeqs EStr ls
  | r => r
  end.
