(* Model of //encoding.csv.encode / decode (syntax/std_encoding_csv.go) with the
   default configuration (comma ',', no CRLF, no comment, no lazy quotes, no
   trimming, FieldsPerRecord 0) over Go's encoding/csv Writer.Write and
   Reader.readRecord/readLine, transcribed as functions on byte lists
   (property C13).  A matrix is a list of records, a record a list of fields,
   a field a list of bytes (the UTF-8 text of the arr.ai string).

   Loops of the reader run on explicit fuel (more than the input length is
   always enough); running out is OutOfModel. *)
From Arrai Require Import Base.Val Sys.Outcome.

Definition NL : Z := 10.
Definition CR : Z := 13.
Definition QUOTE : Z := 34.
Definition COMMA : Z := 44.

Definition field := list Z.
Definition record := list field.

(* ---------- Writer ---------- *)
Definition is_space_byte (c : Z) : bool :=
  (c =? 9) || (c =? 10) || (c =? 11) || (c =? 12) || (c =? 13) || (c =? 32).

Definition special (c : Z) : bool := (c =? NL) || (c =? CR) || (c =? QUOTE) || (c =? COMMA).

Fixpoint zs_eqb (a b : list Z) : bool :=
  match a, b with
  | [], [] => true
  | x :: a', y :: b' => (x =? y) && zs_eqb a' b'
  | _, _ => false
  end.

(* unicode.IsSpace of the first rune, read off the UTF-8 bytes: the ASCII white
   space and U+0085, U+00A0, U+1680, U+2000..U+200A, U+2028, U+2029, U+202F,
   U+205F, U+3000 (a malformed first byte decodes to U+FFFD, not a space) *)
Definition first_rune_is_space (f : field) : bool :=
  match f with
  | c :: rest =>
      is_space_byte c ||
      match c, rest with
      | 194, d :: _ => (d =? 133) || (d =? 160)
      | 225, 154 :: 128 :: _ => true
      | 226, 128 :: d :: _ => ((128 <=? d) && (d <=? 138)) || (d =? 168) || (d =? 169) || (d =? 175)
      | 226, 129 :: 159 :: _ => true
      | 227, 128 :: 128 :: _ => true
      | _, _ => false
      end
  | [] => false
  end.

(* Writer.fieldNeedsQuotes *)
Definition needs_quotes (f : field) : bool :=
  match f with
  | [] => false
  | _ :: _ => zs_eqb f [92; 46] || existsb special f || first_rune_is_space f
  end.

(* inside quotes: 'QUOTE' doubled, \r and \n verbatim (UseCRLF off) *)
Fixpoint escape (f : field) : list Z :=
  match f with
  | [] => []
  | c :: f' => if c =? QUOTE then QUOTE :: QUOTE :: escape f' else c :: escape f'
  end.

Definition write_field (f : field) : list Z :=
  if needs_quotes f then QUOTE :: escape f ++ [QUOTE] else f.

Fixpoint write_fields (r : record) : list Z :=
  match r with
  | [] => []
  | [f] => write_field f
  | f :: r' => write_field f ++ COMMA :: write_fields r'
  end.

Definition write_record (r : record) : list Z := write_fields r ++ [NL].

(* Writer.WriteAll *)
Definition csv_encode (m : list record) : list Z := concat (map write_record m).

(* ---------- Reader ---------- *)
(* bufio ReadSlice('\n'): the line including its newline, the rest, and whether a newline was found *)
Fixpoint take_line (inp : list Z) : list Z * list Z * bool :=
  match inp with
  | [] => ([], [], false)
  | c :: inp' =>
      if c =? NL then ([c], inp', true)
      else let '(l, r, f) := take_line inp' in (c :: l, r, f)
  end.

Definition norm_crlf (line : list Z) : list Z :=
  match rev line with
  | 10 :: 13 :: r => rev (10 :: r)
  | _ => line
  end.
Definition drop_trailing_cr (line : list Z) : list Z :=
  match rev line with
  | 13 :: r => rev r
  | _ => line
  end.

(* Reader.readLine: (line, rest, err == io.EOF) *)
Definition read_line (inp : list Z) : list Z * list Z * bool :=
  let '(line, rest, found) := take_line inp in
  if found then (norm_crlf line, rest, false)
  else match line with
       | [] => ([], [], true)
       | _ => (norm_crlf (drop_trailing_cr line), [], false)
       end.

(* split at the first occurrence of c: (before, Some after) or (all, None) *)
Fixpoint split_at (c : Z) (l : list Z) : list Z * option (list Z) :=
  match l with
  | [] => ([], None)
  | x :: l' =>
      if x =? c then ([], Some l')
      else let '(pre, post) := split_at c l' in (x :: pre, post)
  end.

Definition strip_nl (l : list Z) : list Z :=
  match rev l with
  | 10 :: r => rev r
  | _ => l
  end.
Definition has_quote (l : list Z) : bool := existsb (fun c => c =? QUOTE) l.

(* the parseField loop of readRecord; inq = Some buf while inside a quoted field *)
Fixpoint parse (fuel : nat) (inq : option (list Z)) (line rest : list Z) (acc : record)
  : res (record * list Z) :=
  match fuel with
  | O => OutOfModel
  | S f =>
      match inq with
      | None =>
          let unquoted :=
            let '(fld, after) := split_at COMMA line in
            match after with
            | Some line' => if has_quote fld then Err else parse f None line' rest (acc ++ [fld])
            | None => let fld' := strip_nl fld in
                      if has_quote fld' then Err else Ok (acc ++ [fld'], rest)
            end in
          match line with
          | c :: line' => if c =? QUOTE then parse f (Some []) line' rest acc else unquoted
          | [] => unquoted
          end
      | Some buf =>
          let '(pre, after) := split_at QUOTE line in
          match after with
          | Some l' =>
              let buf' := buf ++ pre in
              match l' with
              | [] => Ok (acc ++ [buf'], rest)                              (* 'QUOTE' then end of input *)
              | c :: l'' =>
                  if c =? QUOTE then parse f (Some (buf' ++ [QUOTE])) l'' rest acc
                  else if c =? COMMA then parse f None l'' rest (acc ++ [buf'])
                  else if (c =? NL) && match l'' with [] => true | _ => false end
                       then Ok (acc ++ [buf'], rest)
                       else Err                                             (* ErrQuote *)
              end
          | None =>
              match line with
              | [] => Err                                                   (* abrupt end inside quotes *)
              | _ => let '(line2, rest2, _) := read_line rest in
                     parse f (Some (buf ++ line)) line2 rest2 acc
              end
          end
      end
  end.

(* skip empty lines, then parse one record; None = io.EOF *)
Fixpoint read_record (fuel : nat) (inp : list Z) : res (option (record * list Z)) :=
  match fuel with
  | O => OutOfModel
  | S f =>
      let '(line, rest, eof) := read_line inp in
      if eof then Ok None
      else match line with
           | [] | [10] => read_record f rest
           | _ => rmap Some (parse (S (S (length inp))) None line rest [])
           end
  end.

(* the Read loop of csvDecodeFnBody with the FieldsPerRecord = 0 rule:
   the first record fixes the number of fields of all the others *)
Fixpoint read_all (fuel : nat) (width : option nat) (inp : list Z) : res (list record) :=
  match fuel with
  | O => OutOfModel
  | S f =>
      bind (read_record (S (length inp)) inp) (fun o =>
        match o with
        | None => Ok []
        | Some (r, rest) =>
            match width with
            | Some w => if Nat.eqb (length r) w then rmap (cons r) (read_all f width rest) else Err
            | None => rmap (cons r) (read_all f (Some (length r)) rest)
            end
        end)
  end.

Definition csv_decode (inp : list Z) : res (list record) := read_all (S (length inp)) None inp.

(* csvDecodeFnBody's own type switch accepts rel.String and rel.Bytes only: the
   empty string / empty byte array is the empty set and is rejected (flag on =
   today's code; off = the repaired behaviour: no records).  csv.encode([]) is
   exactly that empty byte array. *)
Definition csv_decode_arg (q_csv_empty_input_rejected : bool) (inp : list Z) : res (list record) :=
  match inp with
  | [] => if q_csv_empty_input_rejected then Err else Ok []
  | _ => csv_decode inp
  end.

(* ---------- the guard of the round trip ---------- *)
Fixpoint has_crlf (f : field) : bool :=
  match f with
  | 13 :: ((10 :: _) as f') => true
  | _ :: f' => has_crlf f'
  | [] => false
  end.

Definition csv_ok (m : list record) : bool :=
  match m with
  | [] => true
  | r0 :: _ =>
      let w := length r0 in
      negb (Nat.eqb w 0) &&
      forallb (fun r => Nat.eqb (length r) w) m &&
      forallb (fun r => forallb (fun f => negb (has_crlf f)) r) m &&
      (negb (Nat.eqb w 1) || forallb (fun r => match r with [[]] => false | _ => true end) m)
  end.
