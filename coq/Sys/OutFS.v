(* Sys/OutFS.v -- executable model of pkg/arrai/out.go (`--out=dir:PATH`,
   `--out=file:PATH`) over an abstract POSIX-like file system with a fault
   oracle.  Faithful transcription of outputValue (two passes), outputTupleDir,
   configureOutput, applyIfExistsConfig, applyFilesFields, outputFile.

   Outside the model (trusted, exercised by the correspondence run): the afero
   file system itself (here: lookup table + Stat/Mkdir/Create/Write/Sync/Close/
   RemoveAll with ENOENT/ENOTDIR/EEXIST/EISDIR behaviour, no symlinks, no
   permissions), the arr.ai value layer (abstracted to [val] by the harness's
   [descOf], dictionary enumeration order = list order). *)
From Coq Require Import List ZArith Bool Lia.
Import ListNotations.
Open Scope Z_scope.

Definition bytes := list Z.
Definition name := list Z.
(* A path is the list of its components, INNERMOST FIRST: /w/out/a = [a; out; w].
   The root is []. The child c of p is c :: p. *)
Definition path := list name.

Inductive node := File (b : bytes) | Dir.

(* association list, first binding wins; the root always exists and is a directory *)
Definition fsmap := list (path * node).

Fixpoint zs_eqb (a b : list Z) : bool :=
  match a, b with
  | [], [] => true
  | x :: a', y :: b' => Z.eqb x y && zs_eqb a' b'
  | _, _ => false
  end.
Fixpoint path_eqb (a b : path) : bool :=
  match a, b with
  | [], [] => true
  | x :: a', y :: b' => zs_eqb x y && path_eqb a' b'
  | _, _ => false
  end.

Fixpoint assoc (p : path) (m : fsmap) : option node :=
  match m with
  | [] => None
  | (q, n) :: r => if path_eqb p q then Some n else assoc p r
  end.
Definition lookup (p : path) (m : fsmap) : option node :=
  match p with [] => Some Dir | _ => assoc p m end.

(* [under base p]: p is base or lies below it (base is a suffix of p) *)
Fixpoint underb (base p : path) : bool :=
  path_eqb base p || match p with [] => false | _ :: par => underb base par end.

Definition set_node (p : path) (n : node) (m : fsmap) : fsmap :=
  (p, n) :: filter (fun e => negb (path_eqb p (fst e))) m.
Definition remove_subtree (p : path) (m : fsmap) : fsmap :=
  filter (fun e => negb (underb p (fst e))) m.

Inductive statres := SNode (n : node) | SNoEnt | SNotDir.

(* POSIX path walk *)
Fixpoint stat (m : fsmap) (p : path) : statres :=
  match p with
  | [] => SNode Dir
  | _ :: par =>
      match stat m par with
      | SNode Dir => match lookup p m with Some n => SNode n | None => SNoEnt end
      | SNode (File _) => SNotDir
      | SNoEnt => SNoEnt
      | SNotDir => SNotDir
      end
  end.

(* ---------- state, faults ---------- *)
Record st := { fs : fsmap; nops : nat; fault : option nat; fired : bool }.

Inductive res := Ok (s : st) | Err (s : st) | Panic (s : st).

Definition bind (r : res) (f : st -> res) : res :=
  match r with Ok s => f s | e => e end.

(* every file system operation consumes one tick; the tick whose index equals
   [fault] fails with an injected I/O error *)
Definition tick (s : st) : bool * st :=
  let hit := match fault s with Some j => Nat.eqb j (nops s) | None => false end in
  (hit, {| fs := fs s; nops := S (nops s); fault := fault s; fired := fired s || hit |}).

Definition with_fs (s : st) (m : fsmap) : st :=
  {| fs := m; nops := nops s; fault := fault s; fired := fired s |}.

Inductive statres' := SR (r : statres) | SFault.

Definition op_stat (p : path) (s : st) : statres' * st :=
  let (hit, s1) := tick s in
  if hit then (SFault, s1) else (SR (stat (fs s1) p), s1).

Definition op_mkdir (p : path) (s : st) : res :=
  let (hit, s1) := tick s in
  if hit then Err s1 else
  match p with
  | [] => Err s1
  | _ :: par =>
      match stat (fs s1) par with
      | SNode Dir => match lookup p (fs s1) with
                     | Some _ => Err s1                      (* EEXIST *)
                     | None => Ok (with_fs s1 (set_node p Dir (fs s1)))
                     end
      | _ => Err s1                                          (* ENOENT / ENOTDIR *)
      end
  end.

Definition op_removeall (p : path) (s : st) : res :=
  let (hit, s1) := tick s in
  if hit then Err s1 else
  match stat (fs s1) p with
  | SNode _ => Ok (with_fs s1 (remove_subtree p (fs s1)))
  | SNoEnt => Ok s1
  | SNotDir => Err s1
  end.

(* ---------- quirks: one flag per defective call site; true = what the Go code does today ---------- *)
Record quirks := {
  q_dry_mkdir : bool;          (* outputTupleDir: the dry run calls fs.Mkdir *)
  q_skip_unsupported : bool;   (* outputTupleDir: switch without default, numbers/functions skipped *)
  q_name_escapes : bool;       (* outputTupleDir: path.Join(dir, key) with separators / . / .. *)
  q_replace_unvalidated : bool;(* applyIfExistsConfig: replace returns from the dry run before validating the payload *)
  q_multi_panic : bool;        (* DictEnumerator.Current on a multi-valued key *)
  q_stat_err_ignored : bool;   (* outputTupleDir: Stat errors other than not-exist are dropped *)
  q_close_err_ignored : bool;  (* outputFile: deferred Close error dropped *)
  q_kind_unchecked : bool      (* file where a directory is needed (or vice versa) is not detected by the dry run *)
}.
Definition quirks_on : quirks := Build_quirks true true true true true true true true.
Definition quirks_off : quirks := Build_quirks false false false false false false false false.

(* ---------- the description ---------- *)
Inductive key := KStr (b : bytes) | KOther.

Inductive val :=
| VStr (b : bytes)        (* rel.String (non-empty) *)
| VBytes (b : bytes)      (* rel.Bytes *)
| VEmpty                  (* the empty set: "" = {} = <<>> = [] *)
| VSetOther               (* any other non-empty set (array, relation, ...) *)
| VOther                  (* number, function, ... : not a set, not a tuple *)
| VMulti                  (* value slot of a multi-valued dictionary key *)
| VDict (es : list (key * val))
| VTup (ifx dir file : option val).   (* tuple: its ifExists / dir / file attributes, others are ignored *)

Inductive word := WIgnore | WRemove | WReplace | WMerge | WFail.
Definition w_ignore : bytes := [105;103;110;111;114;101].
Definition w_remove : bytes := [114;101;109;111;118;101].
Definition w_replace : bytes := [114;101;112;108;97;99;101].
Definition w_merge : bytes := [109;101;114;103;101].
Definition w_fail : bytes := [102;97;105;108].
Definition word_of (b : bytes) : option word :=
  if zs_eqb b w_ignore then Some WIgnore else
  if zs_eqb b w_remove then Some WRemove else
  if zs_eqb b w_replace then Some WReplace else
  if zs_eqb b w_merge then Some WMerge else
  if zs_eqb b w_fail then Some WFail else None.

(* ---------- path.Join(dir, key) ---------- *)
Fixpoint segs (b : bytes) (cur : list Z) : list name :=
  match b with
  | [] => [rev cur]
  | x :: r => if Z.eqb x 47 then rev cur :: segs r [] else segs r (x :: cur)
  end.
Definition dot : name := [46].
Definition dotdot : name := [46;46].
Definition step (p : path) (sg : name) : path :=
  if zs_eqb sg [] || zs_eqb sg dot then p
  else if zs_eqb sg dotdot then tl p
  else sg :: p.
Definition simple_name (b : bytes) : bool :=
  negb (existsb (Z.eqb 47) b) && negb (zs_eqb b []) && negb (zs_eqb b dot) && negb (zs_eqb b dotdot).
Definition join (q : quirks) (p : path) (b : bytes) : option path :=
  if simple_name b then Some (b :: p)
  else if q_name_escapes q then Some (fold_left step (segs b []) p) else None.

Definition isSome {A} (o : option A) : bool := match o with Some _ => true | None => false end.

(* validation of the config tuple that does not depend on the target: merge must not have `file`;
   (repaired only) replace must have exactly one of dir/file -- today this is checked only when the
   target exists, which for a fresh target happens by accident because the dry run created it *)
Definition precheck (q : quirks) (w : word) (d f : option val) : bool :=
  match w with
  | WMerge => isSome f
  | WReplace => negb (q_dry_mkdir q) && Bool.eqb (isSome d) (isSome f)
  | _ => false
  end.
Definition is_multi (v : val) : bool := match v with VMulti => true | _ => false end.

Section Out.
Variable q : quirks.

(* fs.Create; f.Write; f.Sync; deferred f.Close *)
Definition write_file (p : path) (b : bytes) (s : st) : res :=
  let (h1, s1) := tick s in
  if h1 then Err s1 else
  match p with
  | [] => Err s1
  | _ :: par =>
    match stat (fs s1) par with
    | SNode Dir =>
      match lookup p (fs s1) with
      | Some Dir => Err s1                                   (* EISDIR *)
      | _ =>
        let s1' := with_fs s1 (set_node p (File []) (fs s1)) in
        let (h2, s2) := tick s1' in
        if h2 then (let (_, s3) := tick s2 in Err s3) else    (* Write failed; Close still runs *)
        let s2' := with_fs s2 (set_node p (File b) (fs s2)) in
        let (h3, s3) := tick s2' in
        if h3 then (let (_, s4) := tick s3 in Err s4) else    (* Sync failed; Close still runs *)
        let (h4, s4) := tick s3 in
        if h4 && negb (q_close_err_ignored q) then Err s4 else Ok s4
      end
    | _ => Err s1                                            (* ENOENT / ENOTDIR *)
    end
  end.

(* outputFile *)
Definition out_file (dry : bool) (v : val) (p : path) (s : st) : res :=
  let go (b : bytes) :=
    let chk := if q_kind_unchecked q then Ok s else
      let (r, s1) := op_stat p s in
      match r with
      | SFault => Err s1
      | SR (SNode Dir) => Err s1
      | SR SNotDir => Err s1
      | SR _ => Ok s1
      end in
    bind chk (fun s1 => if dry then Ok s1 else write_file p b s1) in
  match v with
  | VBytes b => go b
  | VStr b => go b
  | VEmpty => go []
  | _ => Err s
  end.

(* head of outputTupleDir: Stat, Mkdir when it does not exist *)
Definition do_dir (dry : bool) (p : path) (s : st) : res :=
  let (r, s1) := op_stat p s in
  match r with
  | SFault => if q_stat_err_ignored q then Ok s1 else Err s1
  | SR SNotDir => if q_stat_err_ignored q then Ok s1 else Err s1
  | SR SNoEnt => if dry && negb (q_dry_mkdir q) then Ok s1 else op_mkdir p s1
  | SR (SNode Dir) => Ok s1
  | SR (SNode (File _)) => if q_kind_unchecked q then Ok s1 else Err s1
  end.

Inductive role := REntry | RDir | RFile.

Fixpoint out (r : role) (dry : bool) (v : val) (p : path) (s : st) {struct v} : res :=
  let loop := fix loop (es : list (key * val)) (s : st) {struct es} : res :=
    match es with
    | [] => Ok s
    | (k, v') :: rest =>
        if is_multi v' then (if q_multi_panic q then Panic s else Err s) else
        match k with
        | KOther => Err s
        | KStr b =>
            match join q p b with
            | None => Err s
            | Some p' => bind (out REntry dry v' p' s) (fun s' => loop rest s')
            end
        end
    end in
  let dirv (v : val) (s : st) : res :=          (* outputTupleDir *)
    match v with
    | VDict es => bind (do_dir dry p s) (fun s1 => loop es s1)
    | VEmpty => do_dir dry p s
    | _ => Err s                                 (* getDirField *)
    end in
  match r with
  | RFile => out_file dry v p s
  | RDir => dirv v s
  | REntry =>
    match v with
    | VDict _ => dirv v s
    | VStr _ | VBytes _ | VEmpty => out_file dry v p s
    | VSetOther => Err s
    | VOther => if q_skip_unsupported q then Ok s else Err s
    | VMulti => if q_multi_panic q then Panic s else Err s
    | VTup ifx d f =>
      (* applyFilesFields *)
      let files (dry : bool) (s : st) : res :=
        match d with
        | Some dv => out RDir dry dv p s
        | None => match f with
                  | Some fv => out RFile dry fv p s
                  | None => Err s
                  end
        end in
      match ifx with
      | None => files dry s                      (* configureOutput without config *)
      | Some conf =>                             (* applyIfExistsConfig *)
        match conf with
        | VStr wb =>
          match word_of wb with
          | None => Err s
          | Some w =>
            if precheck q w d f then Err s else
            let (sr, s1) := op_stat p s in
            let existing (s1 : st) : res :=
              match w with
              | WRemove => if isSome d || isSome f then Err s1
                           else if dry then Ok s1 else op_removeall p s1
              | WReplace =>
                  if Bool.eqb (isSome d) (isSome f) then Err s1
                  else if dry then
                    (if q_replace_unvalidated q then Ok s1
                     else (* repaired: validate the payload against the tree as it will be after RemoveAll *)
                       match files true {| fs := remove_subtree p (fs s1); nops := 0; fault := None; fired := false |} with
                       | Ok _ => Ok s1
                       | _ => Err s1
                       end)
                  else bind (op_removeall p s1) (fun s2 => files false s2)
              | WMerge => match d with
                          | Some dv => out RDir dry dv p s1
                          | None => Err s1
                          end
              | WIgnore => Ok s1
              | WFail => Err s1
              end in
            match sr with
            | SFault => Err s1
            | SR SNotDir => Err s1
            | SR SNoEnt => match w with WRemove => existing s1 | _ => files dry s1 end
            | SR (SNode _) => existing s1
            end
          end
        | _ => Err s
        end
      end
    end
  end.

(* outputValue, mode dir: rel.AsDict, dry pass, real pass *)
Definition out_dir_mode (v : val) (p : path) (s : st) : res :=
  match v with
  | VDict _ | VEmpty => bind (out RDir true v p s) (fun s1 => out RDir false v p s1)
  | _ => Err s
  end.

(* outputValue, mode file *)
Definition out_file_mode (v : val) (p : path) (s : st) : res := out RFile false v p s.

End Out.

Definition init (m : fsmap) (k : option nat) : st := {| fs := m; nops := 0; fault := k; fired := false |}.
Definition res_st (r : res) : st := match r with Ok s | Err s | Panic s => s end.
