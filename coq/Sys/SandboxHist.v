(* C18 — histories of evaluators: several sandboxes created and used in one run.

   What is transcribed (Go file : function):
     syntax/std.go          : `@internal.eval.eval` native (SafeStdScopeTuple) — every call parses the
                              config it is handed (parseEvalConfig) and calls contextualEval
     syntax/std_eval.go     : contextualEval — builds the sandbox scope from THAT config and evaluates;
                              nothing is kept between two calls                                  [hstep no_memo]
     syntax/stdlib/stdlib-safe.arrai : evaluator = \config (eval: \expr internal.eval.eval(config, expr)):
                              the only thing an evaluator remembers is its own config             [VEvalWith cfg]

   A history is a list of uses (function value, source value); the function is what `X.eval`
   evaluates to for one of the evaluators of the run (VEvalWith cfg, or VEvalValue).
   `hist_run keq m h` runs them in order through a machine with ONE remembered (config, scope)
   pair, consulted with the key comparison keq.  The Go code today is keq = no_memo (never
   equal: the scope is rebuilt on every call).  The machine exists to make the obligation of
   any reuse between evaluator calls explicit: the key comparison must determine the scope
   (key_sound).  `closure_blind_equal` is value equality as rel.Closure.Equal computes it
   (function body only, captured scope ignored): it is NOT a sound key. *)
From Coq Require Import List String Bool Arith.
From Arrai Require Import Sys.Sandbox.
Import ListNotations.
Open Scope string_scope.
Open Scope list_scope.

Record use := { u_fn : val; u_src : val }.

Definition memo := option (val * val).      (* (config it was built for, scope) *)

Section Hist.
Variable q : quirks.
Variable w : world.
Variable f : nat.                           (* fuel of the evaluation inside the sandbox *)

(* contextualEval after the scope is built: the type switch on the source, then EvalWithScope *)
Definition use_in_env (env va : val) : res * list eff :=
  match va with
  | VSrc r s =>
      match src_arm r with
      | Some _ => run q w f (vget pkg env) env s
      | None => (Err, [])
      end
  | _ => (Err, [])
  end.

(* parseEvalConfig + the scope-building loop of contextualEval *)
Definition scope_of (cfg : val) : option val :=
  match parse_cfg cfg with
  | Some (l, sc) => Some (ctx_env w l sc)
  | None => None
  end.

(* one use on its own: nothing but the function value and the source *)
Definition use_alone (u : use) : res * list eff := apply q w (S f) (u_fn u) (u_src u).

Definition memo_lookup (keq : val -> val -> bool) (m : memo) (cfg : val) : option val :=
  match m with
  | Some (k, env) => if keq k cfg then Some env else None
  | None => None
  end.

Definition hstep (keq : val -> val -> bool) (m : memo) (u : use) : (res * list eff) * memo :=
  match u_fn u with
  | VEvalWith cfg =>
      match memo_lookup keq m cfg with
      | Some env => (use_in_env env (u_src u), m)
      | None =>
          match scope_of cfg with
          | Some env => (use_in_env env (u_src u), Some (cfg, env))
          | None => ((Err, []), m)
          end
      end
  | _ => (use_alone u, m)
  end.

Fixpoint hist_run (keq : val -> val -> bool) (m : memo) (h : list use) : list (res * list eff) :=
  match h with
  | [] => []
  | u :: r => let (o, m') := hstep keq m u in o :: hist_run keq m' r
  end.

(* what a key comparison owes: equal keys build the same scope *)
Definition key_sound (keq : val -> val -> bool) : Prop :=
  forall c1 c2, keq c1 c2 = true -> scope_of c1 = scope_of c2.

Definition memo_ok (m : memo) : Prop :=
  match m with Some (k, env) => scope_of k = Some env | None => True end.

End Hist.

(* syntax/std_eval.go today: no state between calls *)
Definition no_memo : val -> val -> bool := fun _ _ => false.

(* ---------- value equality as the Go Equal methods compute it on configs ---------- *)
Definition rep_eqb (a b : rep) : bool :=
  match a, b with
  | RString, RString | RBytes, RBytes | ROffsetString, ROffsetString
  | RCharArray, RCharArray | REmptyString, REmptyString | REmptyBytes, REmptyBytes => true
  | _, _ => false
  end.

Definition target_eqb (a b : target) : bool :=
  match a, b with
  | TLocal x, TLocal y => String.eqb x y
  | TRemote, TRemote => true
  | _, _ => false
  end.

Fixpoint expr_eqb (a b : expr) : bool :=
  match a, b with
  | EData, EData | EPkg, EPkg | ETupNil, ETupNil => true
  | EVar x, EVar y => String.eqb x y
  | EDot e1 x, EDot e2 y => expr_eqb e1 e2 && String.eqb x y
  | ETupCons x e1 r1, ETupCons y e2 r2 => String.eqb x y && expr_eqb e1 e2 && expr_eqb r1 r2
  | EFn x e1, EFn y e2 => String.eqb x y && expr_eqb e1 e2
  | EApp f1 a1, EApp f2 a2 => expr_eqb f1 f2 && expr_eqb a1 a2
  | ELet x e1 b1, ELet y e2 b2 => String.eqb x y && expr_eqb e1 e2 && expr_eqb b1 b2
  | EQuote r1 e1, EQuote r2 e2 => rep_eqb r1 r2 && expr_eqb e1 e2
  | EImport t1, EImport t2 => target_eqb t1 t2
  | EMacro e1, EMacro e2 | EImported e1, EImported e2 => expr_eqb e1 e2
  | EMacroed m1 e1, EMacroed m2 e2 => Bool.eqb m1 m2 && expr_eqb e1 e2
  | _, _ => false
  end.

(* rel/value_set_closure.go : Closure.Equal = c.f.EqualFunction(d.f): parameter and body, the
   captured scope is not looked at.  Tuples attribute by attribute (the generated configs list
   their attributes in one order); library functions by class and arity (the model keeps no
   identity for them: coarser than Go's pointer comparison, used for the witness only). *)
Fixpoint closure_blind_equal (a b : val) : bool :=
  match a, b with
  | VData, VData | VRes, VRes | VEvalValue, VEvalValue | VEvaluator, VEvaluator | VTupNil, VTupNil => true
  | VSrc r1 e1, VSrc r2 e2 => rep_eqb r1 r2 && expr_eqb e1 e2
  | VPlain c1 n1, VPlain c2 n2 => cls_eqb c1 c2 && Nat.eqb n1 n2
  | VEvalWith c1, VEvalWith c2 => closure_blind_equal c1 c2
  | VTupCons x v1 r1, VTupCons y v2 r2 => String.eqb x y && closure_blind_equal v1 v2 && closure_blind_equal r1 r2
  | VClo _ x b1, VClo _ y b2 => String.eqb x y && expr_eqb b1 b2
  | _, _ => false
  end.

(* ---------- the evaluator-factory witness (the shape the history stream enumerates) ----------
     let mk = \r //eval.evaluator((scope: (read: \p r(p))));
     A = mk(\u (capA: 'data.txt'))      B = mk(\u (denied: 'data.txt'))
     source: read('data.txt') *)
Definition mark (m : string) : expr := ETupCons m EData ETupNil.
Definition cap_fn (m : string) : expr := EFn "u" (mark m).
Definition factory_cfg : expr :=
  ETupCons "scope" (ETupCons "read" (EFn "p" (EApp (EVar "r") (EVar "p"))) ETupNil) ETupNil.
Definition factory : expr :=
  EFn "r" (EApp (EDot (EDot EPkg "eval") "evaluator") factory_cfg).
Definition factory_setup : expr :=
  ELet "mk" factory
    (ELet "A" (EApp (EVar "mk") (cap_fn "capA"))
       (ELet "B" (EApp (EVar "mk") (cap_fn "denied"))
          (ETupCons "A" (EVar "A") (ETupCons "B" (EVar "B") ETupNil)))).
Definition read_probe : val := VSrc RString (EApp (EVar "read") EData).

(* the evaluator tuple `name` of a setup value, as the function its .eval is *)
Definition evaluator_fn (t : val) (name : string) : option val :=
  match vget name t with
  | Some ev => vget "eval" ev
  | None => None
  end.
