(* C18 — sandboxed evaluation: an executable model of name resolution and
   capability flow in arr.ai's //eval.* functions.

   What is transcribed (Go file : function):
     syntax/expr_package.go : PackageExpr.Eval   — `//` looked up in the scope; when it is
                                                   unbound the FULL library is substituted   [EPkg]
     syntax/expr_import.go  : ImportExpr.Eval    — imported expression evaluated in the EMPTY scope [EImported]
     syntax/compile.go      : Compile/compilePackage — imports are resolved while compiling, also
                                                   for "" paths (SourceDir ".")              [compile, EImport]
     syntax/parse.go,parse_macro.go : macro expressions are evaluated while PARSING, in the
                                                   parse-time scope, which has no `//`        [compile, EMacro]
     syntax/std_eval.go     : evalExpr (//eval.value) — EvaluateExpr = empty scope          [VEvalValue]
                              contextualEval      — scope = {`//`: stdlib or the safe library} + config.scope,
                                                   EvalWithScope(ctx, "", src, scope)         [contextual]
                              parseEvalConfig                                                [parse_cfg]
     syntax/stdlib/stdlib-safe.arrai : eval.eval = \expr internal.eval.eval((), expr),
                              eval.evaluator = \config (eval: \expr internal.eval.eval(config, expr)) [VEvaluator, VEvalWith]
   Values are abstract: data, source text, library functions tagged with a capability class,
   tuples, closures.  A quirk flag per defective call site: on = what the Go code does today. *)
From Coq Require Import List String Bool Arith Lia.
Import ListNotations.
Open Scope string_scope.
Open Scope list_scope.

(* ---------- capability classes ---------- *)
Inductive cls := CNone | CFile | CFsMeta | CNet | CExec | CEnv | CStdin | CUnclassified.

Definition cls_eqb (a b : cls) : bool :=
  match a, b with
  | CNone, CNone | CFile, CFile | CFsMeta, CFsMeta | CNet, CNet | CExec, CExec
  | CEnv, CEnv | CStdin, CStdin | CUnclassified, CUnclassified => true
  | _, _ => false
  end.

Lemma cls_eqb_eq : forall a b, cls_eqb a b = true <-> a = b.
Proof. destruct a, b; simpl; split; intro H; try reflexivity; try discriminate. Qed.

Definition cap_of (c : cls) : list cls := match c with CNone => [] | _ => [c] end.

Definition mem (c : cls) (l : list cls) : bool := existsb (cls_eqb c) l.
Definition subset (a b : list cls) : bool := forallb (fun c => mem c b) a.

(* ---------- syntax ---------- *)
(* the representations of a piece of source text that the Go type switches of evalExpr and
   contextualEval distinguish (`case rel.String, rel.Bytes:` / everything else) *)
Inductive rep :=
| RString          (* "..."            rel.String *)
| RBytes           (* <<"...">>        rel.Bytes  *)
| ROffsetString    (* 1\"..."          rel.String with a non-zero offset *)
| RCharArray       (* [47, 47, ...]    rel.Array of code points: not source *)
| REmptyString     (* ""               the empty set: not source *)
| REmptyBytes.     (* <<>>             the empty set: not source *)

Inductive arm := ArmString | ArmBytes.

(* which `case` of the type switch a representation reaches *)
Definition src_arm (r : rep) : option arm :=
  match r with
  | RString | ROffsetString => Some ArmString
  | RBytes => Some ArmBytes
  | RCharArray | REmptyString | REmptyBytes => None
  end.

Inductive target := TLocal (file : string) | TRemote.

Inductive expr :=
| EData                                  (* a literal without functions *)
| EVar (x : string)
| EPkg                                   (* the `//` inside a PackageExpr; `//a.b` = EDot (EDot EPkg a) b *)
| EDot (e : expr) (a : string)
| ETupNil
| ETupCons (a : string) (e rest : expr)  (* (a: e, ...rest) *)
| EFn (x : string) (b : expr)
| EApp (f a : expr)
| ELet (x : string) (e b : expr)
| EQuote (r : rep) (e : expr)            (* a literal in representation r whose text is the source of e *)
| EImport (t : target)                   (* //{./file}  |  //{https://host/x} *)
| EMacro (e : expr)                      (* {:(@grammar: G, @transform: (r: \ast e)):text:} *)
(* produced by compile only *)
| EImported (e : expr)                   (* ImportExpr: evaluate e in the empty scope *)
| EMacroed (pkgonly : bool) (e : expr).  (* macro result: e was evaluated at parse time *)

(* ---------- values ---------- *)
Inductive val :=
| VData                                  (* the literal of the generated programs: the string 'data.txt' *)
| VRes                                   (* data computed by a library function *)
| VSrc (r : rep) (e : expr)              (* source text held in representation r *)
| VPlain (c : cls) (arity : nat)         (* a library function of capability class c *)
| VEvalValue                             (* //eval.value *)
| VEvaluator                             (* //eval.evaluator *)
| VEvalWith (cfg : val)                  (* \expr internal.eval.eval(cfg, expr);  //eval.eval = VEvalWith VTupNil *)
| VTupNil
| VTupCons (a : string) (v : val) (rest : val)
| VClo (env : val) (x : string) (b : expr).

(* tuples and scopes are VTupCons chains; first match wins *)
Fixpoint vget (a : string) (t : val) : option val :=
  match t with
  | VTupCons b v r => if String.eqb a b then Some v else vget a r
  | _ => None
  end.

Fixpoint vapp (t base : val) : val :=
  match t with
  | VTupCons a v r => VTupCons a v (vapp r base)
  | _ => base
  end.

Definition is_tuple (v : val) : bool :=
  match v with VTupNil | VTupCons _ _ _ => true | _ => false end.

Definition pkg : string := "//".
Definition binds (env : val) : bool := match vget pkg env with Some _ => true | None => false end.
Definition pkg_only (env : val) : val :=
  match vget pkg env with Some l => VTupCons pkg l VTupNil | None => VTupNil end.

(* ---------- effects ---------- *)
Inductive eff := EffCall (c : cls) | EffImportLocal (file : string) | EffImportRemote.

Inductive res := Val (v : val) | Err | Fuel.
Inductive cres := COk (e : expr) | CErr | CFuel.

(* ---------- quirks (DESIGN §5.3): on = the Go code today, off = repaired ---------- *)
Record quirks := {
  q_evalvalue_full_scope : bool;  (* std_eval.go:evalExpr evaluates with the empty scope => full library *)
  q_sandbox_local_import : bool;  (* std_eval.go:contextualEval compiles with path "" => SourceDir ".", //{./f} resolves *)
  q_sandbox_remote_import : bool; (* ... and //{host/path} / //{https://...} is fetched *)
  q_macro_full_scope : bool       (* parse.go: macro expression evaluated at parse time without `//` => full library *)
}.
Definition quirks_off := {| q_evalvalue_full_scope := false; q_sandbox_local_import := false;
                            q_sandbox_remote_import := false; q_macro_full_scope := false |}.
Definition quirks_on := {| q_evalvalue_full_scope := true; q_sandbox_local_import := true;
                           q_sandbox_remote_import := true; q_macro_full_scope := true |}.

(* ---------- the world: the two libraries and the files visible to imports ---------- *)
Record world := {
  w_safe : val;                          (* SafeStdScopeTuple() *)
  w_full : val;                          (* StdScope()'s `//` *)
  w_files : list (string * expr)         (* local files: name -> parsed content *)
}.

Fixpoint find_file (n : string) (fs : list (string * expr)) : option expr :=
  match fs with
  | [] => None
  | (m, e) :: r => if String.eqb n m then Some e else find_file n r
  end.

Definition import_allowed (q : quirks) (sandboxed : bool) (t : target) : bool :=
  negb sandboxed || match t with TLocal _ => q_sandbox_local_import q | TRemote => q_sandbox_remote_import q end.

(* parseEvalConfig: config must be a tuple; scope / stdlib must be tuples when present *)
Definition parse_cfg (cfg : val) : option (option val * val) :=
  if is_tuple cfg then
    let sc := match vget "scope" cfg with Some s => s | None => VTupNil end in
    if is_tuple sc then
      match vget "stdlib" cfg with
      | Some l => if is_tuple l then Some (Some l, sc) else None
      | None => Some (None, sc)
      end
    else None
  else None.

Section Model.
Variable q : quirks.
Variable w : world.

Definition lib_or_safe (l : option val) : val := match l with Some x => x | None => w_safe w end.

(* contextualEval's scope: `//` := stdlib or the safe library, then every config.scope attribute on top *)
Definition ctx_env (l : option val) (sc : val) : val := vapp sc (VTupCons pkg (lib_or_safe l) VTupNil).

(* compile: resolves imports and evaluates macros (both happen before evaluation starts);
   sb = the `//` of the sandbox being compiled for, None at top level.
   eval : big-step evaluation with an effect log. Every recursive call consumes fuel. *)
Fixpoint compile (fuel : nat) (sb : option val) (e : expr) {struct fuel} : cres * list eff :=
  match fuel with
  | O => (CFuel, [])
  | S f =>
    match e with
    | EData | EVar _ | EPkg | ETupNil | EQuote _ _ => (COk e, [])
    | EDot e1 a =>
        match compile f sb e1 with
        | (COk e1', l) => (COk (EDot e1' a), l)
        | r => r
        end
    | ETupCons a e1 e2 =>
        match compile f sb e1 with
        | (COk e1', l1) =>
            match compile f sb e2 with
            | (COk e2', l2) => (COk (ETupCons a e1' e2'), l1 ++ l2)
            | (r, l2) => (r, l1 ++ l2)
            end
        | r => r
        end
    | EFn x b =>
        match compile f sb b with
        | (COk b', l) => (COk (EFn x b'), l)
        | r => r
        end
    | EApp e1 e2 =>
        match compile f sb e1 with
        | (COk e1', l1) =>
            match compile f sb e2 with
            | (COk e2', l2) => (COk (EApp e1' e2'), l1 ++ l2)
            | (r, l2) => (r, l1 ++ l2)
            end
        | r => r
        end
    | ELet x e1 e2 =>
        match compile f sb e1 with
        | (COk e1', l1) =>
            match compile f sb e2 with
            | (COk e2', l2) => (COk (ELet x e1' e2'), l1 ++ l2)
            | (r, l2) => (r, l1 ++ l2)
            end
        | r => r
        end
    | EImport t =>
        if import_allowed q (match sb with Some _ => true | None => false end) t then
          match t with
          | TRemote => (CErr, [EffImportRemote])          (* offline world: the fetch is attempted and fails *)
          | TLocal n =>
              match find_file n (w_files w) with
              | None => (CErr, [EffImportLocal n])
              | Some src =>
                  match compile f None src with            (* the file is compiled on its own *)
                  | (COk c, l) => (COk (EImported c), EffImportLocal n :: l)
                  | (r, l) => (r, EffImportLocal n :: l)
                  end
              end
          end
        else (CErr, [])
    | EMacro e1 =>
        match compile f sb e1 with
        | (COk e1', l1) =>
            let mode := negb (q_macro_full_scope q) && match sb with Some _ => true | None => false end in
            let menv := match sb with
                        | Some l => if mode then VTupCons pkg l VTupNil else VTupNil
                        | None => VTupNil
                        end in
            match eval f menv e1' with
            | (Val _, l2) => (COk (EMacroed mode e1'), l1 ++ l2)
            | (Err, l2) => (CErr, l1 ++ l2)
            | (Fuel, l2) => (CFuel, l1 ++ l2)
            end
        | r => r
        end
    | EImported _ | EMacroed _ _ => (CErr, [])
    end
  end

with eval (fuel : nat) (env : val) (e : expr) {struct fuel} : res * list eff :=
  match fuel with
  | O => (Fuel, [])
  | S f =>
    match e with
    | EData => (Val VData, [])
    | EVar x => match vget x env with Some v => (Val v, []) | None => (Err, []) end
    | EPkg => match vget pkg env with
              | Some v => (Val v, [])
              | None => (Val (w_full w), [])                (* PackageExpr.Eval: StdScope() when `//` is unbound *)
              end
    | EDot e1 a =>
        match eval f env e1 with
        | (Val v, l) => match vget a v with Some x => (Val x, l) | None => (Err, l) end
        | r => r
        end
    | ETupNil => (Val VTupNil, [])
    | ETupCons a e1 e2 =>
        match eval f env e1 with
        | (Val v1, l1) =>
            match eval f env e2 with
            | (Val v2, l2) => if is_tuple v2 then (Val (VTupCons a v1 v2), l1 ++ l2) else (Err, l1 ++ l2)
            | (r, l2) => (r, l1 ++ l2)
            end
        | r => r
        end
    | EFn x b => (Val (VClo env x b), [])
    | EApp e1 e2 =>
        match eval f env e1 with
        | (Val vf, l1) =>
            match eval f env e2 with
            | (Val va, l2) =>
                let (r, l3) := apply f vf va in (r, l1 ++ l2 ++ l3)
            | (r, l2) => (r, l1 ++ l2)
            end
        | r => r
        end
    | ELet x e1 e2 =>
        match eval f env e1 with
        | (Val v1, l1) => let (r, l2) := eval f (VTupCons x v1 env) e2 in (r, l1 ++ l2)
        | r => r
        end
    | EQuote r s => (Val (VSrc r s), [])
    | EImport _ | EMacro _ => (Err, [])                     (* source forms never reach evaluation *)
    | EImported c => eval f VTupNil c                       (* ImportExpr.Eval: rel.EmptyScope *)
    | EMacroed m c =>                                       (* the value computed at parse time; no new effects *)
        let (r, _) := eval f (if m then pkg_only env else VTupNil) c in (r, [])
    end
  end

with apply (fuel : nat) (vf va : val) {struct fuel} : res * list eff :=
  match fuel with
  | O => (Fuel, [])
  | S f =>
    match vf with
    | VPlain c (S (S n)) => (Val (VPlain c (S n)), [])      (* curried library function: more arguments to come *)
    | VPlain c _ =>                                         (* library functions want a data argument *)
        match va with
        | VData => (Val VRes, [EffCall c])
        | _ => (Err, [EffCall CNone])                     (* argument typing is not modelled: marked, no authority used *)
        end
    | VEvalValue =>
        match va with
        | VSrc r s =>
            match src_arm r with
            | Some ArmString =>                             (* case rel.String: val.String() *)
                if q_evalvalue_full_scope q
                then run f None VTupNil s                   (* EvaluateExpr(ctx, ".", src): empty scope *)
                else run f (Some (w_safe w)) (VTupCons pkg (w_safe w) VTupNil) s
            | Some ArmBytes =>                              (* case rel.Bytes: the same branch today *)
                if q_evalvalue_full_scope q
                then run f None VTupNil s
                else run f (Some (w_safe w)) (VTupCons pkg (w_safe w) VTupNil) s
            | None => (Err, [])                             (* "not a byte array or string" *)
            end
        | _ => (Err, [])
        end
    | VEvaluator => (Val (VTupCons "eval" (VEvalWith va) VTupNil), [])
    | VEvalWith cfg =>
        match parse_cfg cfg with
        | Some (l, sc) =>
            match va with
            | VSrc r s =>
                match src_arm r with
                | Some ArmString => let env := ctx_env l sc in run f (vget pkg env) env s   (* case rel.String *)
                | Some ArmBytes => let env := ctx_env l sc in run f (vget pkg env) env s    (* case rel.Bytes *)
                | None => (Err, [])
                end
            | _ => (Err, [])
            end
        | None => (Err, [])
        end
    | VClo cenv x b => eval f (VTupCons x va cenv) b
    | _ => (Err, [])
    end
  end

(* EvalWithScope: Compile, then Eval *)
with run (fuel : nat) (sb : option val) (env : val) (s : expr) {struct fuel} : res * list eff :=
  match fuel with
  | O => (Fuel, [])
  | S f =>
    match compile f sb s with
    | (COk c, l1) => let (r, l2) := eval f env c in (r, l1 ++ l2)
    | (CErr, l1) => (Err, l1)
    | (CFuel, l1) => (Fuel, l1)
    end
  end.

(* contextualEval(config, src) with the config already parsed *)
Definition contextual (fuel : nat) (l : option val) (sc : val) (s : expr) : res * list eff :=
  let env := ctx_env l sc in run fuel (vget pkg env) env s.

(* syntax.EvaluateExpr(ctx, "", src): a top-level program *)
Definition run_top (fuel : nat) (s : expr) : res * list eff := run fuel None VTupNil s.

(* syntax.EvalWithScope(ctx, "", src, SafeStdScope()) *)
Definition run_safe (fuel : nat) (s : expr) : res * list eff := contextual fuel None VTupNil s.

End Model.

(* ---------- authority: an upper bound of what a value can do or hand out ---------- *)

(* pf e: e never needs `//` (it cannot trigger the fallback in any scope);
   ca e: e cannot trigger the fallback in a scope that binds `//`. *)
Fixpoint pf (e : expr) : bool :=
  match e with
  | EData | EVar _ | ETupNil | EQuote _ _ | EImport _ | EMacro _ => true
  | EPkg => false
  | EDot e1 _ | EFn _ e1 | EImported e1 | EMacroed _ e1 => pf e1
  | ETupCons _ e1 e2 | EApp e1 e2 | ELet _ e1 e2 => pf e1 && pf e2
  end.

Fixpoint ca (e : expr) : bool :=
  match e with
  | EData | EVar _ | ETupNil | EQuote _ _ | EImport _ | EMacro _ | EPkg => true
  | EDot e1 _ | EFn _ e1 => ca e1
  | EImported e1 => pf e1
  | EMacroed m e1 => if m then ca e1 else pf e1
  | ETupCons _ e1 e2 | EApp e1 e2 | ELet _ e1 e2 => ca e1 && ca e2
  end.

Section Auth.
Variable S_caps F_caps : list cls.   (* authority of the safe / of the full library *)

Definition needs (bound : bool) (e : expr) : list cls :=
  if (if bound then ca e else pf e) then [] else F_caps.

Fixpoint auth (v : val) : list cls :=
  match v with
  | VData | VRes | VSrc _ _ | VTupNil => []
  | VPlain c _ => cap_of c
  | VEvalValue | VEvaluator => S_caps
  | VEvalWith cfg => S_caps ++ auth cfg
  | VTupCons _ x r => auth x ++ auth r
  | VClo env x b => auth env ++ needs (String.eqb pkg x || binds env) b
  end.

Definition eff_cls (e : eff) : list cls :=
  match e with EffCall c => cap_of c | EffImportLocal _ => [CFile] | EffImportRemote => [CNet] end.

Definition effs (l : list eff) : list cls := flat_map eff_cls l.

Definition is_import (e : eff) : bool := match e with EffCall _ => false | _ => true end.
Definition no_import (l : list eff) : Prop := forall e, In e l -> is_import e = false.

End Auth.

(* well-formed world: the declared authorities bound the libraries *)
Definition WF (S_caps F_caps : list cls) (w : world) : Prop :=
  incl (auth S_caps F_caps (w_safe w)) S_caps /\ incl (auth S_caps F_caps (w_full w)) F_caps.
Definition wf_b (S_caps F_caps : list cls) (w : world) : bool :=
  subset (auth S_caps F_caps (w_safe w)) S_caps && subset (auth S_caps F_caps (w_full w)) F_caps.

(* ---------- observation (what the harness can see of a result) ----------
   classes of the library functions found in the value through tuple attributes; a closure
   is applied to the probe argument () and the result observed, up to `probes` times. *)
Fixpoint observe (q : quirks) (w : world) (fuel : nat) (probes : nat) (v : val) {struct fuel} : list cls :=
  match fuel with
  | O => []
  | S f =>
    match v with
    | VPlain c _ => cap_of c
    | VEvalValue | VEvaluator | VEvalWith _ => []
    | VTupCons _ x r => observe q w f probes x ++ observe q w f probes r
    | VClo _ _ _ =>
        match probes with
        | O => []
        | S p => match apply q w fuel v VTupNil with
                 | (Val r, _) => observe q w f p r
                 | _ => []
                 end
        end
    | _ => []
    end
  end.

(* ---------- the library of a world from the regenerated inventory (coq/Gen/Stdlib.v) ---------- *)
Definition class_of_string (s : string) : cls :=
  if String.eqb s "none" then CNone else if String.eqb s "file" then CFile
  else if String.eqb s "fsmeta" then CFsMeta else if String.eqb s "net" then CNet
  else if String.eqb s "exec" then CExec else if String.eqb s "env" then CEnv
  else if String.eqb s "stdin" then CStdin else CUnclassified.

Definition row := (list string * string * string * nat)%type.

Definition leaf_of_row (r : row) : val :=
  match r with
  | (_, kind, class, arity) =>
      if String.eqb kind "data" then VData
      else if String.eqb class "evalvalue" then VEvalValue
      else if String.eqb class "evaleval" then VEvalWith VTupNil
      else if String.eqb class "evaluator" then VEvaluator
      else VPlain (class_of_string class) arity
  end.

Fixpoint vset (a : string) (x : val) (t : val) : val :=
  match t with
  | VTupCons b v r => if String.eqb a b then VTupCons b x r else VTupCons b v (vset a x r)
  | _ => VTupCons a x VTupNil
  end.

Fixpoint insert (p : list string) (leaf : val) (t : val) : val :=
  match p with
  | [] => leaf
  | a :: p' =>
      let sub := match vget a t with Some s => s | None => VTupNil end in
      vset a (insert p' leaf sub) (if is_tuple t then t else VTupNil)
  end.

Definition lib_of_table (t : list row) : val :=
  fold_left (fun acc r => insert (fst (fst (fst r))) (leaf_of_row r) acc) t VTupNil.

(* classes of the functions listed in an inventory *)
Definition row_class (r : row) : cls :=
  match r with (_, kind, class, _) =>
    if String.eqb kind "data" then CNone
    else if String.eqb class "evalvalue" || String.eqb class "evaleval" || String.eqb class "evaluator" then CNone
    else class_of_string class
  end.

Fixpoint dedup (l : list cls) : list cls :=
  match l with
  | [] => []
  | c :: r => if mem c r then dedup r else c :: dedup r
  end.

Definition table_caps (t : list row) : list cls := dedup (flat_map (fun r => cap_of (row_class r)) t).
