(* Executable model of the `arrai test` runner:
     pkg/test/value_utils.go  ForeachLeaf, isLiteralTrue, isLiteralFalse
     pkg/test/runner.go       RunTests, getTestFiles (walk filter), runFile, RunExpr
     pkg/test/stats.go        calcStats
     pkg/test/report.go       Report (returned error; per-file result lists)
   Result trees mirror the Go representations the walker distinguishes.  What is
   outside the model appears as data: the outcome of compiling+evaluating a
   file (fileres), the String() text of a dictionary key (dk_text), the
   directory tree in afero.Walk's (lexical) visiting order. *)
From Arrai Require Import Base.Val.

Definition bytes := list Z.

(* ---------- quirks (DESIGN 5.3): on = what the Go code does today ---------- *)
Record Quirks := {
  (* value_utils.go ForeachLeaf, case rel.Array: `for i, item := range v.Values()`
     hands the nil of a hole to the callback; RunExpr then calls val.String() on nil.
     off: holes are not leaves (skipped). *)
  q_test_sparse_array_nil : bool;
  (* same loop: the path uses the slice index i, not the array index offset+i.
     off: path index = offset + i. *)
  q_test_offset_paths : bool;
  (* runner.go getTestFiles: the hidden-directory test is also applied to the
     target directory itself, so `arrai test .dir` finds nothing.
     off: only directories below the target are skipped. *)
  q_test_hidden_root : bool
}.
Definition quirks_off := {| q_test_sparse_array_nil := false; q_test_offset_paths := false; q_test_hidden_root := false |}.
Definition quirks_go := {| q_test_sparse_array_nil := true; q_test_offset_paths := true; q_test_hidden_root := true |}.

(* ---------- result trees ---------- *)
Inductive leafk :=
| LTrue        (* rel.TrueSet *)
| LFalse       (* rel.EmptySet *)
| LGenEmpty    (* rel.GenericSet with Count() = 0 (not produced by the canonical constructors) *)
| LGenTrue     (* rel.GenericSet {()}: isLiteralTrue panics on it (not produced by the canonical constructors) *)
| LGenSet      (* any other rel.GenericSet *)
| LOther.      (* number, string, bytes, relation, union set, closure, native function, ... *)

Record dkey := { dk_str : bool; dk_text : bytes }.   (* key is a rel.String?; key.String() *)

Inductive rtree :=
| RLeaf (k : leafk)
| RTuple (attrs : list (bytes * rtree))              (* any rel.Tuple, in Enumerator order *)
| RArray (off : Z) (items : list (option rtree))     (* rel.Array: offset, Values() with None = hole *)
| RDict (entries : list (dkey * rtree)).             (* rel.Dict in OrderedEntries order (keys may repeat) *)

Inductive res (A : Type) := Ok (a : A) | Panic (site : Z).
Arguments Ok {A} a.
Arguments Panic {A} site.
Definition site_RunExpr_nil : Z := 1.        (* pkg/test:RunExpr, nil leaf *)
Definition site_isLiteralTrue : Z := 2.      (* pkg/test:isLiteralTrue, explicit panic *)

(* ---------- path text ---------- *)
Definition c_dot : Z := 46.
Definition c_lpar : Z := 40.
Definition c_rpar : Z := 41.
Definition c_quote : Z := 39.
Definition c_slash : Z := 47.

(* strings.TrimPrefix(path, ".") *)
Definition trim_dot (p : bytes) : bytes :=
  match p with
  | c :: p' => if Z.eqb c c_dot then p' else p
  | [] => []
  end.

Fixpoint uint_bytes (u : Decimal.uint) : bytes :=
  match u with
  | Decimal.Nil => []
  | Decimal.D0 u => 48 :: uint_bytes u | Decimal.D1 u => 49 :: uint_bytes u | Decimal.D2 u => 50 :: uint_bytes u
  | Decimal.D3 u => 51 :: uint_bytes u | Decimal.D4 u => 52 :: uint_bytes u | Decimal.D5 u => 53 :: uint_bytes u
  | Decimal.D6 u => 54 :: uint_bytes u | Decimal.D7 u => 55 :: uint_bytes u | Decimal.D8 u => 56 :: uint_bytes u
  | Decimal.D9 u => 57 :: uint_bytes u
  end.
(* fmt %d *)
Definition dec_Z (z : Z) : bytes :=
  match Z.to_int z with
  | Decimal.Pos u => uint_bytes u
  | Decimal.Neg u => 45 :: uint_bytes u
  end.

Inductive step := SAttr (n : bytes) | SIdx (i : Z) | SKey (k : dkey).

Definition key_text (k : dkey) : bytes :=
  if dk_str k then c_quote :: dk_text k ++ [c_quote] else dk_text k.

(* the text each container appends to the path of a child *)
Definition render_step (s : step) : bytes :=
  match s with
  | SAttr n => c_dot :: n                                  (* "%s.%s" *)
  | SIdx i => c_lpar :: dec_Z i ++ [c_rpar]                (* "%s(%d)" *)
  | SKey k => c_lpar :: key_text k ++ [c_rpar]             (* "%s(%s)" *)
  end.

(* ---------- ForeachLeaf ---------- *)
Section Walk.
Variable q : Quirks.

Definition arr_index (off i : Z) : Z := if q_test_offset_paths q then i else off + i.

(* leaves in visiting order: (path, Some leaf) or (path, None) for a nil leaf *)
Fixpoint walk (t : rtree) (path : bytes) {struct t} : list (bytes * option leafk) :=
  let path := trim_dot path in
  match t with
  | RLeaf k => [(path, Some k)]
  | RTuple attrs =>
      (fix go (l : list (bytes * rtree)) : list (bytes * option leafk) :=
         match l with
         | [] => []
         | (n, c) :: l' => walk c (path ++ render_step (SAttr n)) ++ go l'
         end) attrs
  | RArray off items =>
      (fix go (i : Z) (l : list (option rtree)) : list (bytes * option leafk) :=
         match l with
         | [] => []
         | Some c :: l' => walk c (path ++ render_step (SIdx (arr_index off i))) ++ go (i + 1) l'
         | None :: l' =>
             (if q_test_sparse_array_nil q
              then [(trim_dot (path ++ render_step (SIdx (arr_index off i))), None)]
              else []) ++ go (i + 1) l'
         end) 0 items
  | RDict entries =>
      (fix go (l : list (dkey * rtree)) : list (bytes * option leafk) :=
         match l with
         | [] => []
         | (k, c) :: l' => walk c (path ++ render_step (SKey k)) ++ go l'
         end) entries
  end.

(* ---------- RunExpr's classification of one leaf ---------- *)
Inductive outcome := Failed | Invalid | Ignored | Passed.

Definition is_literal_true (k : leafk) : res bool :=
  match k with
  | LTrue => Ok true
  | LGenTrue => Panic site_isLiteralTrue
  | _ => Ok false
  end.
Definition is_literal_false (k : leafk) : bool :=
  match k with LFalse | LGenEmpty => true | _ => false end.

Definition classify_leaf (v : option leafk) : res outcome :=
  match v with
  | None => Panic site_RunExpr_nil       (* not TrueSet, not EmptySet/GenericSet -> Invalid branch -> val.String() on nil *)
  | Some k =>
      match is_literal_true k with
      | Panic s => Panic s
      | Ok true => Ok Passed
      | Ok false => if is_literal_false k then Ok Failed else Ok Invalid
      end
  end.

Fixpoint classify_all (l : list (bytes * option leafk)) : res (list (bytes * outcome)) :=
  match l with
  | [] => Ok []
  | (p, v) :: l' =>
      match classify_leaf v with
      | Panic s => Panic s
      | Ok o => match classify_all l' with
                | Panic s => Panic s
                | Ok r => Ok ((p, o) :: r)
                end
      end
  end.

(* RunExpr after a successful Eval *)
Definition run_expr (t : rtree) : res (list (bytes * outcome)) := classify_all (walk t []).

(* ---------- getTestFiles: the walk filter ---------- *)
Inductive fileres := FCompileErr | FEvalErr | FTree (t : rtree).

Inductive fsnode :=
| FFile (name : bytes) (r : fileres)
| FDir (name : bytes) (kids : list fsnode).     (* kids in afero.Walk order *)

Definition node_name (n : fsnode) : bytes := match n with FFile nm _ => nm | FDir nm _ => nm end.

Definition test_suffix : bytes := [95;116;101;115;116;46;97;114;114;97;105].   (* "_test.arrai" *)

Fixpoint bytes_eqb (a b : bytes) : bool :=
  match a, b with
  | [], [] => true
  | x :: a', y :: b' => Z.eqb x y && bytes_eqb a' b'
  | _, _ => false
  end.

(* strings.HasSuffix *)
Definition has_suffix (s suf : bytes) : bool :=
  bytes_eqb (skipn (length s - length suf) s) suf && Nat.leb (length suf) (length s).

(* strings.HasPrefix(name, ".") *)
Definition hidden (name : bytes) : bool :=
  match name with c :: _ => Z.eqb c c_dot | [] => false end.

Definition join_path (dir name : bytes) : bytes := dir ++ c_slash :: name.

Fixpoint select (isroot : bool) (path : bytes) (n : fsnode) {struct n} : list (bytes * fileres) :=
  match n with
  | FFile _ r => if has_suffix path test_suffix then [(path, r)] else []
  | FDir name kids =>
      if hidden name && (negb isroot || q_test_hidden_root q) then []
      else (fix go (l : list fsnode) : list (bytes * fileres) :=
              match l with
              | [] => []
              | k :: l' => select false (join_path path (node_name k)) k ++ go l'
              end) kids
  end.

(* ---------- calcStats ---------- *)
Record stats := { st_total : nat; st_invalid : nat; st_passed : nat; st_ignored : nat; st_failed : nat }.
Definition stats0 := {| st_total := 0; st_invalid := 0; st_passed := 0; st_ignored := 0; st_failed := 0 |}%nat.

Definition stats_add (s : stats) (o : outcome) : stats :=
  let s := {| st_total := S (st_total s); st_invalid := st_invalid s; st_passed := st_passed s;
              st_ignored := st_ignored s; st_failed := st_failed s |} in
  match o with
  | Invalid => {| st_total := st_total s; st_invalid := S (st_invalid s); st_passed := st_passed s; st_ignored := st_ignored s; st_failed := st_failed s |}
  | Passed => {| st_total := st_total s; st_invalid := st_invalid s; st_passed := S (st_passed s); st_ignored := st_ignored s; st_failed := st_failed s |}
  | Ignored => {| st_total := st_total s; st_invalid := st_invalid s; st_passed := st_passed s; st_ignored := S (st_ignored s); st_failed := st_failed s |}
  | Failed => {| st_total := st_total s; st_invalid := st_invalid s; st_passed := st_passed s; st_ignored := st_ignored s; st_failed := S (st_failed s) |}
  end.

Definition calc_stats (files : list (bytes * list (bytes * outcome))) : stats :=
  fold_left (fun s f => fold_left (fun s r => stats_add s (snd r)) (snd f) s) files stats0.

Definition run_failed (s : stats) : bool := Nat.ltb 0 (st_failed s) || Nat.ltb 0 (st_invalid s).

(* ---------- RunTests ---------- *)
Inductive runres :=
| RunErrWalk                       (* the target does not exist (walkErr) *)
| RunErrNoFiles                    (* "no test files ... were found" *)
| RunErrFile (p : bytes)           (* first file that fails to compile or evaluate; nothing is reported *)
| RunPanic (site : Z)
| RunDone (files : list (bytes * list (bytes * outcome))) (s : stats) (failed : bool).   (* Report ran; failed <-> error returned *)

Fixpoint run_files (fs : list (bytes * fileres)) (acc : list (bytes * list (bytes * outcome))) : runres :=
  match fs with
  | [] => let s := calc_stats (rev acc) in RunDone (rev acc) s (run_failed s)
  | (p, FTree t) :: fs' =>
      match run_expr t with
      | Panic s => RunPanic s
      | Ok r => run_files fs' ((p, r) :: acc)
      end
  | (p, _) :: _ => RunErrFile p
  end.

(* target: None = path does not exist; Some (path, node) *)
Definition run_tests (target : option (bytes * fsnode)) : runres :=
  match target with
  | None => RunErrWalk
  | Some (path, n) =>
      match select true path n with
      | [] => RunErrNoFiles
      | fs => run_files fs []
      end
  end.

Definition run_ok (r : runres) : bool :=
  match r with RunDone _ _ false => true | _ => false end.

End Walk.

(* ---------- specification side ---------- *)
(* the leaves of a tree with their structured paths: holes are not leaves, array
   steps carry the real index *)
Fixpoint leaves_spec (t : rtree) : list (list step * leafk) :=
  match t with
  | RLeaf k => [([], k)]
  | RTuple attrs =>
      (fix go (l : list (bytes * rtree)) : list (list step * leafk) :=
         match l with
         | [] => []
         | (n, c) :: l' => map (fun pl => (SAttr n :: fst pl, snd pl)) (leaves_spec c) ++ go l'
         end) attrs
  | RArray off items =>
      (fix go (i : Z) (l : list (option rtree)) : list (list step * leafk) :=
         match l with
         | [] => []
         | Some c :: l' => map (fun pl => (SIdx (off + i) :: fst pl, snd pl)) (leaves_spec c) ++ go (i + 1) l'
         | None :: l' => go (i + 1) l'
         end) 0 items
  | RDict entries =>
      (fix go (l : list (dkey * rtree)) : list (list step * leafk) :=
         match l with
         | [] => []
         | (k, c) :: l' => map (fun pl => (SKey k :: fst pl, snd pl)) (leaves_spec c) ++ go l'
         end) entries
  end.

(* the path text of a structured path: the steps' texts, without the leading dot *)
Definition render (p : list step) : bytes := trim_dot (concat (map render_step p)).

Definition outcome_of (k : leafk) : outcome :=
  match k with
  | LTrue => Passed
  | LFalse | LGenEmpty => Failed
  | _ => Invalid
  end.

(* representation invariant of leaves (rel.newSetFromFrozenSet never builds a GenericSet {()}) *)
Fixpoint canonical (t : rtree) : bool :=
  match t with
  | RLeaf LGenTrue => false
  | RLeaf _ => true
  | RTuple attrs => (fix go (l : list (bytes * rtree)) := match l with [] => true | (_, c) :: l' => canonical c && go l' end) attrs
  | RArray _ items => (fix go (l : list (option rtree)) := match l with [] => true | Some c :: l' => canonical c && go l' | None :: l' => go l' end) items
  | RDict entries => (fix go (l : list (dkey * rtree)) := match l with [] => true | (_, c) :: l' => canonical c && go l' end) entries
  end.

(* attribute names for which the per-level TrimPrefix is harmless: non-empty, not starting with '.' *)
Definition name_ok (n : bytes) : bool :=
  match n with [] => false | c :: _ => negb (Z.eqb c c_dot) end.
Fixpoint names_ok (t : rtree) : bool :=
  match t with
  | RLeaf _ => true
  | RTuple attrs => (fix go (l : list (bytes * rtree)) := match l with [] => true | (n, c) :: l' => name_ok n && names_ok c && go l' end) attrs
  | RArray _ items => (fix go (l : list (option rtree)) := match l with [] => true | Some c :: l' => names_ok c && go l' | None :: l' => go l' end) items
  | RDict entries => (fix go (l : list (dkey * rtree)) := match l with [] => true | (_, c) :: l' => names_ok c && go l' end) entries
  end.

Definition all_true (t : rtree) : Prop := Forall (fun pl => snd pl = LTrue) (leaves_spec t).

(* file selection as a predicate on paths: every file below the target with its
   full path and the names of the directories strictly below the target that lead to it *)
Fixpoint all_files (isroot : bool) (path : bytes) (dirs : list bytes) (n : fsnode) {struct n}
  : list (bytes * list bytes * fileres) :=
  match n with
  | FFile _ r => [(path, dirs, r)]
  | FDir name kids =>
      let dirs' := if isroot then dirs else dirs ++ [name] in
      (fix go (l : list fsnode) : list (bytes * list bytes * fileres) :=
         match l with
         | [] => []
         | k :: l' => all_files false (join_path path (node_name k)) dirs' k ++ go l'
         end) kids
  end.

Definition selected (e : bytes * list bytes * fileres) : bool :=
  forallb (fun d => negb (hidden d)) (snd (fst e)) && has_suffix (fst (fst e)) test_suffix.

Definition select_spec (path : bytes) (n : fsnode) : list (bytes * fileres) :=
  map (fun e => (fst (fst e), snd e)) (filter selected (all_files true path [] n)).
