(* The front-end session layer of `arrai serve` (cmd/arrai/serve_grpc.go arraiServer.Update / Observe,
   cmd/arrai/serve_ws.go websocketFrontend.ServeHTTP) as a state machine over the engine model
   Sys/Engine.v.  Definitions only.

   A front-end history is the list of client requests in the order in which the connection
   goroutines handled them.  [fe_map] gives the engine history (the API calls the front-ends issue,
   in that order):
   * FeUpdate (Some e)        gRPC Update whose expression compiled: engine.Update e.
     FeUpdate None            the expression did not compile: the RPC ends with the error, no engine call.
   * FeSubscribe c (Some e) cb  a text frame on websocket connection c / a gRPC Observe call c whose
                              expression compiled: `cancelObservation()` - the cancel function of the
                              connection's current observation, if there is one - and then
                              engine.Observe with a fresh id (engine.go: atomic counter).  At most one
                              watcher per connection is current.  [cb] is the write oracle of that
                              subscription (conn.WriteMessage / stream.Send: nil, error, panic at each delivery).
     FeSubscribe c None _     the request did not compile: an error reply, no engine call.
   * FeHangup c               the client leaves (close frame, dropped socket, cancelled RPC): NO engine
                              call.  Neither front-end cancels the observation; the watcher stays
                              registered until a later write fails, which is the callback oracle's
                              business ([cb] returns CbErr at that delivery). *)
From Coq Require Import List ZArith Bool.
From Arrai Require Import Sys.Engine.
Import ListNotations.
Open Scope Z_scope.

Section FrontEnd.
  Variables V E : Type.

  Inductive fe_op :=
  | FeUpdate (e : option E)
  | FeSubscribe (c : Z) (e : option E) (cb : callback V)
  | FeHangup (c : Z).

  (* the session table: connection -> its current watcher id *)
  Definition fe_table := list (Z * Z).
  Fixpoint fe_lookup (c : Z) (t : fe_table) : option Z :=
    match t with
    | [] => None
    | (c', i) :: r => if c' =? c then Some i else fe_lookup c r
    end.
  Definition fe_set (c i : Z) (t : fe_table) : fe_table :=
    (c, i) :: filter (fun p => negb (fst p =? c)) t.

  (* the engine calls one request causes, and the session state after it *)
  Definition fe_step (nxt : Z) (t : fe_table) (op : fe_op) : list (event V E) * Z * fe_table :=
    match op with
    | FeUpdate (Some e) => ([Update e], nxt, t)
    | FeUpdate None => ([], nxt, t)
    | FeSubscribe c (Some e) cb =>
        ((match fe_lookup c t with Some i => [Cancel i] | None => [] end) ++ [Observe nxt e cb],
         nxt + 1, fe_set c nxt t)
    | FeSubscribe c None _ => ([], nxt, t)
    | FeHangup c => ([], nxt, t)
    end.

  Fixpoint fe_map_from (nxt : Z) (t : fe_table) (h : list fe_op) : list (event V E) :=
    match h with
    | [] => []
    | op :: r =>
        let '(evs, nxt', t') := fe_step nxt t op in
        evs ++ fe_map_from nxt' t' r
    end.

  Definition fe_map (h : list fe_op) : list (event V E) := fe_map_from 1 [] h.

  (* how many engine calls each request causes (to align the clients' answers with the engine's) *)
  Fixpoint fe_counts_from (nxt : Z) (t : fe_table) (h : list fe_op) : list nat :=
    match h with
    | [] => []
    | op :: r =>
        let '(evs, nxt', t') := fe_step nxt t op in
        length evs :: fe_counts_from nxt' t' r
    end.
  Definition fe_counts (h : list fe_op) : list nat := fe_counts_from 1 [] h.

  (* the watchers a connection has had, oldest first *)
  Fixpoint fe_ids_from (c : Z) (nxt : Z) (t : fe_table) (h : list fe_op) : list Z :=
    match h with
    | [] => []
    | op :: r =>
        let '(_, nxt', t') := fe_step nxt t op in
        (match op with FeSubscribe c' (Some _) _ => if c' =? c then [nxt] else [] | _ => [] end)
        ++ fe_ids_from c nxt' t' r
    end.
  Definition fe_ids (c : Z) (h : list fe_op) : list Z := fe_ids_from c 1 [] h.
End FrontEnd.

Arguments FeUpdate {V E} _.
Arguments FeSubscribe {V E} _ _ _.
Arguments FeHangup {V E} _.
