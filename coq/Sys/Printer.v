(* The printer of whole values (property C12): rel/value_repr.go and the Format
   methods it dispatches to, as a function from a value to the sequence of
   lexical tokens it writes, plus the spacing rules that turn the tokens into
   the bytes fu.Repr returns.

     Number.Format / formatFloat64        pr_num        (integers and half-integers)
     GenericTuple.Format, TupleNameRepr   pr_tuple, pr_name
     String.Format / reprString           pr_string     (offset, one STR token)
     Bytes.Format                         pr_bytes      (<<'text'>> or <<1, 2>>)
     Array.Format                         pr_array      (offset, holes as empty cells)
     Dict.Format                          ShDict
     Relation.Format                      ShRel / rows as tuples when a name is not an identifier
     GenericSet.Format, UnionSet.Format,
     reprOrderableSet, EmptySet, TrueSet  ShSet, ShEmpty, ShTrue

   The value is given as an ENUMERATION [w]: a [val] whose sets list their members
   in the order the implementation enumerates them when it prints (OrderedValues,
   OrderedEntries, OrderedRange); [norm w] is the value denoted.  The printer never
   looks at that order except to write the members in it, so the round-trip theorem
   holds for every enumeration; the representation chosen for a set (which Format
   method runs) is the bucket classification of Rep/Less.v. *)
From Arrai Require Import Base.Val Spec.SetAlg Eval.Interp Rep.Less Sys.Escape.

Inductive tok :=
| TNum (n : num)          (* NUM: an unsigned numeric literal *)
| TMinus                  (* - *)
| TBsl                    (* \ (offset operator) *)
| TStr (s : list Z)       (* STR: the runes of a quoted string *)
| TIdent (n : name)       (* IDENT: bytes of an identifier *)
| TLPar | TRPar | TLBrace | TRBrace | TLBrack | TRBrack | TLBytes | TRBytes
| TComma | TColon | TBar.

(* ---------- numbers ---------- *)
Definition num_neg (n : num) : num :=
  match n with NInt z => NInt (- z) | NHalf z => NHalf (- z - 1) end.
Definition pr_num (n : num) : list tok :=
  if num2 n <? 0 then [TMinus; TNum (num_neg n)] else [TNum n].
(* reprOffset *)
Definition pr_offset (o : Z) : list tok :=
  if o =? 0 then [] else pr_num (NInt o) ++ [TBsl].

(* ---------- UTF-8 (Go: string(rune), range over a string) ---------- *)
Definition valid_rune (c : Z) : bool :=
  ((0 <=? c) && (c <? 55296)) || ((57344 <=? c) && (c <=? 1114111)).
Definition utf8_enc1 (c0 : Z) : list Z :=
  let c := if valid_rune c0 then c0 else 65533 in
  if c <? 128 then [c]
  else if c <? 2048 then [192 + c / 64; 128 + c mod 64]
  else if c <? 65536 then [224 + c / 4096; 128 + (c / 64) mod 64; 128 + c mod 64]
  else [240 + c / 262144; 128 + (c / 4096) mod 64; 128 + (c / 64) mod 64; 128 + c mod 64].
Definition utf8_enc (s : list Z) : list Z := flat_map utf8_enc1 s.

Definition cont (b : Z) : bool := (128 <=? b) && (b <? 192).
(* every byte that does not start a well-formed sequence decodes to U+FFFD on its own *)
Fixpoint utf8_dec (s : list Z) : list Z :=
  match s with
  | [] => []
  | b0 :: t =>
    if b0 <? 128 then b0 :: utf8_dec t
    else
    let bad := 65533 :: utf8_dec t in
    match t with
    | [] => bad
    | b1 :: t1 =>
      if (194 <=? b0) && (b0 <? 224) then
        (if cont b1 then ((b0 - 192) * 64 + (b1 - 128)) :: utf8_dec t1 else bad)
      else
      match t1 with
      | [] => bad
      | b2 :: t2 =>
        if (224 <=? b0) && (b0 <? 240) then
          let c := (b0 - 224) * 4096 + (b1 - 128) * 64 + (b2 - 128) in
          if cont b1 && cont b2 && (2048 <=? c) && valid_rune c then c :: utf8_dec t2 else bad
        else
        match t2 with
        | [] => bad
        | b3 :: t3 =>
          if (240 <=? b0) && (b0 <? 245) then
            let c := (b0 - 240) * 262144 + (b1 - 128) * 4096 + (b2 - 128) * 64 + (b3 - 128) in
            if cont b1 && cont b2 && cont b3 && (65536 <=? c) && valid_rune c then c :: utf8_dec t3 else bad
          else bad
        end
      end
    end
  end.

Fixpoint zl_eq (a b : list Z) : bool :=
  match a, b with
  | [], [] => true
  | x :: a', y :: b' => Z.eqb x y && zl_eq a' b'
  | _, _ => false
  end.

(* ---------- attribute names: TupleNameRepr, identRE ---------- *)
Definition ident_start (c : Z) : bool :=
  (c =? 36) || (c =? 64) || (c =? 95) || ((65 <=? c) && (c <=? 90)) || ((97 <=? c) && (c <=? 122)).
Definition ident_char (c : Z) : bool := ident_start c || ((48 <=? c) && (c <=? 57)).
Definition is_ident (n : name) : bool :=
  match n with [] => false | c :: r => ident_start c && forallb ident_char r end.
Definition pr_name (n : name) : tok := if is_ident n then TIdent n else TStr (utf8_dec n).

(* ---------- separators ---------- *)
Fixpoint commas (xs : list (list tok)) : list tok :=
  match xs with
  | [] => []
  | x :: xs' => match xs' with [] => x | _ => x ++ TComma :: commas xs' end
  end.

(* printed attributes: name and the tokens of the value *)
Definition pattrs := list (name * list tok).
Definition pr_tuple (ps : pattrs) : list tok :=
  TLPar :: commas (map (fun p => pr_name (fst p) :: TColon :: snd p) ps) ++ [TRPar].

(* ---------- the representation of a set ---------- *)
Inductive shape :=
| ShEmpty | ShTrue | ShSet | ShStr | ShBytes | ShArr | ShDict | ShRel (names : list name).

Definition is_true_set (l : list val) : bool := match l with [VTup []] => true | _ => false end.
Definition shape_of_bucket (b : bucket) : shape :=
  match b with
  | BGeneric => ShSet | BChar => ShStr | BByte => ShBytes | BItem => ShArr | BEntry => ShDict
  | BRel ns => if forallb is_ident ns then ShRel ns else ShSet
  end.
Definition set_shape (l : list val) : shape :=
  match l with
  | [] => ShEmpty
  | m :: r =>
      if is_true_set l then ShTrue
      else if forallb (fun x => bucket_eqb (member_bucket x) (member_bucket m)) r
           then shape_of_bucket (member_bucket m)
           else ShSet
  end.

(* a printed member: the member as a whole value, and (for a tuple) its attributes *)
Definition pmember := (list tok * pattrs)%type.

Definition mem_index (m : val) : Z :=
  match m with VTup ((_, VNum (NInt i)) :: _) => i | _ => 0 end.
Definition mem_scalar (m : val) : Z :=
  match m with VTup [_; (_, VNum (NInt c))] => c | _ => 0 end.
Definition part1 (p : pmember) : list tok := match snd p with (_, t) :: _ => t | _ => [] end.
Definition part2 (p : pmember) : list tok := match snd p with [_; (_, t)] => t | _ => [] end.

Fixpoint zinsert {A} (p : Z * A) (l : list (Z * A)) : list (Z * A) :=
  match l with
  | [] => [p]
  | q :: l' => if fst p <=? fst q then p :: l else q :: zinsert p l'
  end.
Definition zsort {A} (l : list (Z * A)) : list (Z * A) := fold_right zinsert [] l.

(* String.Format *)
Definition pr_string (cs : list (Z * Z)) : list tok :=
  match cs with
  | [] => [TLBrace; TRBrace]
  | (i0, _) :: _ => pr_offset i0 ++ [TStr (map snd cs)]
  end.

(* Bytes.Format: renderableBytesRE *)
Definition renderable (b : Z) : bool :=
  (b =? 7) || (b =? 8) || (b =? 27) || (b =? 12) || (b =? 10) || (b =? 13) || (b =? 9) || (b =? 11)
  || ((32 <=? b) && (b <=? 126)).
Definition pr_bytes (cs : list (Z * Z)) : list tok :=
  match cs with
  | [] => [TLBrace; TRBrace]
  | (i0, _) :: _ =>
      let bs := map snd cs in
      pr_offset i0 ++ TLBytes ::
        (if forallb renderable bs then [TStr bs] else commas (map (fun b => [TNum (NInt b)]) bs))
        ++ [TRBytes]
  end.

(* Array.Format: a nil cell prints nothing between its separators *)
Fixpoint pr_cells (prev : Z) (cs : list (Z * list tok)) : list tok :=
  match cs with
  | [] => []
  | (i, t) :: cs' => repeat TComma (Z.to_nat (i - prev)) ++ t ++ pr_cells i cs'
  end.
Definition pr_array (cs : list (Z * list tok)) : list tok :=
  match cs with
  | [] => [TLBrace; TRBrace]
  | (i0, t0) :: cs' => pr_offset i0 ++ TLBrack :: t0 ++ pr_cells i0 cs' ++ [TRBrack]
  end.

Definition n_true : name := [116; 114; 117; 101].

Definition pr_set (l : list val) (pms : list pmember) : list tok :=
  match set_shape l with
  | ShEmpty => [TLBrace; TRBrace]
  | ShTrue => [TIdent n_true]
  | ShSet => TLBrace :: commas (map fst pms) ++ [TRBrace]
  | ShStr => pr_string (zsort (map (fun m => (mem_index m, mem_scalar m)) l))
  | ShBytes => pr_bytes (zsort (map (fun m => (mem_index m, mem_scalar m)) l))
  | ShArr => pr_array (zsort (combine (map mem_index l) (map part2 pms)))
  | ShDict => TLBrace :: commas (map (fun p => part1 p ++ TColon :: part2 p) pms) ++ [TRBrace]
  | ShRel ns =>
      TLBrace :: TBar :: commas (map (fun n => [TIdent n]) ns) ++ TBar ::
        commas (map (fun p => TLPar :: commas (map snd (snd p)) ++ [TRPar]) pms) ++ [TRBrace]
  end.

Fixpoint pr (v : val) : list tok :=
  match v with
  | VNum n => pr_num n
  | VTup l =>
      pr_tuple ((fix go (l : list (name * val)) : pattrs :=
                   match l with [] => [] | (n, x) :: l' => (n, pr x) :: go l' end) l)
  | VSet l =>
      pr_set l
        ((fix gm (l : list val) : list pmember :=
            match l with
            | [] => []
            | m :: l' =>
                (match m with
                 | VTup a =>
                     let ps := (fix go (a : list (name * val)) : pattrs :=
                                  match a with [] => [] | (n, x) :: a' => (n, pr x) :: go a' end) a in
                     (pr_tuple ps, ps)
                 | _ => (pr m, [])
                 end) :: gm l'
            end) l)
  end.

(* the same, said with map *)
Definition pr_attrs (a : list (name * val)) : pattrs := map (fun p => (fst p, pr (snd p))) a.
Definition pr_member (m : val) : pmember :=
  match m with VTup a => (pr m, pr_attrs a) | _ => (pr m, []) end.

(* ---------- which values the theorem speaks about ---------- *)
(* names that are the UTF-8 encoding of a rune string (every Go string that came from source text) *)
Definition name_ok (n : name) : bool := zl_eq (utf8_enc (utf8_dec n)) n.

Definition is_int (v : val) : bool := match v with VNum (NInt _) => true | _ => false end.
Definition is_rune (v : val) : bool := match v with VNum (NInt c) => valid_rune c | _ => false end.
Definition is_byte (v : val) : bool := match v with VNum (NInt c) => (0 <=? c) && (c <=? 255) | _ => false end.

(* NewTuple specialises (@, @char|@byte|@item) tuples with unchecked assertions and truncation
   (open findings KF-C05-03, KF-C01-03, KF-C02-02, KF-C10-19) *)
Definition sugar_ok (l : list (name * val)) : bool :=
  match l with
  | [(n1, k); (n2, x)] =>
      if name_eqb n1 n_at then
        if name_eqb n2 n_char then is_int k && is_rune x
        else if name_eqb n2 n_byte then is_int k && is_byte x
        else if name_eqb n2 n_item then is_int k
        else true
      else true
  | _ => true
  end.

(* a hand-written (@neg: (@neg: x)) reports the kind of x and cannot be ordered (KF-C06-01) *)
Definition nested_neg (l : list (name * val)) : bool :=
  match l with
  | [(n, VTup [(n', _)])] => name_eqb n n_neg && name_eqb n' n_neg
  | _ => false
  end.

Fixpoint increasing (step1 : bool) (l : list Z) : bool :=
  match l with
  | a :: (b :: _) as r => (if step1 then b =? a + 1 else a <? b) && increasing step1 r
  | _ => true
  end.

Definition mem_key (m : val) : val := match m with VTup ((_, k) :: _) => k | _ => VSet [] end.
Fixpoint keys_distinct (ks : list val) : bool :=
  match ks with
  | [] => true
  | k :: r => negb (existsb (veqb k) r) && keys_distinct r
  end.

(* [all]: the whole intended domain (what the correspondence check uses as its guard);
   without it the sequence representations (strings, byte arrays, arrays) are left out:
   that is the part the proved theorem covers so far. *)
Definition set_ok_gen (all : bool) (l : list val) : bool :=
  match set_shape l with
  | ShStr | ShBytes => all && increasing true (map fst (zsort (map (fun m => (mem_index m, mem_scalar m)) l)))
  | ShArr => all && increasing false (map fst (zsort (map (fun m => (mem_index m, tt)) l)))
  | ShDict => keys_distinct (map (fun m => norm (mem_key m)) l)
  | ShRel ns => match ns with [] => false | _ => true end
  | _ => true
  end.

Fixpoint printable_gen (all : bool) (v : val) : bool :=
  match v with
  | VNum _ => true
  | VTup l =>
      sugar_ok l && negb (nested_neg l) &&
      (fix go (l : list (name * val)) : bool :=
         match l with [] => true | (n, x) :: l' => name_ok n && printable_gen all x && go l' end) l
  | VSet l =>
      set_ok_gen all l &&
      (fix go (l : list val) : bool :=
         match l with [] => true | m :: l' => printable_gen all m && go l' end) l
  end.

(* every value outside the open findings *)
Definition printable_all : val -> bool := printable_gen true.
(* ... and without a string, byte array or array anywhere inside *)
Definition set_ok : list val -> bool := set_ok_gen false.
Definition printable : val -> bool := printable_gen false.

(* ---------- tokens to bytes: the spacing the Format methods write ---------- *)
Fixpoint digits_aux (fuel : nat) (z : Z) (acc : list Z) : list Z :=
  match fuel with
  | O => acc
  | S f => let acc' := (48 + z mod 10) :: acc in
           if z <? 10 then acc' else digits_aux f (z / 10) acc'
  end.
Definition digits (z : Z) : list Z := digits_aux (S (Z.to_nat (Z.log2 z))) z [].
(* strconv.FormatFloat(f, 'G', -1, 64): the shortest digits; exponent form d.dddE+XX from 10^6 up
   (numbers of the model are never below 10^-4 in magnitude unless zero) *)
Fixpoint strip0 (rev_ds : list Z) : list Z :=
  match rev_ds with
  | 48 :: r => strip0 r
  | _ => rev_ds
  end.
Definition exp_form (ds : list Z) (e : Z) : list Z :=
  match ds with
  | [] => []
  | d :: r => d :: (match r with [] => [] | _ => 46 :: r end) ++ [69; 43] ++ (if e <? 10 then 48 :: digits e else digits e)
  end.
Definition render_num (n : num) : list Z :=
  match n with
  | NInt z =>
      if z <? 1000000 then digits z
      else exp_form (rev (strip0 (rev (digits z)))) (Z.of_nat (length (digits z)) - 1)
  | NHalf z =>
      if z <? 1000000 then digits z ++ [46; 53]
      else exp_form (digits z ++ [53]) (Z.of_nat (length (digits z)) - 1)
  end.

(* the second | of a relation heading is followed by a space *)
Fixpoint render_from (bar_open : bool) (ts : list tok) : list Z :=
  match ts with
  | [] => []
  | t :: ts' =>
      match t with
      | TNum n => render_num n ++ render_from bar_open ts'
      | TMinus => 45 :: render_from bar_open ts'
      | TBsl => 92 :: render_from bar_open ts'
      | TStr s => utf8_enc (repr_str s) ++ render_from bar_open ts'
      | TIdent n => n ++ render_from bar_open ts'
      | TLPar => 40 :: render_from bar_open ts'
      | TRPar => 41 :: render_from bar_open ts'
      | TLBrace => 123 :: render_from bar_open ts'
      | TRBrace => 125 :: render_from bar_open ts'
      | TLBrack => 91 :: render_from bar_open ts'
      | TRBrack => 93 :: render_from bar_open ts'
      | TLBytes => 60 :: 60 :: render_from bar_open ts'
      | TRBytes => 62 :: 62 :: render_from bar_open ts'
      | TComma => 44 :: 32 :: render_from bar_open ts'
      | TColon => 58 :: 32 :: render_from bar_open ts'
      | TBar => if bar_open then 124 :: 32 :: render_from false ts' else 124 :: render_from true ts'
      end
  end.
Definition render (ts : list tok) : list Z := render_from false ts.

(* fu.Repr *)
Definition print (w : val) : list Z := render (pr w).
