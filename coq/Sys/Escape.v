(* Printer and parser of string contents (property C12):
   rel/value_repr.go reprEscape  and  syntax/parse_string.go parseArraiStringFragment.
   Strings are lists of runes (Z); UTF-8 encoding of runes >= 128 passes through
   both sides unchanged and is not modelled (trusted: Go's %c and strings.Builder). *)
From Arrai Require Import Base.Val.

Definition hexdigit (d : Z) : Z := if d <? 10 then 48 + d else 87 + d.   (* 0-9, a-f *)

(* reprEscapes: the control characters that have a letter escape *)
Definition letter_escape (c : Z) : option Z :=
  if c =? 7 then Some 97         (* \a *)
  else if c =? 8 then Some 98    (* \b *)
  else if c =? 27 then Some 101  (* \e *)
  else if c =? 12 then Some 102  (* \f *)
  else if c =? 10 then Some 110  (* \n *)
  else if c =? 13 then Some 114  (* \r *)
  else if c =? 9 then Some 116   (* \t *)
  else if c =? 11 then Some 118  (* \v *)
  else None.

Definition enc1 (delim c : Z) : list Z :=
  if (c =? 92) || (c =? delim) then [92; c]
  else if 32 <=? c then [c]
  else match letter_escape c with
       | Some l => [92; l]
       | None => [92; 120; hexdigit (c / 16); hexdigit (c mod 16)]
       end.

(* the body between the delimiters *)
Definition encode_body (delim : Z) (s : list Z) : list Z := flat_map (enc1 delim) s.
Definition encode (delim : Z) (s : list Z) : list Z := delim :: encode_body delim s ++ [delim].

(* reprStr chooses the delimiter *)
Definition choose_delim (s : list Z) : Z := if existsb (Z.eqb 39) s then 34 else 39.
Definition repr_str (s : list Z) : list Z := encode (choose_delim s) s.

Definition hexval (c : Z) : option Z :=
  if (48 <=? c) && (c <=? 57) then Some (c - 48)
  else if (97 <=? c) && (c <=? 102) then Some (c - 87)
  else if (65 <=? c) && (c <=? 70) then Some (c - 55)
  else None.

Definition letter_unescape (l : Z) : option Z :=
  if l =? 97 then Some 7 else if l =? 98 then Some 8 else if l =? 101 then Some 27
  else if l =? 102 then Some 12 else if l =? 110 then Some 10 else if l =? 114 then Some 13
  else if l =? 116 then Some 9 else if l =? 118 then Some 11
  else if l =? 92 then Some 92 else if l =? 39 then Some 39 else if l =? 34 then Some 34
  else None.

(* parseArraiStringFragment on the body (\u, \U, octal and \i are not produced by
   the printer; they are decoded by the implementation but left out here: None) *)
Fixpoint decode_body (s : list Z) : option (list Z) :=
  match s with
  | [] => Some []
  | c :: rest =>
      if c =? 92 then
        match rest with
        | l :: rest' =>
            if l =? 120 then
              match rest' with
              | h1 :: h2 :: rest'' =>
                  match hexval h1, hexval h2, decode_body rest'' with
                  | Some a, Some b, Some r => Some ((16 * a + b) :: r)
                  | _, _, _ => None
                  end
              | _ => None
              end
            else match letter_unescape l, decode_body rest' with
                 | Some x, Some r => Some (x :: r)
                 | _, _ => None
                 end
        | [] => None
        end
      else match decode_body rest with Some r => Some (c :: r) | None => None end
  end.

(* the STR token: a delimiter, a body without an unescaped delimiter, the delimiter *)
Definition decode (text : list Z) : option (list Z) :=
  match text with
  | d :: rest =>
      match rev rest with
      | d' :: body_rev => if (d =? d') && ((d =? 39) || (d =? 34)) then decode_body (rev body_rev) else None
      | [] => None
      end
  | [] => None
  end.
