(* Model of translate/{translator,to_arrai,from_arrai}.go as used by
   //encoding.json and //encoding.yaml (property C13).

   `json` is the document after encoding/json.Unmarshal (or yaml.Unmarshal of a
   JSON-compatible document): a Go map has distinct keys and no order, so an
   object is kept as an association list sorted by key (`jwf`).  Strings are
   lists of code points.  Numbers are the model's integers and half-integers.

   `rv` is the part of the Go representation the translators switch on: the
   type switch of FromArrai distinguishes rel.String, rel.Array, rel.Dict,
   *rel.GenericTuple, EmptySet and "any other rel.Set", so the model keeps
   exactly these apart (with offsets and holes, which the encoders drop). *)
From Arrai Require Import Base.Val Sys.Outcome.

Definition str := list Z.   (* code points; a negative rune inside a rel.String is a hole *)

Inductive json :=
| JNull
| JBool (b : bool)
| JNum (n : num)
| JStr (s : str)
| JArr (l : list json)
| JObj (m : list (str * json)).

Inductive rv :=
| RNum (n : num)
| RTup (attrs : list (str * rv))            (* any rel.Tuple; names sorted, distinct; [] is () *)
| REmpty                                     (* rel.EmptySet: {}, "", [], false *)
| RTrue                                      (* rel.TrueSet {()} *)
| RStr (off : Z) (s : list Z)                (* rel.String, non-empty *)
| RBytes (off : Z) (b : list Z)              (* rel.Bytes, non-empty *)
| RArr (off : Z) (items : list (option rv))  (* rel.Array, non-empty; None is a hole *)
| RDict (multi : bool) (es : list (rv * rv)) (* rel.Dict, non-empty; multi: some key holds several values *)
| RSet (generic : bool) (elems : list rv)    (* any other set (GenericSet when generic, else Relation/UnionSet),
                                                members in rel.ValueLess order *)
| RFn.                                       (* closures and native functions (rel.Set in Go) *)

Record jquirks := {
  (* from_arrai.go `case rel.Set: if t.strict { return map[string]interface{}{} }`:
     every set that is not a string/array/dict ({1,2}, true, bytes, functions)
     silently encodes as {} ; repaired: error *)
  q_json_strict_set_to_object : bool;
  (* from_arrai.go `v.String()` / arrFromArrai over ArrayEnumerator: offsets of
     strings and arrays are dropped, array holes skipped, string holes become
     U+FFFD, silently; repaired: error *)
  q_json_offsets_holes_dropped : bool;
  (* objFromArraiDict -> DictEnumerator.Current on a multi-valued key: panic; repaired: error *)
  q_json_multi_dict_panic : bool;
  (* objFromArraiDict `keydata.(string)`: the key goes through FromArrai and an
     unchecked assertion: {"":1} (key is the empty set) and {1:2} panic,
     {(s:"a"):1} silently becomes {"a":1}; repaired: a string key or the empty
     string key, anything else an error *)
  q_json_key_unchecked : bool;
  (* strict (b: x): `b.(rel.GenericSet).IsTrue()`: (b: 1) panics, (b: {1}) is true; repaired: error *)
  q_json_b_unchecked : bool;
  (* strict (a: x) accepts any set and orders it: (a: {2,1}) encodes as [1,2]; repaired: error *)
  q_json_a_set_as_array : bool
}.
Definition jquirks_off :=
  {| q_json_strict_set_to_object := false; q_json_offsets_holes_dropped := false;
     q_json_multi_dict_panic := false; q_json_key_unchecked := false;
     q_json_b_unchecked := false; q_json_a_set_as_array := false |}.
Definition jquirks_cur :=
  {| q_json_strict_set_to_object := true; q_json_offsets_holes_dropped := true;
     q_json_multi_dict_panic := true; q_json_key_unchecked := true;
     q_json_b_unchecked := true; q_json_a_set_as_array := true |}.

Fixpoint name_eqb (a b : str) : bool :=
  match a, b with
  | [], [] => true
  | x :: a', y :: b' => (x =? y) && name_eqb a' b'
  | _, _ => false
  end.

Definition n_a : str := [97].
Definition n_b : str := [98].
Definition n_s : str := [115].

(* rel.NewString / rel.NewArray / rel.NewBool *)
Definition rstr (s : str) : rv := match s with [] => REmpty | _ => RStr 0 s end.
Definition rarr (l : list rv) : rv := match l with [] => REmpty | _ => RArr 0 (map Some l) end.
Definition rbool (b : bool) : rv := if b then RTrue else REmpty.
Definition tagged (strict : bool) (tag : str) (v : rv) : rv := if strict then RTup [(tag, v)] else v.

(* ---------- ToArrai ---------- *)
Fixpoint to_arrai (strict : bool) (j : json) : rv :=
  match j with
  | JNull => RTup []
  | JBool b => tagged strict n_b (rbool b)
  | JNum n => RNum n
  | JStr s => tagged strict n_s (rstr s)
  | JArr l => tagged strict n_a (rarr (map (to_arrai strict) l))
  | JObj m =>
      (* objToArrai: a SetBuilder of dict entries; no entries give the empty set *)
      match m with
      | [] => REmpty
      | _ => RDict false (map (fun kv => (rstr (fst kv), to_arrai strict (snd kv))) m)
      end
  end.

(* ---------- FromArrai ---------- *)

(* a Go map[string]interface{} as a sorted association list *)
Fixpoint jput (k : str) (v : json) (m : list (str * json)) : list (str * json) :=
  match m with
  | [] => [(k, v)]
  | (k', v') :: m' =>
      match name_cmp k k' with
      | Lt => (k, v) :: m
      | Eq => (k, v) :: m'
      | Gt => (k', v') :: jput k v m'
      end
  end.

Definition has_hole (s : list Z) : bool := existsb (fun c => c <? 0) s.
Definition replacement : Z := 65533.   (* string([]rune{-1}) is U+FFFD *)

(* rel.String.String() *)
Definition go_string (q : jquirks) (off : Z) (s : list Z) : res str :=
  if q_json_offsets_holes_dropped q
  then Ok (map (fun c => if c <? 0 then replacement else c) s)
  else if (off =? 0) && negb (has_hole s) then Ok s else Err.

(* TupleBuilder.Finish specialises (@, @char|@byte|@item|@value) pairs; these
   are not *GenericTuple and fall to FromArrai's default case. *)
Definition special_second (n : str) : bool :=
  name_eqb n n_char || name_eqb n n_byte || name_eqb n n_item || name_eqb n n_value.
Definition special_tuple (attrs : list (str * rv)) : bool :=
  match attrs with
  | [(n1, _); (n2, _)] => name_eqb n1 n_at && special_second n2
  | _ => false
  end.

Fixpoint from_arrai (q : jquirks) (strict : bool) (r : rv) {struct r} : res json :=
  match r with
  | RNum n => Ok (JNum n)
  | RStr off s => rmap JStr (go_string q off s)
  | RTup attrs =>
      if special_tuple attrs then Err
      else
      match attrs with
      | [] => Ok JNull
      | (n, x) :: rest =>
          if negb strict then
            (* objFromArraiTuple *)
            rmap JObj
              ((fix go (l : list (str * rv)) : res (list (str * json)) :=
                  match l with
                  | [] => Ok []
                  | (k, v) :: l' =>
                      bind (from_arrai q strict v) (fun jv =>
                      bind (go l') (fun m => Ok (jput k jv m)))
                  end) attrs)
          else
          match rest with
          | _ :: _ => Err
          | [] =>
              if name_eqb n n_a then
                match x with
                | REmpty => Ok (JArr [])
                | RArr off items =>
                    if q_json_offsets_holes_dropped q || (off =? 0) then
                      rmap JArr
                        ((fix go (l : list (option rv)) : res (list json) :=
                            match l with
                            | [] => Ok []
                            | None :: l' => if q_json_offsets_holes_dropped q then go l' else Err
                            | Some y :: l' =>
                                bind (from_arrai q strict y) (fun jy =>
                                bind (go l') (fun js => Ok (jy :: js)))
                            end) items)
                    else Err
                | RSet _ elems =>
                    if q_json_a_set_as_array q then
                      rmap JArr
                        ((fix go (l : list rv) : res (list json) :=
                            match l with
                            | [] => Ok []
                            | y :: l' =>
                                bind (from_arrai q strict y) (fun jy =>
                                bind (go l') (fun js => Ok (jy :: js)))
                            end) elems)
                    else Err
                | RTrue => if q_json_a_set_as_array q then Ok (JArr [JNull]) else Err
                | RStr _ _ | RBytes _ _ | RDict _ _ => Err     (* members are special tuples *)
                | RFn => OutOfModel
                | RNum _ | RTup _ => Err                       (* "must be a set" *)
                end
              else if name_eqb n n_s then
                match x with
                | REmpty => Ok (JStr [])
                | RStr off s => rmap JStr (go_string q off s)
                | _ => Err
                end
              else if name_eqb n n_b then
                match x with
                | REmpty => Ok (JBool false)
                | RTrue => Ok (JBool true)
                | RSet true _ => if q_json_b_unchecked q then Ok (JBool true) else Err
                | _ => if q_json_b_unchecked q then Panic else Err
                end
              else Err
          end
      end
  | RArr off items =>
      if q_json_offsets_holes_dropped q || (off =? 0) then
        rmap JArr
          ((fix go (l : list (option rv)) : res (list json) :=
              match l with
              | [] => Ok []
              | None :: l' => if q_json_offsets_holes_dropped q then go l' else Err
              | Some y :: l' =>
                  bind (from_arrai q strict y) (fun jy =>
                  bind (go l') (fun js => Ok (jy :: js)))
              end) items)
      else Err
  | RDict multi es =>
      if multi then (if q_json_multi_dict_panic q then Panic else Err)
      else
        rmap JObj
          ((fix go (l : list (rv * rv)) : res (list (str * json)) :=
              match l with
              | [] => Ok []
              | (k, v) :: l' =>
                  bind (if q_json_key_unchecked q
                        then match from_arrai q strict k with
                             | Ok (JStr s) => Ok s
                             | Ok _ => Panic                    (* keydata.(string) *)
                             | Err => Err | Panic => Panic | OutOfModel => OutOfModel
                             end
                        else match k with
                             | RStr off s => go_string q off s
                             | REmpty => Ok []
                             | _ => Err
                             end) (fun ks =>
                  bind (from_arrai q strict v) (fun jv =>
                  bind (go l') (fun m => Ok (jput ks jv m))))
              end) es)
  | REmpty => if strict then Ok (JObj []) else Ok JNull
  | RTrue =>
      if strict then (if q_json_strict_set_to_object q then Ok (JObj []) else Err)
      else Ok (JBool true)
  | RSet _ elems =>
      if strict then (if q_json_strict_set_to_object q then Ok (JObj []) else Err)
      else
        rmap JArr
          ((fix go (l : list rv) : res (list json) :=
              match l with
              | [] => Ok []
              | y :: l' =>
                  bind (from_arrai q strict y) (fun jy =>
                  bind (go l') (fun js => Ok (jy :: js)))
              end) elems)
  | RBytes _ _ =>
      if strict then (if q_json_strict_set_to_object q then Ok (JObj []) else Err)
      else Err                                              (* members are byte tuples *)
  | RFn =>
      if strict then (if q_json_strict_set_to_object q then Ok (JObj []) else Err)
      else OutOfModel
  end.

(* ---------- well-formed documents ---------- *)
Fixpoint keys_sorted {A} (m : list (str * A)) : bool :=
  match m with
  | [] => true
  | (k, _) :: m' =>
      match m' with
      | [] => true
      | (k', _) :: _ => match name_cmp k k' with Lt => keys_sorted m' | _ => false end
      end
  end.

(* code points are non-negative (a negative rune is a rel.String hole) *)
Definition str_ok (s : str) : bool := negb (has_hole s).

Fixpoint jwf (j : json) : bool :=
  match j with
  | JStr s => str_ok s
  | JArr l => forallb jwf l
  | JObj m => keys_sorted m && forallb (fun kv => str_ok (fst kv) && jwf (snd kv)) m
  | _ => true
  end.

Fixpoint no_empty_key (j : json) : bool :=
  match j with
  | JArr l => forallb no_empty_key l
  | JObj m => forallb (fun kv => match fst kv with [] => false | _ => no_empty_key (snd kv) end) m
  | _ => true
  end.

(* ---------- the documented lossy mode (strict = false) ---------- *)
(* what one decode/encode pass does to a document: "", [], {}, false all meet
   in the empty set and come back as null *)
Fixpoint collapse (j : json) : json :=
  match j with
  | JBool false => JNull
  | JStr [] => JNull
  | JArr [] => JNull
  | JObj [] => JNull
  | JArr l => JArr (map collapse l)
  | JObj m => JObj (map (fun kv => (fst kv, collapse (snd kv))) m)
  | _ => j
  end.

Fixpoint no_empties (j : json) : bool :=
  match j with
  | JBool false | JStr [] | JArr [] | JObj [] => false
  | JArr l => forallb no_empties l
  | JObj m => forallb (fun kv => no_empties (snd kv)) m
  | _ => true
  end.

(* ---------- canonical representatives and the encoder's leniency ---------- *)
Definition key_str (k : rv) : str := match k with RStr _ s => s | _ => [] end.

(* Representation invariants of the Go constructors (strings, byte arrays,
   arrays and dicts are never empty) plus the model's choice of representative
   for an unordered Go dict: entries listed in the order of their string keys. *)
Fixpoint rv_canon (r : rv) : bool :=
  match r with
  | RStr _ s => match s with [] => false | _ => true end
  | RBytes _ b => match b with [] => false | _ => true end
  | RArr _ items =>
      match items with [] => false | _ => true end &&
      forallb (fun o => match o with Some x => rv_canon x | None => true end) items
  | RDict _ es =>
      match es with [] => false | _ => true end &&
      keys_sorted (map (fun kv => (key_str (fst kv), snd kv)) es) &&
      forallb (fun kv => rv_canon (fst kv) && rv_canon (snd kv)) es
  | RTup attrs => forallb (fun kv => rv_canon (snd kv)) attrs
  | RSet _ elems => forallb rv_canon elems
  | _ => true
  end.

(* The strict encoder also accepts untagged strings and arrays ("abc" encodes
   like (s: "abc"), [1] like (a: [1])), at any depth.  `tag` is the tagged value
   such an input stands for; on decoded documents it is the identity. *)
Definition tag_items (tag : rv -> rv) (items : list (option rv)) : list (option rv) :=
  map (fun o => match o with Some x => Some (tag x) | None => None end) items.

Fixpoint tag (r : rv) : rv :=
  match r with
  | RStr off s => RTup [(n_s, RStr off s)]
  | RArr off items => RTup [(n_a, RArr off (tag_items tag items))]
  | RTup attrs =>
      match attrs with
      | [(n, RArr off items)] =>
          if name_eqb n n_a then RTup [(n, RArr off (tag_items tag items))] else r
      | _ => r
      end
  | RDict multi es => RDict multi (map (fun kv => (fst kv, tag (snd kv))) es)
  | _ => r
  end.
