(* A reader for exactly the literal sub-language the value printer emits (property C12):
   recursive descent over the tokens of Sys/Printer.v, with fuel.  It follows what
   syntax/arrai.wbnf + syntax/compile.go do on these forms:

     NUM, - NUM                              numbers (unary minus on a literal)
     [-] NUM \ STR | [..] | <<..>>           offset sequences (the \ operator)
     STR                                     strings;  <<STR>>, <<NUM, ..>> byte arrays
     [x, , y]                                arrays, an empty cell is a hole
     (), (name: x, ..)                       tuples, name = IDENT or STR
     {}, {x, ..}                             sets (members collapse, order irrelevant)
     {k: x, ..}                              dicts; a repeated key is rejected (NewDictExpr)
     {|a, b| (x, y), ..}                     relations; a row of the wrong width is rejected
     true                                    the only identifier the printer writes as a value

   Everything else is [None]: not in the printer's image. *)
From Arrai Require Import Base.Val Spec.SetAlg Eval.Interp Rep.Less Sys.Escape Sys.Printer.

Definition rres (A : Type) := option (A * list tok).

Definition rd_name (t : tok) : option name :=
  match t with
  | TIdent n => Some n
  | TStr s => Some (utf8_enc s)
  | _ => None
  end.

Definition entry (p : val * val) : val := VTup [(n_at, fst p); (n_value, snd p)].
Definition mk_set (ms : list val) : val := VSet (vsort ms).

(* | a, b | *)
Fixpoint rd_names (ts : list tok) : rres (list name) :=
  match ts with
  | TIdent a :: TComma :: ts' =>
      match rd_names ts' with Some (ns, r) => Some (a :: ns, r) | None => None end
  | TIdent a :: TBar :: ts' => Some ([a], ts')
  | _ => None
  end.

(* 1, 2 >> *)
Fixpoint rd_bytes (ts : list tok) : rres (list Z) :=
  match ts with
  | TNum (NInt b) :: TComma :: ts' =>
      if (0 <=? b) && (b <=? 255) then
        match rd_bytes ts' with Some (bs, r) => Some (b :: bs, r) | None => None end
      else None
  | TNum (NInt b) :: TRBytes :: ts' => if (0 <=? b) && (b <=? 255) then Some ([b], ts') else None
  | _ => None
  end.

Section Lists.
Variable rv : list tok -> rres val.      (* the reader of one value *)

(* x, x, x   - stops before the first token that is not a comma *)
Fixpoint rd_vals (n : nat) (ts : list tok) : rres (list val) :=
  match n with
  | O => None
  | S n' =>
      match rv ts with
      | Some (x, TComma :: ts') =>
          match rd_vals n' ts' with Some (xs, r) => Some (x :: xs, r) | None => None end
      | Some (x, ts') => Some ([x], ts')
      | None => None
      end
  end.

(* k: x, k: x *)
Fixpoint rd_pairs (n : nat) (ts : list tok) : rres (list (val * val)) :=
  match n with
  | O => None
  | S n' =>
      match rv ts with
      | Some (k, TColon :: ts1) =>
          match rv ts1 with
          | Some (x, TComma :: ts2) =>
              match rd_pairs n' ts2 with Some (ps, r) => Some ((k, x) :: ps, r) | None => None end
          | Some (x, ts2) => Some ([(k, x)], ts2)
          | None => None
          end
      | _ => None
      end
  end.

(* name: x, name: x *)
Fixpoint rd_attrs (n : nat) (ts : list tok) : rres (list (name * val)) :=
  match n with
  | O => None
  | S n' =>
      match ts with
      | t :: TColon :: ts1 =>
          match rd_name t, rv ts1 with
          | Some nm, Some (x, TComma :: ts2) =>
              match rd_attrs n' ts2 with Some (ps, r) => Some ((nm, x) :: ps, r) | None => None end
          | Some nm, Some (x, ts2) => Some ([(nm, x)], ts2)
          | _, _ => None
          end
      | _ => None
      end
  end.

(* (x, y), (x, y) *)
Fixpoint rd_rows (n : nat) (ns : list name) (ts : list tok) : rres (list val) :=
  match n with
  | O => None
  | S n' =>
      match ts with
      | TLPar :: ts1 =>
          match rd_vals (length ts1) ts1 with
          | Some (vs, TRPar :: ts2) =>
              if Nat.eqb (length vs) (length ns) then
                let row := VTup (asort (combine ns vs)) in
                match ts2 with
                | TComma :: ts3 =>
                    match rd_rows n' ns ts3 with Some (rs, r) => Some (row :: rs, r) | None => None end
                | _ => Some ([row], ts2)
                end
              else None
          | _ => None
          end
      | _ => None
      end
  end.

(* the cells after the one at index i, up to and including ] *)
Fixpoint rd_cells (n : nat) (i : Z) (ts : list tok) : rres (list val) :=
  match n with
  | O => None
  | S n' =>
      match ts with
      | TRBrack :: ts' => Some ([], ts')
      | TComma :: TComma :: ts' => rd_cells n' (i + 1) (TComma :: ts')
      | TComma :: ts' =>
          match rv ts' with
          | Some (x, ts'') =>
              match rd_cells n' (i + 1) ts'' with
              | Some (ms, r) => Some (vpair n_item (vint (i + 1)) x :: ms, r)
              | None => None
              end
          | None => None
          end
      | _ => None
      end
  end.

(* [ x ...  with x present *)
Definition rd_arr_gen (off : Z) (ts : list tok) : rres val :=
  match rv ts with
  | Some (x, ts'') =>
      match rd_cells (length ts'') off ts'' with
      | Some (ms, r) => Some (mk_set (vpair n_item (vint off) x :: ms), r)
      | None => None
      end
  | None => None
  end.

(* what may follow an offset: a string, a byte array, an array *)
Definition rd_seq (off : Z) (ts : list tok) : rres val :=
  match ts with
  | TStr s :: ts' => Some (mk_set (vseq_from n_char off (map vint s)), ts')
  | TLBytes :: TStr s :: TRBytes :: ts' => Some (mk_set (vseq_from n_byte off (map vint (utf8_enc s))), ts')
  | TLBytes :: ts' =>
      match rd_bytes ts' with
      | Some (bs, r) => Some (mk_set (vseq_from n_byte off (map vint bs)), r)
      | None => None
      end
  | TLBrack :: TRBrack :: ts' => Some (VSet [], ts')
  | TLBrack :: ts' => rd_arr_gen off ts'
  | _ => None
  end.

(* after ( *)
Definition rd_paren_gen (ts : list tok) : rres val :=
  match rd_attrs (length ts) ts with
  | Some (ps, TRPar :: r) => Some (VTup (asort ps), r)
  | _ => None
  end.
Definition rd_paren (ts : list tok) : rres val :=
  match ts with
  | TRPar :: ts' => Some (VTup [], ts')
  | _ => rd_paren_gen ts
  end.

(* after { *)
Definition rd_brace_gen (ts : list tok) : rres val :=
  match rv ts with
  | Some (_, TColon :: _) =>
      match rd_pairs (length ts) ts with
      | Some (ps, TRBrace :: r) =>
          if keys_distinct (map fst ps) then Some (mk_set (map entry ps), r) else None
      | _ => None
      end
  | Some _ =>
      match rd_vals (length ts) ts with
      | Some (ms, TRBrace :: r) => Some (mk_set ms, r)
      | _ => None
      end
  | None => None
  end.
Definition rd_rel (ts : list tok) : rres val :=
  match rd_names ts with
  | Some (ns, ts1) =>
      match rd_rows (length ts1) ns ts1 with
      | Some (rows, TRBrace :: r) => Some (mk_set rows, r)
      | _ => None
      end
  | None => None
  end.
Definition rd_brace (ts : list tok) : rres val :=
  match ts with
  | TRBrace :: ts' => Some (VSet [], ts')
  | TBar :: ts' => rd_rel ts'
  | _ => rd_brace_gen ts
  end.

End Lists.

Fixpoint rd (fuel : nat) (ts : list tok) : rres val :=
  match fuel with
  | O => None
  | S f =>
      match ts with
      | TMinus :: TNum (NInt o) :: TBsl :: ts' => rd_seq (rd f) (- o) ts'
      | TNum (NInt o) :: TBsl :: ts' => rd_seq (rd f) o ts'
      | TMinus :: TNum x :: ts' => Some (VNum (num_neg x), ts')
      | TNum x :: ts' => Some (VNum x, ts')
      | TStr _ :: _ | TLBrack :: _ | TLBytes :: _ => rd_seq (rd f) 0 ts
      | TIdent nm :: ts' => if name_eqb nm n_true then Some (vtrue, ts') else None
      | TLPar :: ts' => rd_paren (rd f) ts'
      | TLBrace :: ts' => rd_brace (rd f) ts'
      | _ => None
      end
  end.

(* a whole token sequence *)
Definition read_tokens (ts : list tok) : option (val * list tok) := rd (length ts) ts.
Definition read_all (ts : list tok) : option val :=
  match read_tokens ts with Some (v, []) => Some v | _ => None end.
