(* The grouping of binary operators, read off the running parser and compiler (Gen/Prec.v,
   regenerated on every check), is a precedence order, and it is the documented one for
   arithmetic (property C08: inserting the parentheses implied by the documented precedence
   and associativity is inert). *)
From Arrai Require Import Base.Val Gen.Prec.

Fixpoint zlist_eqb (a b : list Z) : bool :=
  match a, b with
  | [], [] => true
  | x :: a', y :: b' => Z.eqb x y && zlist_eqb a' b'
  | _, _ => false
  end.

Definition table := list (list Z * list Z * Z).

Fixpoint lookup (t : table) (o1 o2 : list Z) : Z :=
  match t with
  | [] => 0
  | (a, b, g) :: t' => if zlist_eqb a o1 && zlist_eqb b o2 then g else lookup t' o1 o2
  end.

Fixpoint dedup (l : list (list Z)) : list (list Z) :=
  match l with
  | [] => []
  | x :: l' => if existsb (zlist_eqb x) l' then dedup l' else x :: dedup l'
  end.
Definition ops_of (t : table) : list (list Z) := dedup (map (fun r => fst (fst r)) t).

(* a binds tighter than b: `x b y a z` groups to the right and `x a y b z` to the left *)
Definition tighter (t : table) (a b : list Z) : bool :=
  Z.eqb (lookup t b a) 2 && Z.eqb (lookup t a b) 1.
Definition level (t : table) (o : list Z) : nat := length (filter (tighter t o) (ops_of t)).

(* every observed grouping is the one the levels imply; operators of one level agree on their associativity *)
Definition consistent (t : table) : bool :=
  forallb (fun r =>
    let '(a, b, g) := r in
    if Z.eqb g 0 then true
    else if (level t b <? level t a)%nat then Z.eqb g 1
    else if (level t a <? level t b)%nat then Z.eqb g 2
    else Z.eqb g (lookup t a a) && Z.eqb g (lookup t b b)) t.

(* docs/docs/lang/arithmetic.md: ^ binds tighter than * / %, which bind tighter than + -;
   + - * / % associate to the left, ^ to the right *)
Definition arith_level (o : list Z) : option nat :=
  match o with
  | [94] => Some 3%nat
  | [42] | [47] | [37] => Some 2%nat
  | [43] | [45] => Some 1%nat
  | _ => None
  end.
Definition arith_ops : list (list Z) := [[43]; [45]; [42]; [47]; [37]; [94]].
Definition documented (o1 o2 : list Z) : Z :=
  match arith_level o1, arith_level o2 with
  | Some a, Some b => if (b <? a)%nat then 1 else if (a <? b)%nat then 2 else if (a =? 3)%nat then 2 else 1
  | _, _ => 0
  end.
Definition arithmetic_as_documented (t : table) : bool :=
  forallb (fun o1 => forallb (fun o2 => Z.eqb (lookup t o1 o2) (documented o1 o2)) arith_ops) arith_ops.

(* the grouping of a three-operand chain by the table: true = ((x o1 y) o2 z) *)
Definition groups_left (t : table) (o1 o2 : list Z) : bool := Z.eqb (lookup t o1 o2) 1.

(* re-checked by coqc against the table the code produces now *)
Definition current_table_is_a_precedence_order : consistent prec_table = true := eq_refl.
Definition current_arithmetic_is_as_documented : arithmetic_as_documented prec_table = true := eq_refl.

(* what the second obligation says, pair by pair *)
Lemma arithmetic_pairs t :
  arithmetic_as_documented t = true ->
  forall o1 o2, In o1 arith_ops -> In o2 arith_ops -> lookup t o1 o2 = documented o1 o2.
Proof.
  unfold arithmetic_as_documented. intros H o1 o2 H1 H2.
  rewrite forallb_forall in H. specialize (H o1 H1). rewrite forallb_forall in H. apply Z.eqb_eq, H, H2.
Qed.
