(* Model of rel/json.go: jsonEscape / jsonUnescape, the format in which the
   server (cmd/arrai/serve_grpc.go, serve_ws.go) sends a value to an observer
   (cmd/arrai/observe.go), property C13.  Values are the `rv` of Sys/Json.v,
   wire documents the `json` of Sys/Json.v (encoding/json text is outside). *)
From Arrai Require Import Base.Val Sys.Outcome Sys.Json.

Record wquirks := {
  (* jsonEscape `case Set`: every set that is not an array (a plain set, a dict,
     a byte array) is written as {"{||}": [members]} exactly like an array, and
     jsonUnescape always builds an array from it; off: reject *)
  q_wire_sets_become_arrays : bool;
  (* jsonEscape `case String` / `case Array`: offsets are not written, array
     holes are skipped, string holes become U+FFFD; off: reject *)
  q_wire_offsets_holes_lost : bool;
  (* jsonUnescape has no case for nil: a null anywhere in a document panics; off: error *)
  q_wire_null_panics : bool
}.
Definition wquirks_off := {| q_wire_sets_become_arrays := false; q_wire_offsets_holes_lost := false; q_wire_null_panics := false |}.
Definition wquirks_cur := {| q_wire_sets_become_arrays := true; q_wire_offsets_holes_lost := true; q_wire_null_panics := true |}.

Definition n_setkey : str := [123; 124; 124; 125].   (* "{||}" *)

Definition wire_string (q : wquirks) (off : Z) (s : list Z) : res str :=
  if q_wire_offsets_holes_lost q
  then Ok (map (fun c => if c <? 0 then replacement else c) s)
  else if (off =? 0) && negb (has_hole s) then Ok s else Err.

Definition set_doc (js : list json) : json := JObj [(n_setkey, JArr js)].

Fixpoint wire_escape (q : wquirks) (r : rv) {struct r} : res json :=
  match r with
  | RFn => OutOfModel                          (* functions are not data values *)
  | RNum n => Ok (JNum n)
  | RTup attrs =>
      rmap JObj
        ((fix go (l : list (str * rv)) : res (list (str * json)) :=
            match l with
            | [] => Ok []
            | (k, v) :: l' =>
                bind (wire_escape q v) (fun jv => bind (go l') (fun m => Ok (jput k jv m)))
            end) attrs)
  | RStr off s => rmap JStr (wire_string q off s)
  | REmpty => Ok (JBool false)
  | RArr off items =>
      if q_wire_offsets_holes_lost q || (off =? 0) then
        rmap set_doc
          ((fix go (l : list (option rv)) : res (list json) :=
              match l with
              | [] => Ok []
              | None :: l' => if q_wire_offsets_holes_lost q then go l' else Err
              | Some y :: l' => bind (wire_escape q y) (fun jy => bind (go l') (fun js => Ok (jy :: js)))
              end) items)
      else Err
  | RTrue => Ok (JBool true)
  | RSet _ elems =>
      if q_wire_sets_become_arrays q then
        rmap set_doc
          ((fix go (l : list rv) : res (list json) :=
              match l with
              | [] => Ok []
              | y :: l' => bind (wire_escape q y) (fun jy => bind (go l') (fun js => Ok (jy :: js)))
              end) elems)
      else Err
  | RBytes off b =>
      if q_wire_sets_become_arrays q then
        Ok (set_doc ((fix go (i : Z) (l : list Z) : list json :=
                        match l with
                        | [] => []
                        | x :: l' => JObj [(n_at, JNum (NInt i)); (n_byte, JNum (NInt x))] :: go (i + 1) l'
                        end) off b))
      else Err
  | RDict _ es =>
      if q_wire_sets_become_arrays q then
        rmap set_doc
          ((fix go (l : list (rv * rv)) : res (list json) :=
              match l with
              | [] => Ok []
              | (k, v) :: l' =>
                  bind (wire_escape q k) (fun jk =>
                  bind (wire_escape q v) (fun jv =>
                  bind (go l') (fun js => Ok (JObj [(n_at, jk); (n_value, jv)] :: js))))
              end) es)
      else Err
  end.

(* TupleBuilder.Finish: a two-attribute tuple (@, @char|@byte|@item) converts
   the index (and the char/byte) with unchecked `.(Number)` assertions *)
Definition is_num (r : rv) : bool := match r with RNum _ => true | _ => false end.
Definition tuple_finish (attrs : list (str * rv)) : res rv :=
  match attrs with
  | [(n1, i); (n2, x)] =>
      if name_eqb n1 n_at then
        if name_eqb n2 n_char || name_eqb n2 n_byte
        then (if is_num i && is_num x then Ok (RTup attrs) else Panic)
        else if name_eqb n2 n_item then (if is_num i then Ok (RTup attrs) else Panic)
        else Ok (RTup attrs)
      else Ok (RTup attrs)
  | _ => Ok (RTup attrs)
  end.

Fixpoint wire_unescape (q : wquirks) (j : json) {struct j} : res rv :=
  let items :=
    fix go (l : list json) : res (list rv) :=
      match l with
      | [] => Ok []
      | x :: l' => bind (wire_unescape q x) (fun rx => bind (go l') (fun rs => Ok (rx :: rs)))
      end in
  match j with
  | JNull => if q_wire_null_panics q then Panic else Err
  | JBool b => Ok (rbool b)
  | JNum n => Ok (RNum n)
  | JStr s => Ok (rstr s)
  | JArr l => rmap rarr (items l)
  | JObj m =>
      if match m with [(k, _)] => name_eqb k n_setkey | _ => false end then
        match m with
        | [(_, JArr l)] => rmap rarr (items l)
        | _ => Err                              (* x must be array in {"{||}": x} *)
        end
      else if existsb (fun kv => name_eqb (fst kv) n_setkey) m then Err   (* reserved name *)
      else
        bind ((fix go (l : list (str * json)) : res (list (str * rv)) :=
                 match l with
                 | [] => Ok []
                 | (k, v) :: l' =>
                     bind (wire_unescape q v) (fun rv0 => bind (go l') (fun rs => Ok ((k, rv0) :: rs)))
                 end) m) tuple_finish
  end.

(* the values the wire format carries faithfully *)
Fixpoint wire_safe (r : rv) : bool :=
  match r with
  | RNum _ | REmpty | RTrue => true
  | RStr off s => (off =? 0) && negb (has_hole s) && match s with [] => false | _ => true end
  | RTup attrs =>
      keys_sorted attrs && negb (existsb (fun kv => name_eqb (fst kv) n_setkey) attrs) &&
      is_ok (tuple_finish attrs) && forallb (fun kv => wire_safe (snd kv)) attrs
  | RArr off items =>
      (off =? 0) && match items with [] => false | _ => true end &&
      forallb (fun o => match o with Some x => wire_safe x | None => false end) items
  | _ => false
  end.
