(* The small path algebra the bundle model (Sys/Bundle.v, property C15) needs.
   A path is a list of segments, a segment a list of bytes.  The string-level
   operations of the Go code that matter for the bundle mapping are modelled
   on the joined byte string: strings.TrimPrefix, path.Join/Clean (through
   split-at-'/' + clean), filepath.Ext.

   Go functions modelled (unix only):
     path.Clean / filepath.Clean on a rooted path      -> clean_abs
     path.Clean on a relative path                     -> clean_rel
     strings.TrimPrefix                                -> str_trim_prefix
     filepath.Ext(p) (last element only)               -> path_ext
     `if filepath.Ext(p) == "" { p += ".arrai" }`      -> add_arrai *)
From Coq Require Export List ZArith Bool Lia.
Export ListNotations.
Open Scope Z_scope.

Definition seg := list Z.
Definition path := list seg.

Fixpoint seg_eqb (a b : seg) : bool :=
  match a, b with
  | [], [] => true
  | x :: a', y :: b' => (x =? y) && seg_eqb a' b'
  | _, _ => false
  end.

Fixpoint path_eqb (a b : path) : bool :=
  match a, b with
  | [], [] => true
  | x :: a', y :: b' => seg_eqb x y && path_eqb a' b'
  | _, _ => false
  end.

Definition c_slash : Z := 47.
Definition c_dot : Z := 46.

Definition s_dot : seg := [46].
Definition s_dotdot : seg := [46; 46].
Definition s_gomod : seg := [103; 111; 46; 109; 111; 100].                 (* go.mod *)
Definition s_arrai_ext : seg := [46; 97; 114; 114; 97; 105].               (* .arrai *)
Definition s_module : seg := [109; 111; 100; 117; 108; 101].               (* module *)
Definition s_unnamed : seg := [117; 110; 110; 97; 109; 101; 100].          (* unnamed *)
Definition s_config : seg := [99; 111; 110; 102; 105; 103; 46; 97; 114; 114; 97; 105]. (* config.arrai *)

Definition slashfree (s : seg) : bool := forallb (fun c => negb (c =? c_slash)) s.

(* an ordinary path element: not "", ".", "..", no '/' *)
Definition is_name (s : seg) : bool :=
  negb (seg_eqb s []) && negb (seg_eqb s s_dot) && negb (seg_eqb s s_dotdot) && slashfree s.

Definition names (p : path) : bool := forallb is_name p.

(* ---- split / join at '/' ---- *)
Fixpoint split_on (c : Z) (l : list Z) (cur : seg) : list seg :=
  match l with
  | [] => [cur]
  | x :: r => if x =? c then cur :: split_on c r [] else split_on c r (cur ++ [x])
  end.

Definition split_slash (l : list Z) : list seg := split_on c_slash l [].

(* "/a/b" ; the root directory is "/" *)
Definition join_rel (p : path) : list Z := concat (map (fun s => c_slash :: s) p).
Definition join_str (p : path) : list Z := match p with [] => [c_slash] | _ => join_rel p end.

(* strings.TrimPrefix *)
Fixpoint str_has_prefix (s pre : list Z) : bool :=
  match pre, s with
  | [], _ => true
  | p :: pre', x :: s' => (p =? x) && str_has_prefix s' pre'
  | _ :: _, [] => false
  end.
Definition str_trim_prefix (s pre : list Z) : list Z :=
  if str_has_prefix s pre then skipn (length pre) s else s.

(* ---- Clean ---- *)
(* rooted: ".." at the root stays at the root *)
Fixpoint clean_abs_aux (stack : list seg) (l : list seg) : path :=
  match l with
  | [] => rev stack
  | s :: r =>
      if seg_eqb s [] || seg_eqb s s_dot then clean_abs_aux stack r
      else if seg_eqb s s_dotdot then clean_abs_aux (tl stack) r
      else clean_abs_aux (s :: stack) r
  end.
Definition clean_abs (l : list seg) : path := clean_abs_aux [] l.

(* relative: returns the number of leading ".." that could not be cancelled
   and the remaining elements ("" stands for the Go result ".") *)
Fixpoint clean_rel_aux (ups : nat) (stack : list seg) (l : list seg) : nat * path :=
  match l with
  | [] => (ups, rev stack)
  | s :: r =>
      if seg_eqb s [] || seg_eqb s s_dot then clean_rel_aux ups stack r
      else if seg_eqb s s_dotdot then
        match stack with
        | [] => clean_rel_aux (S ups) [] r
        | _ :: st => clean_rel_aux ups st r
        end
      else clean_rel_aux ups (s :: stack) r
  end.
Definition clean_rel (l : list seg) : nat * path := clean_rel_aux O [] l.

(* ---- extensions ---- *)
Fixpoint ext_aux (l : seg) (cur : option seg) : option seg :=
  match l with
  | [] => cur
  | c :: r => if c =? c_dot then ext_aux r (Some [c_dot])
              else ext_aux r (match cur with Some e => Some (e ++ [c]) | None => None end)
  end.
Definition ext_of (s : seg) : seg := match ext_aux s None with Some e => e | None => [] end.
Definition last_seg (p : path) : seg := last p [].
Definition path_ext (p : path) : seg := ext_of (last_seg p).
Definition add_arrai (p : path) : path :=
  if seg_eqb (path_ext p) [] then removelast p ++ [last_seg p ++ s_arrai_ext] else p.

Definition starts_dotdot (s : seg) : bool :=
  match s with a :: b :: _ => (a =? c_dot) && (b =? c_dot) | _ => false end.
Definition ends_dotdot (s : seg) : bool := starts_dotdot (rev s).
Definition is_ws (c : Z) : bool := (c =? 32) || (c =? 9) || (c =? 10).
Definition ws_edge (s : seg) : bool :=
  match s with [] => false | c :: _ => is_ws c || is_ws (last s 0) end.
