(* Outcomes of modelled Go functions (property C13): a value, an error return,
   a Go panic (modelled, never totalised away), or "outside the model" (floats
   that are not integers/half-integers below 2^53, exhausted fuel).  The
   theorems exclude OutOfModel by statement; it is never a normal-looking value. *)
From Arrai Require Import Base.Val.

Inductive res (A : Type) : Type :=
| Ok (a : A)
| Err
| Panic
| OutOfModel.
Arguments Ok {A} a.
Arguments Err {A}.
Arguments Panic {A}.
Arguments OutOfModel {A}.

Definition bind {A B} (r : res A) (f : A -> res B) : res B :=
  match r with
  | Ok a => f a
  | Err => Err
  | Panic => Panic
  | OutOfModel => OutOfModel
  end.
Definition rmap {A B} (f : A -> B) (r : res A) : res B := bind r (fun a => Ok (f a)).

Definition is_ok {A} (r : res A) : bool := match r with Ok _ => true | _ => false end.
