(* Histories of a configured codec function (property C13).

   syntax/std_encoding_json.go, std_encoding_yaml.go, std_encoding_csv.go:
   `encoder(config)` / `decoder(config)` parse the configuration tuple and
   return a native function whose closure holds the parsed configuration and
   nothing else (`func(_, value) { return jsonEncodeFnBody(value, config) }`);
   syntax/stdlib/stdlib-safe.arrai `xml.decoder` = `\config (decode: \byte ...)`
   likewise.  Every call builds its own translator, text encoder and output
   buffer, so a configured codec is a function of (configuration, document).

   `history` is the program the check runs: obtain ONE function value, apply it
   to the documents in sequence, keep every result, look at all of them at the
   end.  Definitions only; proofs in Proofs/CodecP.v. *)
From Coq Require Import List ZArith.
Import ListNotations.
From Arrai Require Import Sys.Outcome Sys.Json.

Section History.
  Context {C D R : Type}.
  Variable f : C -> D -> R.

  (* the function value obtained once from a configuration *)
  Definition configured (c : C) : D -> R := f c.

  (* one more application: the results so far stay, the new one is appended *)
  Definition hstep (g : D -> R) (acc : list R) (d : D) : list R := acc ++ [g d].

  Definition history (c : C) (ds : list D) : list R := fold_left (hstep (configured c)) ds [].
End History.

(* the JSON / YAML translators of Sys/Json.v as configured codecs: the
   configuration of the model is the strict flag (prefix, indent and escapeHTML
   only change the text layer, which is outside the model) *)
Record jcfg := { jc_quirks : jquirks; jc_strict : bool }.
Definition json_encoder (c : jcfg) (r : rv) : res json := from_arrai (jc_quirks c) (jc_strict c) r.
Definition json_decoder (strict : bool) (j : json) : rv := to_arrai strict j.
