(* Reference semantics of the arr.ai core expression language over canonical
   mathematical values (Base/Val.v): the meaning the properties C01, C02, C05,
   C08 and C09 speak about.  It is a specification interpreter: sets are sets,
   whatever representation the Go code picks.  Fuelled big-step evaluation;
   [OutOfFuel] and [Unspec] (outside the specified fragment) are distinct
   outcomes, never normal-looking values. *)
From Arrai Require Import Base.Val Spec.SetAlg.

Inductive res (A : Type) := Ok (a : A) | Err | Unspec | OutOfFuel.
Arguments Ok {A} a. Arguments Err {A}. Arguments Unspec {A}. Arguments OutOfFuel {A}.

Definition rbind {A B} (r : res A) (f : A -> res B) : res B :=
  match r with Ok a => f a | Err => Err | Unspec => Unspec | OutOfFuel => OutOfFuel end.
Notation "'do' x <- r ; k" := (rbind r (fun x => k)) (at level 200, x name, r at level 100, k at level 200).

Inductive binop := BUnion | BInter | BDiff | BSymDiff | BWith | BWithout | BConcat
                 | BAdd | BSub | BMul | BMerge | BOffset.
Inductive cmpop := CMem | CNotMem | CEq | CNe | CLt | CGt | CLe | CGe
                 | CSub | CSup | CSubEq | CSupEq | CSubSup | CSubSupEq.
Inductive unop := UNeg | UCount | UPow | UNot.
Inductive joinop := JJoin | JCompose | JCommon | JExists | JRightMatch | JLeftMatch | JRightResidue | JLeftResidue.

Inductive expr :=
| ELit (v : val)
| EVar (x : name)
| ESetE (l : list expr)
| ETupE (l : list (name * expr))
| EArrE (l : list (option expr))
| EDictE (l : list (expr * expr))
| EBin (op : binop) (a b : expr)
| ECmp (op : cmpop) (a b : expr)
| EUn (op : unop) (a : expr)
| EWhere (a f : expr)
| EDArrow (a f : expr)
| ESeqArrow (withAt : bool) (a f : expr)
| EFn (p : pat) (body : expr)
| ECall (f a : expr)
| ESafeCall (f a d : expr)
| EDot (a : expr) (n : name)
| ESafeDot (a : expr) (n : name) (d : expr)
| ELet (p : pat) (e1 e2 : expr)
| EArrow (e1 f : expr)
| EAnd (a b : expr)
| EOr (a b : expr)
| ECond (arms : list (expr * expr)) (dflt : option expr)
| ECondPat (c : expr) (arms : list (pat * expr))
| EJoin (op : joinop) (a b : expr)
| ENest (inv : bool) (names : list name) (n : name) (a : expr)
| ESingleNest (n : name) (a : expr)
| ERank (a f : expr)
with pat :=
| PVar (x : name)
| PWild
| PExpr (e : expr)
| PArr (items : list pitem)
| PTup (attrs : list (name * pitem))
| PDict (entries : list (expr * pitem))
| PSet (items : list pitem)
| PExprs (es : list expr)          (* (e1, e2, ..): the value equals one of the alternatives (rel/pattern_expr.go ExprsPattern) *)
with pitem :=
| PItem (p : pat) (fallback : option expr)
| PExtra (x : option name).

Inductive value :=
| D (v : val)
| Clos (env : list (name * value)) (p : pat) (body : expr).

Definition env := list (name * value).

Definition name_eqb (a b : name) : bool := match name_cmp a b with Eq => true | _ => false end.

Fixpoint env_get (x : name) (e : env) : option value :=
  match e with
  | [] => None
  | (y, v) :: e' => if name_eqb x y then Some v else env_get x e'
  end.

Definition as_data (v : value) : res val := match v with D d => Ok d | Clos _ _ _ => Unspec end.
Definition as_set (v : val) : res (list val) := match v with VSet l => Ok l | _ => Err end.

Fixpoint mapM {A B} (f : A -> res B) (l : list A) : res (list B) :=
  match l with
  | [] => Ok []
  | x :: l' => do y <- f x; do r <- mapM f l'; Ok (y :: r)
  end.

(* last binding of a name wins, as TupleExpr does *)
Definition build_tuple (l : list (name * val)) : val :=
  VTup (fold_left (fun acc p => ainsert p acc) l []).

Definition vitem (i : Z) (x : val) : val := vpair n_item (vint i) x.
Definition ventry (k x : val) : val := vpair n_value k x.

(* ---------- keyed collections ---------- *)

(* the kind of a keyed collection, decided by its members (canonical form: one
   representation per denotation) *)
Inductive ckind := KChar | KByte | KItem | KOther.

Definition member_kind (m : val) : option (val * name * val) := as_pair m.

Definition is_int_val (v : val) : option Z := match v with VNum (NInt z) => Some z | _ => None end.

(* all members are (@: integer, n: x) pairs for the single attribute name n *)
Definition seq_members (n : name) (l : list val) : option (list (Z * val)) :=
  fold_right (fun m acc =>
    match acc, as_pair m with
    | Some r, Some (k, n', x) =>
        match is_int_val k with
        | Some i => if name_eqb n n' then Some ((i, x) :: r) else None
        | None => None
        end
    | _, _ => None
    end) (Some []) l.

Fixpoint distinct_keys (l : list (Z * val)) : bool :=
  match l with
  | [] => true
  | (i, _) :: l' => negb (existsb (fun p => Z.eqb (fst p) i) l') && distinct_keys l'
  end.

(* an array/string/byte-array denotation: integer keys, one value per key *)
Definition as_seq (l : list val) : option (name * list (Z * val)) :=
  match l with
  | [] => None
  | m :: _ =>
      match as_pair m with
      | Some (_, n, _) =>
          if name_eqb n n_item || name_eqb n n_char || name_eqb n n_byte then
            match seq_members n l with
            | Some ps => if distinct_keys ps then Some (n, ps) else None
            | None => None
            end
          else None
      | None => None
      end
  end.

Definition valid_char (v : val) : bool :=
  match v with VNum (NInt z) => (0 <=? z) && (z <? 1114112) | _ => false end.
Definition valid_byte (v : val) : bool :=
  match v with VNum (NInt z) => (0 <=? z) && (z <? 256) | _ => false end.

(* ++ : shift every @ of b by the number of members of a *)
Definition shift_member (off : Z) (m : val) : res val :=
  match m with
  | VTup attrs =>
      match tget n_at attrs with
      | Some (VNum k) => Ok (VTup (ainsert (n_at, VNum (num_add k (NInt off))) attrs))
      | _ => Err
      end
  | _ => Err
  end.

Definition concat_sets (a b : list val) : res val :=
  do sb <- mapM (shift_member (Z.of_nat (length a))) b;
  Ok (mkset (a ++ sb)).

(* +> on tuples: right operand wins *)
Definition merge_tuples (a b : list (name * val)) : val := build_tuple (a ++ b).

Definition dict_entries (l : list val) : option (list (val * val)) :=
  fold_right (fun m acc =>
    match acc, m with
    | Some r, VTup [(n1, k); (n2, v)] =>
        if name_eqb n1 n_at && name_eqb n2 n_value then Some ((k, v) :: r) else None
    | _, _ => None
    end) (Some []) l.

(* +> on dicts: entries of the left whose key the right does not mention, plus the right *)
Definition merge_dicts (a b : list val) : res val :=
  match dict_entries a, dict_entries b with
  | Some ea, Some eb =>
      let keep := filter (fun p => negb (existsb (fun q => veqb (fst p) (fst q)) eb)) ea in
      Ok (mkset (map (fun p => ventry (fst p) (snd p)) (keep ++ eb)))
  | _, _ => Err
  end.

Definition bin_data (op : binop) (a b : val) : res val :=
  match op with
  | BUnion => do x <- as_set a; do y <- as_set b; Ok (VSet (s_union x y))
  | BInter => do x <- as_set a; do y <- as_set b; Ok (VSet (s_inter x y))
  | BDiff => do x <- as_set a; do y <- as_set b; Ok (VSet (s_diff x y))
  | BSymDiff => do x <- as_set a; do y <- as_set b; Ok (VSet (s_symdiff x y))
  | BWith => do x <- as_set a; Ok (VSet (s_with x b))
  | BWithout => do x <- as_set a; Ok (VSet (s_without x b))
  | BConcat => do x <- as_set a; do y <- as_set b; concat_sets x y
  | BAdd => match a, b with
            | VNum x, VNum y => Ok (VNum (num_add x y))
            | VTup _, VTup _ | VSet _, VSet _ => Unspec    (* deprecated uses of + *)
            | _, _ => Err
            end
  | BSub => match a, b with
            | VNum x, VNum y => Ok (VNum (num_add x (num_neg y)))
            | _, _ => Err
            end
  | BMul => match a, b with
            | VNum (NInt x), VNum (NInt y) => Ok (VNum (NInt (x * y)))
            | VNum _, VNum _ => Unspec
            | _, _ => Err
            end
  | BMerge => match a, b with
              | VTup x, VTup y => Ok (merge_tuples x y)
              | VSet [], VSet [] => Ok (VSet [])
              | VSet x, VSet y => merge_dicts x y
              | _, _ => Err
              end
  | BOffset => match a, b with
               | VNum (NInt n), VSet [] => Ok (VSet [])
               | VNum (NInt n), VSet l =>
                   match as_seq l with
                   | Some (k, ps) => Ok (mkset (map (fun p => vpair k (vint (fst p + n)) (snd p)) ps))
                   | None => match seq_members n_item l, seq_members n_char l, seq_members n_byte l with
                             | None, None, None => Err
                             | _, _, _ => Unspec       (* several values at one index *)
                             end
                   end
               | VNum (NHalf _), VSet _ => Unspec      (* non-integer offsets truncate; recorded *)
               | VNum _, _ => Err
               | _, _ => Err
               end
  end.

Definition cmp_data (op : cmpop) (a b : val) : res bool :=
  match op with
  | CMem => do y <- as_set b; Ok (vmem a y)
  | CNotMem => do y <- as_set b; Ok (negb (vmem a y))
  | CEq => Ok (veqb a b)
  | CNe => Ok (negb (veqb a b))
  | CLt => match a, b with VNum x, VNum y => Ok (num2 x <? num2 y) | _, _ => Unspec end
  | CGt => match a, b with VNum x, VNum y => Ok (num2 y <? num2 x) | _, _ => Unspec end
  | CLe => match a, b with VNum x, VNum y => Ok (num2 x <=? num2 y) | _, _ => Unspec end
  | CGe => match a, b with VNum x, VNum y => Ok (num2 y <=? num2 x) | _, _ => Unspec end
  | CSub => match a, b with VSet x, VSet y => Ok (s_subset x y) | _, _ => Unspec end
  | CSup => match a, b with VSet x, VSet y => Ok (s_subset y x) | _, _ => Unspec end
  | CSubEq => match a, b with VSet x, VSet y => Ok (s_subseteq x y) | _, _ => Unspec end
  | CSupEq => match a, b with VSet x, VSet y => Ok (s_subseteq y x) | _, _ => Unspec end
  | CSubSup => match a, b with VSet x, VSet y => Ok (s_subset x y || s_subset y x) | _, _ => Unspec end
  | CSubSupEq => match a, b with VSet x, VSet y => Ok (s_subseteq x y || s_subseteq y x) | _, _ => Unspec end
  end.

Definition un_data (op : unop) (a : val) : res val :=
  match op with
  | UNeg => match a with VNum x => Ok (VNum (num_neg x)) | _ => Unspec end
  | UCount => do x <- as_set a; Ok (vint (Z.of_nat (length x)))
  | UPow => do x <- as_set a; Ok (VSet (s_pow x))
  | UNot => Ok (vbool (negb (is_true a)))
  end.


(* ---------- relations ---------- *)

Fixpoint names_eq (a b : list name) : bool :=
  match a, b with
  | [], [] => true
  | x :: a', y :: b' => name_eqb x y && names_eq a' b'
  | _, _ => false
  end.

(* the heading of a set of tuples that all have the same attribute names *)
Definition heading (l : list val) : option (list name) :=
  match l with
  | VTup t :: r =>
      let h := map fst t in
      if forallb (fun m => match m with VTup u => names_eq (map fst u) h | _ => false end) r then Some h else None
  | _ => None
  end.

Definition name_in (n : name) (l : list name) : bool := existsb (name_eqb n) l.
Definition tproject (keep : name -> bool) (t : list (name * val)) : list (name * val) :=
  filter (fun p => keep (fst p)) t.

(* t and u agree on every common attribute *)
Definition agree (common : list name) (t u : list (name * val)) : bool :=
  forallb (fun n => match tget n t, tget n u with
                    | Some x, Some y => veqb x y
                    | _, _ => false
                    end) common.

Definition jcombine (op : joinop) (common : list name) (t u : list (name * val)) : val :=
  let notc := fun n => negb (name_in n common) in
  match op with
  | JJoin => build_tuple (t ++ u)
  | JCompose => build_tuple (tproject notc t ++ tproject notc u)
  | JCommon => VTup (tproject (fun n => name_in n common) t)
  | JExists => VTup []
  | JRightMatch => VTup u
  | JLeftMatch => VTup t
  | JRightResidue => VTup (tproject notc u)
  | JLeftResidue => VTup (tproject notc t)
  end.

(* A op B: the combinations of every pair (t, u) of A x B that agree on the common attributes *)
Definition join_data (op : joinop) (a b : list val) : res val :=
  match a, b with
  | [], _ | _, [] => Ok (VSet [])
  | _, _ =>
      match heading a, heading b with
      | Some ha, Some hb =>
          let common := filter (fun n => name_in n hb) ha in
          Ok (mkset (flat_map (fun t => match t with
                                        | VTup t1 => flat_map (fun u => match u with
                                                                        | VTup u1 => if agree common t1 u1 then [jcombine op common t1 u1] else []
                                                                        | _ => []
                                                                        end) b
                                        | _ => []
                                        end) a))
      | _, _ => Err
      end
  end.

(* A nest |names| n : one row per distinct rest-of-tuple, with the set of the projections on names *)
Definition nest_data (names : list name) (n : name) (a : list val) : res val :=
  match a with
  | [] => Ok (VSet [])
  | _ =>
      match heading a with
      | Some h =>
          if negb (forallb (fun x => name_in x h) names) then Unspec       (* the implementation panics; C10 *)
          else if name_in n (filter (fun x => negb (name_in x names)) h) then Unspec
          else
          let key := fun t => tproject (fun x => negb (name_in x names)) t in
          let grp := fun t => tproject (fun x => name_in x names) t in
          Ok (mkset (map (fun m => match m with
                                   | VTup t =>
                                       build_tuple (key t ++
                                         [(n, mkset (flat_map (fun m' => match m' with
                                                                         | VTup t' => if veqb (VTup (key t')) (VTup (key t)) then [VTup (grp t')] else []
                                                                         | _ => []
                                                                         end) a))])
                                   | x => x
                                   end) a))
      | None => Err
      end
  end.

(* A nest n : group by every other attribute and collect the values of n *)
Definition single_nest_data (n : name) (a : list val) : res val :=
  match a with
  | [] => Ok (VSet [])
  | _ =>
      match heading a with
      | Some h =>
          if negb (name_in n h) then Unspec else
          let key := fun t => tproject (fun x => negb (name_eqb x n)) t in
          Ok (mkset (map (fun m => match m with
                                   | VTup t =>
                                       build_tuple (key t ++
                                         [(n, mkset (flat_map (fun m' => match m' with
                                                                         | VTup t' => if veqb (VTup (key t')) (VTup (key t))
                                                                                      then match tget n t' with Some x => [x] | None => [] end else []
                                                                         | _ => []
                                                                         end) a))])
                                   | x => x
                                   end) a))
      | None => Err
      end
  end.

(* c(k): the values paired with k *)
Inductive callres := CROne (v : val) | CRNone | CRMany | CRNotKeyed.
Definition call_data (c : list val) (k : val) : callres :=
  match lookup_all k c with
  | None => CRNotKeyed
  | Some [] => CRNone
  | Some (v :: r) => if forallb (veqb v) r then CROne v else CRMany
  end.

Fixpoint env_matched_update (s t : env) : option env :=
  (* repeated names must agree (on values); t's bindings are added *)
  match t with
  | [] => Some s
  | (x, v) :: t' =>
      match env_get x s, v with
      | Some (D a), D b => if veqb a b then env_matched_update s t' else None
      | Some _, _ => None
      | None, _ => env_matched_update ((x, v) :: s) t'
      end
  end.

Fixpoint nth_val (i : nat) (l : list (Z * val)) : option val :=
  match l with
  | [] => None
  | (_, v) :: l' => match i with O => Some v | S k => nth_val k l' end
  end.

(* a dense zero-based array denotation, as a list *)
Definition dense_array (v : val) : option (list val) :=
  match v with
  | VSet [] => Some []
  | VSet l =>
      match seq_members n_item l with
      | Some ps => if forallb (fun p => Z.eqb (fst (fst p)) (snd p))
                        (combine ps (map Z.of_nat (seq 0 (length ps))))
                   then Some (map snd ps) else None
      | None => None
      end
  | _ => None
  end.

(* a conditional-accessor item `?x:d`: with one present, what happens to components the pattern does not name
   is documented one way (ignored, docs/docs/lang/binding.md) and implemented another for tuples (rejected):
   outside the statement *)
Definition is_fallback (it : pitem) : bool := match it with PItem _ (Some _) => true | _ => false end.

Definition count_extras (items : list pitem) : nat :=
  length (filter (fun it => match it with PExtra _ => true | PItem _ (Some _) => true | _ => false end) items).



(* one unfolding of the evaluator, over the evaluator and pattern binder of the level below *)
Definition evalF (ev : env -> expr -> res value) (bind : env -> pat -> value -> res env)
                 (rho : env) (e : expr) : res value :=
    let evd := fun rho e => do v <- ev rho e; as_data v in
    let apply := fun (f : value) (a : value) =>
      match f with
      | Clos cenv p body =>
          do sc <- bind cenv p a; ev (sc ++ cenv) body
      | D (VSet c) =>
          do k <- as_data a;
          match call_data c k with
          | CROne v => Ok (D v)
          | CRNotKeyed => Unspec      (* not a set of (@, x) pairs: outside the statement *)
          | _ => Err
          end
      | D _ => Err
      end in
    match e with
    | ELit v => Ok (D (norm v))      (* a literal denotes its canonical form *)
    | EVar x => match env_get x rho with Some v => Ok v | None => Err end
    | ESetE l => do vs <- mapM (evd rho) l; Ok (D (mkset vs))
    | ETupE l => do vs <- mapM (fun p => do v <- evd rho (snd p); Ok (fst p, v)) l; Ok (D (build_tuple vs))
    | EArrE l =>
        do vs <- mapM (fun o => match o with
                                | Some x => do v <- evd rho x; Ok (Some v)
                                | None => Ok None
                                end) l;
        Ok (D (mkset (fold_right (fun p acc => match snd p with Some v => vitem (fst p) v :: acc | None => acc end)
                                 [] (combine (map Z.of_nat (seq 0 (length vs))) vs))))
    | EDictE l =>
        do es <- mapM (fun p => do k <- evd rho (fst p); do v <- evd rho (snd p); Ok (k, v)) l;
        let dup := (fix dup (es : list (val * val)) : bool :=
           match es with [] => false | (k, _) :: r => existsb (fun q => veqb k (fst q)) r || dup r end) es in
        if dup then Err else Ok (D (mkset (map (fun p => ventry (fst p) (snd p)) es)))
    | EBin op a b => do x <- evd rho a; do y <- evd rho b; do r <- bin_data op x y; Ok (D r)
    | ECmp op a b => do x <- evd rho a; do y <- evd rho b; do r <- cmp_data op x y; Ok (D (vbool r))
    | EUn op a => do x <- evd rho a; do r <- un_data op x; Ok (D r)
    | EWhere a f =>
        do x <- evd rho a; do fv <- ev rho f; do l <- as_set x;
        match fv with
        | Clos _ _ _ =>
            do keep <- mapM (fun m => do r <- apply fv (D m); do d <- as_data r; Ok (is_true d)) l;
            Ok (D (VSet (map fst (filter snd (combine l keep)))))
        | _ => Err
        end
    | EDArrow a f =>
        do x <- evd rho a; do fv <- ev rho f; do l <- as_set x;
        match fv with
        | Clos _ _ _ => do ys <- mapM (fun m => do r <- apply fv (D m); as_data r) l; Ok (D (mkset ys))
        | _ => Err
        end
    | ESeqArrow withAt a f =>
        do x <- evd rho a; do fv <- ev rho f;
        match x with
        | VSet l =>
            let call := fun (k v : val) =>
              if withAt then (do g <- apply fv (D k); do r <- apply g (D v); as_data r)
              else (do r <- apply fv (D v); as_data r) in
            match l with
            | [] => Unspec
            | _ =>
              do ms <- mapM (fun m => match as_pair m with
                                      | Some (k, n, v) => do v' <- call k v; Ok (k, n, v')
                                      | None => match m with
                                                | VTup attrs => match tget n_at attrs with Some _ => Unspec | None => Err end
                                                | _ => Err
                                                end
                                      end) l;
              match as_seq l with
              | Some (n, _) =>
                  if name_eqb n n_char && negb (forallb (fun t => valid_char (snd t)) ms) then Err
                  else if name_eqb n n_byte && negb (forallb (fun t => valid_byte (snd t)) ms) then Err
                  else Ok (D (mkset (map (fun t => build_tuple [(n_at, fst (fst t)); (snd (fst t), snd t)]) ms)))
              | None => Ok (D (mkset (map (fun t => build_tuple [(n_at, fst (fst t)); (snd (fst t), snd t)]) ms)))
              end
            end
        | _ => Err
        end
    | EFn p body => Ok (Clos rho p body)
    | ECall f a => do fv <- ev rho f; do av <- ev rho a; apply fv av
    | ESafeCall f a d =>
        do fv <- ev rho f; do av <- ev rho a;
        match fv with
        | D (VSet c) =>
            do k <- as_data av;
            match call_data c k with
            | CROne v => Ok (D v)
            | CRNone => ev rho d
            | CRNotKeyed => Unspec
            | CRMany => Err
            end
        | _ => apply fv av
        end
    | EDot a n =>
        do x <- evd rho a;
        match x with
        | VTup attrs => match tget n attrs with Some v => Ok (D v) | None => Err end
        | VSet _ => Unspec
        | _ => Err
        end
    | ESafeDot a n d =>
        do x <- evd rho a;
        match x with
        | VTup attrs => match tget n attrs with Some v => Ok (D v) | None => ev rho d end
        | VSet _ => Unspec
        | _ => Err
        end
    | ELet p e1 e2 => do v <- ev rho e1; do sc <- bind rho p v; ev (sc ++ rho) e2
    | EArrow e1 f => do v <- ev rho e1; do fv <- ev rho f; apply fv v
    | EAnd a b => do x <- evd rho a; if is_true x then ev rho b else Ok (D x)
    | EOr a b => do x <- evd rho a; if is_true x then Ok (D x) else ev rho b
    | ECond arms dflt =>
        (fix go (arms : list (expr * expr)) : res value :=
           match arms with
           | [] => match dflt with Some d => ev rho d | None => Ok (D (VSet [])) end
           | (c, v) :: arms' => do x <- evd rho c; if is_true x then ev rho v else go arms'
           end) arms
    | ECondPat c arms =>
        do v <- ev rho c;
        (fix go (arms : list (pat * expr)) : res value :=
           match arms with
           | [] => Ok (D (VSet []))
           | (p, body) :: arms' =>
               match bind rho p v with
               | Ok sc => ev (sc ++ rho) body
               | Err => go arms'
               | Unspec => Unspec
               | OutOfFuel => OutOfFuel
               end
           end) arms
    | EJoin op a b =>
        do x <- evd rho a; do y <- evd rho b;
        match x, y with
        | VSet la, VSet lb => do r <- join_data op la lb; Ok (D r)
        | _, _ => Err
        end
    | ENest inv names n a =>
        do x <- evd rho a;
        match x with
        | VSet l =>
            let names' := if inv then match heading l with
                                      | Some h => filter (fun y => negb (name_in y names)) h
                                      | None => names
                                      end else names in
            (* nest ~|all attributes| is refused by the implementation on purpose ("nest attrs cannot be on all of relation attrs") *)
            if inv && (match names' with [] => true | _ => false end) && (match l with [] => false | _ => true end) then Unspec else
            do r <- nest_data names' n l; Ok (D r)
        | _ => Err
        end
    | ESingleNest n a =>
        do x <- evd rho a;
        match x with
        | VSet l => do r <- single_nest_data n l; Ok (D r)
        | _ => Err
        end
    | ERank a f =>
        do x <- evd rho a; do fv <- ev rho f;
        match x, fv with
        | VSet [], _ => Ok (D (VSet []))
        | VSet l, Clos _ _ _ =>
            (* every row gets, for each key attribute, the number of rows with a strictly smaller key *)
            do keyed <- mapM (fun m => do k <- apply fv (D m); do kd <- as_data k;
                                       match m, kd with
                                       | VTup t, VTup ks => Ok (t, ks)
                                       | _, _ => Unspec
                                       end) l;
            do rows <- mapM (fun tk =>
                     do ranks <- mapM (fun kv =>
                         match snd kv with
                         | VNum x =>
                             do smaller <- mapM (fun tk' => match tget (fst kv) (snd tk') with
                                                            | Some (VNum y) => Ok (num2 y <? num2 x)
                                                            | _ => Unspec
                                                            end) keyed;
                             Ok (fst kv, vint (Z.of_nat (length (filter (fun b => b) smaller))))
                         | _ => Unspec
                         end) (snd tk);
                     Ok (build_tuple (fst tk ++ ranks))) keyed;
            Ok (D (mkset rows))
        | VSet _, _ => Unspec
        | _, _ => Err
        end
    end.

Definition bindF (ev : env -> expr -> res value) (bind : env -> pat -> value -> res env)
                 (rho : env) (p : pat) (v : value) : res env :=
    let bind_item := fun (acc : env) (it : pat) (x : value) =>
      do sc <- bind rho it x;
      match env_matched_update acc sc with Some r => Ok r | None => Err end in
    match p with
    | PVar x => Ok [(x, v)]
    | PWild => Ok []
    | PExpr e =>
        do w <- ev rho e; do a <- as_data w; do b <- as_data v;
        if veqb a b then Ok [] else Err
    | PArr items =>
        do d <- as_data v;
        match dense_array d with
        | None => Err
        | Some xs =>
            if (1 <? count_extras items)%nat then Err else
            (* items before the extra take from the front, items after it from the back *)
            let has_fb := existsb is_fallback items in
            (fix go (items : list pitem) (xs : list val) (acc : env) : res env :=
               match items with
               | [] => match xs with [] => Ok acc | _ => if has_fb then Unspec else Err end
               | PExtra o :: rest =>
                   let nrest := length rest in
                   if (length xs <? nrest)%nat then Err else
                   let take := (length xs - nrest)%nat in
                   let mid := firstn take xs in
                   do acc' <- match o with
                              | Some x => bind_item acc (PVar x) (D (mkset (map (fun p => vitem (fst p) (snd p))
                                                   (combine (map Z.of_nat (seq 0 (length mid))) mid))))
                              | None => Ok acc
                              end;
                   go rest (skipn take xs) acc'
               | PItem q fb :: rest =>
                   match xs with
                   | x :: xs' => do acc' <- bind_item acc q (D x); go rest xs' acc'
                   | [] => match fb with
                           | Some d => do w <- ev rho d; do acc' <- bind_item acc q w; go rest [] acc'
                           | None => Err
                           end
                   end
               end) items xs []
        end
    | PTup attrs =>
        do d <- as_data v;
        match d with
        | VTup tv =>
            if (1 <? length (filter (fun a => match snd a with PExtra _ => true | _ => false end) attrs))%nat then Err else
            let has_fb := existsb (fun a => is_fallback (snd a)) attrs in
            (fix go (attrs : list (name * pitem)) (remaining : list (name * val)) (extra : option (option name)) (acc : env) : res env :=
               match attrs with
               | [] =>
                   match extra with
                   | Some o => match o with
                               | Some x => bind_item acc (PVar x) (D (VTup remaining))
                               | None => Ok acc
                               end
                   | None => match remaining with [] => Ok acc | _ => if has_fb then Unspec else Err end
                   end
               | (_, PExtra o) :: rest => go rest remaining (Some o) acc
               | (n, PItem q fb) :: rest =>
                   match tget n tv with
                   | Some x => do acc' <- bind_item acc q (D x); go rest (tdel n remaining) extra acc'
                   | None => match fb with
                             | Some dflt => do w <- ev rho dflt; do acc' <- bind_item acc q w; go rest remaining extra acc'
                             | None => Err
                             end
                   end
               end) attrs tv None []
        | _ => Err
        end
    | PDict entries =>
        do d <- as_data v;
        match d with
        | VSet l =>
            match dict_entries l with
            | None => Err
            | Some es =>
              if (1 <? length (filter (fun a => match snd a with PExtra _ => true | _ => false end) entries))%nat then Err else
              let has_fb := existsb (fun a => is_fallback (snd a)) entries in
              (fix go (entries : list (expr * pitem)) (remaining : list (val * val)) (extra : option (option name)) (acc : env) : res env :=
                 match entries with
                 | [] =>
                     match extra with
                     | Some o => match o with
                                 | Some x => bind_item acc (PVar x) (D (mkset (map (fun p => ventry (fst p) (snd p)) remaining)))
                                 | None => Ok acc
                                 end
                     | None => match remaining with [] => Ok acc | _ => if has_fb then Unspec else Err end
                     end
                 | (_, PExtra o) :: rest => go rest remaining (Some o) acc
                 | (ke, PItem q fb) :: rest =>
                     do kw <- ev rho ke; do k <- as_data kw;
                     match filter (fun p => veqb k (fst p)) remaining with
                     | [(_, x)] => do acc' <- bind_item acc q (D x);
                                   go rest (filter (fun p => negb (veqb k (fst p))) remaining) extra acc'
                     | [] => match fb with
                             | Some dflt => do w <- ev rho dflt; do acc' <- bind_item acc q w; go rest remaining extra acc'
                             | None => Err
                             end
                     | _ => Unspec     (* several values under one key *)
                     end
                 end) entries es None []
            end
        | _ => Err
        end
    | PSet items =>
        do d <- as_data v;
        match d with
        | VSet l =>
            (* literal members are removed; then either ...rest takes the remainder,
               or a single name takes the single remaining member *)
            (fix go (items : list pitem) (remaining : list val) (binder : option pitem) : res env :=
               match items with
               | [] =>
                   match binder with
                   | None => match remaining with [] => Ok [] | _ => Err end
                   | Some (PExtra (Some x)) => Ok [(x, D (VSet remaining))]
                   | Some (PExtra None) => Ok []
                   | Some (PItem q _) => match remaining with [x] => bind rho q (D x) | _ => Err end
                   end
               | PItem (PExpr e) _ :: rest =>
                   do w <- ev rho e; do a <- as_data w;
                   if vmem a remaining then go rest (s_without remaining a) binder else Err
               | it :: rest =>
                   match binder with
                   | None => go rest remaining (Some it)
                   | Some _ => Err
                   end
               end) items l None
        | _ => Err
        end
    | PExprs es =>
        (* ExprsPattern.Bind: the alternatives are evaluated in order in the enclosing scope; the first equal one matches *)
        do b <- as_data v;
        (fix go (es : list expr) : res env :=
           match es with
           | [] => Err
           | e :: es' => do w <- ev rho e; do a <- as_data w; if veqb a b then Ok [] else go es'
           end) es
    end.

Fixpoint eval (fuel : nat) (rho : env) (e : expr) {struct fuel} : res value :=
  match fuel with
  | O => OutOfFuel
  | S fuel' => evalF (eval fuel') (bind_pat fuel') rho e
  end
with bind_pat (fuel : nat) (rho : env) (p : pat) (v : value) {struct fuel} : res env :=
  match fuel with
  | O => OutOfFuel
  | S fuel' => bindF (eval fuel') (bind_pat fuel') rho p v
  end.

Definition run (fuel : nat) (e : expr) : res value := eval fuel [] e.
Definition run_data (fuel : nat) (e : expr) : res val := do v <- run fuel e; as_data v.
