(* Property C09, general statement: what it means for a pattern, read as an expression under an
   assignment of its names, to REBUILD a value - for patterns nested to any depth.

   [rebuilds rho s p v]: substituting the names of p by their values in s (names -> s(name), `_` -> any
   value, literal / (expr) -> its value under the enclosing scope rho, array / tuple / dict / set patterns
   -> the corresponding constructor applied to the rebuilt components, `...rest` -> splice of s(rest))
   yields v.  Repeated names are consistent by construction: s is one assignment.

   Definitions only (the relation and the loops of Eval/Interp.v bindF named as top-level functions, so
   that Proofs/PatGenP.v can reason about them; `bindF_*` there proves they ARE the loops of bindF by
   reflexivity). *)
From Arrai Require Import Base.Val Spec.SetAlg Eval.Interp.

(* ---------- side condition: no conditional-accessor item `x?:d` anywhere in the pattern ---------- *)

Fixpoint pat_nofb (p : pat) : bool :=
  match p with
  | PVar _ | PWild | PExpr _ | PExprs _ => true
  | PArr items => forallb item_nofb items
  | PTup attrs => forallb (fun a => item_nofb (snd a)) attrs
  | PDict entries => forallb (fun a => item_nofb (snd a)) entries
  | PSet items => forallb item_nofb items
  end
with item_nofb (it : pitem) : bool :=
  match it with
  | PItem q None => pat_nofb q
  | PItem _ (Some _) => false
  | PExtra _ => true
  end.

(* the names a pattern binds, with repetitions *)
Fixpoint pat_names (p : pat) : list name :=
  match p with
  | PVar x => [x]
  | PWild | PExpr _ | PExprs _ => []
  | PArr items => flat_map item_names items
  | PTup attrs => flat_map (fun a => item_names (snd a)) attrs
  | PDict entries => flat_map (fun a => item_names (snd a)) entries
  | PSet items => flat_map item_names items
  end
with item_names (it : pitem) : list name :=
  match it with
  | PItem q _ => pat_names q
  | PExtra (Some x) => [x]
  | PExtra None => []
  end.

(* nesting depth *)
Fixpoint pat_depth (p : pat) : nat :=
  match p with
  | PVar _ | PWild | PExpr _ | PExprs _ => O
  | PArr items => S (list_max (map item_depth items))
  | PTup attrs => S (list_max (map (fun a => item_depth (snd a)) attrs))
  | PDict entries => S (list_max (map (fun a => item_depth (snd a)) entries))
  | PSet items => S (list_max (map item_depth items))
  end
with item_depth (it : pitem) : nat :=
  match it with
  | PItem q _ => pat_depth q
  | PExtra _ => O
  end.

(* ---------- the pieces of "rebuilding" ---------- *)

(* an expression of the pattern has a value (with some fuel; the value does not depend on it, Proofs/FuelP.v) *)
Definition evals (rho : env) (e : expr) (w : value) : Prop := exists n, eval n rho e = Ok w.

(* the array [m0, m1, ..] as a value *)
Definition arr_val (m : list val) : val :=
  mkset (map (fun p : Z * val => vitem (fst p) (snd p)) (combine (map Z.of_nat (seq 0 (length m))) m)).

(* the dict with these entries as a value *)
Definition dict_val (es : list (val * val)) : val := mkset (map (fun p => ventry (fst p) (snd p)) es).

(* `...r` stands for the value w: r is assigned w; a bare `...` stands for anything *)
Definition rest_rb (s : env) (o : option name) (w : value) : Prop :=
  match o with Some r => env_get r s = Some w | None => True end.

Definition is_plain (it : pitem) : bool := match it with PItem _ None => true | _ => false end.
Definition is_lit (it : pitem) : bool := match it with PItem (PExpr _) _ => true | _ => false end.

(* what is left of a tuple after the named attributes are taken out *)
Definition remaining_attrs (names : list name) (tv : list (name * val)) : list (name * val) :=
  fold_left (fun rem n => tdel n rem) names tv.

Section Levels.
Variable R : pat -> value -> Prop.      (* "the sub-pattern rebuilds the component" *)
Variables (rho s : env).

(* an item without fallback against one component *)
Inductive item_rb : pitem -> val -> Prop :=
| IRB q x : R q (D x) -> item_rb (PItem q None) x.

(* [p1, .., pk] = [x1, .., xk]    or    [p1, .., pk, ...r, q1, .., qm] = [x1..xk] ++ r ++ [y1..ym] *)
Inductive arr_rb : list pitem -> list val -> Prop :=
| ARPlain items xs : Forall2 item_rb items xs -> arr_rb items xs
| ARRest pre o suf a m b :
    Forall2 item_rb pre a -> Forall2 item_rb suf b -> rest_rb s o (D (arr_val m)) ->
    arr_rb (pre ++ PExtra o :: suf) (a ++ m ++ b).

(* (n: p) against the attribute n of the tuple *)
Inductive attr_rb (tv : list (name * val)) : name * pitem -> Prop :=
| ATR n q x : tget n tv = Some x -> R q (D x) -> attr_rb tv (n, PItem q None).

(* (n1: p1, .., nk: pk): these attributes and no other;  (n1: p1, .., ...r, ..): r is the tuple of the others *)
Inductive tup_rb : list (name * pitem) -> list (name * val) -> Prop :=
| TRPlain attrs tv :
    Forall (attr_rb tv) attrs -> remaining_attrs (map fst attrs) tv = [] -> tup_rb attrs tv
| TRRest pre n0 o suf tv :
    Forall (attr_rb tv) (pre ++ suf) ->
    rest_rb s o (D (VTup (remaining_attrs (map fst (pre ++ suf)) tv))) ->
    tup_rb (pre ++ (n0, PExtra o) :: suf) tv.

(* {k1: p1, .., kn: pn} taken out of the entries one key after the other: each key has exactly one entry
   among those still there; [dict_keys_rb ents before after] *)
Inductive dict_keys_rb : list (expr * pitem) -> list (val * val) -> list (val * val) -> Prop :=
| DKNil rem : dict_keys_rb [] rem rem
| DKCons ke q ents rem rem' k x :
    evals rho ke (D k) ->
    filter (fun p : val * val => veqb k (fst p)) rem = [(k, x)] ->
    R q (D x) ->
    dict_keys_rb ents (filter (fun p : val * val => negb (veqb k (fst p))) rem) rem' ->
    dict_keys_rb ((ke, PItem q None) :: ents) rem rem'.

Inductive dict_rb : list (expr * pitem) -> list (val * val) -> Prop :=
| DRPlain ents es : dict_keys_rb ents es [] -> dict_rb ents es
| DRRest pre ke0 o suf es rem :
    dict_keys_rb (pre ++ suf) es rem -> rest_rb s o (D (dict_val rem)) ->
    dict_rb (pre ++ (ke0, PExtra o) :: suf) es.

(* the literal members of a set pattern taken out of the set one after the other (so no two of them
   denote the same value); [set_lits_rb items before after] *)
Inductive set_lits_rb : list pitem -> list val -> list val -> Prop :=
| SLNil rem : set_lits_rb [] rem rem
| SLCons e fb its a rem rem' :
    evals rho e (D a) -> In a rem -> set_lits_rb its (s_without rem a) rem' ->
    set_lits_rb (PItem (PExpr e) fb :: its) rem rem'.

(* the one item of a set pattern that is not a literal: ...r is the set of the other members, a pattern is
   the single other member *)
Inductive binder_rb : pitem -> list val -> Prop :=
| BRRest o rem : rest_rb s o (D (VSet rem)) -> binder_rb (PExtra o) rem
| BROne q x : R q (D x) -> binder_rb (PItem q None) [x].

Inductive set_rb : list pitem -> list val -> Prop :=
| SRExact items l : set_lits_rb items l [] -> set_rb items l
| SRBinder pre it suf l rem :
    is_lit it = false -> set_lits_rb (pre ++ suf) l rem -> binder_rb it rem ->
    set_rb (pre ++ it :: suf) l.

End Levels.

(* ---------- the relation, for every nesting depth ---------- *)

Inductive rebuilds (rho s : env) : pat -> value -> Prop :=
| RVar x v : env_get x s = Some v -> rebuilds rho s (PVar x) v
| RWild v : rebuilds rho s PWild v
| RExpr e a : evals rho e (D a) -> rebuilds rho s (PExpr e) (D a)
| RExprs pre e suf a :        (* (e1, .., e, ..): the value of one alternative, those before it having values *)
    Forall (fun e' => exists a', evals rho e' (D a')) pre -> evals rho e (D a) ->
    rebuilds rho s (PExprs (pre ++ e :: suf)) (D a)
| RArr items d xs :
    dense_array d = Some xs -> arr_rb (rebuilds rho s) s items xs -> rebuilds rho s (PArr items) (D d)
| RTup attrs tv :
    tup_rb (rebuilds rho s) s attrs tv -> rebuilds rho s (PTup attrs) (D (VTup tv))
| RDict entries l es :
    dict_entries l = Some es -> dict_rb (rebuilds rho s) rho s entries es -> rebuilds rho s (PDict entries) (D (VSet l))
| RSet items l :
    set_rb (rebuilds rho s) rho s items l -> rebuilds rho s (PSet items) (D (VSet l)).

(* the assignment s binds exactly the names of p *)
Definition binds_exactly (p : pat) (s : env) : Prop :=
  forall x, env_get x s <> None <-> In x (pat_names p).

(* two environments that give every name the same value *)
Definition env_equiv (a b : env) : Prop := forall x, env_get x a = env_get x b.

(* ---------- the loops of bindF as top-level functions ---------- *)

Section Loops.
Variables (ev : env -> expr -> res value) (bind : env -> pat -> value -> res env) (rho : env).

Section WithB.
Variable b : val.
Fixpoint exprs_go (es : list expr) : res env :=
  match es with
  | [] => Err
  | e :: es' => do w <- ev rho e; do a <- as_data w; if veqb a b then Ok [] else exprs_go es'
  end.
End WithB.

Definition bind_item (acc : env) (it : pat) (x : value) : res env :=
  do sc <- bind rho it x;
  match env_matched_update acc sc with Some r => Ok r | None => Err end.

Section WithFb.
Variable has_fb : bool.

Fixpoint arr_go (items : list pitem) (xs : list val) (acc : env) : res env :=
  match items with
  | [] => match xs with [] => Ok acc | _ => if has_fb then Unspec else Err end
  | PExtra o :: rest =>
      let nrest := length rest in
      if (length xs <? nrest)%nat then Err else
      let take := (length xs - nrest)%nat in
      let mid := firstn take xs in
      do acc' <- match o with
                 | Some x => bind_item acc (PVar x) (D (mkset (map (fun p => vitem (fst p) (snd p))
                                      (combine (map Z.of_nat (seq 0 (length mid))) mid))))
                 | None => Ok acc
                 end;
      arr_go rest (skipn take xs) acc'
  | PItem q fb :: rest =>
      match xs with
      | x :: xs' => do acc' <- bind_item acc q (D x); arr_go rest xs' acc'
      | [] => match fb with
              | Some d => do w <- ev rho d; do acc' <- bind_item acc q w; arr_go rest [] acc'
              | None => Err
              end
      end
  end.

Section WithTv.
Variable tv : list (name * val).

Fixpoint tup_go (attrs : list (name * pitem)) (remaining : list (name * val))
                (extra : option (option name)) (acc : env) : res env :=
  match attrs with
  | [] =>
      match extra with
      | Some o => match o with
                  | Some x => bind_item acc (PVar x) (D (VTup remaining))
                  | None => Ok acc
                  end
      | None => match remaining with [] => Ok acc | _ => if has_fb then Unspec else Err end
      end
  | (_, PExtra o) :: rest => tup_go rest remaining (Some o) acc
  | (n, PItem q fb) :: rest =>
      match tget n tv with
      | Some x => do acc' <- bind_item acc q (D x); tup_go rest (tdel n remaining) extra acc'
      | None => match fb with
                | Some dflt => do w <- ev rho dflt; do acc' <- bind_item acc q w; tup_go rest remaining extra acc'
                | None => Err
                end
      end
  end.

End WithTv.

Fixpoint dict_go (entries : list (expr * pitem)) (remaining : list (val * val))
                 (extra : option (option name)) (acc : env) : res env :=
  match entries with
  | [] =>
      match extra with
      | Some o => match o with
                  | Some x => bind_item acc (PVar x) (D (mkset (map (fun p => ventry (fst p) (snd p)) remaining)))
                  | None => Ok acc
                  end
      | None => match remaining with [] => Ok acc | _ => if has_fb then Unspec else Err end
      end
  | (_, PExtra o) :: rest => dict_go rest remaining (Some o) acc
  | (ke, PItem q fb) :: rest =>
      do kw <- ev rho ke; do k <- as_data kw;
      match filter (fun p => veqb k (fst p)) remaining with
      | [(_, x)] => do acc' <- bind_item acc q (D x);
                    dict_go rest (filter (fun p => negb (veqb k (fst p))) remaining) extra acc'
      | [] => match fb with
              | Some dflt => do w <- ev rho dflt; do acc' <- bind_item acc q w; dict_go rest remaining extra acc'
              | None => Err
              end
      | _ => Unspec
      end
  end.

End WithFb.

Fixpoint set_go (items : list pitem) (remaining : list val) (binder : option pitem) : res env :=
  match items with
  | [] =>
      match binder with
      | None => match remaining with [] => Ok [] | _ => Err end
      | Some (PExtra (Some x)) => Ok [(x, D (VSet remaining))]
      | Some (PExtra None) => Ok []
      | Some (PItem q _) => match remaining with [x] => bind rho q (D x) | _ => Err end
      end
  | PItem (PExpr e) _ :: rest =>
      do w <- ev rho e; do a <- as_data w;
      if vmem a remaining then set_go rest (s_without remaining a) binder else Err
  | it :: rest =>
      match binder with
      | None => set_go rest remaining (Some it)
      | Some _ => Err
      end
  end.

End Loops.
