(* Source-level rewrites on the expression language of Eval/Interp.v (definitions only):
   the spelled-out form of the sugared literals, one-hole contexts over every expression and
   pattern form, and the compatible closure of a relation on expressions. *)
From Arrai Require Import Base.Val Spec.SetAlg Eval.Interp.

(* ---------- sugared literals, spelled out ---------- *)

(* [x0, , x2]  abbreviates  {(@: 0, @item: x0), (@: 2, @item: x2)} : holes take an index and no member *)
Definition spell_item (i : Z) (x : expr) : expr := ETupE [(n_at, ELit (vint i)); (n_item, x)].
Fixpoint spell_arr_from (i : Z) (l : list (option expr)) : list expr :=
  match l with
  | [] => []
  | Some x :: l' => spell_item i x :: spell_arr_from (i + 1) l'
  | None :: l' => spell_arr_from (i + 1) l'
  end.
Definition spell_arr (l : list (option expr)) : expr := ESetE (spell_arr_from 0 l).

(* {k: v, ...}  abbreviates  {(@: k, @value: v), ...} *)
Definition spell_entry (p : expr * expr) : expr := ETupE [(n_at, fst p); (n_value, snd p)].
Definition spell_dict (l : list (expr * expr)) : expr := ESetE (map spell_entry l).

(* two key expressions of a dict literal evaluate to the same value: the literal is refused, its spelled-out set is not *)
Definition dict_keys_clash (n : nat) (rho : env) (l : list (expr * expr)) : Prop :=
  exists l1 p l2 q l3 a, l = l1 ++ p :: l2 ++ q :: l3 /\
    eval n rho (fst p) = Ok (D a) /\ eval n rho (fst q) = Ok (D a).

(* ---------- meaning up to fuel ---------- *)

(* e and e' have the same meaning: in every scope, whenever both have an answer (value, error or
   "outside the fragment") it is the same answer, and one has an answer iff the other has *)
Definition answers (rho : env) (e : expr) : Prop := exists n, eval n rho e <> OutOfFuel.
Definition same_meaning (e e' : expr) : Prop :=
  forall rho,
    (forall n m, eval n rho e <> OutOfFuel -> eval m rho e' <> OutOfFuel -> eval n rho e = eval m rho e') /\
    (answers rho e <-> answers rho e').

(* ---------- the compatible closure of a relation on expressions ---------- *)

Section Closure.
Variable R : expr -> expr -> Prop.

(* crel e e' : e' is e with any number of sub-expressions, at any positions (operands, literal components,
   function bodies, let bodies, arms, transformer positions, and the expressions inside patterns), replaced
   by R-related ones.  cstep is one layer: the same head form over related components. *)
Inductive crel : expr -> expr -> Prop :=
| CBase e e' : R e e' -> crel e e'
| CStep e e' : cstep e e' -> crel e e'
with cstep : expr -> expr -> Prop :=
| CLit v : cstep (ELit v) (ELit v)
| CVar x : cstep (EVar x) (EVar x)
| CSetE l l' : crel_list l l' -> cstep (ESetE l) (ESetE l')
| CTupE l l' : crel_attrs l l' -> cstep (ETupE l) (ETupE l')
| CArrE l l' : crel_opts l l' -> cstep (EArrE l) (EArrE l')
| CDictE l l' : crel_pairs l l' -> cstep (EDictE l) (EDictE l')
| CBin op a a' b b' : crel a a' -> crel b b' -> cstep (EBin op a b) (EBin op a' b')
| CCmp op a a' b b' : crel a a' -> crel b b' -> cstep (ECmp op a b) (ECmp op a' b')
| CUn op a a' : crel a a' -> cstep (EUn op a) (EUn op a')
| CWhere a a' f f' : crel a a' -> crel f f' -> cstep (EWhere a f) (EWhere a' f')
| CDArrow a a' f f' : crel a a' -> crel f f' -> cstep (EDArrow a f) (EDArrow a' f')
| CSeqArrow w a a' f f' : crel a a' -> crel f f' -> cstep (ESeqArrow w a f) (ESeqArrow w a' f')
| CFn p p' b b' : prel p p' -> crel b b' -> cstep (EFn p b) (EFn p' b')
| CCall f f' a a' : crel f f' -> crel a a' -> cstep (ECall f a) (ECall f' a')
| CSafeCall f f' a a' d d' : crel f f' -> crel a a' -> crel d d' -> cstep (ESafeCall f a d) (ESafeCall f' a' d')
| CDot a a' n : crel a a' -> cstep (EDot a n) (EDot a' n)
| CSafeDot a a' n d d' : crel a a' -> crel d d' -> cstep (ESafeDot a n d) (ESafeDot a' n d')
| CLet p p' a a' b b' : prel p p' -> crel a a' -> crel b b' -> cstep (ELet p a b) (ELet p' a' b')
| CArrow a a' f f' : crel a a' -> crel f f' -> cstep (EArrow a f) (EArrow a' f')
| CAnd a a' b b' : crel a a' -> crel b b' -> cstep (EAnd a b) (EAnd a' b')
| COr a a' b b' : crel a a' -> crel b b' -> cstep (EOr a b) (EOr a' b')
| CCond arms arms' d d' : crel_pairs arms arms' -> crel_opt d d' -> cstep (ECond arms d) (ECond arms' d')
| CCondPat c c' arms arms' : crel c c' -> crel_parms arms arms' -> cstep (ECondPat c arms) (ECondPat c' arms')
| CJoin op a a' b b' : crel a a' -> crel b b' -> cstep (EJoin op a b) (EJoin op a' b')
| CNest inv names n a a' : crel a a' -> cstep (ENest inv names n a) (ENest inv names n a')
| CSingleNest n a a' : crel a a' -> cstep (ESingleNest n a) (ESingleNest n a')
| CRank a a' f f' : crel a a' -> crel f f' -> cstep (ERank a f) (ERank a' f')
with crel_list : list expr -> list expr -> Prop :=
| CLnil : crel_list [] []
| CLcons x x' l l' : crel x x' -> crel_list l l' -> crel_list (x :: l) (x' :: l')
with crel_attrs : list (name * expr) -> list (name * expr) -> Prop :=
| CAnil : crel_attrs [] []
| CAcons n x x' l l' : crel x x' -> crel_attrs l l' -> crel_attrs ((n, x) :: l) ((n, x') :: l')
with crel_opt : option expr -> option expr -> Prop :=
| CONone : crel_opt None None
| COSome x x' : crel x x' -> crel_opt (Some x) (Some x')
with crel_opts : list (option expr) -> list (option expr) -> Prop :=
| COnil : crel_opts [] []
| COcons x x' l l' : crel_opt x x' -> crel_opts l l' -> crel_opts (x :: l) (x' :: l')
with crel_pairs : list (expr * expr) -> list (expr * expr) -> Prop :=
| CPnil : crel_pairs [] []
| CPcons a a' b b' l l' : crel a a' -> crel b b' -> crel_pairs l l' -> crel_pairs ((a, b) :: l) ((a', b') :: l')
with crel_parms : list (pat * expr) -> list (pat * expr) -> Prop :=
| CMnil : crel_parms [] []
| CMcons p p' b b' l l' : prel p p' -> crel b b' -> crel_parms l l' -> crel_parms ((p, b) :: l) ((p', b') :: l')
with prel : pat -> pat -> Prop :=
| PRVar x : prel (PVar x) (PVar x)
| PRWild : prel PWild PWild
| PRExpr e e' : crel e e' -> prel (PExpr e) (PExpr e')
| PRExprs l l' : crel_list l l' -> prel (PExprs l) (PExprs l')
| PRArr l l' : irel_list l l' -> prel (PArr l) (PArr l')
| PRTup l l' : irel_attrs l l' -> prel (PTup l) (PTup l')
| PRDict l l' : irel_entries l l' -> prel (PDict l) (PDict l')
| PRSet l l' : irel_list l l' -> prel (PSet l) (PSet l')
with irel : pitem -> pitem -> Prop :=
| IRItem p p' d d' : prel p p' -> crel_opt d d' -> irel (PItem p d) (PItem p' d')
| IRExtra x : irel (PExtra x) (PExtra x)
with irel_list : list pitem -> list pitem -> Prop :=
| ILnil : irel_list [] []
| ILcons i i' l l' : irel i i' -> irel_list l l' -> irel_list (i :: l) (i' :: l')
with irel_attrs : list (name * pitem) -> list (name * pitem) -> Prop :=
| IAnil : irel_attrs [] []
| IAcons n i i' l l' : irel i i' -> irel_attrs l l' -> irel_attrs ((n, i) :: l) ((n, i') :: l')
with irel_entries : list (expr * pitem) -> list (expr * pitem) -> Prop :=
| IEnil : irel_entries [] []
| IEcons k k' i i' l l' : crel k k' -> irel i i' -> irel_entries l l' -> irel_entries ((k, i) :: l) ((k', i') :: l').

(* values: data are related when equal; functions when their captured scopes are related name by name and their
   parameter patterns and bodies are related by the closure *)
Inductive vrel : value -> value -> Prop :=
| VRD v : vrel (D v) (D v)
| VRC env env' p p' b b' : erel env env' -> prel p p' -> crel b b' -> vrel (Clos env p b) (Clos env' p' b')
with erel : env -> env -> Prop :=
| ERnil : erel [] []
| ERcons x v v' r r' : vrel v v' -> erel r r' -> erel ((x, v) :: r) ((x, v') :: r').

(* answers: the same kind of answer, related values *)
Definition ansrel (r r' : res value) : Prop :=
  match r, r' with
  | Ok v, Ok v' => vrel v v'
  | Err, Err => True
  | Unspec, Unspec => True
  | _, _ => False
  end.
End Closure.

(* ---------- one-hole contexts ---------- *)

(* a position inside a program: every place of every expression form where an expression can stand, including
   under binders and inside patterns *)
Inductive ctx :=
| XHole
| XSetE (l1 : list expr) (c : ctx) (l2 : list expr)
| XTupE (l1 : list (name * expr)) (n : name) (c : ctx) (l2 : list (name * expr))
| XArrE (l1 : list (option expr)) (c : ctx) (l2 : list (option expr))
| XDictK (l1 : list (expr * expr)) (c : ctx) (v : expr) (l2 : list (expr * expr))
| XDictV (l1 : list (expr * expr)) (k : expr) (c : ctx) (l2 : list (expr * expr))
| XBinL (op : binop) (c : ctx) (b : expr) | XBinR (op : binop) (a : expr) (c : ctx)
| XCmpL (op : cmpop) (c : ctx) (b : expr) | XCmpR (op : cmpop) (a : expr) (c : ctx)
| XUn (op : unop) (c : ctx)
| XWhereL (c : ctx) (f : expr) | XWhereR (a : expr) (c : ctx)
| XDArrowL (c : ctx) (f : expr) | XDArrowR (a : expr) (c : ctx)
| XSeqArrowL (w : bool) (c : ctx) (f : expr) | XSeqArrowR (w : bool) (a : expr) (c : ctx)
| XFnBody (p : pat) (c : ctx) | XFnPat (pc : pctx) (b : expr)
| XCallF (c : ctx) (a : expr) | XCallA (f : expr) (c : ctx)
| XSafeCallF (c : ctx) (a d : expr) | XSafeCallA (f : expr) (c : ctx) (d : expr) | XSafeCallD (f a : expr) (c : ctx)
| XDot (c : ctx) (n : name)
| XSafeDotA (c : ctx) (n : name) (d : expr) | XSafeDotD (a : expr) (n : name) (c : ctx)
| XLetPat (pc : pctx) (e1 e2 : expr) | XLetBound (p : pat) (c : ctx) (e2 : expr) | XLetBody (p : pat) (e1 : expr) (c : ctx)
| XArrowL (c : ctx) (f : expr) | XArrowR (a : expr) (c : ctx)
| XAndL (c : ctx) (b : expr) | XAndR (a : expr) (c : ctx)
| XOrL (c : ctx) (b : expr) | XOrR (a : expr) (c : ctx)
| XCondC (l1 : list (expr * expr)) (c : ctx) (v : expr) (l2 : list (expr * expr)) (d : option expr)
| XCondV (l1 : list (expr * expr)) (k : expr) (c : ctx) (l2 : list (expr * expr)) (d : option expr)
| XCondD (arms : list (expr * expr)) (c : ctx)
| XCondPatC (c : ctx) (arms : list (pat * expr))
| XCondPatP (e : expr) (l1 : list (pat * expr)) (pc : pctx) (b : expr) (l2 : list (pat * expr))
| XCondPatB (e : expr) (l1 : list (pat * expr)) (p : pat) (c : ctx) (l2 : list (pat * expr))
| XJoinL (op : joinop) (c : ctx) (b : expr) | XJoinR (op : joinop) (a : expr) (c : ctx)
| XNest (inv : bool) (names : list name) (n : name) (c : ctx)
| XSingleNest (n : name) (c : ctx)
| XRankL (c : ctx) (f : expr) | XRankR (a : expr) (c : ctx)
with pctx :=
| YExpr (c : ctx)
| YExprs (l1 : list expr) (c : ctx) (l2 : list expr)
| YArr (l1 : list pitem) (ic : ictx) (l2 : list pitem)
| YTup (l1 : list (name * pitem)) (n : name) (ic : ictx) (l2 : list (name * pitem))
| YDictK (l1 : list (expr * pitem)) (c : ctx) (i : pitem) (l2 : list (expr * pitem))
| YDictI (l1 : list (expr * pitem)) (k : expr) (ic : ictx) (l2 : list (expr * pitem))
| YSet (l1 : list pitem) (ic : ictx) (l2 : list pitem)
with ictx :=
| ZItemP (pc : pctx) (d : option expr)
| ZItemD (p : pat) (c : ctx).

Fixpoint plug (c : ctx) (h : expr) : expr :=
  match c with
  | XHole => h
  | XSetE l1 c l2 => ESetE (l1 ++ plug c h :: l2)
  | XTupE l1 n c l2 => ETupE (l1 ++ (n, plug c h) :: l2)
  | XArrE l1 c l2 => EArrE (l1 ++ Some (plug c h) :: l2)
  | XDictK l1 c v l2 => EDictE (l1 ++ (plug c h, v) :: l2)
  | XDictV l1 k c l2 => EDictE (l1 ++ (k, plug c h) :: l2)
  | XBinL op c b => EBin op (plug c h) b | XBinR op a c => EBin op a (plug c h)
  | XCmpL op c b => ECmp op (plug c h) b | XCmpR op a c => ECmp op a (plug c h)
  | XUn op c => EUn op (plug c h)
  | XWhereL c f => EWhere (plug c h) f | XWhereR a c => EWhere a (plug c h)
  | XDArrowL c f => EDArrow (plug c h) f | XDArrowR a c => EDArrow a (plug c h)
  | XSeqArrowL w c f => ESeqArrow w (plug c h) f | XSeqArrowR w a c => ESeqArrow w a (plug c h)
  | XFnBody p c => EFn p (plug c h) | XFnPat pc b => EFn (pplug pc h) b
  | XCallF c a => ECall (plug c h) a | XCallA f c => ECall f (plug c h)
  | XSafeCallF c a d => ESafeCall (plug c h) a d | XSafeCallA f c d => ESafeCall f (plug c h) d
  | XSafeCallD f a c => ESafeCall f a (plug c h)
  | XDot c n => EDot (plug c h) n
  | XSafeDotA c n d => ESafeDot (plug c h) n d | XSafeDotD a n c => ESafeDot a n (plug c h)
  | XLetPat pc e1 e2 => ELet (pplug pc h) e1 e2 | XLetBound p c e2 => ELet p (plug c h) e2
  | XLetBody p e1 c => ELet p e1 (plug c h)
  | XArrowL c f => EArrow (plug c h) f | XArrowR a c => EArrow a (plug c h)
  | XAndL c b => EAnd (plug c h) b | XAndR a c => EAnd a (plug c h)
  | XOrL c b => EOr (plug c h) b | XOrR a c => EOr a (plug c h)
  | XCondC l1 c v l2 d => ECond (l1 ++ (plug c h, v) :: l2) d
  | XCondV l1 k c l2 d => ECond (l1 ++ (k, plug c h) :: l2) d
  | XCondD arms c => ECond arms (Some (plug c h))
  | XCondPatC c arms => ECondPat (plug c h) arms
  | XCondPatP e l1 pc b l2 => ECondPat e (l1 ++ (pplug pc h, b) :: l2)
  | XCondPatB e l1 p c l2 => ECondPat e (l1 ++ (p, plug c h) :: l2)
  | XJoinL op c b => EJoin op (plug c h) b | XJoinR op a c => EJoin op a (plug c h)
  | XNest inv names n c => ENest inv names n (plug c h)
  | XSingleNest n c => ESingleNest n (plug c h)
  | XRankL c f => ERank (plug c h) f | XRankR a c => ERank a (plug c h)
  end
with pplug (pc : pctx) (h : expr) : pat :=
  match pc with
  | YExpr c => PExpr (plug c h)
  | YExprs l1 c l2 => PExprs (l1 ++ plug c h :: l2)
  | YArr l1 ic l2 => PArr (l1 ++ iplug ic h :: l2)
  | YTup l1 n ic l2 => PTup (l1 ++ (n, iplug ic h) :: l2)
  | YDictK l1 c i l2 => PDict (l1 ++ (plug c h, i) :: l2)
  | YDictI l1 k ic l2 => PDict (l1 ++ (k, iplug ic h) :: l2)
  | YSet l1 ic l2 => PSet (l1 ++ iplug ic h :: l2)
  end
with iplug (ic : ictx) (h : expr) : pitem :=
  match ic with
  | ZItemP pc d => PItem (pplug pc h) d
  | ZItemD p c => PItem p (Some (plug c h))
  end.

(* how many forms lie between the root and the hole *)
Fixpoint ctx_depth (c : ctx) : nat :=
  match c with
  | XHole => 0
  | XSetE _ c _ | XTupE _ _ c _ | XArrE _ c _ | XDictK _ c _ _ | XDictV _ _ c _
  | XBinL _ c _ | XBinR _ _ c | XCmpL _ c _ | XCmpR _ _ c | XUn _ c
  | XWhereL c _ | XWhereR _ c | XDArrowL c _ | XDArrowR _ c | XSeqArrowL _ c _ | XSeqArrowR _ _ c
  | XFnBody _ c | XCallF c _ | XCallA _ c | XSafeCallF c _ _ | XSafeCallA _ c _ | XSafeCallD _ _ c
  | XDot c _ | XSafeDotA c _ _ | XSafeDotD _ _ c | XLetBound _ c _ | XLetBody _ _ c
  | XArrowL c _ | XArrowR _ c | XAndL c _ | XAndR _ c | XOrL c _ | XOrR _ c
  | XCondC _ c _ _ _ | XCondV _ _ c _ _ | XCondD _ c | XCondPatC c _ | XCondPatB _ _ _ c _
  | XJoinL _ c _ | XJoinR _ _ c | XNest _ _ _ c | XSingleNest _ c | XRankL c _ | XRankR _ c => S (ctx_depth c)
  | XFnPat pc _ | XLetPat pc _ _ | XCondPatP _ _ pc _ _ => S (pctx_depth pc)
  end
with pctx_depth (pc : pctx) : nat :=
  match pc with
  | YExpr c | YExprs _ c _ | YDictK _ c _ _ => S (ctx_depth c)
  | YArr _ ic _ | YTup _ _ ic _ | YDictI _ _ ic _ | YSet _ ic _ => S (ictx_depth ic)
  end
with ictx_depth (ic : ictx) : nat :=
  match ic with
  | ZItemP pc _ => S (pctx_depth pc)
  | ZItemD _ c => S (ctx_depth c)
  end.

(* the keys of a dict literal are literals and any two of them have different (canonical) values *)
Definition distinct_literal_keys (l : list (expr * expr)) : Prop :=
  forall l1 p l2 q l3, l = l1 ++ p :: l2 ++ q :: l3 ->
    exists a b, fst p = ELit a /\ fst q = ELit b /\ norm a <> norm b.

(* ---------- the documented equivalences, as a relation on expressions ---------- *)

(* the local rewrites of the property text that live in the expression language (comments, parentheses and
   precedence are below it, in the parser); [b] is any expression at all - it is never evaluated *)
Inductive documented : expr -> expr -> Prop :=
| DLetArrow p e1 e2 : documented (ELet p e1 e2) (EArrow e1 (EFn p e2))
| DArrowCall p e1 e2 : documented (EArrow e1 (EFn p e2)) (ECall (EFn p e2) e1)
| DArrSugar l : documented (EArrE l) (spell_arr l)
| DLazyAnd b e : documented e (EOr (EAnd (ELit vfalse) b) e)
| DLazyOr b e : documented e (EAnd (EOr (ELit vtrue) b) e)
| DLazyCond b e : documented e (ECond [(ELit vfalse, b); (ELit vtrue, e)] (Some b))
| DSym e e' : documented e' e -> documented e e'.

(* a program's answers are matched by the other program's, up to the value relation of the closure of R *)
Definition meaning_related (R : expr -> expr -> Prop) (e e' : expr) : Prop :=
  forall rho n, eval n rho e <> OutOfFuel -> exists m, ansrel R (eval n rho e) (eval m rho e').

(* answers that contain no function: data, an error, or "outside the fragment" *)
Definition data_answer (r : res value) : Prop :=
  match r with Ok (D _) | Err | Unspec => True | _ => False end.

(* the two programs have exactly the same function-free answers *)
Definition same_data_meaning (e e' : expr) : Prop :=
  forall rho r, data_answer r -> ((exists n, eval n rho e = r) <-> (exists m, eval m rho e' = r)).

(* ---------- substitution of a let-bound name by its (literal) value ---------- *)

(* the names a pattern binds when it matches *)
Fixpoint pat_names (p : pat) : list name :=
  match p with
  | PVar x => [x]
  | PWild | PExpr _ | PExprs _ => []
  | PArr items | PSet items => flat_map item_names items
  | PTup attrs => flat_map (fun a => item_names (snd a)) attrs
  | PDict entries => flat_map (fun a => item_names (snd a)) entries
  end
with item_names (i : pitem) : list name :=
  match i with
  | PItem p _ => pat_names p
  | PExtra (Some x) => [x]
  | PExtra None => []
  end.

Definition binds (x : name) (p : pat) : bool := name_in x (pat_names p).

(* subst x v e: every free occurrence of x in e replaced by the literal v.  A binder whose pattern binds x stops
   the replacement in its body (the occurrences there belong to the inner binding); the expressions inside the
   pattern itself - (expr) literals, fallbacks, dict keys - are evaluated outside the binding and are replaced. *)
Fixpoint subst (x : name) (v : val) (e : expr) : expr :=
  let under := fun (p : pat) (b : expr) => if binds x p then b else subst x v b in
  match e with
  | ELit w => ELit w
  | EVar y => if name_eqb y x then ELit v else EVar y
  | ESetE l => ESetE (map (subst x v) l)
  | ETupE l => ETupE (map (fun a => (fst a, subst x v (snd a))) l)
  | EArrE l => EArrE (map (fun o => match o with Some a => Some (subst x v a) | None => None end) l)
  | EDictE l => EDictE (map (fun a => (subst x v (fst a), subst x v (snd a))) l)
  | EBin op a b => EBin op (subst x v a) (subst x v b)
  | ECmp op a b => ECmp op (subst x v a) (subst x v b)
  | EUn op a => EUn op (subst x v a)
  | EWhere a f => EWhere (subst x v a) (subst x v f)
  | EDArrow a f => EDArrow (subst x v a) (subst x v f)
  | ESeqArrow w a f => ESeqArrow w (subst x v a) (subst x v f)
  | EFn p b => EFn (subst_pat x v p) (under p b)
  | ECall f a => ECall (subst x v f) (subst x v a)
  | ESafeCall f a d => ESafeCall (subst x v f) (subst x v a) (subst x v d)
  | EDot a n => EDot (subst x v a) n
  | ESafeDot a n d => ESafeDot (subst x v a) n (subst x v d)
  | ELet p e1 e2 => ELet (subst_pat x v p) (subst x v e1) (under p e2)
  | EArrow e1 f => EArrow (subst x v e1) (subst x v f)
  | EAnd a b => EAnd (subst x v a) (subst x v b)
  | EOr a b => EOr (subst x v a) (subst x v b)
  | ECond arms d => ECond (map (fun a => (subst x v (fst a), subst x v (snd a))) arms)
                          (match d with Some a => Some (subst x v a) | None => None end)
  | ECondPat c arms => ECondPat (subst x v c) (map (fun a => (subst_pat x v (fst a), under (fst a) (snd a))) arms)
  | EJoin op a b => EJoin op (subst x v a) (subst x v b)
  | ENest inv names n a => ENest inv names n (subst x v a)
  | ESingleNest n a => ESingleNest n (subst x v a)
  | ERank a f => ERank (subst x v a) (subst x v f)
  end
with subst_pat (x : name) (v : val) (p : pat) : pat :=
  match p with
  | PVar y => PVar y
  | PWild => PWild
  | PExpr e => PExpr (subst x v e)
  | PExprs es => PExprs (map (subst x v) es)
  | PArr items => PArr (map (subst_item x v) items)
  | PTup attrs => PTup (map (fun a => (fst a, subst_item x v (snd a))) attrs)
  | PDict entries => PDict (map (fun a => (subst x v (fst a), subst_item x v (snd a))) entries)
  | PSet items => PSet (map (subst_item x v) items)
  end
with subst_item (x : name) (v : val) (i : pitem) : pitem :=
  match i with
  | PItem p d => PItem (subst_pat x v p) (match d with Some a => Some (subst x v a) | None => None end)
  | PExtra o => PExtra o
  end.

(* a body without binders: no function literal, no let, no pattern conditional *)
Fixpoint binder_free (e : expr) : bool :=
  match e with
  | ELit _ | EVar _ => true
  | ESetE l => forallb binder_free l
  | ETupE l => forallb (fun a => binder_free (snd a)) l
  | EArrE l => forallb (fun o => match o with Some a => binder_free a | None => true end) l
  | EDictE l => forallb (fun a => binder_free (fst a) && binder_free (snd a)) l
  | EBin _ a b | ECmp _ a b | EWhere a b | EDArrow a b | ESeqArrow _ a b | ECall a b | EArrow a b
  | EAnd a b | EOr a b | EJoin _ a b | ERank a b => binder_free a && binder_free b
  | EUn _ a | EDot a _ | ENest _ _ _ a | ESingleNest _ a => binder_free a
  | ESafeCall a b c => binder_free a && binder_free b && binder_free c
  | ESafeDot a _ d => binder_free a && binder_free d
  | ECond arms d => forallb (fun a => binder_free (fst a) && binder_free (snd a)) arms &&
                    match d with Some a => binder_free a | None => true end
  | EFn _ _ | ELet _ _ _ | ECondPat _ _ => false
  end.

