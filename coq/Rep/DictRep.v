(* Transcription of the Go dictionary representation rel/value_set_dict.go (properties C01, C02):
   Dict{m frozen.Map[Value, any]} where the value stored under a key is either one Value or
   multipleValues (a frozen.Set[Value] of the several values paired with that key).
   frozen.Map / frozen.Set are abstracted as association lists / duplicate-free lists (the order of
   enumeration is unspecified: every statement about this model is up to that order).
   Transcribed: newMultipleValues, NewDict, Dict.With, Dict.Without, Dict.Has, Dict.Count,
   Dict.Enumerator (dictEnumerator.MoveNext), Dict.Where, Dict.CallAll, Dict.equalDict / equalDictValue. *)
From Arrai Require Import Base.Val Spec.SetAlg Eval.Interp.

Inductive slot := One (v : val) | Multi (vs : list val).
Definition dict := list (val * slot).

(* ---- frozen.Set[Value] on duplicate-free lists ---- *)
Definition fs_with (x : val) (s : list val) : list val := if vmem x s then s else s ++ [x].
Definition fs_without (x : val) (s : list val) : list val := filter (fun y => negb (veqb y x)) s.
Definition fs_of (l : list val) : list val := fold_left (fun acc x => fs_with x acc) l [].   (* frozen.NewSet(values...) *)
Definition fs_equal (a b : list val) : bool := Nat.eqb (length a) (length b) && forallb (fun x => vmem x b) a.

(* func newMultipleValues(values ...Value) any: one value is stored bare *)
Definition new_multiple (vs : list val) : slot :=
  match fs_of vs with
  | [v] => One v
  | s => Multi s
  end.

(* ---- frozen.Map[Value, any] on association lists ---- *)
Fixpoint fm_get (k : val) (m : dict) : option slot :=
  match m with
  | [] => None
  | (k', s) :: m' => if veqb k' k then Some s else fm_get k m'
  end.
Fixpoint fm_with (k : val) (s : slot) (m : dict) : dict :=
  match m with
  | [] => [(k, s)]
  | (k', s') :: m' => if veqb k' k then (k, s) :: m' else (k', s') :: fm_with k s m'
  end.
Definition fm_without (k : val) (m : dict) : dict := filter (fun p => negb (veqb (fst p) k)) m.

(* a DictEntryTuple (@: k, @value: x): exactly these two attributes (DictTupleMatcher, v.(DictEntryTuple)) *)
Definition as_entry (m : val) : option (val * val) :=
  match m with
  | VTup [(n1, k); (n2, x)] => if name_eqb n1 n_at && name_eqb n2 n_value then Some (k, x) else None
  | _ => None
  end.

Inductive dres :=
| RDict (d : dict)          (* a Dict *)
| RNone                     (* the empty set None *)
| RErr                      (* NewDict: duplicate key *)
| RNotDict (ms : list val). (* toUnionSetWithItem: the result leaves the Dict representation; its members *)

(* dictEnumerator.MoveNext: the entries of a key, key by key; an EMPTY multipleValues makes MoveNext
   return false, which ends the enumeration there *)
Fixpoint dict_enum (d : dict) : list val :=
  match d with
  | [] => []
  | (k, One v) :: d' => ventry k v :: dict_enum d'
  | (k, Multi []) :: _ => []
  | (k, Multi vs) :: d' => map (ventry k) vs ++ dict_enum d'
  end.

(* func NewDict(allowDupKeys bool, entries ...DictEntryTuple) (Set, error) *)
Definition new_dict_step (allow : bool) (acc : option dict) (e : val * val) : option dict :=
  match acc with
  | None => None
  | Some m =>
      match fm_get (fst e) m with
      | Some s =>
          if allow then
            Some (fm_with (fst e) (match s with
                                   | Multi vs => Multi (fs_with (snd e) vs)
                                   | One u => new_multiple [u; snd e]
                                   end) m)
          else None
      | None => Some (fm_with (fst e) (One (snd e)) m)
      end
  end.
Definition new_dict (allow : bool) (entries : list (val * val)) : dres :=
  match entries with
  | [] => RNone
  | _ => match fold_left (new_dict_step allow) entries (Some []) with
         | Some m => RDict m
         | None => RErr
         end
  end.

(* func (d Dict) With(v Value) Set *)
Definition dict_with (d : dict) (v : val) : dres :=
  match as_entry v with
  | Some (k, x) =>
      match fm_get k d with
      | Some (Multi vs) => RDict (fm_with k (Multi (fs_with x vs)) d)
      | Some (One u) => RDict (fm_with k (new_multiple [u; x]) d)
      | None => RDict (fm_with k (One x) d)
      end
  | None => RNotDict (v :: dict_enum d)
  end.

(* func (d Dict) Without(v Value) Set *)
Definition dict_without (d : dict) (v : val) : dres :=
  match as_entry v with
  | Some (k, x) =>
      match fm_get k d with
      | Some (Multi vs) =>
          if vmem x vs then RDict (fm_with k (new_multiple (fs_without x vs)) d) else RDict d
      | Some (One u) =>
          if veqb x u then match fm_without k d with [] => RNone | m => RDict m end else RDict d
      | None => RDict d
      end
  | None => RDict d
  end.

(* func (d Dict) Has(v Value) bool *)
Definition dict_has (d : dict) (v : val) : bool :=
  match as_entry v with
  | Some (k, x) =>
      match fm_get k d with
      | Some (Multi vs) => vmem x vs
      | Some (One u) => veqb x u
      | None => false
      end
  | None => false
  end.

(* func (d Dict) Count() int *)
Fixpoint dict_count (d : dict) : nat :=
  match d with
  | [] => O
  | (_, One _) :: d' => S (dict_count d')
  | (_, Multi vs) :: d' => (length vs + dict_count d')%nat
  end.

(* func (d Dict) Where(p) (Set, error): the entries the predicate keeps, rebuilt with NewDict(true, ...) *)
Definition entries_of (ms : list val) : list (val * val) :=
  fold_right (fun m acc => match as_entry m with Some e => e :: acc | None => acc end) [] ms.
Definition dict_where (p : val -> bool) (d : dict) : dres :=
  new_dict true (entries_of (filter p (dict_enum d))).

(* func (d Dict) CallAll(_, arg, b): every value paired with the key *)
Definition dict_call_all (d : dict) (k : val) : list val :=
  match fm_get k d with
  | Some (One v) => [v]
  | Some (Multi vs) => vs
  | None => []
  end.

(* func equalDictValue(a, b any) bool; func (d Dict) equalDict(d2 Dict) bool *)
Definition slot_equal (a b : slot) : bool :=
  match a, b with
  | Multi x, Multi y => fs_equal x y
  | One x, One y => veqb x y
  | _, _ => false
  end.
Definition dict_equal (d d2 : dict) : bool :=
  Nat.eqb (length d) (length d2) &&
  forallb (fun p => match fm_get (fst p) d2 with
                    | Some s2 => slot_equal (snd p) s2
                    | None => false
                    end) d.

(* ---- the representation invariant ---- *)
Fixpoint nodupb (l : list val) : bool :=
  match l with
  | [] => true
  | x :: l' => negb (vmem x l') && nodupb l'
  end.
Definition slot_ok (s : slot) : bool :=
  match s with
  | One _ => true
  | Multi vs => nodupb vs && Nat.leb 2 (length vs)     (* several = at least two different values *)
  end.
Definition dict_ok (d : dict) : bool := nodupb (map fst d) && forallb (fun p => slot_ok (snd p)) d.

(* ---- histories: any sequence of With / Without / Where, starting from a Dict or the empty set ---- *)
Inductive dop := DWith (v : val) | DWithout (v : val) | DWhere (p : val -> bool).
Definition dstep (r : dres) (o : dop) : dres :=
  match r, o with
  | RDict d, DWith v => dict_with d v
  | RDict d, DWithout v => dict_without d v
  | RDict d, DWhere p => dict_where p d
  | RNone, DWith v => match as_entry v with
                      | Some e => new_dict true [e]       (* EmptySet.With: the set builder makes a Dict of one entry *)
                      | None => RNotDict [v]
                      end
  | RNone, _ => RNone
  | r, _ => r                                              (* outside the Dict representation: not followed *)
  end.
(* the same history on the denoted set *)
Definition sstep (s : list val) (o : dop) : list val :=
  match o with
  | DWith v => v :: s
  | DWithout v => filter (fun y => negb (veqb y v)) s
  | DWhere p => filter p s
  end.
Definition op_in_dict (o : dop) : bool :=
  match o with DWith v => match as_entry v with Some _ => true | None => false end | _ => true end.
