(* Transcription of the set / tuple builders of rel/ and of the Go Equal methods.

   rep            the Go representations (rel/value_*.go), one constructor per Go type
   tuple_build    rel/value_tuple.go NewTuple / newTuple / TupleBuilder.Finish
   bucket_of      the getBucket methods;  bucket_str = its String() (the key newSetFromBuckets / UnionSet use)
   build          rel/value_set_builder.go NewSet = SetBuilder.Add* ; Finish, with the per-bucket finishers
                  genericSetFinish/newSetFromFrozenSet (value_set_generic.go), asString (value_set_str.go),
                  asBytes (value_set_bytes.go), asArray (value_set_array.go), NewDict(true, ..) (value_set_dict.go),
                  relationBuilder.Add/Finish (value_set_rel.go)
   rep_equal      the Equal methods of every type, as written (type switch first, then the fields Go compares)
   abs            the denotation of a representation in the value universe of Base/Val.v

   frozen.Set / frozen.Map are modelled as what DESIGN 8 assumes them to be: finite sets / maps for the Equal
   they are given (a list without two Equal elements; insertion order is kept but never observed; Set.Equal =
   same count and mutual inclusion).  Go map iteration order (SetBuilder.Finish ranges over a Go map) is taken
   to be first-insertion order; it only matters when two bucket keys print the same string, which is outside
   the well-formed region (see wf_members) and recorded as a finding. *)
From Arrai Require Import Base.Val Spec.SetAlg.

Inductive rep :=
| RNum (n : num)                                  (* rel.Number *)
| RTupG (attrs : list (name * rep))               (* *rel.GenericTuple: frozen map name -> value, kept sorted by name *)
| RTupChar (ix c : Z)                             (* rel.StringCharTuple{at, char} *)
| RTupByte (ix b : Z)                             (* rel.BytesByteTuple{at, byteval} *)
| RTupItem (ix : Z) (item : rep)                  (* rel.ArrayItemTuple{at, item} *)
| RTupEntry (k v : rep)                           (* rel.DictEntryTuple{at, value} *)
| REmpty                                          (* rel.EmptySet *)
| RTrue                                           (* rel.TrueSet *)
| RStr (off : Z) (cells : list Z) (holes : Z)     (* rel.String{s, offset, holes}; a negative rune is a hole *)
| RBytes (off : Z) (bs : list Z)                  (* rel.Bytes{b, offset} *)
| RArr (off : Z) (cells : list (option rep)) (count : Z)   (* rel.Array{values, offset, count}; nil = hole *)
| RDict (entries : list (rep * bool * list rep))  (* rel.Dict: key -> Value (false, [v]) | multipleValues (true, vs) *)
| RRel (names : list name) (rows : list (list rep))   (* rel.Relation: stored names, rows in stored column order *)
| RGen (elems : list rep)                         (* rel.GenericSet *)
| RUnion (buckets : list (list Z * rep)).         (* rel.UnionSet: bucket string -> subset *)

Inductive bres (A : Type) := BOk (a : A) | BPanic | BUnspec.
Arguments BOk {A} a.
Arguments BPanic {A}.
Arguments BUnspec {A}.

Definition name_eq (a b : name) : bool := match name_cmp a b with Eq => true | _ => false end.
Definition num_eq (a b : num) : bool := match num_cmp a b with Eq => true | _ => false end.
Fixpoint zlist_eq (a b : list Z) : bool :=
  match a, b with
  | [], [] => true
  | x :: a', y :: b' => Z.eqb x y && zlist_eq a' b'
  | _, _ => false
  end.

(* ---------- frozen containers ---------- *)
Section Frozen.
  Context {A : Type} (eq : A -> A -> bool).
  Definition fhas (x : A) (l : list A) : bool := existsb (eq x) l.
  Definition fadd (l : list A) (x : A) : list A := if fhas x l then l else l ++ [x].
  Definition fset_of (l : list A) : list A := fold_left fadd l [].
  Definition fincl (l m : list A) : bool := forallb (fun x => fhas x m) l.
  Definition fset_equal (l m : list A) : bool :=
    Nat.eqb (length l) (length m) && fincl l m && forallb (fun y => existsb (fun x => eq x y) l) m.
End Frozen.

(* ---------- tuples ---------- *)
Fixpoint tput (x : name * rep) (l : list (name * rep)) : list (name * rep) :=
  match l with
  | [] => [x]
  | y :: l' => match name_cmp (fst x) (fst y) with
               | Lt => x :: l
               | Eq => x :: l'
               | Gt => y :: tput x l'
               end
  end.
Fixpoint tfind (n : name) (l : list (name * rep)) : option rep :=
  match l with
  | [] => None
  | (m, v) :: l' => if name_eq n m then Some v else tfind n l'
  end.

(* int(x.(Number).Float64()): panics on a non-number, truncates toward zero *)
Definition as_int (r : rep) : bres Z :=
  match r with
  | RNum (NInt z) => BOk z
  | RNum (NHalf z) => BOk (if 0 <=? z then z else z + 1)
  | _ => BPanic
  end.
(* rune(..) / byte(..) of a float outside the target range is implementation-dependent in Go: BUnspec *)
Definition as_rune (r : rep) : bres Z :=
  match as_int r with
  | BOk z => if (-2147483648 <=? z) && (z <? 2147483648) then BOk z else BUnspec
  | BPanic => BPanic
  | BUnspec => BUnspec
  end.
Definition as_byte (r : rep) : bres Z :=
  match as_int r with
  | BOk z => if (0 <=? z) && (z <? 256) then BOk z else BUnspec
  | BPanic => BPanic
  | BUnspec => BUnspec
  end.

Definition bres2 {A B C} (x : bres A) (y : bres B) (f : A -> B -> C) : bres C :=
  match x with
  | BPanic => BPanic
  | BUnspec => match y with BPanic => BPanic | _ => BUnspec end
  | BOk a => match y with BOk b => BOk (f a b) | BPanic => BPanic | BUnspec => BUnspec end
  end.

(* the switch both NewTuple and TupleBuilder.Finish go through *)
Definition specialise (k : name) (i x : rep) : option (bres rep) :=
  if name_eq k n_char then Some (bres2 (as_int i) (as_rune x) RTupChar)
  else if name_eq k n_byte then Some (bres2 (as_int i) (as_byte x) RTupByte)
  else if name_eq k n_item then Some (match as_int i with BOk a => BOk (RTupItem a x) | BPanic => BPanic | BUnspec => BUnspec end)
  else if name_eq k n_value then Some (BOk (RTupEntry i x))
  else None.

(* TupleBuilder.Finish on the finished map *)
Definition tfinish (m : list (name * rep)) : bres rep :=
  match tfind n_at m with
  | Some i =>
      if Nat.eqb (length m) 2 then
        match tfind n_char m, tfind n_byte m, tfind n_item m, tfind n_value m with
        | Some x, _, _, _ => match specialise n_char i x with Some r => r | None => BOk (RTupG m) end
        | None, Some x, _, _ => match specialise n_byte i x with Some r => r | None => BOk (RTupG m) end
        | None, None, Some x, _ => match specialise n_item i x with Some r => r | None => BOk (RTupG m) end
        | None, None, None, Some x => match specialise n_value i x with Some r => r | None => BOk (RTupG m) end
        | None, None, None, None => BOk (RTupG m)
        end
      else BOk (RTupG m)
  | None => BOk (RTupG m)
  end.
Definition new_tuple (attrs : list (name * rep)) : bres rep :=
  tfinish (fold_left (fun m kv => tput kv m) attrs []).

Definition has_at_prefix (n : name) : bool := match n with 64 :: _ => true | _ => false end.

(* rel.NewTuple(attrs...) *)
Definition tuple_build (attrs : list (name * rep)) : bres rep :=
  match attrs with
  | [a0; a1] =>
      let a0' := if name_eq (fst a1) n_at then a1 else a0 in
      let a1' := if name_eq (fst a1) n_at then a0 else a1 in
      if name_eq (fst a0') n_at && has_at_prefix (fst a1') then
        match specialise (fst a1') (snd a0') (snd a1') with
        | Some r => r
        | None => new_tuple [a0'; a1']
        end
      else new_tuple [a0'; a1']
  | _ => new_tuple attrs
  end.

(* Get / Enumerator of every Tuple type: the attributes as (name, value), sorted by name *)
Definition tup_attrs (r : rep) : option (list (name * rep)) :=
  match r with
  | RTupG l => Some l
  | RTupChar a c => Some [(n_at, RNum (NInt a)); (n_char, RNum (NInt c))]
  | RTupByte a b => Some [(n_at, RNum (NInt a)); (n_byte, RNum (NInt b))]
  | RTupItem a x => Some [(n_at, RNum (NInt a)); (n_item, x)]
  | RTupEntry k v => Some [(n_at, k); (n_value, v)]
  | _ => None
  end.

(* ---------- buckets ---------- *)
Inductive bucket := BGen | BChar | BByte | BItem | BEntry | BRel (key : list Z).

Definition s_generic : list Z := [114;101;108;46;103;101;110;101;114;105;99].
Definition s_char : list Z := [114;101;108;46;83;116;114;105;110;103;67;104;97;114;84;117;112;108;101].
Definition s_byte : list Z := [114;101;108;46;66;121;116;101;115;66;121;116;101;84;117;112;108;101].
Definition s_item : list Z := [114;101;108;46;65;114;114;97;121;73;116;101;109;84;117;112;108;101].
Definition s_entry : list Z := [114;101;108;46;68;105;99;116;69;110;116;114;121;84;117;112;108;101].

(* strings.Join(names, ", ") *)
Fixpoint join_names (l : list name) : list Z :=
  match l with
  | [] => []
  | [n] => n
  | n :: l' => n ++ [44; 32] ++ join_names l'
  end.

Definition bucket_of (r : rep) : bucket :=
  match r with
  | RTupG [] => BGen
  | RTupG l => BRel (join_names (map fst l))
  | RTupChar _ _ => BChar
  | RTupByte _ _ => BByte
  | RTupItem _ _ => BItem
  | RTupEntry _ _ => BEntry
  | _ => BGen
  end.
Definition bucket_str (b : bucket) : list Z :=
  match b with
  | BGen => s_generic | BChar => s_char | BByte => s_byte | BItem => s_item | BEntry => s_entry
  | BRel k => k
  end.
(* equality of map[fmt.Stringer] keys: dynamic type and value *)
Definition bucket_eq (a b : bucket) : bool :=
  match a, b with
  | BGen, BGen | BChar, BChar | BByte, BByte | BItem, BItem | BEntry, BEntry => true
  | BRel x, BRel y => zlist_eq x y
  | _, _ => false
  end.

(* ---------- enumeration and Count ---------- *)
Fixpoint str_members (off : Z) (cells : list Z) : list rep :=
  match cells with
  | [] => []
  | c :: l => if c <? 0 then str_members (off + 1) l else RTupChar off c :: str_members (off + 1) l
  end.
Fixpoint bytes_members (off : Z) (bs : list Z) : list rep :=
  match bs with
  | [] => []
  | b :: l => RTupByte off b :: bytes_members (off + 1) l
  end.
Fixpoint arr_members (off : Z) (cells : list (option rep)) : list rep :=
  match cells with
  | [] => []
  | None :: l => arr_members (off + 1) l
  | Some x :: l => RTupItem off x :: arr_members (off + 1) l
  end.
Definition dict_members (es : list (rep * bool * list rep)) : list rep :=
  flat_map (fun e : rep * bool * list rep => map (RTupEntry (fst (fst e))) (snd e)) es.
Definition rel_members (names : list name) (rows : list (list rep)) : list rep :=
  map (fun row => RTupG (combine names row)) rows.

(* members of a set that is not a union *)
Definition flat_members (r : rep) : list rep :=
  match r with
  | RTrue => [RTupG []]
  | RStr off cells _ => str_members off cells
  | RBytes off bs => bytes_members off bs
  | RArr off cells _ => arr_members off cells
  | RDict es => dict_members es
  | RRel names rows => rel_members names rows
  | RGen l => l
  | _ => []
  end.
Definition rmembers (r : rep) : list rep :=
  match r with
  | RUnion bs => flat_map (fun b : list Z * rep => flat_members (snd b)) bs
  | _ => flat_members r
  end.

Definition flat_count (r : rep) : Z :=
  match r with
  | RTrue => 1
  | RStr _ cells holes => Z.of_nat (length cells) - holes
  | RBytes _ bs => Z.of_nat (length bs)
  | RArr _ _ count => count
  | RDict es => fold_right (fun (e : rep * bool * list rep) acc => (if snd (fst e) then Z.of_nat (length (snd e)) else 1) + acc) 0 es
  | RRel _ rows => Z.of_nat (length rows)
  | RGen l => Z.of_nat (length l)
  | _ => 0
  end.
Definition rcount (r : rep) : Z :=
  match r with
  | RUnion bs => fold_right (fun (b : list Z * rep) acc => flat_count (snd b) + acc) 0 bs
  | _ => flat_count r
  end.
Definition is_set (r : rep) : bool :=
  match r with
  | RNum _ | RTupG _ | RTupChar _ _ | RTupByte _ _ | RTupItem _ _ | RTupEntry _ _ => false
  | _ => true
  end.

(* ---------- Equal ---------- *)
Fixpoint dict_get (eq : rep -> rep -> bool) (k : rep) (es : list (rep * bool * list rep)) : option (bool * list rep) :=
  match es with
  | [] => None
  | (k', m, vs) :: es' => if eq k k' then Some (m, vs) else dict_get eq k es'
  end.
Fixpoint bucket_get (k : list Z) (bs : list (list Z * rep)) : option rep :=
  match bs with
  | [] => None
  | (k', s) :: bs' => if zlist_eq k k' then Some s else bucket_get k bs'
  end.

(* names.GetSorted() *)
Fixpoint ninsert (x : name) (l : list name) : list name :=
  match l with
  | [] => [x]
  | y :: l' => match name_cmp x y with Gt => y :: ninsert x l' | _ => x :: l end
  end.
Definition nsort (l : list name) : list name := fold_right ninsert [] l.
Fixpoint names_eq_list (a b : list name) : bool :=
  match a, b with
  | [], [] => true
  | x :: a', y :: b' => name_eq x y && names_eq_list a' b'
  | _, _ => false
  end.
(* a row read in the order of the sorted names: canonicalRelation *)
Fixpoint row_get {A} (n : name) (names : list name) (row : list A) : option A :=
  match names, row with
  | m :: names', x :: row' => if name_eq n m then Some x else row_get n names' row'
  | _, _ => None
  end.
Definition canon_row {A} (names : list name) (row : list A) : list (option A) :=
  map (fun n => row_get n names row) (nsort names).

Fixpoint rep_equal (a b : rep) {struct a} : bool :=
  match a with
  | RNum n => match b with RNum m => num_eq n m | _ => false end
  | RTupG l =>                      (* GenericTuple.Equal: any Tuple on the right *)
      match tup_attrs b with
      | Some m =>
          forallb (fun p => match tfind (fst p) m with Some bv => rep_equal (snd p) bv | None => false end) l
          && forallb (fun q => match tfind (fst q) (map (fun p => (fst p, RNum (NInt 0))) l) with Some _ => true | None => false end) m
      | None => false
      end
  | RTupChar at_ c => match b with RTupChar at' c' => Z.eqb at_ at' && Z.eqb c c' | _ => false end
  | RTupByte at_ c => match b with RTupByte at' c' => Z.eqb at_ at' && Z.eqb c c' | _ => false end
  | RTupItem at_ x => match b with RTupItem at' x' => Z.eqb at_ at' && rep_equal x x' | _ => false end
  | RTupEntry k v => match b with RTupEntry k' v' => rep_equal k k' && rep_equal v v' | _ => false end
  | REmpty => match b with REmpty => true | _ => false end
  | RTrue => match b with RTrue => true | _ => false end
  | RStr off cells holes =>
      match b with
      | RStr off' cells' holes' => Z.eqb off off' && Z.eqb holes holes' && zlist_eq cells cells'
      | _ => false
      end
  | RBytes off bs => match b with RBytes off' bs' => Z.eqb off off' && zlist_eq bs bs' | _ => false end
  | RArr off cells count =>
      match b with
      | RArr off' cells' count' =>
          Nat.eqb (length cells) (length cells') && Z.eqb off off' && Z.eqb count count' &&
          (fix go (l : list (option rep)) (m : list (option rep)) : bool :=
             match l, m with
             | [], _ => true
             | None :: l', None :: m' => go l' m'
             | Some x :: l', Some y :: m' => rep_equal x y && go l' m'
             | _, _ => false
             end) cells cells'
      | _ => false
      end
  | RDict es =>
      match b with
      | RDict es' =>                (* equalDict: same number of keys, every key of d found in d2 with an equal slot *)
          Nat.eqb (length es) (length es') &&
          forallb (fun e =>
            match dict_get (fun _ k' => rep_equal (fst (fst e)) k') (fst (fst e)) es' with
            | Some (m', vs') =>
                Bool.eqb (snd (fst e)) m' &&
                (if snd (fst e)
                 then Nat.eqb (length (snd e)) (length vs') &&
                      forallb (fun v => existsb (fun v' => rep_equal v v') vs') (snd e) &&
                      forallb (fun v' => existsb (fun v => rep_equal v v') (snd e)) vs'
                 else match snd e, vs' with [v], [v'] => rep_equal v v' | _, _ => false end)
            | None => false
            end) es
      | _ =>
          (* case Set: a non-Dict set equals the dict when both have the same Count and every member of it is
             a (@, @value) tuple whose key the dict maps to exactly that single value *)
          if is_set b then
            negb (match rmembers b with [] => true | _ => false end) (* d.IsTrue() = true for a built dict *)
            && Z.eqb (flat_count (RDict es)) (rcount b)
            && forallb (fun m => match m with
                                 | RTupEntry k' v' =>
                                     (fix find (l : list (rep * bool * list rep)) : bool :=
                                        match l with
                                        | [] => false
                                        | (k, mu, vs) :: l' =>
                                            if rep_equal k k'
                                            then (match mu, vs with false, [v] => rep_equal v v' | _, _ => false end)
                                            else find l'
                                        end) es
                                 | _ => false
                                 end) (rmembers b)
          else false
      end
  | RRel names rows =>
      match b with
      | RRel names' rows' =>
          names_eq_list (nsort names) (nsort names') &&
          (* canonicalRelation projects both rows to the sorted names and compares them position by position; the
             names being equal as sorted lists and duplicate-free, that is: every stored cell of the left row equals
             the cell the right row stores under the same name (written so for the structural recursion) *)
          (let eqrow := fun (r : list rep) (r' : list rep) =>
             Nat.eqb (length r) (length r') &&
             (fix go (ns : list name) (l : list rep) {struct l} : bool :=
                match ns, l with
                | [], [] => true
                | n :: ns', x :: l' =>
                    match row_get n names' r' with Some y => rep_equal x y && go ns' l' | None => false end
                | _, _ => false
                end) names r in
           Nat.eqb (length rows) (length rows') &&
           forallb (fun r => existsb (fun r' => eqrow r r') rows') rows &&
           forallb (fun r' => existsb (fun r => eqrow r r') rows) rows')
      | _ => false
      end
  | RGen l =>
      match b with
      | RGen m =>
          Nat.eqb (length l) (length m) &&
          forallb (fun x => existsb (fun y => rep_equal x y) m) l &&
          forallb (fun y => existsb (fun x => rep_equal x y) l) m
      | _ => false
      end
  | RUnion bs =>
      match b with
      | RUnion bs' =>
          Nat.eqb (length bs) (length bs') &&
          forallb (fun e => match bucket_get (fst e) bs' with
                            | Some t => rep_equal (snd e) t
                            | None => false
                            end) bs
      | _ => false
      end
  end.

(* Values.Equal: same length, pointwise Equal *)
Fixpoint row_equal (a b : list rep) : bool :=
  match a, b with
  | [], [] => true
  | x :: a', y :: b' => rep_equal x y && row_equal a' b'
  | _, _ => false
  end.

(* ---------- per-bucket finishers ---------- *)
(* genericSetFinish + newSetFromFrozenSet *)
Definition finish_generic (vs : list rep) : rep :=
  let s := fset_of rep_equal vs in
  match s with
  | [] => REmpty
  | [x] => if rep_equal (RTupG []) x then RTrue else RGen s
  | _ => RGen s
  end.

Definition zmin_list (d : Z) (l : list Z) : Z := fold_left Z.min l d.
Definition zmax_list (d : Z) (l : list Z) : Z := fold_left Z.max l d.
Fixpoint set_nth {A} (n : nat) (x : A) (l : list A) : list A :=
  match n, l with
  | _, [] => []
  | O, _ :: l' => x :: l'
  | S n', y :: l' => y :: set_nth n' x l'
  end.

Definition seq_at (r : rep) : Z :=
  match r with RTupChar a _ | RTupByte a _ | RTupItem a _ => a | _ => 0 end.

(* asString: min/max index, a slice of -1, then every tuple written in order; holes counted down when a
   negative cell is overwritten *)
Definition finish_string (vs : list rep) : rep :=
  match vs with
  | [] => REmpty
  | v0 :: _ =>
      let ats := map seq_at vs in
      let lo := zmin_list (seq_at v0) ats in
      let hi := zmax_list (seq_at v0) ats in
      let n := Z.to_nat (hi - lo + 1) in
      let init := (repeat (-1) n, Z.of_nat n) in
      let step := fun (st : list Z * Z) (v : rep) =>
        match v with
        | RTupChar a c =>
            let i := Z.to_nat (a - lo) in
            let holes := if nth i (fst st) 0 <? 0 then snd st - 1 else snd st in
            (set_nth i c (fst st), holes)
        | _ => st
        end in
      let fin := fold_left step vs init in
      RStr lo (fst fin) (snd fin)
  end.

(* asBytes: gaps stay zero *)
Definition finish_bytes (vs : list rep) : rep :=
  match vs with
  | [] => REmpty
  | v0 :: _ =>
      let ats := map seq_at vs in
      let lo := zmin_list (seq_at v0) ats in
      let hi := zmax_list (seq_at v0) ats in
      let n := Z.to_nat (hi - lo + 1) in
      let step := fun (st : list Z) (v : rep) =>
        match v with
        | RTupByte a b => set_nth (Z.to_nat (a - lo)) b st
        | _ => st
        end in
      RBytes lo (fold_left step vs (repeat 0 n))
  end.

(* asArray: count goes up when a nil cell is written *)
Definition finish_array (vs : list rep) : rep :=
  match vs with
  | [] => REmpty
  | v0 :: _ =>
      let ats := map seq_at vs in
      let lo := zmin_list (seq_at v0) ats in
      let hi := zmax_list (seq_at v0) ats in
      let n := Z.to_nat (hi - lo + 1) in
      let step := fun (st : list (option rep) * Z) (v : rep) =>
        match v with
        | RTupItem a x =>
            let i := Z.to_nat (a - lo) in
            let cnt := match nth i (fst st) None with None => snd st + 1 | Some _ => snd st end in
            (set_nth i (Some x) (fst st), cnt)
        | _ => st
        end in
      let fin := fold_left step vs (repeat None n, 0) in
      RArr lo (fst fin) (snd fin)
  end.

(* NewDict(true, entries...) *)
Fixpoint dict_put (k : rep) (slot : bool * list rep) (es : list (rep * bool * list rep)) : list (rep * bool * list rep) :=
  match es with
  | [] => [(k, fst slot, snd slot)]
  | (k', m, vs) :: es' => if rep_equal k k' then (k', fst slot, snd slot) :: es' else (k', m, vs) :: dict_put k slot es'
  end.
(* newMultipleValues(v, w): a frozen set of the two; back to a plain value when it has one element *)
Definition new_multi (v w : rep) : bool * list rep :=
  let s := fset_of rep_equal [v; w] in
  match s with [x] => (false, [x]) | _ => (true, s) end.
Definition finish_dict (vs : list rep) : rep :=
  match vs with
  | [] => REmpty
  | _ =>
      RDict (fold_left (fun es e =>
        match e with
        | RTupEntry k v =>
            match dict_get rep_equal k es with
            | Some (true, ws) => dict_put k (true, fadd rep_equal ws v) es
            | Some (false, [w]) => dict_put k (new_multi w v) es
            | Some (false, _) => es            (* not reachable: a plain slot holds one value *)
            | None => dict_put k (false, [v]) es
            end
        | _ => es
        end) vs [])
  end.

(* relationBuilder: names of the first tuple (sorted); Add reads t.MustGet(name) for every name *)
Fixpoint rel_row (names : list name) (attrs : list (name * rep)) : option (list rep) :=
  match names with
  | [] => Some []
  | n :: names' => match tfind n attrs, rel_row names' attrs with
                   | Some v, Some r => Some (v :: r)
                   | _, _ => None
                   end
  end.
Fixpoint rel_rows (names : list name) (vs : list rep) : option (list (list rep)) :=
  match vs with
  | [] => Some []
  | v :: vs' =>
      match tup_attrs v with
      | Some attrs => match rel_row names attrs, rel_rows names vs' with
                      | Some r, Some rs => Some (r :: rs)
                      | _, _ => None
                      end
      | None => None
      end
  end.
Definition finish_relation (vs : list rep) : bres rep :=
  match vs with
  | [] => BOk REmpty
  | v0 :: _ =>
      match tup_attrs v0 with
      | Some attrs0 =>
          let names := map fst attrs0 in
          match rel_rows names vs with
          | Some rows => BOk (RRel names (fset_of row_equal rows))
          | None => BPanic            (* MustGet: "name" not found *)
          end
      | None => BPanic
      end
  end.

Definition finish_bucket (b : bucket) (vs : list rep) : bres rep :=
  match b with
  | BGen => BOk (finish_generic vs)
  | BChar => BOk (finish_string vs)
  | BByte => BOk (finish_bytes vs)
  | BItem => BOk (finish_array vs)
  | BEntry => BOk (finish_dict vs)
  | BRel _ => finish_relation vs
  end.

(* ---------- SetBuilder ---------- *)
Fixpoint bucket_add (b : bucket) (v : rep) (bs : list (bucket * list rep)) : list (bucket * list rep) :=
  match bs with
  | [] => [(b, [v])]
  | (b', vs) :: bs' => if bucket_eq b b' then (b', vs ++ [v]) :: bs' else (b', vs) :: bucket_add b v bs'
  end.
Definition bucketise (ms : list rep) : list (bucket * list rep) :=
  fold_left (fun bs v => bucket_add (bucket_of v) v bs) ms [].

(* relationBuilder.Add panics as soon as the tuple is added, the other builders only collect *)
Fixpoint union_put (k : list Z) (s : rep) (bs : list (list Z * rep)) : list (list Z * rep) :=
  match bs with
  | [] => [(k, s)]
  | (k', s') :: bs' => if zlist_eq k k' then (k', s) :: bs' else (k', s') :: union_put k s bs'
  end.
Fixpoint finish_all (bs : list (bucket * list rep)) (acc : list (list Z * rep)) : bres (list (list Z * rep)) :=
  match bs with
  | [] => BOk acc
  | (b, vs) :: bs' =>
      match finish_bucket b vs with
      | BOk s => finish_all bs' (union_put (bucket_str b) s acc)
      | BPanic => BPanic
      | BUnspec => BUnspec
      end
  end.

(* rel.NewSet(ms...) *)
Definition build (ms : list rep) : bres rep :=
  match bucketise ms with
  | [] => BOk REmpty
  | [(b, vs)] => finish_bucket b vs
  | bs => match finish_all bs [] with
          | BOk u => BOk (RUnion u)
          | BPanic => BPanic
          | BUnspec => BUnspec
          end
  end.

(* ---------- denotation ---------- *)
Definition set_elems (v : val) : list val := match v with VSet l => l | _ => [] end.
Fixpoint seq_vals (k : name) (off : Z) (cells : list (option val)) : list val :=
  match cells with
  | [] => []
  | None :: l => seq_vals k (off + 1) l
  | Some x :: l => vpair k (vint off) x :: seq_vals k (off + 1) l
  end.
Definition str_cell (c : Z) : option val := if c <? 0 then None else Some (vint c).

Fixpoint abs (r : rep) : val :=
  match r with
  | RNum n => VNum n
  | RTupG l => mktup (map (fun p => (fst p, abs (snd p))) l)
  | RTupChar a c => vpair n_char (vint a) (vint c)
  | RTupByte a b => vpair n_byte (vint a) (vint b)
  | RTupItem a x => vpair n_item (vint a) (abs x)
  | RTupEntry k v => vpair n_value (abs k) (abs v)
  | REmpty => VSet []
  | RTrue => VSet [VTup []]
  | RStr off cells _ => mkset (seq_vals n_char off (map str_cell cells))
  | RBytes off bs => mkset (seq_vals n_byte off (map (fun b => Some (vint b)) bs))
  | RArr off cells _ => mkset (seq_vals n_item off (map (option_map abs) cells))
  | RDict es => mkset (flat_map (fun e => map (fun v => vpair n_value (abs (fst (fst e))) (abs v)) (snd e)) es)
  | RRel names rows => mkset (map (fun row => mktup (combine names (map abs row))) rows)
  | RGen l => mkset (map abs l)
  | RUnion bs => mkset (flat_map (fun b => set_elems (abs (snd b))) bs)
  end.

(* ---------- constructions: what the harness builds through the public API ---------- *)
Inductive cons :=
| CNum (n : num)
| CTup (attrs : list (name * cons))     (* rel.NewTuple(attrs...) in this order *)
| CSet (members : list cons).           (* rel.NewSet(members...) in this order *)

Fixpoint bres_all {A} (l : list (bres A)) : bres (list A) :=
  match l with
  | [] => BOk []
  | x :: l' => match x with
               | BOk a => match bres_all l' with BOk r => BOk (a :: r) | BPanic => BPanic | BUnspec => BUnspec end
               | BPanic => BPanic
               | BUnspec => BUnspec
               end
  end.

Fixpoint construct (c : cons) : bres rep :=
  match c with
  | CNum n => BOk (RNum n)
  | CTup l =>
      match bres_all (map (fun p => match construct (snd p) with BOk r => BOk (fst p, r) | BPanic => BPanic | BUnspec => BUnspec end) l) with
      | BOk attrs => tuple_build attrs
      | BPanic => BPanic
      | BUnspec => BUnspec
      end
  | CSet l =>
      match bres_all (map construct l) with
      | BOk ms => build ms
      | BPanic => BPanic
      | BUnspec => BUnspec
      end
  end.

(* the value the construction denotes (later attributes of one name replace earlier ones, as in a map) *)
Fixpoint denote (c : cons) : val :=
  match c with
  | CNum n => VNum n
  | CTup l => VTup (fold_left (fun m kv => ainsert kv m) (map (fun p => (fst p, denote (snd p))) l) [])
  | CSet l => mkset (map denote l)
  end.
