(* Transcription of nest over a Relation (property C04): rel/ops_rel.go nestWithFunc, validNestOp, Nest,
   SingleAttrNest, Reduce.  These work on the tuples the Relation enumerates (valuesToTuple of every stored
   row: [rel_tuples]), whatever the stored column order.
   Abstractions: the bucket map of Reduce (frozen.Map key -> Set) is the association list [slots] of
   Rep/GenJoin.v of which only the left slot is used; folding fn = nest.With(..) over a bucket yields the set of
   the collected values ([mkset]); Union is [s_union].  Merge(key, (attr: nested)) is modelled where attr is
   not an attribute of the key; otherwise (Merge may return nil) the outcome is [NClash]. *)
From Arrai Require Import Base.Val Spec.SetAlg Eval.Interp Rep.RelJoin Rep.GenJoin.

Inductive nres := NOk (v : val) | NPanic (* validNestOp *) | NClash (* attr is also a key attribute *).

Definition rel_tuples (r : relation) : list val := map (row_tuple (r_attrs r) (r_p r)) (r_rows r).

Section Reduce.
  Variables (keyp : name -> bool) (c : list (name * val) -> list val) (n : name).
  (* value.(Tuple).Project(key) *)
  Definition keyv (m : val) : val := match m with VTup t => VTup (tproject keyp t) | x => x end.
  (* reduce(key, tuples) = {Merge(key, (n: nested))} *)
  Definition reduce1 (k : val) (s : list val) : val :=
    match k with
    | VTup kt => build_tuple (kt ++ [(n, mkset (flat_map (fun m' => match m' with VTup t' => c t' | _ => [] end) s))])
    | x => x
    end.
  Definition reduce_rows (tuples : list val) : list val :=
    let buckets := fold_left (fun m v => sl_add (keyv v) v false m) tuples [] in
    fold_left (fun acc part => s_union acc (vsort part)) (map (fun e => [reduce1 (fst e) (fst (snd e))]) buckets) [].
End Reduce.

Definition nest_with (c : list (name * val) -> list val) (names : list name) (n : name) (r : relation) : nres :=
  let relAttrs := r_attrs r in
  if negb (ns_isSubset names relAttrs) then NPanic
  else let key := ns_minus relAttrs names in
       if name_in n key then NClash
       else NOk (VSet (reduce_rows (fun x => name_in x key) c n (rel_tuples r))).

(* Nest: nest.With(t.Project(attrs)) *)
Definition nest_rel (names : list name) (n : name) (r : relation) : nres :=
  nest_with (fun t => [VTup (tproject (fun x => name_in x names) t)]) names n r.
(* SingleAttrNest: nest.With(t.MustGet(attr)) *)
Definition single_nest_rel (n : name) (r : relation) : nres :=
  nest_with (fun t => match tget n t with Some x => [x] | None => [] end) [n] n r.
