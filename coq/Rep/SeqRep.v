(* The slice + offset + holes representation of strings (rel/value_set_str.go;
   arrays and byte arrays have the same shape) as a lookup function, and the
   refinement of String.with / String.Without to the mathematical with / without
   on the denoted set of (@: i, @char: c) pairs.  The cell-level functions are the
   ones the heap model of C03 (Sys/Heap.v) executes. *)
From Arrai Require Import Base.Val Sys.Heap.
From Coq Require Import ZifyBool ZifyNat.

(* the character at index i, if any: cells are runes, a negative rune is a hole *)
Definition get (off : Z) (c : list Z) (i : Z) : option Z :=
  if i <? off then None
  else match nth_error c (Z.to_nat (i - off)) with
       | Some x => if x <? 0 then None else Some x
       | None => None
       end.

(* the member (@: i, @char: x) is in the denoted set iff get = Some x *)
Definition has (off : Z) (c : list Z) (i x : Z) : bool :=
  match get off c i with Some y => Z.eqb x y | None => false end.

(* Count(): cells that are not holes *)
Definition count (c : list Z) : nat := length (filter (fun x => negb (x <? 0)) c).

(* String.Without on cells, branch for branch as the heap model's step does it: removing an end
   cell re-slices and re-trims, removing an inner cell punches a hole *)
Definition without_cells (c : list Z) (off at_ char : Z) : list Z * Z :=
  let i := at_ - off in
  if (0 <=? i) && (i <? Z.of_nat (length c)) && (nth (Z.to_nat i) c (-1) =? char) && (0 <=? char) then
    if (i =? 0) || (i =? Z.of_nat (length c) - 1) then
      let c1 := if i =? 0 then tl c else removelast c in
      let off1 := if i =? 0 then off + 1 else off in
      let (c2, off2) := trim_front c1 off1 in
      (trim_back c2, off2)
    else (set_nth (Z.to_nat i) (-1) c, off)
  else (c, off).

Lemma nth_error_set_nth_same n x (l : list Z) :
  (n < length l)%nat -> nth_error (set_nth n x l) n = Some x.
Proof.
  revert n; induction l as [|y l IH]; intros n Hn; simpl in *; [lia|].
  destruct n; simpl; [reflexivity | apply IH; lia].
Qed.

Lemma nth_error_set_nth_other n m x (l : list Z) :
  n <> m -> nth_error (set_nth n x l) m = nth_error l m.
Proof.
  revert n m; induction l as [|y l IH]; intros n m Hnm; simpl.
  - destruct n; reflexivity.
  - destruct n, m; simpl; try reflexivity; [congruence | apply IH; congruence].
Qed.

Lemma set_nth_length n x (l : list Z) : length (set_nth n x l) = length l.
Proof. revert n; induction l as [|y l IH]; intros n; simpl; [destruct n; reflexivity|]. destruct n; simpl; [reflexivity | f_equal; apply IH]. Qed.

Lemma nth_error_repeat_hole k n : nth_error (repeat (-1) k) n = if (n <? k)%nat then Some (-1) else None.
Proof.
  revert n; induction k as [|k IH]; intros n; simpl.
  - destruct n; reflexivity.
  - destruct n; simpl; [reflexivity|]. rewrite IH.
    destruct (n <? k)%nat eqn:E1, (S n <? S k)%nat eqn:E2; try reflexivity; apply Nat.ltb_lt in E1 || apply Nat.ltb_ge in E1;
      apply Nat.ltb_lt in E2 || apply Nat.ltb_ge in E2; lia.
Qed.

(* ---------- with ---------- *)

(* String.with refines `with`: afterwards index at_ holds char and every other index is unchanged,
   provided the slot was free or already held char (a second, different character at an occupied
   index is the superimposition finding and takes the generic fallback in the Go code) *)
Theorem with_cells_lookup c off at_ char :
  c <> [] -> 0 <= char ->
  (get off c at_ = None \/ get off c at_ = Some char) ->
  let (c', off') := with_cells c off at_ char in
  forall j, get off' c' j = if j =? at_ then Some char else get off c j.
Proof.
  intros Hc Hch Hfree. unfold with_cells.
  destruct c as [|c0 cs]; [congruence|]. cbv beta iota zeta. set (cc := c0 :: cs) in *.
  assert (Hlen : (0 < length cc)%nat) by (simpl; lia).
  destruct (at_ - off <? 0) eqn:Eneg.
  - (* prepend with a gap of holes *)
    intros j. unfold get. destruct (j =? at_) eqn:Ej.
    + apply Z.eqb_eq in Ej; subst j. rewrite Z.ltb_irrefl, Z.sub_diag. simpl.
      destruct (char <? 0) eqn:E; [lia | reflexivity].
    + destruct (j <? at_) eqn:Elt.
      * destruct (j <? off) eqn:E2; [reflexivity | lia].
      * assert (Hj : Z.to_nat (j - at_) = S (Z.to_nat (j - at_ - 1))) by lia.
        rewrite Hj. cbn [nth_error].
        destruct (j <? off) eqn:Eoff.
        -- (* inside the gap: a hole *)
           rewrite nth_error_app1 by (rewrite repeat_length; lia).
           rewrite nth_error_repeat_hole.
           destruct (_ <? _)%nat eqn:E3; [reflexivity|]. apply Nat.ltb_ge in E3. lia.
        -- rewrite nth_error_app2 by (rewrite repeat_length; lia). rewrite repeat_length.
           replace (Z.to_nat (j - at_ - 1) - Z.to_nat (- (at_ - off) - 1))%nat with (Z.to_nat (j - off)) by lia.
           reflexivity.
  - destruct (at_ - off <? Z.of_nat (length cc)) eqn:Ein.
    + (* inside: fill a hole (or rewrite the same character) *)
      intros j. unfold get. destruct (j <? off) eqn:Eoff.
      * destruct (j =? at_) eqn:Ej; [lia | reflexivity].
      * destruct (j =? at_) eqn:Ej.
        -- apply Z.eqb_eq in Ej; subst j. rewrite nth_error_set_nth_same by lia.
           destruct (char <? 0) eqn:E; [lia | reflexivity].
        -- rewrite nth_error_set_nth_other by lia. reflexivity.
    + (* append with a gap of holes *)
      intros j. unfold get. destruct (j <? off) eqn:Eoff.
      * destruct (j =? at_) eqn:Ej; [lia | reflexivity].
      * destruct (Z.to_nat (j - off) <? length cc)%nat eqn:Ea.
        -- apply Nat.ltb_lt in Ea. rewrite nth_error_app1 by exact Ea.
           destruct (j =? at_) eqn:Ej; [lia | reflexivity].
        -- apply Nat.ltb_ge in Ea. rewrite nth_error_app2 by exact Ea.
           rewrite (proj2 (nth_error_None cc (Z.to_nat (j - off)))) by exact Ea.
           set (g := Z.to_nat (at_ - off - Z.of_nat (length cc))).
           destruct (Z.to_nat (j - off) - length cc <? g)%nat eqn:Eg.
           ++ apply Nat.ltb_lt in Eg. rewrite nth_error_app1 by (rewrite repeat_length; exact Eg).
              rewrite nth_error_repeat_hole, (proj2 (Nat.ltb_lt _ _) Eg). simpl.
              destruct (j =? at_) eqn:Ej; [unfold g in Eg; lia | reflexivity].
           ++ apply Nat.ltb_ge in Eg. rewrite nth_error_app2 by (rewrite repeat_length; exact Eg).
              rewrite repeat_length.
              destruct (j =? at_) eqn:Ej.
              ** apply Z.eqb_eq in Ej; subst j.
                 replace (Z.to_nat (at_ - off) - length cc - g)%nat with O by (unfold g; lia). simpl.
                 destruct (char <? 0) eqn:E; [lia | reflexivity].
              ** assert (H : (Z.to_nat (j - off) - length cc - g <> 0)%nat) by (unfold g; lia).
                 destruct (Z.to_nat (j - off) - length cc - g)%nat as [|k]; [congruence|]. simpl.
                 destruct k; reflexivity.
Qed.

(* ---------- trimming keeps the lookup function ---------- *)

Lemma trim_front_lookup c off :
  let (c', off') := trim_front c off in forall j, get off' c' j = get off c j.
Proof.
  unfold trim_front. revert off; induction c as [|x c IH]; intros off; simpl; [reflexivity|].
  destruct (x <? 0) eqn:E.
  - specialize (IH (off + 1)).
    destruct ((fix go (c : list Z) (off : Z) {struct c} : list Z * Z :=
                 match c with
                 | [] => ([], off)
                 | x :: c' => if x <? 0 then go c' (off + 1) else (c, off)
                 end) c (off + 1)) as [c' off'] eqn:Eg.
    intros j. rewrite IH. unfold get.
    destruct (j <? off + 1) eqn:E1, (j <? off) eqn:E2; try reflexivity; try lia.
    + (* j = off: the dropped cell is a hole *)
      assert (j = off) by lia; subst j. rewrite Z.sub_diag. simpl. rewrite E. reflexivity.
    + assert (Hj : Z.to_nat (j - off) = S (Z.to_nat (j - (off + 1)))) by lia. rewrite Hj. reflexivity.
  - reflexivity.
Qed.

Lemma trim_front_fst_off c a b : fst (trim_front c a) = fst (trim_front c b).
Proof.
  unfold trim_front. revert a b; induction c as [|y l IHl]; intros a b; simpl; [reflexivity|].
  destruct (y <? 0); [apply IHl | reflexivity].
Qed.

Lemma trim_back_lookup c off j : get off (trim_back c) j = get off c j.
Proof.
  unfold trim_back, get. destruct (j <? off); [reflexivity|].
  set (n := Z.to_nat (j - off)).
  (* trailing holes are looked up as None either way *)
  induction c as [|x c IH] using rev_ind; [reflexivity|].
  rewrite rev_app_distr. cbn [rev app]. cbn [trim_front].
  destruct (x <? 0) eqn:E.
  - (* last cell is a hole: dropped, then continue *)
    assert (H : fst ((fix go (c0 : list Z) (off0 : Z) {struct c0} : list Z * Z :=
                        match c0 with
                        | [] => ([], off0)
                        | x0 :: c' => if x0 <? 0 then go c' (off0 + 1) else (c0, off0)
                        end) (rev c) (0 + 1))
                = fst (trim_front (rev c) 0)) by (apply (trim_front_fst_off (rev c) (0 + 1) 0)).
    rewrite H, IH.
    destruct (n <? length c)%nat eqn:En.
    + apply Nat.ltb_lt in En. rewrite nth_error_app1 by exact En. reflexivity.
    + apply Nat.ltb_ge in En. rewrite (proj2 (nth_error_None c n)) by exact En.
      rewrite nth_error_app2 by exact En. destruct (n - length c)%nat as [|k]; simpl; [rewrite E; reflexivity | destruct k; reflexivity].
  - simpl. rewrite rev_involutive. reflexivity.
Qed.

(* ---------- without ---------- *)

Lemma get_tl c off j : c <> [] -> get (off + 1) (tl c) j = if j =? off then None else get off c j.
Proof.
  intros Hc. destruct c as [|x c]; [congruence|]. simpl. unfold get.
  destruct (j <? off + 1) eqn:E1, (j <? off) eqn:E2, (j =? off) eqn:E3; try reflexivity; try lia.
  assert (Hj : Z.to_nat (j - off) = S (Z.to_nat (j - (off + 1)))) by lia. rewrite Hj. reflexivity.
Qed.

Lemma nth_error_removelast (c : list Z) n :
  nth_error (removelast c) n = if (S n <? length c)%nat then nth_error c n else None.
Proof.
  revert n; induction c as [|x c IH]; intros n; [destruct n; reflexivity|].
  destruct c as [|y c].
  - simpl. destruct n; reflexivity.
  - change (removelast (x :: y :: c)) with (x :: removelast (y :: c)).
    destruct n as [|n]; [reflexivity|]. cbn [nth_error]. rewrite IH.
    change (length (x :: y :: c)) with (S (length (y :: c))).
    destruct (S n <? length (y :: c))%nat eqn:E1, (S (S n) <? S (length (y :: c)))%nat eqn:E2; try reflexivity;
      apply Nat.ltb_lt in E1 || apply Nat.ltb_ge in E1; apply Nat.ltb_lt in E2 || apply Nat.ltb_ge in E2; lia.
Qed.

Lemma get_removelast c off j :
  get off (removelast c) j = if j =? off + Z.of_nat (length c) - 1 then None else get off c j.
Proof.
  unfold get. destruct (j <? off) eqn:E; [destruct (j =? _); reflexivity|].
  rewrite nth_error_removelast.
  destruct (S (Z.to_nat (j - off)) <? length c)%nat eqn:E1.
  - apply Nat.ltb_lt in E1. destruct (j =? off + Z.of_nat (length c) - 1) eqn:E2; [lia | reflexivity].
  - apply Nat.ltb_ge in E1. destruct (j =? off + Z.of_nat (length c) - 1) eqn:E2; [reflexivity|].
    rewrite (proj2 (nth_error_None c (Z.to_nat (j - off)))) by lia. reflexivity.
Qed.

Lemma get_set_hole c off n j :
  (n < length c)%nat ->
  get off (set_nth n (-1) c) j = if j =? off + Z.of_nat n then None else get off c j.
Proof.
  intros Hn. unfold get. destruct (j <? off) eqn:E; [destruct (j =? _); reflexivity|].
  destruct (j =? off + Z.of_nat n) eqn:Ej.
  - replace (Z.to_nat (j - off)) with n by lia. rewrite nth_error_set_nth_same by exact Hn. reflexivity.
  - rewrite nth_error_set_nth_other by lia. reflexivity.
Qed.

(* String.Without refines `without`: the member (@: at_, @char: char) disappears if it was there,
   every other index is unchanged; re-slicing and re-trimming the ends change no other lookup *)
Theorem without_cells_lookup c off at_ char :
  let (c', off') := without_cells c off at_ char in
  forall j, get off' c' j =
            if (j =? at_) && (match get off c at_ with Some y => y =? char | None => false end)
            then None else get off c j.
Proof.
  unfold without_cells.
  destruct ((0 <=? at_ - off) && (at_ - off <? Z.of_nat (length c)) &&
            (nth (Z.to_nat (at_ - off)) c (-1) =? char) && (0 <=? char)) eqn:Ecnd.
  - apply andb_true_iff in Ecnd as [Ecnd Ech]. apply andb_true_iff in Ecnd as [Ecnd Enth].
    apply andb_true_iff in Ecnd as [E0 Elen].
    assert (Hget : get off c at_ = Some char).
    { unfold get. destruct (at_ <? off) eqn:E; [lia|].
      rewrite (nth_error_nth' c (-1)) by lia. apply Z.eqb_eq in Enth. rewrite Enth.
      destruct (char <? 0) eqn:E2; [lia | reflexivity]. }
    assert (Hc : c <> []) by (destruct c; simpl in *; [lia | discriminate]).
    destruct ((at_ - off =? 0) || (at_ - off =? Z.of_nat (length c) - 1)) eqn:Eend.
    + destruct (at_ - off =? 0) eqn:Ei.
      * pose proof (trim_front_lookup (tl c) (off + 1)) as Htf.
        destruct (trim_front (tl c) (off + 1)) as [c2 off2].
        intros j. rewrite trim_back_lookup, Htf, Hget, Z.eqb_refl, andb_true_r, get_tl by exact Hc.
        replace (j =? at_) with (j =? off) by (destruct (j =? off) eqn:A, (j =? at_) eqn:B; lia). reflexivity.
      * simpl in Eend.
        pose proof (trim_front_lookup (removelast c) off) as Htf.
        destruct (trim_front (removelast c) off) as [c2 off2].
        intros j. rewrite trim_back_lookup, Htf, Hget, Z.eqb_refl, andb_true_r, get_removelast.
        replace (j =? at_) with (j =? off + Z.of_nat (length c) - 1)
          by (destruct (j =? off + Z.of_nat (length c) - 1) eqn:A, (j =? at_) eqn:B; lia). reflexivity.
    + intros j. rewrite Hget, Z.eqb_refl, andb_true_r, get_set_hole by lia.
      replace (j =? at_) with (j =? off + Z.of_nat (Z.to_nat (at_ - off)))
        by (destruct (j =? off + Z.of_nat (Z.to_nat (at_ - off))) eqn:A, (j =? at_) eqn:B; lia). reflexivity.
  - (* nothing to remove: the member is not there *)
    intros j.
    destruct ((j =? at_) && match get off c at_ with Some y => y =? char | None => false end) eqn:E; [|reflexivity].
    exfalso. apply andb_true_iff in E as [_ E]. unfold get in E.
    destruct (at_ <? off) eqn:E1; [discriminate|].
    destruct (nth_error c (Z.to_nat (at_ - off))) as [x|] eqn:En; [|discriminate].
    destruct (x <? 0) eqn:E2; [discriminate|].
    assert (Hl' : (Z.to_nat (at_ - off) < length c)%nat) by (apply nth_error_Some; congruence).
    rewrite (nth_error_nth' c (-1)) in En by exact Hl'. injection En as En.
    apply Z.eqb_eq in E. subst.
    assert (C : (0 <=? at_ - off) && (at_ - off <? Z.of_nat (length c)) &&
                (nth (Z.to_nat (at_ - off)) c (-1) =? nth (Z.to_nat (at_ - off)) c (-1)) &&
                (0 <=? nth (Z.to_nat (at_ - off)) c (-1)) = true).
    { rewrite Z.eqb_refl. repeat (apply andb_true_iff; split); lia. }
    congruence.
Qed.

(* Has() is membership of the denoted pair *)
Theorem has_spec off c i x : has off c i x = true <-> get off c i = Some x.
Proof.
  unfold has. destruct (get off c i) as [y|]; [|split; discriminate].
  rewrite Z.eqb_eq. split; congruence.
Qed.
