(* Transcription of the generic join engine (property C04), used whenever an operand is not a
   Relation (arrays, strings, dicts, byte arrays, generic sets of tuples):
     rel/ops_rel.go    RelationAttrs (the GenericSet loop; for Dict / Array / Bytes / String it is what the
                       loop computes on their members), Joiner's generic branch, GenericJoin (accumulate
                       into a map from key to the two slots, then the union of the joined slots)
     rel/ops_rel.go:join and rel/expr_rel.go   the combine functions of the eight operators
     rel/ops_tuple.go  Merge (nil when a shared name maps to different values)
   Operands are given by their members (canonical values); a Names set is a name list; the frozen map
   from key to the pair of slots is an association list with distinct keys; Set.With is [s_with]. *)
From Arrai Require Import Base.Val Spec.SetAlg Eval.Interp.

Definition relation_attrs (l : list val) : res (list name) :=
  match l with
  | [] => Ok []
  | VTup t :: r =>
      if forallb (fun m => match m with VTup u => names_eq (map fst u) (map fst t) | _ => false end) r
      then Ok (map fst t) else Err
  | _ => Err
  end.

Definition g_merge (a b : list (name * val)) : option val :=
  if forallb (fun p => match tget (fst p) b with Some y => veqb (snd p) y | None => true end) a
  then Some (build_tuple (a ++ b)) else None.

Definition g_combine (op : joinop) (common : list name) (a b : list (name * val)) : option val :=
  let notc := fun n => negb (name_in n common) in
  match op with
  | JJoin => g_merge a b
  | JCompose => g_merge (tproject notc a) (tproject notc b)
  | JCommon => Some (VTup (tproject (fun n => name_in n common) a))
  | JExists => Some (VTup [])
  | JRightMatch => Some (VTup b)
  | JLeftMatch => Some (VTup a)
  | JRightResidue => Some (VTup (tproject notc b))
  | JLeftResidue => Some (VTup (tproject notc a))
  end.

(* value.(Tuple).Project(common) *)
Definition g_key (common : list name) (v : val) : val :=
  match v with VTup t => VTup (tproject (fun n => name_in n common) t) | x => x end.

Definition slots := list (val * (list val * list val)).
Definition slot_with (e : list val * list val) (v : val) (right : bool) : list val * list val :=
  if right then (fst e, s_with (snd e) v) else (s_with (fst e) v, snd e).
Fixpoint sl_add (k v : val) (right : bool) (m : slots) : slots :=
  match m with
  | [] => [(k, slot_with ([], []) v right)]
  | (k', e) :: m' => if veqb k k' then (k', slot_with e v right) :: m' else (k', e) :: sl_add k v right m'
  end.
Definition accumulate (common : list name) (s : list val) (right : bool) (m : slots) : slots :=
  fold_left (fun m v => sl_add (g_key common v) v right m) s m.

Fixpoint mapM_o {A B} (f : A -> option B) (l : list A) : option (list B) :=
  match l with
  | [] => Some []
  | x :: l' => match f x, mapM_o f l' with Some y, Some r => Some (y :: r) | _, _ => None end
  end.

Definition g_pairs (op : joinop) (common : list name) (sa sb : list val) : option (list val) :=
  mapM_o (fun p => match p with (VTup ta, VTup tb) => g_combine op common ta tb | _ => None end)
         (flat_map (fun x => map (fun y => (x, y)) sb) sa).

(* Joiner(...)(a, b) when an operand is not a Relation; None = a nil tuple would reach the set builder *)
Definition generic_join (op : joinop) (a b : list val) : option (res val) :=
  match a, b with
  | [], _ | _, [] => Some (Ok (VSet []))
  | _, _ =>
      match relation_attrs a, relation_attrs b with
      | Ok ha, Ok hb =>
          let common := filter (fun n => name_in n hb) ha in
          let m := accumulate common b true (accumulate common a false []) in
          match mapM_o (fun e => g_pairs op common (fst (snd e)) (snd (snd e))) m with
          | Some parts => Some (Ok (VSet (fold_left (fun acc part => s_union acc (vsort part)) parts [])))
          | None => None
          end
      | _, _ => Some Err
      end
  end.
