(* Model of the Go ordering Value.Less (rel/value_*.go) on canonical values
   (property C06).  Every Less method has the same shape: compare the Kind()
   numbers; for equal kinds use the comparison of that kind.  The kind of a
   value is the Go type the evaluator represents it with, which the canonical
   form determines (C02).  Every kind is modelled.  The result is three-valued: [ROk c], [RPanic]
   (a type assertion or explicit panic of the Go code: reachable only through
   hand-written nested @neg tuples, whose Kind() number collides with another
   type's, and through ill-typed sugar tuples, which the Go constructors reject),
   [RFuel] (the fuel of the model ran out; never for fuel > 2 * depth + 2). *)
From Arrai Require Import Base.Val Spec.SetAlg Eval.Interp.

Inductive rkind :=
| KNum | KEmpty | KTrue | KGeneric | KStr | KBytes | KArr | KDict | KUnion | KRel
| KTupG | KTupChar | KTupItem | KTupEntry | KTupByte | KNeg (k : rkind).

Definition n_neg : name := [64;110;101;103].   (* "@neg" *)

(* bucket of a set member, as SetBuilder.Add files it *)
Inductive bucket := BGeneric | BChar | BByte | BItem | BEntry | BRel (names : list name).

Definition member_bucket (m : val) : bucket :=
  match m with
  | VTup [(n1, k); (n2, x)] =>
      if name_eqb n1 n_at then
        if name_eqb n2 n_char then BChar
        else if name_eqb n2 n_byte then BByte
        else if name_eqb n2 n_item then BItem
        else if name_eqb n2 n_value then BEntry
        else BRel [n1; n2]
      else BRel [n1; n2]
  | VTup [] => BGeneric           (* GenericTuple.getBucket: the empty tuple files with the non-tuples *)
  | VTup l => BRel (map fst l)
  | _ => BGeneric
  end.

Fixpoint names_eqb (a b : list name) : bool :=
  match a, b with
  | [], [] => true
  | x :: a', y :: b' => name_eqb x y && names_eqb a' b'
  | _, _ => false
  end.
Definition bucket_eqb (a b : bucket) : bool :=
  match a, b with
  | BGeneric, BGeneric | BChar, BChar | BByte, BByte | BItem, BItem | BEntry, BEntry => true
  | BRel x, BRel y => names_eqb x y
  | _, _ => false
  end.

Fixpoint kind_of (v : val) : rkind :=
  match v with
  | VNum _ => KNum
  | VTup [(n, x)] => if name_eqb n n_neg then KNeg (kind_of x) else KTupG
  | VTup l =>
      match member_bucket v with
      | BChar => KTupChar | BByte => KTupByte | BItem => KTupItem | BEntry => KTupEntry
      | _ => KTupG
      end
  | VSet [] => KEmpty
  | VSet [VTup []] => KTrue
  | VSet (m :: l) =>
      let b := member_bucket m in
      if forallb (fun x => bucket_eqb (member_bucket x) b) l then
        match b with
        | BGeneric => KGeneric | BChar => KStr | BByte => KBytes | BItem => KArr
        | BEntry => KDict | BRel _ => KRel
        end
      else KUnion
  end.

(* ---------- outcomes ---------- *)

Inductive rres (A : Type) := ROk (x : A) | RPanic | RFuel.
Arguments ROk {A} x.
Arguments RPanic {A}.
Arguments RFuel {A}.

(* sequences as (offset, cells) with None for holes *)
Fixpoint cells_from (i : Z) (n : nat) (ps : list (Z * val)) : list (option val) :=
  match n with
  | O => []
  | S n' => (match find (fun p => Z.eqb (fst p) i) ps with Some p => Some (snd p) | None => None end)
            :: cells_from (i + 1) n' ps
  end.
Definition seq_shape (ps : list (Z * val)) : Z * list (option val) :=
  match ps with
  | [] => (0, [])
  | p :: r => let lo := fold_right (fun q acc => Z.min (fst q) acc) (fst p) r in
              let hi := fold_right (fun q acc => Z.max (fst q) acc) (fst p) r in
              (lo, cells_from lo (Z.to_nat (hi - lo + 1)) ps)
  end.

Definition ocomb (c : comparison) (k : rres comparison) : rres comparison :=
  match c with Eq => k | _ => ROk c end.
Definition obind (c : rres comparison) (k : rres comparison) : rres comparison :=
  match c with ROk Eq => k | other => other end.

Section Combinators.
Variable cmp : val -> val -> rres comparison.

(* insertion sort by a comparison that may be undefined; stands for sort.Slice /
   frozen's OrderedElements with the same less function (no member is dropped) *)
Fixpoint oinsert (x : val) (l : list val) : rres (list val) :=
  match l with
  | [] => ROk [x]
  | y :: l' => match cmp x y with
               | ROk Gt => match oinsert x l' with ROk r => ROk (y :: r) | RPanic => RPanic | RFuel => RFuel end
               | ROk _ => ROk (x :: l)
               | RPanic => RPanic
               | RFuel => RFuel
               end
  end.
Fixpoint osort (l : list val) : rres (list val) :=
  match l with
  | [] => ROk []
  | x :: l' => match osort l' with ROk r => oinsert x r | RPanic => RPanic | RFuel => RFuel end
  end.

(* element-wise, then the shorter one first *)
Fixpoint olex (a b : list val) : rres comparison :=
  match a, b with
  | [], [] => ROk Eq
  | [], _ => ROk Lt
  | _, [] => ROk Gt
  | x :: a', y :: b' => obind (cmp x y) (olex a' b')
  end.

(* Array.Less on cells: a position where only b has a hole decides a < b,
   where only a has a hole decides b < a, two holes are skipped *)
Fixpoint ocells (a b : list (option val)) : rres comparison :=
  match a, b with
  | [], [] => ROk Eq
  | [], _ => ROk Lt
  | _, [] => ROk Gt
  | x :: a', y :: b' =>
      match x, y with
      | None, None => ocells a' b'
      | Some _, None => ROk Lt
      | None, Some _ => ROk Gt
      | Some u, Some v => obind (cmp u v) (ocells a' b')
      end
  end.

(* GenericTuple.Less (and the four sugar tuple types, whose two fields are
   compared in the same name order): names in sorted order; the first differing
   name decides, else the values; then the shorter one first *)
Fixpoint otup (la lb : list (name * val)) : rres comparison :=
  match la, lb with
  | [], [] => ROk Eq
  | [], _ => ROk Lt
  | _, [] => ROk Gt
  | (n1, v1) :: la', (n2, v2) :: lb' =>
      match name_cmp n1 n2 with
      | Eq => obind (cmp v1 v2) (otup la' lb')
      | c => ROk c
      end
  end.
End Combinators.

Definition hole_val : val := vint (-1).
Definition cell_or_hole (c : option val) : val := match c with Some v => v | None => hole_val end.

(* ---------- Dict.Less ---------- *)

(* the entries (@: k, @value: v) of a dict as (k, v) *)
Definition entry_of (m : val) : option (val * val) :=
  match m with VTup [(_, k); (_, v)] => Some (k, v) | _ => None end.
Fixpoint dict_entries (l : list val) : option (list (val * val)) :=
  match l with
  | [] => Some []
  | m :: l' => match entry_of m, dict_entries l' with
               | Some e, Some r => Some (e :: r)
               | _, _ => None
               end
  end.
(* the keys of the underlying map, each once (frozen.Map keyed by Equal) *)
Fixpoint dict_keys (es : list (val * val)) : list val :=
  match es with
  | [] => []
  | (k, _) :: es' => if existsb (fun e => veqb (fst e) k) es' then dict_keys es' else k :: dict_keys es'
  end.
(* the value, or the several values, stored under a key *)
Definition dict_vals (es : list (val * val)) (k : val) : list val :=
  map snd (filter (fun e => veqb (fst e) k) es).

(* the loop over the sorted keys: a different key decides; under equal keys the
   sorted value lists are compared element-wise, then by length; then the
   number of keys.  Value lists are sorted only when the loop reaches them. *)
Fixpoint ogroups (cmp : val -> val -> rres comparison) (ea eb : list (val * val)) (ka kb : list val)
  : rres comparison :=
  match ka, kb with
  | [], [] => ROk Eq
  | [], _ => ROk Lt
  | _, [] => ROk Gt
  | k1 :: ka', k2 :: kb' =>
      obind (cmp k1 k2)
        (match osort cmp (dict_vals ea k1) with
         | ROk v1 =>
             match osort cmp (dict_vals eb k2) with
             | ROk v2 => obind (olex cmp v1 v2) (ogroups cmp ea eb ka' kb')
             | RPanic => RPanic | RFuel => RFuel
             end
         | RPanic => RPanic | RFuel => RFuel
         end)
  end.

Definition odict (cmp : val -> val -> rres comparison) (la lb : list val) : rres comparison :=
  match dict_entries la, dict_entries lb with
  | Some ea, Some eb =>
      match osort cmp (dict_keys ea) with
      | ROk ka =>
          match osort cmp (dict_keys eb) with
          | ROk kb => ogroups cmp ea eb ka kb
          | RPanic => RPanic | RFuel => RFuel
          end
      | RPanic => RPanic | RFuel => RFuel
      end
  | _, _ => RPanic
  end.

(* ---------- Relation.Less ---------- *)

(* heading (attribute names in name order) and the column values of a row in that order *)
Definition rel_names (l : list val) : list name :=
  match l with VTup r :: _ => map fst r | _ => [] end.
Definition row_vals (m : val) : list val :=
  match m with VTup r => map snd r | _ => [] end.
(* NamesSlice.EqualNamesSlice / LessNamesSlice: number of names, then the sorted names *)
Fixpoint names_lex (a b : list name) : comparison :=
  match a, b with
  | [], [] => Eq
  | [], _ => Lt
  | _, [] => Gt
  | x :: a', y :: b' => match name_cmp x y with Eq => names_lex a' b' | c => c end
  end.
Definition names_cmp (a b : list name) : comparison :=
  match Nat.compare (length a) (length b) with Eq => names_lex a b | c => c end.

(* heading; Count(); then the rows - ordered column by column in name order
   (positionalRelation.OrderedRange over projectedValues.Less) - compared
   pairwise as tuples (GenericTuple.Less) *)
Definition orel (cmp : val -> val -> rres comparison) (la lb : list val) : rres comparison :=
  ocomb (names_cmp (rel_names la) (rel_names lb))
    (ocomb (Nat.compare (length la) (length lb))
       (let rowless := fun x y => olex cmp (row_vals x) (row_vals y) in
        match osort rowless la with
        | ROk ra =>
            match osort rowless lb with
            | ROk rb => olex cmp ra rb
            | RPanic => RPanic | RFuel => RFuel
            end
        | RPanic => RPanic | RFuel => RFuel
        end)).

(* ---------- UnionSet.Less ---------- *)

(* the buckets of a union set, each a set of one representation *)
Fixpoint bucket_list (l : list val) : list bucket :=
  match l with
  | [] => []
  | m :: l' => let b := member_bucket m in
               if existsb (fun x => bucket_eqb (member_bucket x) b) l' then bucket_list l' else b :: bucket_list l'
  end.
Definition union_buckets (l : list val) : list val :=
  map (fun b => VSet (filter (fun m => bucket_eqb (member_bucket m) b) l)) (bucket_list l).

(* orderedSubsets (sort.Slice by Less), then bucket by bucket, then the number of buckets *)
Definition ounion (cmp : val -> val -> rres comparison) (la lb : list val) : rres comparison :=
  match osort cmp (union_buckets la) with
  | ROk sa =>
      match osort cmp (union_buckets lb) with
      | ROk sb => olex cmp sa sb
      | RPanic => RPanic | RFuel => RFuel
      end
  | RPanic => RPanic | RFuel => RFuel
  end.

(* ---------- sequences ---------- *)

Definition oseq (n : name) (cells : list (option val) -> list (option val) -> rres comparison)
  (la lb : list val) : rres comparison :=
  match seq_members n la, seq_members n lb with
  | Some pa, Some pb =>
      let (oa, ca) := seq_shape pa in let (ob, cb) := seq_shape pb in
      ocomb (Z.compare oa ob) (cells ca cb)
  | _, _ => RPanic
  end.

(* ---------- one Less method: the receiver has kind ka, the Kind() numbers are equal ---------- *)

Definition same_kind (cmp : val -> val -> rres comparison) (ka : rkind) (a b : val) : rres comparison :=
  match ka, a, b with
  | KNum, VNum x, VNum y => ROk (num_cmp x y)                        (* n < v.(Number) *)
  | KEmpty, _, _ | KTrue, _, _ => ROk Eq                            (* e.Kind() < v.Kind(): false both ways *)
  | KNeg _, VTup [(_, x)], VTup [(n2, y)] =>                        (* y.Less(x); panics unless v is a one-attribute @neg tuple *)
      if name_eqb n2 n_neg then cmp y x else RPanic
  | KTupG, VTup la, VTup lb =>                                      (* v.( *GenericTuple) *)
      match member_bucket b with
      | BChar | BByte | BItem | BEntry => RPanic
      | _ => otup cmp la lb
      end
  | (KTupChar | KTupByte | KTupItem | KTupEntry), VTup la, VTup lb => (* v.(StringCharTuple) ... *)
      if bucket_eqb (member_bucket a) (member_bucket b) then otup cmp la lb else RPanic
  | KStr, VSet la, VSet lb =>
      oseq n_char (fun ca cb => olex cmp (map cell_or_hole ca) (map cell_or_hole cb)) la lb
  | KBytes, VSet la, VSet lb =>
      oseq n_byte (fun ca cb => olex cmp (map cell_or_hole ca) (map cell_or_hole cb)) la lb
  | KArr, VSet la, VSet lb => oseq n_item (ocells cmp) la lb
  | KGeneric, VSet la, VSet lb =>
      match osort cmp la with
      | ROk sa =>
          match osort cmp lb with
          | ROk sb => olex cmp sa sb
          | RPanic => RPanic | RFuel => RFuel
          end
      | RPanic => RPanic | RFuel => RFuel
      end
  | KDict, VSet la, VSet lb => odict cmp la lb
  | KRel, VSet la, VSet lb => orel cmp la lb
  | KUnion, VSet la, VSet lb => ounion cmp la lb
  | _, _, _ => RPanic                                               (* v.(T) on a value of another Go type *)
  end.

(* the Kind() numbers, regenerated from the running code into Gen/Kinds.v and
   passed in here *)
Section WithKinds.
Variable knum : rkind -> Z.

Fixpoint rcmp (fuel : nat) (a b : val) : rres comparison :=
  match fuel with
  | O => RFuel
  | S f =>
    match Z.compare (knum (kind_of a)) (knum (kind_of b)) with
    | Eq => same_kind (rcmp f) (kind_of a) a b
    | c => ROk c
    end
  end.

Definition rless (fuel : nat) (a b : val) : rres bool :=
  match rcmp fuel a b with ROk Lt => ROk true | ROk _ => ROk false | RPanic => RPanic | RFuel => RFuel end.

End WithKinds.

(* ---------- the values the Go representations can hold ---------- *)

(* sugar tuples (@, @char | @byte | @item) must fit the specialised Go types
   (NewTuple asserts Number and truncates otherwise) *)
Definition sugar_ok (l : list (name * val)) : bool :=
  match l with
  | [(n1, k); (n2, x)] =>
      if name_eqb n1 n_at then
        if name_eqb n2 n_char then (match k with VNum (NInt _) => true | _ => false end) && valid_char x
        else if name_eqb n2 n_byte then (match k with VNum (NInt _) => true | _ => false end) && valid_byte x
        else if name_eqb n2 n_item then (match k with VNum (NInt _) => true | _ => false end)
        else true
      else true
  | _ => true
  end.
(* Negate() never nests: (@neg: (@neg: x)) can only be written by hand, and its
   Kind() is the kind of x (open finding KF-C06-01) *)
Definition neg_ok (l : list (name * val)) : bool :=
  match l with
  | [(n, VTup [(n', _)])] => negb (name_eqb n n_neg && name_eqb n' n_neg)
  | _ => true
  end.
(* the (index, item) pairs of the sequence members named n, and no two of them at one index
   (superimposed sequence items have no representation: open finding of C01) *)
Definition seq_pairs (n : name) (l : list val) : list (Z * val) :=
  flat_map (fun m => match m with
                     | VTup [(n1, VNum (NInt i)); (n2, x)] =>
                         if name_eqb n1 n_at && name_eqb n2 n then [(i, x)] else []
                     | _ => []
                     end) l.
Definition seq_distinct (l : list val) : bool :=
  distinct_keys (seq_pairs n_char l) && distinct_keys (seq_pairs n_byte l) && distinct_keys (seq_pairs n_item l).

Fixpoint go_ok (v : val) : bool :=
  match v with
  | VNum _ => true
  | VTup l => sugar_ok l && neg_ok l && forallb (fun p => go_ok (snd p)) l
  | VSet l => seq_distinct l && forallb go_ok l
  end.
