(* Model of the Go ordering Value.Less (rel/value_*.go) on canonical values
   (property C06).  Every Less method has the same shape: compare the Kind()
   numbers; for equal kinds use the comparison of that kind.  The kind of a
   value is the Go type the evaluator represents it with, which the canonical
   form determines (C02).  [None] = a kind whose comparison is not modelled
   (Dict, Relation, UnionSet): covered by the implementation-side oracle only. *)
From Arrai Require Import Base.Val Spec.SetAlg Eval.Interp.

Inductive rkind :=
| KNum | KEmpty | KTrue | KGeneric | KStr | KBytes | KArr | KDict | KUnion | KRel
| KTupG | KTupChar | KTupItem | KTupEntry | KTupByte | KNeg (k : rkind).

Definition n_neg : name := [64;110;101;103].   (* "@neg" *)

(* bucket of a set member, as SetBuilder.Add files it *)
Inductive bucket := BGeneric | BChar | BByte | BItem | BEntry | BRel (names : list name).

Definition member_bucket (m : val) : bucket :=
  match m with
  | VTup [(n1, k); (n2, x)] =>
      if name_eqb n1 n_at then
        if name_eqb n2 n_char then BChar
        else if name_eqb n2 n_byte then BByte
        else if name_eqb n2 n_item then BItem
        else if name_eqb n2 n_value then BEntry
        else BRel [n1; n2]
      else BRel [n1; n2]
  | VTup l => BRel (map fst l)
  | _ => BGeneric
  end.

Fixpoint names_eqb (a b : list name) : bool :=
  match a, b with
  | [], [] => true
  | x :: a', y :: b' => name_eqb x y && names_eqb a' b'
  | _, _ => false
  end.
Definition bucket_eqb (a b : bucket) : bool :=
  match a, b with
  | BGeneric, BGeneric | BChar, BChar | BByte, BByte | BItem, BItem | BEntry, BEntry => true
  | BRel x, BRel y => names_eqb x y
  | _, _ => false
  end.

Fixpoint kind_of (v : val) : rkind :=
  match v with
  | VNum _ => KNum
  | VTup [(n, x)] => if name_eqb n n_neg then KNeg (kind_of x) else KTupG
  | VTup l =>
      match member_bucket v with
      | BChar => KTupChar | BByte => KTupByte | BItem => KTupItem | BEntry => KTupEntry
      | _ => KTupG
      end
  | VSet [] => KEmpty
  | VSet [VTup []] => KTrue
  | VSet (m :: l) =>
      let b := member_bucket m in
      if forallb (fun x => bucket_eqb (member_bucket x) b) l then
        match b with
        | BGeneric => KGeneric | BChar => KStr | BByte => KBytes | BItem => KArr
        | BEntry => KDict | BRel _ => KRel
        end
      else KUnion
  end.

(* the Kind() numbers, regenerated from the running code into Gen/Kinds.v and
   passed in here *)
Section WithKinds.
Variable knum : rkind -> Z.

(* sequences as (offset, cells) with None for holes *)
Fixpoint cells_from (i : Z) (n : nat) (ps : list (Z * val)) : list (option val) :=
  match n with
  | O => []
  | S n' => (match find (fun p => Z.eqb (fst p) i) ps with Some p => Some (snd p) | None => None end)
            :: cells_from (i + 1) n' ps
  end.
Definition seq_shape (ps : list (Z * val)) : Z * list (option val) :=
  match ps with
  | [] => (0, [])
  | p :: r => let lo := fold_right (fun q acc => Z.min (fst q) acc) (fst p) r in
              let hi := fold_right (fun q acc => Z.max (fst q) acc) (fst p) r in
              (lo, cells_from lo (Z.to_nat (hi - lo + 1)) ps)
  end.

Definition ocomb (c : comparison) (k : option comparison) : option comparison :=
  match c with Eq => k | _ => Some c end.
Definition obind (c : option comparison) (k : option comparison) : option comparison :=
  match c with Some Eq => k | other => other end.

(* insertion sort by a comparison that may be undefined *)
Fixpoint oinsert (cmp : val -> val -> option comparison) (x : val) (l : list val) : option (list val) :=
  match l with
  | [] => Some [x]
  | y :: l' => match cmp x y with
               | Some Gt => match oinsert cmp x l' with Some r => Some (y :: r) | None => None end
               | Some _ => Some (x :: l)
               | None => None
               end
  end.
Fixpoint osort (cmp : val -> val -> option comparison) (l : list val) : option (list val) :=
  match l with
  | [] => Some []
  | x :: l' => match osort cmp l' with Some r => oinsert cmp x r | None => None end
  end.

Fixpoint olex (cmp : val -> val -> option comparison) (a b : list val) : option comparison :=
  match a, b with
  | [], [] => Some Eq
  | [], _ => Some Lt
  | _, [] => Some Gt
  | x :: a', y :: b' => obind (cmp x y) (olex cmp a' b')
  end.

(* Array.Less on cells: a position where only b has a hole decides a < b,
   where only a has a hole decides b < a, two holes are skipped *)
Fixpoint ocells (cmp : val -> val -> option comparison) (a b : list (option val)) : option comparison :=
  match a, b with
  | [], [] => Some Eq
  | [], _ => Some Lt
  | _, [] => Some Gt
  | x :: a', y :: b' =>
      match x, y with
      | None, None => ocells cmp a' b'
      | Some _, None => Some Lt
      | None, Some _ => Some Gt
      | Some u, Some v => obind (cmp u v) (ocells cmp a' b')
      end
  end.

Definition hole_val : val := vint (-1).
Definition cell_or_hole (c : option val) : val := match c with Some v => v | None => hole_val end.

Fixpoint rcmp (fuel : nat) (a b : val) : option comparison :=
  match fuel with
  | O => None
  | S f =>
    let ka := kind_of a in
    let kb := kind_of b in
    match Z.compare (knum ka) (knum kb) with
    | Eq =>
      match ka, a, b with
      | KNum, VNum x, VNum y => Some (num_cmp x y)
      | KEmpty, _, _ | KTrue, _, _ => Some Eq
      | KNeg _, VTup [(_, x)], VTup [(_, y)] => rcmp f y x
      | (KTupG | KTupChar | KTupByte | KTupItem | KTupEntry), VTup la, VTup lb =>
          (* names in sorted order; first differing name decides, else the values *)
          (fix go (la lb : list (name * val)) : option comparison :=
             match la, lb with
             | [], [] => Some Eq
             | [], _ => Some Lt
             | _, [] => Some Gt
             | (n1, v1) :: la', (n2, v2) :: lb' =>
                 match name_cmp n1 n2 with
                 | Eq => obind (rcmp f v1 v2) (go la' lb')
                 | c => Some c
                 end
             end) la lb
      | KStr, VSet la, VSet lb =>
          match seq_members n_char la, seq_members n_char lb with
          | Some pa, Some pb =>
              let (oa, ca) := seq_shape pa in let (ob, cb) := seq_shape pb in
              ocomb (Z.compare oa ob) (olex (rcmp f) (map cell_or_hole ca) (map cell_or_hole cb))
          | _, _ => None
          end
      | KBytes, VSet la, VSet lb =>
          match seq_members n_byte la, seq_members n_byte lb with
          | Some pa, Some pb =>
              let (oa, ca) := seq_shape pa in let (ob, cb) := seq_shape pb in
              ocomb (Z.compare oa ob) (olex (rcmp f) (map cell_or_hole ca) (map cell_or_hole cb))
          | _, _ => None
          end
      | KArr, VSet la, VSet lb =>
          match seq_members n_item la, seq_members n_item lb with
          | Some pa, Some pb =>
              let (oa, ca) := seq_shape pa in let (ob, cb) := seq_shape pb in
              ocomb (Z.compare oa ob) (ocells (rcmp f) ca cb)
          | _, _ => None
          end
      | KGeneric, VSet la, VSet lb =>
          match osort (rcmp f) la, osort (rcmp f) lb with
          | Some sa, Some sb => olex (rcmp f) sa sb
          | _, _ => None
          end
      | _, _, _ => None
      end
    | c => Some c
    end
  end.

Definition rless (fuel : nat) (a b : val) : option bool :=
  match rcmp fuel a b with Some Lt => Some true | Some _ => Some false | None => None end.

End WithKinds.
