(* C10: the slice + offset + holes sequence representations with CRASH OUTCOMES inside the model.

   Go slices are modelled far enough to crash: indexing s[i] outside 0..len-1 is [Panic SIndex],
   a slice expression s[a:b] that does not satisfy 0 <= a <= b <= len is [Panic SSlice] (the
   model never relies on spare capacity: a slice expression Go would accept only because
   b <= cap counts as a panic here, which is the conservative side), make([]T, n) with n < 0 or
   n above the allocation limit [max_alloc] is [Panic SMakeslice].  Go's int is 64 bit two's
   complement: every +, - on ints is [wrap]ped, int(float64) / rune(float64) / byte(float64) are
   the conversions the amd64 compiler emits (truncation; out of range, NaN, Inf give the minimum
   integer of the width).  Unbounded loops (`for { ... }`, `for cond { ... }`) run on explicit
   fuel and end in [Hang] when it runs out; `for i, v := range s` loops are structural.

   Transcribed, statement by statement, from
     rel/value_set_array.go  NewOffsetArray asArray clone Has withItem With Without Where CallAll
                             arrayValueEnumerator.MoveNext / Current   (Map = the enumeration)
     rel/value_set_str.go    NewOffsetString asString Count Has with With Without index CallAll
                             stringEnumerator.MoveNext / Current        (Map, Where = enumeration + asString)
     rel/value_set_bytes.go  NewOffsetBytes asBytes Has with With Without index CallAll
                             BytesEnumerator.MoveNext / Current
     rel/expr_offset.go      OffsetExpr.Eval
     rel/ops_rel.go          Concatenate (on two operands of one of these types)
     rel/value_number.go     Number.Int
     rel/value_tuple.go      NewTuple's conversions int(f), rune(f), byte(f) of the (@, @item|@char|@byte) tuples
   Values that leave the three representations (generic sets, union sets) are [ROut]; nothing is
   claimed about them. *)
From Coq Require Import List ZArith Bool Lia.
Import ListNotations.
Open Scope Z_scope.

(* ---------- outcomes ---------- *)
Inductive site :=
| SIndex          (* runtime error: index out of range *)
| SSlice          (* runtime error: slice bounds out of range *)
| SMakeslice      (* runtime error: makeslice: len out of range *)
| SSuperimposed   (* the explicit panic("superimposed array items not supported yet") of Array.withItem *)
| SNilItem.       (* an enumerator's Current() on a hole: a nil Value escapes *)

Inductive res (A : Type) :=
| Val (a : A)
| ErrOrd                (* an ordinary error returned through `error` *)
| Panic (s : site)
| Hang.                 (* a loop that did not end within its fuel *)
Arguments Val {A} a.
Arguments ErrOrd {A}.
Arguments Panic {A} s.
Arguments Hang {A}.

Definition bind {A B} (r : res A) (f : A -> res B) : res B :=
  match r with Val a => f a | ErrOrd => ErrOrd | Panic s => Panic s | Hang => Hang end.
Notation "x <- e ;; f" := (bind e (fun x => f)) (at level 61, e at next level, right associativity).

(* ---------- Go's int ---------- *)
Definition two63 : Z := 9223372036854775808.
Definition two64 : Z := 18446744073709551616.
Definition min_int : Z := - two63.
Definition max_int : Z := two63 - 1.
Definition wrap (z : Z) : Z := (z + two63) mod two64 - two63.
Definition iadd (a b : Z) : Z := wrap (a + b).
Definition isub (a b : Z) : Z := wrap (a - b).
Definition ineg (a : Z) : Z := wrap (- a).

(* a float64 as far as the conversions can tell *)
Inductive fnum :=
| FInt (z : Z)       (* an integral value, of any magnitude *)
| FFrac (t : Z)      (* not integral; t is its truncation toward zero *)
| FNaN
| FInf (neg : bool).

Definition in_int (z : Z) : bool := (min_int <=? z) && (z <=? max_int).
(* int(f) *)
Definition int_of_float (f : fnum) : Z :=
  match f with
  | FInt z | FFrac z => if in_int z then z else min_int
  | _ => min_int
  end.
(* rune(f): int32 *)
Definition min_int32 : Z := -2147483648.
Definition rune_of_float (f : fnum) : Z :=
  match f with
  | FInt z | FFrac z => if (min_int32 <=? z) && (z <=? 2147483647) then z else min_int32
  | _ => min_int32
  end.
(* byte(f) *)
Definition byte_of_float (f : fnum) : Z := (int_of_float f) mod 256.
(* float64(i) == f *)
Definition float_is_int (i : Z) (f : fnum) : bool := match f with FInt z => z =? i | _ => false end.
(* Number.Int() *)
Definition number_int (f : fnum) : option Z :=
  let i := int_of_float f in if float_is_int i f then Some i else None.
(* float64(offset) + n.Float64(), then int(...) again: the index arithmetic of Concatenate
   (exact below 2^53, which is where the check samples it) *)
Definition fadd_int (k : Z) (f : fnum) : fnum :=
  match f with FInt z => FInt (k + z) | FFrac t => FFrac (if (t <? 0) && (0 <? k + t) then k + t - 1 else if (0 <=? t) && (k + t <? 0) then k + t + 1 else k + t) | x => x end.

Definition len {A} (l : list A) : Z := Z.of_nat (length l).

Fixpoint set_nth {A} (n : nat) (x : A) (l : list A) : list A :=
  match l, n with
  | [], _ => []
  | _ :: l', O => x :: l'
  | y :: l', S n' => y :: set_nth n' x l'
  end.

(* copy(dst, src): min(len dst, len src) elements *)
Definition copy {A} (dst src : list A) : list A := firstn (length dst) src ++ skipn (length src) dst.

Definition is_some {A} (o : option A) : bool := match o with Some _ => true | None => false end.

Section SeqSafe.
Variable max_alloc : Z.                (* make([]T, n) panics above this *)
Variable V : Type.                     (* array items *)
Variable veq : V -> V -> bool.         (* Value.Equal *)

(* ---------- slices ---------- *)
Definition idx {A} (l : list A) (i : Z) : res A :=
  if (0 <=? i) && (i <? len l) then
    match nth_error l (Z.to_nat i) with Some x => Val x | None => Panic SIndex end
  else Panic SIndex.
Definition upd {A} (l : list A) (i : Z) (x : A) : res (list A) :=
  if (0 <=? i) && (i <? len l) then Val (set_nth (Z.to_nat i) x l) else Panic SIndex.
Definition slice {A} (l : list A) (a b : Z) : res (list A) :=
  if (0 <=? a) && (a <=? b) && (b <=? len l) then Val (firstn (Z.to_nat (b - a)) (skipn (Z.to_nat a) l))
  else Panic SSlice.
Definition mk {A} (zero : A) (n : Z) : res (list A) :=
  if (n <? 0) || (max_alloc <? n) then Panic SMakeslice else Val (repeat zero (Z.to_nat n)).
(* for j := a; j < b; j++ { l[j] = x }, k = the number of iterations *)
Fixpoint fill_n {A} (k : nat) (l : list A) (j : Z) (x : A) : res (list A) :=
  match k with
  | O => Val l
  | S k' => l' <- upd l j x;; fill_n k' l' (iadd j 1) x
  end.
Definition fill {A} (l : list A) (a b : Z) (x : A) : res (list A) := fill_n (Z.to_nat (b - a)) l a x.

(* ---------- the three representations ---------- *)
Record arr := { avals : list (option V); aoff : Z; acnt : Z }.   (* Array{values, offset, count}; nil = hole *)
Record str := { srunes : list Z; soff : Z; sholes : Z }.         (* String{s, offset, holes}; negative rune = hole *)
Record byt := { bbytes : list Z; boff : Z }.                     (* Bytes{b, offset} *)
Inductive rep := RNone | RArr (a : arr) | RStr (s : str) | RByt (b : byt) | ROut.

(* argument values of any kind: the three sugar tuples carry the float64s NewTuple converts *)
Inductive arg :=
| AItem (at_ : fnum) (v : V)
| AChar (at_ : fnum) (c : fnum)
| AByte (at_ : fnum) (b : fnum)
| ANum (f : fnum)
| AOther.

Definition count_some (l : list (option V)) : Z := len (filter is_some l).
Definition count_neg (l : list Z) : Z := len (filter (fun r => r <? 0) l).

(* index of the first / last non-nil cell, as the two trimming loops find it *)
Fixpoint first_some (l : list (option V)) (i : Z) : option Z :=
  match l with [] => None | Some _ :: _ => Some i | None :: t => first_some t (i + 1) end.
Fixpoint last_some (l : list (option V)) (i : Z) (acc : option Z) : option Z :=
  match l with [] => acc | Some _ :: t => last_some t (i + 1) (Some i) | None :: t => last_some t (i + 1) acc end.

(* "Trim leading nils" / "Trim trailing nils": the loops of NewOffsetArray and of Array.Where *)
Definition trim_lead (offset : Z) (values : list (option V)) : res (Z * list (option V)) :=
  match first_some values 0 with
  | Some i => if 0 <? i then v' <- slice values i (len values);; Val (iadd offset i, v') else Val (offset, values)
  | None => Val (offset, values)
  end.
Definition trim_trail (values : list (option V)) : res (list (option V)) :=
  match last_some values 0 None with
  | Some i => if i <? len values - 1 then slice values 0 (i + 1) else Val values
  | None => Val values
  end.

(* NewOffsetArray *)
Definition new_offset_array (offset : Z) (values : list (option V)) : res rep :=
  r <- trim_lead offset values;;
  let (offset, values) := r in
  values <- trim_trail values;;
  if len values =? 0 then Val RNone
  else Val (RArr {| avals := values; aoff := offset; acnt := count_some values |}).

(* clone *)
Definition clone {A} (zero : A) (l : list A) : res (list A) := v <- mk zero (len l);; Val (copy v l).

(* Array.Has *)
Definition arr_has (a : arr) (x : arg) : res bool :=
  match x with
  | AItem atf item =>
      let at_ := int_of_float atf in
      if (aoff a <=? at_) && (at_ <? iadd (aoff a) (len (avals a))) then
        v <- idx (avals a) (isub at_ (aoff a));;
        Val (match v with Some v' => veq v' item | None => false end)
      else Val false
  | _ => Val false
  end.

(* Array.withItem: the tail after the switch *)
Definition arr_put (b : arr) (index : Z) (item : V) : res rep :=
  cur <- idx (avals b) index;;
  match cur with
  | Some _ => Panic SSuperimposed
  | None => vs <- upd (avals b) index (Some item);;
            Val (RArr {| avals := vs; aoff := aoff b; acnt := iadd (acnt b) 1 |})
  end.
Definition arr_with_item (a : arr) (index : Z) (item : V) : res rep :=
  let index := isub index (aoff a) in
  if index <? 0 then
    bv <- mk None (isub (len (avals a)) index);;
    tl <- slice bv (ineg index) (len bv);;                       (* b.values[-index:] *)
    let bv := firstn (Z.to_nat (ineg index)) bv ++ copy tl (avals a) in
    arr_put {| avals := bv; aoff := iadd (aoff a) index; acnt := acnt a |} 0 item
  else if len (avals a) <=? index then
    bv <- mk None (iadd index 1);;
    arr_put {| avals := copy bv (avals a); aoff := aoff a; acnt := acnt a |} index item
  else
    cur <- idx (avals a) index;;
    if match cur with Some c => veq item c | None => false end then Val (RArr a)
    else
      bv <- clone None (avals a);;
      arr_put {| avals := bv; aoff := aoff a; acnt := acnt a |} index item.

(* Array.Without *)
Definition arr_without (a : arr) (x : arg) : res rep :=
  match x with
  | AItem atf item =>
      let at_ := int_of_float atf in
      let n := len (avals a) in
      let i := isub at_ (aoff a) in
      if (0 <=? i) && (i <? n) then
        v <- idx (avals a) i;;
        match v with
        | Some v' =>
            if veq v' item then
              if at_ =? aoff a then
                vs <- slice (avals a) 1 n;; new_offset_array (iadd (aoff a) 1) vs
              else if at_ =? isub (iadd (aoff a) n) 1 then
                vs <- slice (avals a) 0 (isub n 1);; new_offset_array (aoff a) vs
              else
                vs <- clone None (avals a);;
                vs <- upd vs i None;;
                let c := isub (acnt a) 1 in
                if 0 <? c then Val (RArr {| avals := vs; aoff := aoff a; acnt := c |}) else Val RNone
            else Val (RArr a)
        | None => Val (RArr a)
        end
      else Val (RArr a)
  | _ => Val (RArr a)
  end.

(* Array.Where: p = None is the predicate's error *)
Fixpoint arr_where_loop (p : Z -> V -> option bool) (off : Z) (src : list (option V)) (i : Z)
         (rv : list (option V)) (cnt : Z) : res (list (option V) * Z) :=
  match src with
  | [] => Val (rv, cnt)
  | None :: t => arr_where_loop p off t (i + 1) rv cnt
  | Some x :: t =>
      match p (iadd off i) x with
      | None => ErrOrd
      | Some true => arr_where_loop p off t (i + 1) rv cnt
      | Some false => rv' <- upd rv i None;; arr_where_loop p off t (i + 1) rv' (isub cnt 1)
      end
  end.
Definition arr_where (a : arr) (p : Z -> V -> option bool) : res rep :=
  rv <- clone None (avals a);;
  r <- arr_where_loop p (aoff a) (avals a) 0 rv (acnt a);;
  let (rv, cnt) := r in
  if cnt =? 0 then Val RNone
  else
    r <- trim_lead (aoff a) rv;;
    let (off, rv) := r in
    rv <- trim_trail rv;;
    Val (RArr {| avals := rv; aoff := off; acnt := cnt |}).

(* Array.CallAll: the values added to the builder *)
Definition arr_call (a : arr) (x : arg) : res (list V) :=
  match x with
  | ANum f =>
      match number_int f with
      | Some i =>
          let i := isub i (aoff a) in
          if (0 <=? i) && (i <? len (avals a)) then
            v <- idx (avals a) i;; Val (match v with Some v' => [v'] | None => [] end)
          else Val []
      | None => Val []
      end
  | _ => Val []
  end.

(* arrayValueEnumerator.MoveNext: the `for { e.i++; if e.i < len && values[e.i] != nil { break } }` loop *)
Fixpoint arr_scan (fuel : nat) (vs : list (option V)) (i : Z) : res Z :=
  match fuel with
  | O => Hang
  | S f =>
      let i := iadd i 1 in
      c <- (if i <? len vs then v <- idx vs i;; Val (is_some v) else Val false);;
      if c then Val i else arr_scan f vs i
  end.
Definition arr_move_next (a : arr) (i : Z) : res (Z * bool) :=
  if isub (len (avals a)) 1 <=? i then Val (i, false)
  else i' <- arr_scan (length (avals a)) (avals a) i;; Val (i', i' <? len (avals a)).
Definition arr_current (a : arr) (i : Z) : res (Z * V) :=
  v <- idx (avals a) i;;
  match v with Some x => Val (iadd (aoff a) i, x) | None => Panic SNilItem end.
(* for e := a.Enumerator(); e.MoveNext(); { ... e.Current() ... } *)
Fixpoint arr_enum_loop (fuel : nat) (a : arr) (i : Z) (acc : list (Z * V)) : res (list (Z * V)) :=
  match fuel with
  | O => Hang
  | S f =>
      r <- arr_move_next a i;;
      let (i', more) := r in
      if more then c <- arr_current a i';; arr_enum_loop f a i' (acc ++ [c]) else Val acc
  end.
Definition arr_enum (a : arr) : res (list (Z * V)) := arr_enum_loop (S (length (avals a))) a (-1) [].

(* asArray *)
Definition min_at {A} (l : list (Z * A)) : Z := fold_left (fun m t => if fst t <? m then fst t else m) l max_int.
Definition max_at {A} (l : list (Z * A)) : Z := fold_left (fun m t => if m <? fst t then fst t else m) l min_int.
Fixpoint as_array_loop (values : list (Z * V)) (minI : Z) (items : list (option V)) (n : Z) : res (list (option V) * Z) :=
  match values with
  | [] => Val (items, n)
  | (at_, item) :: t =>
      c <- idx items (isub at_ minI);;
      let n := if is_some c then n else iadd n 1 in
      items <- upd items (isub at_ minI) (Some item);;
      as_array_loop t minI items n
  end.
Definition as_array (values : list (Z * V)) : res rep :=
  let minI := min_at values in
  let maxI := max_at values in
  items <- mk None (iadd (isub maxI minI) 1);;
  r <- as_array_loop values minI items 0;;
  let (items, n) := r in
  Val (RArr {| avals := items; aoff := minI; acnt := n |}).

(* ---------- String ---------- *)
Definition new_offset_string (s : list Z) (offset : Z) : rep :=
  if len s =? 0 then RNone else RStr {| srunes := s; soff := offset; sholes := count_neg s |}.
Definition str_count (s : str) : Z := isub (len (srunes s)) (sholes s).

Definition str_has (s : str) (x : arg) : res bool :=
  match x with
  | AChar atf cf =>
      let at_ := int_of_float atf in
      let char := rune_of_float cf in
      if (soff s <=? at_) && (at_ <? iadd (soff s) (len (srunes s))) then
        c <- idx (srunes s) (isub at_ (soff s));; Val (char =? c)
      else Val false
  | _ => Val false
  end.

Definition str_with (s : str) (at_ char : Z) : res rep :=
  let i := isub at_ (soff s) in
  let n := len (srunes s) in
  if char <? 0 then Val ROut
  else
    c1 <- (if (0 <=? i) && (i <? n) then c <- idx (srunes s) i;; Val (c =? char) else Val false);;
    if c1 then Val (RStr s)
    else
      c2 <- (if (0 <=? i) && (i <? n) then c <- idx (srunes s) i;; Val (c <? 0) else Val false);;
      if c2 then
        newS <- clone 0 (srunes s);;
        newS <- upd newS i char;;
        Val (RStr {| srunes := newS; soff := soff s; sholes := isub (sholes s) 1 |})
      else if n <=? i then
        newS <- mk 0 (iadd i 1);;
        newS <- fill (copy newS (srunes s)) n i (-1);;
        newS <- upd newS i char;;
        Val (RStr {| srunes := newS; soff := soff s; sholes := isub (iadd (sholes s) i) n |})
      else if i <? 0 then
        newS <- mk 0 (isub n i);;
        newS <- upd newS 0 char;;
        newS <- fill newS 1 (ineg i) (-1);;
        tl <- slice newS (ineg i) (len newS);;
        let newS := firstn (Z.to_nat (ineg i)) newS ++ copy tl (srunes s) in
        Val (RStr {| srunes := newS; soff := at_; sholes := isub (isub (sholes s) i) 1 |})
      else Val ROut.

Definition str_index (s : str) (pos : Z) : Z :=
  let pos := isub pos (soff s) in
  if (0 <=? pos) && (pos <=? len (srunes s)) then pos else -1.

(* `for s.s[0] < 0 { s = s.s[1:] ... }` and `for s.s[len-1] < 0 { ... }` *)
Fixpoint str_trim_front (fuel : nat) (s : str) : res str :=
  match fuel with
  | O => Hang
  | S f =>
      c <- idx (srunes s) 0;;
      if c <? 0 then
        r <- slice (srunes s) 1 (len (srunes s));;
        str_trim_front f {| srunes := r; soff := iadd (soff s) 1; sholes := isub (sholes s) 1 |}
      else Val s
  end.
Fixpoint str_trim_back (fuel : nat) (s : str) : res str :=
  match fuel with
  | O => Hang
  | S f =>
      c <- idx (srunes s) (isub (len (srunes s)) 1);;
      if c <? 0 then
        r <- slice (srunes s) 0 (isub (len (srunes s)) 1);;
        str_trim_back f {| srunes := r; soff := soff s; sholes := isub (sholes s) 1 |}
      else Val s
  end.

Definition str_without (s : str) (x : arg) : res rep :=
  s1 <- match x with
        | AChar atf cf =>
            let at_ := int_of_float atf in
            let char := rune_of_float cf in
            let n := len (srunes s) in
            let i := str_index s at_ in
            c1 <- (if i =? 0 then c <- idx (srunes s) 0;; Val (char =? c) else Val false);;
            if c1 then r <- slice (srunes s) 1 n;; Val {| srunes := r; soff := iadd (soff s) 1; sholes := sholes s |}
            else
              c2 <- (if i =? isub n 1 then c <- idx (srunes s) (isub n 1);; Val (char =? c) else Val false);;
              if c2 then r <- slice (srunes s) 0 (isub n 1);; Val {| srunes := r; soff := soff s; sholes := sholes s |}
              else
                c3 <- (if (0 <? i) && (i <? isub n 1) then c <- idx (srunes s) i;; Val (char =? c) else Val false);;
                if c3 then
                  newS <- clone 0 (srunes s);;
                  newS <- upd newS i (-1);;
                  Val {| srunes := newS; soff := soff s; sholes := iadd (sholes s) 1 |}
                else Val s
        | _ => Val s
        end;;
  if str_count s1 =? 0 then Val RNone
  else
    s2 <- str_trim_front (S (length (srunes s1))) s1;;
    s3 <- str_trim_back (S (length (srunes s2))) s2;;
    Val (RStr s3).

Definition str_call (s : str) (x : arg) : res (list Z) :=
  match x with
  | ANum f =>
      match number_int f with
      | Some i =>
          let i := isub i (soff s) in
          if (0 <=? i) && (i <? len (srunes s)) then
            c <- idx (srunes s) i;; Val (if 0 <=? c then [c] else [])
          else Val []
      | None => Val []
      end
  | _ => Val []
  end.

(* stringEnumerator.MoveNext: `for e.i < len-1 { e.i++; if s[e.i] >= 0 { return true } }; return false` *)
Fixpoint str_move_next (fuel : nat) (s : str) (i : Z) : res (Z * bool) :=
  match fuel with
  | O => Hang
  | S f =>
      if i <? isub (len (srunes s)) 1 then
        let i := iadd i 1 in
        c <- idx (srunes s) i;;
        if 0 <=? c then Val (i, true) else str_move_next f s i
      else Val (i, false)
  end.
Definition str_current (s : str) (i : Z) : res (Z * Z) :=
  c <- idx (srunes s) i;; Val (iadd (soff s) i, c).
Fixpoint str_enum_loop (fuel : nat) (s : str) (i : Z) (acc : list (Z * Z)) : res (list (Z * Z)) :=
  match fuel with
  | O => Hang
  | S f =>
      r <- str_move_next (S (length (srunes s))) s i;;
      let (i', more) := r in
      if more then c <- str_current s i';; str_enum_loop f s i' (acc ++ [c]) else Val acc
  end.
Definition str_enum (s : str) : res (list (Z * Z)) := str_enum_loop (S (length (srunes s))) s (-1) [].

(* asString *)
Fixpoint as_string_loop (tuples : list (Z * Z)) (minAt : Z) (st : list Z) (holes : Z) : res (list Z * Z) :=
  match tuples with
  | [] => Val (st, holes)
  | (at_, char) :: t =>
      c <- idx st (isub at_ minAt);;
      let holes := if c <? 0 then isub holes 1 else holes in
      st <- upd st (isub at_ minAt) char;;
      as_string_loop t minAt st holes
  end.
Definition as_string (values : list (Z * Z)) : res rep :=
  let minAt := min_at values in
  let maxAt := max_at values in
  st <- mk 0 (iadd (isub maxAt minAt) 1);;
  st <- fill st 0 (len st) (-1);;
  r <- as_string_loop values minAt st (len st);;
  let (st, holes) := r in
  Val (RStr {| srunes := st; soff := minAt; sholes := holes |}).

(* String.Where: enumerate, keep what p accepts, SetBuilder.Finish (asString when anything was added) *)
Fixpoint filter_p {A} (p : Z -> A -> option bool) (l : list (Z * A)) : res (list (Z * A)) :=
  match l with
  | [] => Val []
  | (i, x) :: t => match p i x with
                   | None => ErrOrd
                   | Some b => r <- filter_p p t;; Val (if b then (i, x) :: r else r)
                   end
  end.
Definition str_where (s : str) (p : Z -> Z -> option bool) : res rep :=
  l <- str_enum s;;
  kept <- filter_p p l;;
  match kept with [] => Val RNone | _ => as_string kept end.

(* ---------- Bytes ---------- *)
Definition new_offset_bytes (b : list Z) (offset : Z) : rep :=
  if len b =? 0 then RNone else RByt {| bbytes := b; boff := offset |}.
Definition byt_index (b : byt) (pos : Z) : Z :=
  let pos := isub pos (boff b) in
  if (0 <=? pos) && (pos <=? len (bbytes b)) then pos else -1.

Definition byt_has (b : byt) (x : arg) : res bool :=
  match x with
  | AByte atf bf =>
      let at_ := int_of_float atf in
      if (boff b <=? at_) && (at_ <? iadd (boff b) (len (bbytes b))) then
        c <- idx (bbytes b) (isub at_ (boff b));; Val (byte_of_float bf =? c)
      else Val false
  | _ => Val false
  end.

Definition byt_with (b : byt) (index bt : Z) : res rep :=
  let i := byt_index b index in
  let n := len (bbytes b) in
  c1 <- (if (0 <=? i) && (i <? n) then c <- idx (bbytes b) i;; Val (c =? bt) else Val false);;
  if c1 then Val (RByt b)
  else if i =? n then
    _ <- mk 0 (iadd n 1);;            (* make([]byte, 0, len+1) *)
    Val (RByt {| bbytes := bbytes b ++ [bt]; boff := boff b |})
  else if index =? isub (boff b) 1 then
    _ <- mk 0 (iadd 1 n);;
    Val (RByt {| bbytes := bt :: bbytes b; boff := isub (boff b) 1 |})
  else Val ROut.

Definition byt_without (b : byt) (x : arg) : res rep :=
  match x with
  | AByte atf bf =>
      let pos := int_of_float atf in
      let bt := byte_of_float bf in
      let n := len (bbytes b) in
      let i := byt_index b pos in
      if (0 <=? i) && (i <? n) then
        c <- idx (bbytes b) i;;
        if bt =? c then
          if n =? 1 then Val RNone
          else if i =? isub n 1 then r <- slice (bbytes b) 0 i;; Val (RByt {| bbytes := r; boff := boff b |})
          else if i =? 0 then r <- slice (bbytes b) 1 n;; Val (RByt {| bbytes := r; boff := iadd (boff b) 1 |})
          else Val ROut
        else Val (RByt b)
      else Val (RByt b)
  | _ => Val (RByt b)
  end.

Definition byt_call (b : byt) (x : arg) : res (list Z) :=
  match x with
  | ANum f =>
      match number_int f with
      | Some i =>
          let i := isub i (boff b) in
          if (0 <=? i) && (i <? len (bbytes b)) then c <- idx (bbytes b) i;; Val [c] else Val []
      | None => Val []
      end
  | _ => Val []
  end.

Definition byt_move_next (b : byt) (i : Z) : Z * bool :=
  if isub (len (bbytes b)) 1 <=? i then (i, false) else (iadd i 1, true).
Fixpoint byt_enum_loop (fuel : nat) (b : byt) (i : Z) (acc : list (Z * Z)) : res (list (Z * Z)) :=
  match fuel with
  | O => Hang
  | S f =>
      let (i', more) := byt_move_next b i in
      if more then c <- idx (bbytes b) i';; byt_enum_loop f b i' (acc ++ [(iadd (boff b) i', c)]) else Val acc
  end.
Definition byt_enum (b : byt) : res (list (Z * Z)) := byt_enum_loop (S (length (bbytes b))) b (-1) [].

Fixpoint as_bytes_loop (tuples : list (Z * Z)) (minAt : Z) (bs : list Z) : res (list Z) :=
  match tuples with
  | [] => Val bs
  | (at_, b) :: t => bs <- upd bs (isub at_ minAt) b;; as_bytes_loop t minAt bs
  end.
Definition as_bytes (values : list (Z * Z)) : res rep :=
  let minAt := min_at values in
  let maxAt := max_at values in
  bs <- mk 0 (iadd (isub maxAt minAt) 1);;
  bs <- as_bytes_loop values minAt bs;;
  Val (RByt {| bbytes := bs; boff := minAt |}).

(* ---------- the operations, on any representation ---------- *)
Inductive op :=
| OWith (x : arg)
| OWithout (x : arg)
| OHas (x : arg)                 (* queries leave the value as it is *)
| OCall (x : arg)
| OEnum
| OOffset (x : arg)              (* x \ value *)
| OWhere (pa : Z -> V -> option bool) (pz : Z -> Z -> option bool).

(* EmptySet.With -> MustNewSet -> SetBuilder.Finish *)
Definition none_with (x : arg) : res rep :=
  match x with
  | AItem atf v => as_array [(int_of_float atf, v)]
  | AChar atf cf => as_string [(int_of_float atf, rune_of_float cf)]
  | AByte atf bf => as_bytes [(int_of_float atf, byte_of_float bf)]
  | _ => Val ROut
  end.

Definition q {A} (r : rep) (x : res A) : res rep := _ <- x;; Val r.

Definition step (r : rep) (o : op) : res rep :=
  match r, o with
  | ROut, _ => Val ROut
  | RNone, OWith x => none_with x
  | RNone, OOffset (ANum _) => Val RNone
  | RNone, OOffset _ => ErrOrd
  | RNone, _ => Val RNone
  | RArr a, OWith (AItem atf v) => arr_with_item a (int_of_float atf) v
  | RArr a, OWith _ => Val ROut                              (* toUnionSetWithItem *)
  | RArr a, OWithout x => arr_without a x
  | RArr a, OHas x => q r (arr_has a x)
  | RArr a, OCall x => q r (arr_call a x)
  | RArr a, OEnum => q r (arr_enum a)
  | RArr a, OOffset (ANum f) => new_offset_array (iadd (aoff a) (int_of_float f)) (avals a)
  | RArr a, OWhere pa _ => arr_where a pa
  | RStr s, OWith (AChar atf cf) => str_with s (int_of_float atf) (rune_of_float cf)
  | RStr s, OWith _ => Val ROut
  | RStr s, OWithout x => str_without s x
  | RStr s, OHas x => q r (str_has s x)
  | RStr s, OCall x => q r (str_call s x)
  | RStr s, OEnum => q r (str_enum s)
  | RStr s, OOffset (ANum f) => Val (new_offset_string (srunes s) (iadd (soff s) (int_of_float f)))
  | RStr s, OWhere _ pz => str_where s pz
  | RByt b, OWith (AByte atf bf) => byt_with b (int_of_float atf) (byte_of_float bf)
  | RByt b, OWith _ => Val ROut
  | RByt b, OWithout x => byt_without b x
  | RByt b, OHas x => q r (byt_has b x)
  | RByt b, OCall x => q r (byt_call b x)
  | RByt b, OEnum => q r (byt_enum b)
  | RByt b, OOffset (ANum f) => Val (new_offset_bytes (bbytes b) (iadd (boff b) (int_of_float f)))
  | RByt b, OWhere _ pz =>
      l <- byt_enum b;; kept <- filter_p pz l;;
      match kept with [] => Val RNone | _ => as_bytes kept end
  | _, OOffset _ => ErrOrd                                   (* "offset must be a number" *)
  end.

(* a sequence of operations: fold_left over the outcome *)
Definition run (r : rep) (ops : list op) : res rep :=
  fold_left (fun acc o => r' <- acc;; step r' o) ops (Val r).

(* Concatenate(a, b) on two operands of one representation: enumerate both, shift b by a.Count(), Finish *)
Definition shift_at {A} (k : Z) (l : list (Z * A)) : list (Z * A) :=
  map (fun t => (int_of_float (fadd_int k (FInt (fst t))), snd t)) l.
Definition seq_concat (a b : rep) : res rep :=
  match a, b with
  | RArr x, RArr y => la <- arr_enum x;; lb <- arr_enum y;; as_array (la ++ shift_at (acnt x) lb)
  | RStr x, RStr y => la <- str_enum x;; lb <- str_enum y;; as_string (la ++ shift_at (str_count x) lb)
  | RByt x, RByt y => la <- byt_enum x;; lb <- byt_enum y;; as_bytes (la ++ shift_at (len (bbytes x)) lb)
  | _, _ => Val ROut
  end.

(* ---------- the representation invariant ---------- *)
Definition hd_some (l : list (option V)) : bool := match l with Some _ :: _ => true | _ => false end.
Definition hd_nonneg (l : list Z) : bool := match l with c :: _ => 0 <=? c | [] => false end.

Definition inv_arr (a : arr) : Prop :=
  hd_some (avals a) = true /\ hd_some (rev (avals a)) = true /\           (* first and last cell are not holes *)
  acnt a = count_some (avals a) /\                                        (* count = number of non-hole cells *)
  len (avals a) <= max_alloc /\ min_int <= aoff a <= max_int.
Definition inv_str (s : str) : Prop :=
  hd_nonneg (srunes s) = true /\ hd_nonneg (rev (srunes s)) = true /\
  sholes s = count_neg (srunes s) /\
  len (srunes s) <= max_alloc /\ min_int <= soff s <= max_int.
Definition inv_byt (b : byt) : Prop :=
  bbytes b <> [] /\ len (bbytes b) <= max_alloc /\ min_int <= boff b <= max_int.
Definition inv (r : rep) : Prop :=
  match r with RNone | ROut => True | RArr a => inv_arr a | RStr s => inv_str s | RByt b => inv_byt b end.

(* ---------- the regions of the two recorded crash findings, as predicates on the layout and the argument ---------- *)
(* dense storage (KF-C10-23): the size a with asks make() for, from (offset, len, index) *)
Definition dense_region (off n at_ : Z) : bool :=
  let i := isub at_ off in
  let size := if i <? 0 then isub n i else if n <=? i then iadd i 1 else n in
  (size <? 0) || (max_alloc <? size).
(* bytes grow by one at either end only *)
Definition dense_region_byt (off n at_ : Z) : bool :=
  let p := isub at_ off in
  ((p =? n) || (negb ((0 <=? p) && (p <=? n)) && (at_ =? isub off 1))) && (max_alloc <? iadd n 1).
(* superimposed array items (KF-C10-20): the cell is occupied by a different item *)
Definition superimposed_region (a : arr) (at_ : Z) (item : V) : bool :=
  let i := isub at_ (aoff a) in
  (0 <=? i) && (i <? len (avals a)) &&
  match nth_error (avals a) (Z.to_nat i) with Some (Some c) => negb (veq item c) | _ => false end.

(* a (@, @char) tuple whose rune is negative: the hole marker as a member *)
Definition neg_char (x : arg) : bool := match x with AChar _ cf => rune_of_float cf <? 0 | _ => false end.
Definition op_neg_char (o : op) : bool :=
  match o with OWith x | OWithout x => neg_char x | _ => false end.

End SeqSafe.

Arguments RNone {V}.
Arguments ROut {V}.
Arguments RStr {V} s.
Arguments RByt {V} b.
Arguments AChar {V} at_ c.
Arguments AByte {V} at_ b.
Arguments ANum {V} f.
Arguments AOther {V}.
