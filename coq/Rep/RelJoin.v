(* Transcription of the positional join engine of the Go implementation (property C04):

     rel/value_values.go      Values, valueProjector (compose, isSubProjection, hasCommonIndices,
                              isIdentity, isContiguous, mapper), projectedValues.values
     rel/value_set_relpos.go  positionalRelation.groupBy, createMode, Join, JoinKeepEverything,
                              JoinIfCommonExist, JoinCommonOnly, joinOneSide
     rel/value_set_rel.go     Relation (attrs, p, rows), getIndices, Join (result heading, the
                              empty / literal-true / re-sugared results), valuesToTuple
     rel/value_tuple.go       NamesSlice.intersect / minus / isSubset / hasIntersect
     rel/ops_rel.go           Joiner (Relation x Relation branch), the partitionNames of <&>
     rel/expr_rel.go          the partitionNames of the seven other operators

   Abstractions (stated, not proved):
   * a cell is a canonical mathematical value (Base/Val.v) and Value.Equal on cells is [veqb];
   * a frozen.Set of Values is a duplicate-free list of rows, a frozen.Map from keys to sets of rows
     an association list with duplicate-free keys; Range() enumerates the list in list order (the
     theorems of Proofs/RelJoinP.v hold for every order of the operand lists); hashes are not modelled;
   * the per-relation index cache (positionalRelationMetadata.computeIndex) is a memo of [groupBy]
     and is transparent (its protocol is the subject of C11);
   * an index outside a row yields the default cell instead of the Go run-time panic;
     [Proofs/RelJoinP.v: join_indices_in_range] shows that under the representation invariant every
     index handed to a row is inside it, so the default is never read.  The explicit panic(...)
     calls of the Go code are modelled as [JPanic site]. *)
From Arrai Require Import Base.Val Spec.SetAlg Eval.Interp.
Local Open Scope nat_scope.

Definition row := list val.          (* rel.Values *)
Definition vproj := list nat.        (* rel.valueProjector *)
Definition cell0 : val := VSet [].

Inductive jres (A : Type) := JOk (a : A) | JPanic (site : nat).
Arguments JOk {A} a. Arguments JPanic {A} site.
(* panic sites *)
Definition P_keys_length := 1.       (* createMode: keys are not of the same length *)
Definition P_partial_key := 2.       (* createMode: partial key output *)
Definition P_unhandled_mode := 3.    (* positionalRelation.Join: unhandled mode *)
Definition P_invalid_output := 4.    (* JoinCommonOnly: invalid output value *)
Definition P_outputs_intersect := 5. (* Relation.Join: left and right output intersect *)
Definition P_name_not_found := 6.    (* Relation.getIndices: name not found *)
Definition P_width_of_empty := 7.    (* positionalRelation.Width on an empty set (Any() of nothing) *)

(* ---------- Values / frozen.Set[Values] ---------- *)

(* Values.equalValues *)
Fixpoint row_eqb (a b : row) : bool :=
  match a, b with
  | [], [] => true
  | x :: a', y :: b' => veqb x y && row_eqb a' b'
  | _, _ => false
  end.

Definition rs_has (v : row) (s : list row) : bool := existsb (row_eqb v) s.
(* SetBuilder.Add / Set.With *)
Definition rs_add (s : list row) (v : row) : list row := if rs_has v s then s else s ++ [v].
Definition rs_of_list (l : list row) : list row := fold_left rs_add l [].

(* ---------- valueProjector ---------- *)

Fixpoint proj_eqb (p q : vproj) : bool :=       (* EqualValueProjector *)
  match p, q with
  | [], [] => true
  | a :: p', b :: q' => Nat.eqb a b && proj_eqb p' q'
  | _, _ => false
  end.
Definition pmem (i : nat) (p : vproj) : bool := existsb (Nat.eqb i) p.
Definition compose (p p2 : vproj) : vproj := map (fun i => nth i p 0) p2.
Definition isSubProjection (p p2 : vproj) : bool := forallb (fun i => pmem i p2) p.
Definition hasCommonIndices (p p2 : vproj) : bool :=
  let (p, p2) := if length p2 <? length p then (p2, p) else (p, p2) in
  existsb (fun i => pmem i p) p2.
Definition isIdentity (p : vproj) (max : nat) : bool := proj_eqb p (seq 0 max).
Fixpoint isContiguous (p : vproj) : bool :=
  match p with
  | a :: ((b :: _) as p') => Nat.eqb b (S a) && isContiguous p'
  | _ => true
  end.

Definition slice (v : row) (a b : nat) : row := firstn (b - a) (skipn a v).     (* v[a:b] *)
Definition pick (p : vproj) (v : row) : row := map (fun i => nth i v cell0) p.

(* projectedValues{p, v}.values() *)
Definition pv_values (p : vproj) (v : row) : row :=
  if (length p =? 0) || (length v =? 0) then []
  else if isContiguous p then slice v (hd 0 p) (last p 0 + 1)
  else pick p v.

(* the content of p.mapper()(v) for a non-empty p: a copied slice, or projectedValues{p, v}
   (which compares and hashes cell by cell through p) *)
Definition mapper_key (p : vproj) (v : row) : row :=
  if isContiguous p then slice v (hd 0 p) (last p 0 + 1) else pick p v.

(* ---------- positionalRelation.groupBy : frozen.Map[key, frozen.Set[Values]] ---------- *)

Definition gmap := list (row * list row).
Fixpoint gm_add (k v : row) (m : gmap) : gmap :=
  match m with
  | [] => [(k, [v])]
  | (k', s) :: m' => if row_eqb k k' then (k', rs_add s v) :: m' else (k', s) :: gm_add k v m'
  end.
Fixpoint gm_get (k : row) (m : gmap) : option (list row) :=
  match m with
  | [] => None
  | (k', s) :: m' => if row_eqb k k' then Some s else gm_get k m'
  end.
Definition gm_has (k : row) (m : gmap) : bool := match gm_get k m with Some _ => true | None => false end.

Definition groupBy (rows : list row) (p : vproj) : gmap :=
  if length p =? 0 then [([], rows)]
  else fold_left (fun m v => gm_add (mapper_key p v) v m) rows [].

(* ---------- createMode ---------- *)

Definition OnlyOnLHS := 1. Definition InBoth := 2. Definition OnlyOnRHS := 4.

Definition createMode (lk rk lo ro : vproj) : jres nat :=
  if negb (length lk =? length rk) then JPanic P_keys_length
  else if (negb (isSubProjection lk lo) && hasCommonIndices lo lk)
       || (negb (isSubProjection rk ro) && hasCommonIndices ro rk) then JPanic P_partial_key
  else JOk ((if negb (isSubProjection lo lk) then OnlyOnLHS else 0)
            + (if negb (isSubProjection ro rk) then OnlyOnRHS else 0)
            + (if negb (Bool.eqb (hasCommonIndices lo lk) (hasCommonIndices ro rk)) then InBoth else 0)).

(* ---------- the four strategies ---------- *)

(* <&>, <-> *)
Definition joinKeepEverything (r r2 : list row) (lk rk lo ro : vproj) : list row :=
  let lg := groupBy r lk in
  let rg := groupBy r2 rk in
  rs_of_list
    (flat_map (fun e => match gm_get (fst e) rg with
                        | None => []
                        | Some rs => flat_map (fun lv => map (fun rv => pv_values lo lv ++ pv_values ro rv) rs) (snd e)
                        end) lg).

(* --- : {()} when some key occurs on both sides *)
Definition joinIfCommonExist (r r2 : list row) (lk rk : vproj) : list row :=
  let '(r, r2, lk, rk) := if length r2 <? length r then (r2, r, rk, lk) else (r, r2, lk, rk) in
  let g := groupBy r lk in
  if existsb (fun v => gm_has (pv_values rk v) g) r2 then [[]] else [].

Fixpoint find_last_nat (x : nat) (l : list nat) (i : nat) (acc : option nat) : option nat :=
  match l with
  | [] => acc
  | y :: l' => find_last_nat x l' (S i) (if Nat.eqb x y then Some i else acc)
  end.
Fixpoint mapM_opt {A B} (f : A -> option B) (l : list A) : option (list B) :=
  match l with
  | [] => Some []
  | x :: l' => match f x, mapM_opt f l' with Some y, Some r => Some (y :: r) | _, _ => None end
  end.

(* -&- *)
Definition joinCommonOnly (r r2 : list row) (lk rk lo ro : vproj) : jres (list row) :=
  let (key, value) := if length lo =? 0 then (rk, ro) else (lk, lo) in
  let keys := filter (fun k => gm_has k (groupBy r2 rk)) (map fst (groupBy r lk)) in
  if proj_eqb key value then JOk (rs_of_list keys)
  else match mapM_opt (fun index => find_last_nat index key 0 None) value with
       | None => JPanic P_invalid_output
       | Some output => JOk (rs_of_list (map (fun k => pv_values output k) keys))
       end.

(* <--, <&-, -->, -&> *)
Definition joinOneSide (base : list row) (intersector : gmap) (key output : vproj) : jres (list row) :=
  match base with
  | [] => JPanic P_width_of_empty
  | any :: _ =>
      if isIdentity output (length any)
      then JOk (filter (fun v => gm_has (pv_values key v) intersector) base)
      else JOk (rs_of_list (flat_map (fun v => if gm_has (pv_values key v) intersector
                                               then [pv_values output v] else []) base))
  end.

(* positionalRelation.Join *)
Definition positional_join (r r2 : list row) (lk rk lo ro : vproj) : jres (list row) :=
  match createMode lk rk lo ro with
  | JPanic s => JPanic s
  | JOk mode =>
      match mode with
      | 7 | 5 => JOk (joinKeepEverything r r2 lk rk lo ro)
      | 1 | 3 => joinOneSide r (groupBy r2 rk) lk lo
      | 4 | 6 => joinOneSide r2 (groupBy r lk) rk ro
      | 2 => joinCommonOnly r r2 lk rk lo ro
      | 0 => JOk (joinIfCommonExist r r2 lk rk)
      | _ => JPanic P_unhandled_mode
      end
  end.

(* ---------- NamesSlice ---------- *)

Definition ns_intersect (n n2 : list name) : list name :=
  let (n, n2) := if length n2 <? length n then (n2, n) else (n, n2) in
  filter (fun x => name_in x n) n2.
Definition ns_hasIntersect (n n2 : list name) : bool :=
  let (n, n2) := if length n2 <? length n then (n2, n) else (n, n2) in
  existsb (fun x => name_in x n) n2.
Definition ns_minus (n n2 : list name) : list name := filter (fun x => negb (name_in x n2)) n.
Definition ns_isSubset (n n2 : list name) : bool := forallb (fun x => name_in x n2) n.

(* ---------- Relation ---------- *)

(* attribute r_attrs[i] is stored in column r_p[i] of every row *)
Record relation := { r_attrs : list name; r_p : vproj; r_rows : list row }.

Fixpoint find_last_name (x : name) (l : list name) (i : nat) (acc : option nat) : option nat :=
  match l with
  | [] => acc
  | y :: l' => find_last_name x l' (S i) (if name_eqb x y then Some i else acc)
  end.
Definition getIndices (attrs names : list name) : option (list nat) :=
  mapM_opt (fun n => find_last_name n attrs 0 None) names.

(* what Relation.Join returns: False, True, a set of re-sugared (@, @item|@byte|@value|@char)
   tuples built by the general set builder, or a new Relation *)
Inductive jset := JSEmpty | JSTrue | JSSugar (members : list val) | JSRel (r : relation).

Definition is_sugar_name (n : name) : bool :=
  name_eqb n n_item || name_eqb n n_byte || name_eqb n n_value || name_eqb n n_char.

(* the tail of Relation.Join once the rows are known to be neither empty nor {()}: re-sugar a
   (@, @item|@byte|@value|@char) heading through the general set builder, else a new Relation whose
   stored heading is leftOutput ++ rightOutput with the identity projector *)
Definition finish_join (lo ro : list name) (rows : list row) : jset :=
  let count := length lo + length ro in
  let projection := seq 0 count in
  let attrs := lo ++ ro in
  let plain := JSRel {| r_attrs := attrs; r_p := projection; r_rows := rows |} in
  match attrs with
  | [n0; n1] =>
      let (at_, val_) := if name_eqb n1 n_at then (1, 0) else (0, 1) in
      if name_eqb (nth at_ attrs []) n_at && is_sugar_name (nth val_ attrs [])
      then JSSugar (map (fun v => mktup [(n_at, nth at_ (pick projection v) cell0);
                                         (nth val_ attrs [], nth val_ (pick projection v) cell0)]) rows)
      else plain
  | _ => plain
  end.

Definition relation_join (r r2 : relation) (keys lo ro : list name) : jres jset :=
  if ns_hasIntersect lo ro then JPanic P_outputs_intersect
  else
    match getIndices (r_attrs r) keys, getIndices (r_attrs r2) keys,
          getIndices (r_attrs r) lo, getIndices (r_attrs r2) ro with
    | Some lki, Some rki, Some loi, Some roi =>
        match positional_join (r_rows r) (r_rows r2) (compose (r_p r) lki) (compose (r_p r2) rki)
                              (compose (r_p r) loi) (compose (r_p r2) roi) with
        | JPanic s => JPanic s
        | JOk rows =>
            match rows with
            | [] => JOk JSEmpty              (* rows.IsEmpty() *)
            | [[]] => JOk JSTrue             (* rows.IsLiteralTrue() *)
            | _ => JOk (finish_join lo ro rows)
            end
        end
    | _, _, _, _ => JPanic P_name_not_found
    end.

(* partitionNames of the eight operators (rel/ops_rel.go: join; rel/expr_rel.go: the others) *)
Definition partitionNames (op : joinop) (left right common : list name) : list name * list name :=
  match op with
  | JJoin => if ns_isSubset left right then ([], right)
             else if ns_isSubset right left then (left, [])
             else (left, ns_minus right left)
  | JCompose => (ns_minus left common, ns_minus right common)
  | JCommon => (common, [])
  | JExists => ([], [])
  | JRightMatch => ([], right)
  | JLeftMatch => (left, [])
  | JRightResidue => ([], ns_minus right common)
  | JLeftResidue => (ns_minus left common, [])
  end.

(* Joiner(...)(a, b) when both operands are Relations *)
Definition join_rel (op : joinop) (a b : relation) : jres jset :=
  let common := ns_intersect (r_attrs a) (r_attrs b) in
  let (lo, ro) := partitionNames op (r_attrs a) (r_attrs b) common in
  relation_join a b common lo ro.

(* ---------- abstraction ---------- *)

(* valuesToTuple(v, attrMap) *)
Definition row_tuple (attrs : list name) (p : vproj) (v : row) : val := mktup (combine attrs (pick p v)).
Definition abs (r : relation) : list val := vsort (map (row_tuple (r_attrs r) (r_p r)) (r_rows r)).

Definition den (s : jset) : val :=
  match s with
  | JSEmpty => VSet []
  | JSTrue => VSet [VTup []]
  | JSSugar l => mkset l
  | JSRel r => VSet (abs r)
  end.

(* the stored layout of a result, as the harness observes it: class (0 EmptySet, 1 TrueSet,
   2 Relation, 3 anything else), stored heading, projector, Count() *)
Definition jset_class (s : jset) : nat :=
  match s with JSEmpty => 0 | JSTrue => 1 | JSRel _ => 2 | JSSugar _ => 3 end.
Definition jset_attrs (s : jset) : list name := match s with JSRel r => r_attrs r | _ => [] end.
Definition jset_p (s : jset) : vproj := match s with JSRel r => r_p r | _ => [] end.

(* ---------- the representation invariant (executable) ---------- *)

Fixpoint nodupb {A} (eqb : A -> A -> bool) (l : list A) : bool :=
  match l with [] => true | x :: l' => negb (existsb (eqb x) l') && nodupb eqb l' end.

Definition wf_relb (r : relation) : bool :=
  let n := length (r_attrs r) in
  nodupb name_eqb (r_attrs r)
  && (length (r_p r) =? n) && nodupb Nat.eqb (r_p r) && forallb (fun i => i <? n) (r_p r)
  && forallb (fun v => length v =? n) (r_rows r)
  && nodupb row_eqb (r_rows r)
  && negb (length (r_rows r) =? 0).
