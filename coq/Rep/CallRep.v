(* The representation-level lookup code of the Go implementation (property C05), transcribed:
     rel/value.go            SetCall (the "exactly one result" rule), Call
     rel/value_set_str.go    String.CallAll, String.Count, stringEnumerator, NewOffsetString
     rel/value_set_bytes.go  Bytes.CallAll, Bytes.Count, BytesEnumerator, NewOffsetBytes
     rel/value_set_array.go  Array.CallAll, Array.Count, arrayValueEnumerator, NewOffsetArray
     rel/value_set_dict.go   Dict.CallAll (single and multipleValues slots), Dict.Count, dictEnumerator
     rel/value_set_rel.go    Relation.CallAll, getAttrIndex;  rel/value_set_relpos.go positionalRelation.CallAll
     rel/value_set_generic.go GenericSet.CallAll;  rel/value_set_union.go UnionSet.CallAll
     rel/value_set_empty.go / value_set_true.go  CallAll
     syntax/compile.go       compileSafeTails (the ?: fallback is taken on NoReturnError only)
     rel/expr_offset.go      OffsetExpr.Eval;  rel/ops_rel.go Concatenate (what it adds to the builder)
   One level of representation is modelled: the collection that is called / shifted / concatenated.
   Its members, keys and values are mathematical values (Base.Val) and Go's Equal on them is veqb.
   Definitions only; the proofs are in Proofs/CallRepP.v. *)
From Arrai Require Import Base.Val Spec.SetAlg Eval.Interp Sys.Heap Rep.SeqRep.

(* a Dict slot: a Value, or multipleValues (a frozen set of Values) *)
Inductive dslot := DOne (v : val) | DMulti (vs : list val).

Inductive rep :=
| REmpty                                                     (* EmptySet *)
| RTrue                                                      (* TrueSet = {()} *)
| RStr (off : Z) (cells : list Z) (holes : Z)                (* String{s, offset, holes}; a negative rune is a hole *)
| RBytes (off : Z) (bs : list Z)                             (* Bytes{b, offset} *)
| RArr (off : Z) (cells : list (option val)) (count : Z)     (* Array{values, offset, count}; nil is a hole *)
| RDict (es : list (val * dslot))                            (* Dict{m}: the entries of the frozen map *)
| RRel (attrs : list name) (p : list nat) (rows : list (list val))   (* Relation{attrs, p, rows}: row[p[i]] is the value of attrs[i] *)
| RGen (ms : list val)                                       (* GenericSet *)
| RUnion (bs : list rep).                                    (* UnionSet: the buckets *)

(* ---------- what a representation denotes: the members its Enumerator yields ---------- *)

Fixpoint opt_members (nm : name) (off : Z) (c : list (option val)) : list val :=
  match c with
  | [] => []
  | x :: c' => match x with
               | Some v => vpair nm (vint off) v :: opt_members nm (off + 1) c'
               | None => opt_members nm (off + 1) c'
               end
  end.

Definition str_cells (c : list Z) : list (option val) := map (fun x => if x <? 0 then None else Some (vint x)) c.
Definition byte_cells (bs : list Z) : list (option val) := map (fun x => Some (vint x)) bs.

Definition slot_values (s : dslot) : list val := match s with DOne v => [v] | DMulti vs => vs end.
Definition dict_members (es : list (val * dslot)) : list val :=
  flat_map (fun e => map (ventry (fst e)) (slot_values (snd e))) es.

(* valuesToTuple: attribute attrs[i] is row[p[i]] *)
Definition row_attrs (attrs : list name) (p : list nat) (row : list val) : list (name * val) :=
  combine attrs (map (fun i => nth i row (VSet [])) p).
Definition row_tuple (attrs : list name) (p : list nat) (row : list val) : val := mktup (row_attrs attrs p row).

Fixpoint abs (r : rep) : list val :=
  match r with
  | REmpty => []
  | RTrue => [VTup []]
  | RStr off c _ => opt_members n_char off (str_cells c)
  | RBytes off bs => opt_members n_byte off (byte_cells bs)
  | RArr off c _ => opt_members n_item off c
  | RDict es => dict_members es
  | RRel attrs p rows => map (row_tuple attrs p) rows
  | RGen ms => ms
  | RUnion bs => (fix go (l : list rep) : list val := match l with [] => [] | b :: l' => abs b ++ go l' end) bs
  end.

(* the denoted value *)
Definition abs_val (r : rep) : val := mkset (abs r).

(* ---------- the invariants the Go constructors maintain (decidable, evaluated on every observed layout) ---------- *)

Definition count_holes (c : list Z) : Z := Z.of_nat (length (filter (fun x => x <? 0) c)).
Definition count_some {A} (c : list (option A)) : Z :=
  Z.of_nat (length (filter (fun x => match x with Some _ => true | None => false end) c)).

Fixpoint distinct_vals (l : list val) : bool :=
  match l with [] => true | x :: l' => negb (vmem x l') && distinct_vals l' end.
Fixpoint distinct_names (l : list name) : bool :=
  match l with [] => true | x :: l' => negb (existsb (name_eqb x) l') && distinct_names l' end.
Fixpoint distinct_nats (l : list nat) : bool :=
  match l with [] => true | x :: l' => negb (existsb (Nat.eqb x) l') && distinct_nats l' end.
Definition is_pair (m : val) : bool := match as_pair m with Some _ => true | None => false end.

Fixpoint wfb (r : rep) : bool :=
  match r with
  | REmpty | RTrue => true
  | RStr _ c h => negb (match c with [] => true | _ => false end) && (h =? count_holes c)
  | RBytes _ bs => negb (match bs with [] => true | _ => false end)
  | RArr _ c n => negb (match c with [] => true | _ => false end) && (n =? count_some c)
  | RDict es => negb (match es with [] => true | _ => false end) && distinct_vals (map fst es)
  | RRel attrs p rows =>
      negb (match rows with [] => true | _ => false end) && distinct_names attrs &&
      (length p =? length attrs)%nat && forallb (fun i => (i <? length attrs)%nat) p && distinct_nats p &&
      forallb (fun row => (length row =? length attrs)%nat) rows
  | RGen ms => negb (match ms with [] => true | _ => false end) && forallb (fun m => negb (is_pair m)) ms
  | RUnion bs => (fix go (l : list rep) : bool := match l with [] => true | b :: l' => wfb b && go l' end) bs
  end.
Definition wf (r : rep) : Prop := wfb r = true.

(* TrueSet accepts every call and answers nothing although its member () is not a pair *)
Fixpoint has_true (r : rep) : bool :=
  match r with
  | RTrue => true
  | RUnion bs => (fix go (l : list rep) : bool := match l with [] => false | b :: l' => has_true b || go l' end) bs
  | _ => false
  end.

(* ---------- CallAll ---------- *)

(* what CallAll did: the values it added to the builder, the error errElementsNotMatchingAt, or an index panic *)
Inductive cres := COk (vs : list val) | CNotKeyed | CPanic.

(* arg.(Number) and n.Int() *)
Definition key_int (k : val) : option Z := match k with VNum n => num_int n | _ => None end.

Definition oget (off : Z) (c : list (option val)) (i : Z) : option val :=
  if i <? off then None
  else match nth_error c (Z.to_nat (i - off)) with Some (Some v) => Some v | _ => None end.
Definition bget (off : Z) (bs : list Z) (i : Z) : option Z :=
  if i <? off then None else nth_error bs (Z.to_nat (i - off)).

Definition opt_list {A} (o : option A) : list A := match o with Some x => [x] | None => [] end.

Fixpoint dict_get (k : val) (es : list (val * dslot)) : option dslot :=
  match es with
  | [] => None
  | e :: es' => if veqb k (fst e) then Some (snd e) else dict_get k es'
  end.

Fixpoint index_of (a : name) (attrs : list name) : option nat :=
  match attrs with
  | [] => None
  | b :: attrs' => if name_eqb a b then Some O else option_map S (index_of a attrs')
  end.

(* positionalRelation.CallAll(atIndex, retIndex, v, sb) *)
Fixpoint rows_callall (ai vi : nat) (rows : list (list val)) (k : val) : cres :=
  match rows with
  | [] => COk []
  | row :: rows' =>
      match nth_error row ai with
      | None => CPanic
      | Some a =>
          if veqb a k then
            match nth_error row vi with
            | None => CPanic
            | Some v => match rows_callall ai vi rows' k with COk r => COk (v :: r) | e => e end
            end
          else rows_callall ai vi rows' k
      end
  end.

(* Relation.CallAll *)
Definition rel_callall (attrs : list name) (p : list nat) (rows : list (list val)) (k : val) : cres :=
  match index_of n_at attrs with
  | None => CNotKeyed
  | Some i =>
      match nth_error p i with
      | None => CPanic
      | Some ai =>
          if negb (length attrs =? 2)%nat then CNotKeyed
          else rows_callall ai (if (ai =? 1)%nat then 0%nat else 1%nat) rows k
      end
  end.

Fixpoint rep_callall (r : rep) (k : val) : cres :=
  match r with
  | REmpty | RTrue => COk []
  | RStr off c _ => COk (match key_int k with Some i => opt_list (option_map vint (get off c i)) | None => [] end)
  | RBytes off bs => COk (match key_int k with Some i => opt_list (option_map vint (bget off bs i)) | None => [] end)
  | RArr off c _ => COk (match key_int k with Some i => opt_list (oget off c i) | None => [] end)
  | RDict es => COk (match dict_get k es with Some s => slot_values s | None => [] end)
  | RRel attrs p rows => rel_callall attrs p rows k
  | RGen _ => CNotKeyed
  | RUnion bs =>
      (fix go (l : list rep) : cres :=
         match l with
         | [] => COk []
         | b :: l' => match rep_callall b k with
                      | COk v1 => match go l' with COk v2 => COk (v1 ++ v2) | e => e end
                      | e => e
                      end
         end) bs
  end.

(* ---------- SetCall ---------- *)

(* SetCall collects the results in a rel.SetBuilder and counts the members of the set it builds.  The builder
   routes (@:i, @item|@char|@byte: x) tuples to asArray / asString / asBytes, which keep one item per index
   (the last one written): two different candidate values of that shape at one index collapse into one.
   [collapse] is that effect on the candidate list; the quirk flag says whether the model has it (true = the
   code as it is, KF-C05-04) or builds the mathematical set of candidates (false = repaired). *)
Definition sugar_slot (m : val) : option (name * Z) :=
  match m with
  | VTup [(n1, VNum (NInt i)); (n2, x)] =>
      if name_eqb n1 n_at then
        if name_eqb n2 n_item then Some (n_item, i)
        else if name_eqb n2 n_char then match x with VNum (NInt _) => Some (n_char, i) | _ => None end
        else if name_eqb n2 n_byte then match x with VNum (NInt _) => Some (n_byte, i) | _ => None end
        else None
      else None
  | _ => None
  end.
Definition same_slot (s : name * Z) (o : option (name * Z)) : bool :=
  match o with Some t => name_eqb (fst s) (fst t) && (snd s =? snd t) | None => false end.
Fixpoint collapse (vs : list val) : list val :=
  match vs with
  | [] => []
  | v :: vs' => match sugar_slot v with
                | Some s => if existsb (fun w => same_slot s (sugar_slot w)) vs' then collapse vs' else v :: collapse vs'
                | None => v :: collapse vs'
                end
  end.
Definition results (q_collapse : bool) (vs : list val) : list val := vsort (if q_collapse then collapse vs else vs).

Inductive callout := OOne (v : val) | ONoReturn | OTooMany | ONotKeyed | OPanic.

Definition rep_setcall (q : bool) (r : rep) (k : val) : callout :=
  match rep_callall r k with
  | CNotKeyed => ONotKeyed
  | CPanic => OPanic
  | COk vs => match results q vs with
              | [] => ONoReturn            (* NoReturnError *)
              | [v] => OOne v
              | _ => OTooMany              (* "too many return values" *)
              end
  end.

(* c(k)?:d : the safe callback turns NoReturnError, and nothing else, into the fallback *)
Inductive sres := SVal (v : val) | SFallback | SErr | SPanic.
Definition rep_safecall (q : bool) (r : rep) (k : val) : sres :=
  match rep_setcall q r k with
  | OOne v => SVal v
  | ONoReturn => SFallback
  | OPanic => SPanic
  | OTooMany | ONotKeyed => SErr
  end.

(* the specification's answer as an outcome *)
Definition out_of_callres (c : callres) : callout :=
  match c with CROne v => OOne v | CRNone => ONoReturn | CRMany => OTooMany | CRNotKeyed => ONotKeyed end.

(* the region of KF-C05-04, decided on the candidates: the quirk changes the outcome *)
Definition callout_eqb (a b : callout) : bool :=
  match a, b with
  | OOne v, OOne w => veqb v w
  | ONoReturn, ONoReturn | OTooMany, OTooMany | ONotKeyed, ONotKeyed | OPanic, OPanic => true
  | _, _ => false
  end.
Definition result_collision (r : rep) (k : val) : bool :=
  negb (callout_eqb (rep_setcall true r k) (rep_setcall false r k)).

(* ---------- Count() ---------- *)

Fixpoint rep_count (r : rep) : Z :=
  match r with
  | REmpty => 0
  | RTrue => 1
  | RStr _ c h => Z.of_nat (length c) - h
  | RBytes _ bs => Z.of_nat (length bs)
  | RArr _ _ n => n
  | RDict es => fold_right (fun e acc => Z.of_nat (length (slot_values (snd e))) + acc) 0 es
  | RRel _ _ rows => Z.of_nat (length rows)
  | RGen ms => Z.of_nat (length ms)
  | RUnion bs => (fix go (l : list rep) : Z := match l with [] => 0 | b :: l' => rep_count b + go l' end) bs
  end.

(* ---------- n \ s : OffsetExpr.Eval ---------- *)

(* int(offset.(Number)): truncation toward zero *)
Definition num_trunc (n : num) : Z := match n with NInt z => z | NHalf z => if z <? 0 then z + 1 else z end.

Fixpoint first_some {A} (l : list (option A)) : option nat :=
  match l with
  | [] => None
  | Some _ :: _ => Some O
  | None :: l' => option_map S (first_some l')
  end.

(* NewOffsetString / NewOffsetBytes / NewOffsetArray *)
Definition new_offset_string (c : list Z) (off : Z) : rep :=
  match c with [] => REmpty | _ => RStr off c (count_holes c) end.
Definition new_offset_bytes (bs : list Z) (off : Z) : rep :=
  match bs with [] => REmpty | _ => RBytes off bs end.
Definition new_offset_array (off : Z) (c : list (option val)) : rep :=
  (* trim holes from both ends - only when there is a non-hole to stop at *)
  let (off1, c1) := match first_some c with Some i => (off + Z.of_nat i, skipn i c) | None => (off, c) end in
  let c2 := match first_some (rev c1) with Some j => firstn (length c1 - j) c1 | None => c1 end in
  match c2 with [] => REmpty | _ => RArr off1 c2 (count_some c2) end.

(* None = the error "offset must be a number" / "offset not applicable" *)
Definition rep_offset (n : val) (r : rep) : option rep :=
  match n with
  | VNum nn =>
      match r with
      | RArr off c _ => Some (new_offset_array (off + num_trunc nn) c)
      | RBytes off bs => Some (new_offset_bytes bs (off + num_trunc nn))
      | RStr off c _ => Some (new_offset_string c (off + num_trunc nn))
      | REmpty => Some REmpty
      | _ => None
      end
  | _ => None
  end.

(* ---------- a ++ b : Concatenate ---------- *)

(* t.With("@", offset + n) for a tuple t with a numeric "@" *)
Definition go_shift (off : Z) (m : val) : option val :=
  match m with
  | VTup attrs =>
      match tget n_at attrs with
      | Some (VNum k) => Some (VTup (ainsert (n_at, VNum (num_add k (NInt off))) attrs))
      | _ => None
      end
  | _ => None
  end.

Fixpoint shift_all (off : Z) (ms : list val) : option (list val) :=
  match ms with
  | [] => Some []
  | m :: ms' => match go_shift off m, shift_all off ms' with
                | Some m', Some r => Some (m' :: r)
                | _, _ => None
                end
  end.

(* the values Concatenate adds to its builder, in order: every member of a, then every member of b with
   its "@" moved up by a.Count(); None = "Mismatched elt in set + set" *)
Definition rep_concat_added (a b : rep) : option (list val) :=
  match shift_all (rep_count a) (abs b) with
  | Some sb => Some (abs a ++ sb)
  | None => None
  end.

(* ---------- the builder, for sequence items: asString / asBytes / asArray ---------- *)

Definition item_at (m : val) : option (Z * val) :=
  match m with VTup [(_, VNum (NInt i)); (_, x)] => Some (i, x) | _ => None end.

Fixpoint min_max (l : list (Z * val)) : option (Z * Z) :=
  match l with
  | [] => None
  | (i, _) :: l' => match min_max l' with
                    | None => Some (i, i)
                    | Some (lo, hi) => Some (Z.min i lo, Z.max i hi)
                    end
  end.

Fixpoint set_nth_opt {A} (n : nat) (x : A) (l : list A) : list A :=
  match l, n with
  | [], _ => []
  | _ :: l', O => x :: l'
  | y :: l', S n' => y :: set_nth_opt n' x l'
  end.

(* items[t.at-minIndex] = t.item for every tuple in order: the last write wins *)
Definition fill (lo : Z) (n : nat) (l : list (Z * val)) : list (option val) :=
  fold_left (fun acc t => set_nth_opt (Z.to_nat (fst t - lo)) (Some (snd t)) acc) l (repeat None n).

Definition as_array (l : list (Z * val)) : rep :=
  match min_max l with
  | None => REmpty            (* never called with no values *)
  | Some (lo, hi) => let c := fill lo (Z.to_nat (hi - lo + 1)) l in RArr lo c (count_some c)
  end.

Definition rune_of (v : val) : Z := match v with VNum (NInt z) => z | _ => -1 end.
Definition as_string (l : list (Z * val)) : rep :=
  match min_max l with
  | None => REmpty
  | Some (lo, hi) =>
      let c := map (fun o => match o with Some v => rune_of v | None => -1 end) (fill lo (Z.to_nat (hi - lo + 1)) l) in
      RStr lo c (count_holes c)
  end.
(* make([]byte, n) is zero-filled: a gap becomes bytes of value 0 (KF-C05-02) *)
Definition as_bytes (l : list (Z * val)) : rep :=
  match min_max l with
  | None => REmpty
  | Some (lo, hi) =>
      RBytes lo (map (fun o => match o with Some v => rune_of v | None => 0 end) (fill lo (Z.to_nat (hi - lo + 1)) l))
  end.

Fixpoint items_of (nm : name) (ms : list val) : option (list (Z * val)) :=
  match ms with
  | [] => Some []
  | m :: ms' =>
      match sugar_slot m, item_at m, items_of nm ms' with
      | Some (n, _), Some t, Some r => if name_eqb n nm then Some (t :: r) else None
      | _, _, _ => None
      end
  end.

(* SetBuilder.Finish when every value added went to one and the same sequence bucket; None = other shapes
   (several buckets, tuples, dict entries, plain values), which this model does not build *)
Definition seq_finish (ms : list val) : option rep :=
  match ms with
  | [] => Some REmpty
  | _ =>
      match items_of n_item ms, items_of n_char ms, items_of n_byte ms with
      | Some l, _, _ => Some (as_array l)
      | _, Some l, _ => Some (as_string l)
      | _, _, Some l => Some (as_bytes l)
      | _, _, _ => None
      end
  end.

(* a ++ b as a representation, for the sequence shapes *)
Definition rep_concat (a b : rep) : option rep :=
  match rep_concat_added a b with
  | Some ms => seq_finish ms
  | None => None
  end.
