(* REGENERATED on every check by `vharness tables` from the running implementation: do not edit. *)
From Arrai Require Import Base.Val Rep.Less.

Definition kind_table : list (rkind * Z) := [
  (KNum, 100);
  (KEmpty, 198);
  (KTrue, 199);
  (KGeneric, 200);
  (KStr, 204);
  (KBytes, 207);
  (KArr, 208);
  (KDict, 209);
  (KUnion, 210);
  (KRel, 211);
  (KTupG, 300);
  (KTupChar, 301);
  (KTupItem, 302);
  (KTupEntry, 303);
  (KTupByte, 304)
].

Definition neg_kind_is_negation : bool := true.
