(* Generic comparison of the implementation's observed result of a program with
   the reference interpreter (Eval/Interp.v), evaluated inside Coq. *)
From Arrai Require Import Base.Val Spec.SetAlg Eval.Interp.

Inductive eobs :=
| OVal (v : val)      (* canonical dump of the value, members in enumeration order *)
| OFun                (* a function value *)
| OErr                (* an ordinary error *)
| OBad.               (* panic / timeout / value outside the model *)

Fixpoint vsize (v : val) : nat :=
  match v with
  | VNum _ => 1
  | VTup l => S (fold_right (fun p acc => (vsize (snd p) + acc)%nat) O l)
  | VSet l => S (fold_right (fun x acc => (vsize x + acc)%nat) O l)
  end.

Record ecase := { e_id : Z; e_expr : expr; e_obs : eobs }.

Definition FUEL : nat := 200.

(* 0  agree
   1  spec value, implementation value differs (or has duplicate members)
   2  spec value, implementation error
   3  spec value, implementation panic/timeout/unrepresentable
   4  spec error, implementation value
   5  spec error, implementation panic/timeout
   6  spec function / implementation function mismatch
   9  outside the specified fragment (Unspec / out of fuel): not compared *)
Definition classify (k : ecase) : Z :=
  match run FUEL (e_expr k), e_obs k with
  | Ok (D v), OVal w => if veqb (norm w) v && Nat.eqb (vsize (norm w)) (vsize w) then 0 else 1
  | Ok (D _), OFun => 1
  | Ok (D _), OErr => 2
  | Ok (D _), OBad => 3
  | Ok (Clos _ _ _), OFun => 0
  | Ok (Clos _ _ _), _ => 6
  | Err, OErr => 0
  | Err, OVal _ => 4
  | Err, OFun => 4
  | Err, OBad => 5
  | Unspec, _ => 9
  | OutOfFuel, _ => 9
  end.

(* ---------- regions of known findings, decided on the specification side ---------- *)

(* two different members (@: i, k: _) with the same integer index and the same
   sequence attribute k: such a set has no array/string/bytes representation *)
Fixpoint collide_list (l : list val) : bool :=
  match l with
  | [] => false
  | m :: l' =>
      (match as_pair m with
       | Some (VNum (NInt i), n, _) =>
           (name_eqb n n_item || name_eqb n n_char || name_eqb n n_byte) &&
           existsb (fun m' => match as_pair m' with
                              | Some (VNum (NInt j), n', _) => Z.eqb i j && name_eqb n n'
                              | _ => false
                              end) l'
       | _ => false
       end) || collide_list l'
  end.

Fixpoint has_collision (v : val) : bool :=
  match v with
  | VNum _ => false
  | VTup l => existsb (fun p => has_collision (snd p)) l
  | VSet l => collide_list l || existsb has_collision l
  end.

Fixpoint subterms (e : expr) : list expr :=
  e :: match e with
       | ELit _ | EVar _ => []
       | ESetE l => flat_map subterms l
       | ETupE l => flat_map (fun p => subterms (snd p)) l
       | EArrE l => flat_map (fun o => match o with Some x => subterms x | None => [] end) l
       | EDictE l => flat_map (fun p => subterms (fst p) ++ subterms (snd p)) l
       | EBin _ a b | ECmp _ a b | EWhere a b | EDArrow a b | ESeqArrow _ a b
       | ECall a b | EArrow a b | EAnd a b | EOr a b => subterms a ++ subterms b
       | ELet _ a b | EJoin _ a b | ERank a b => subterms a ++ subterms b
       | EUn _ a | EDot a _ | EFn _ a | ENest _ _ _ a | ESingleNest _ a => subterms a
       | ESafeCall a b c => subterms a ++ subterms b ++ subterms c
       | ESafeDot a _ d => subterms a ++ subterms d
       | ECond arms d => flat_map (fun p => subterms (fst p) ++ subterms (snd p)) arms
                         ++ match d with Some x => subterms x | None => [] end
       | ECondPat c arms => subterms c ++ flat_map (fun p => subterms (snd p)) arms
       end.

(* some closed sub-expression denotes a set with superimposed sequence items *)
Definition collision_region (e : expr) : bool :=
  existsb (fun s => match run_data FUEL s with Ok v => has_collision v | _ => false end) (subterms e).

(* byte members whose integer indices are not contiguous: a byte array has no
   holes, the builder fills the gap with zero bytes *)
Definition byte_indices (l : list val) : list Z :=
  fold_right (fun m acc => match as_pair m with
                           | Some (VNum (NInt i), n, _) => if name_eqb n n_byte then i :: acc else acc
                           | _ => acc
                           end) [] l.
Definition bytes_gap_list (l : list val) : bool :=
  match byte_indices l with
  | [] => false
  | i :: r => let lo := fold_right Z.min i r in let hi := fold_right Z.max i r in
              negb (Z.eqb (hi - lo + 1) (Z.of_nat (length (i :: r))))
  end.
Fixpoint has_bytes_gap (v : val) : bool :=
  match v with
  | VNum _ => false
  | VTup l => existsb (fun p => has_bytes_gap (snd p)) l
  | VSet l => bytes_gap_list l || existsb has_bytes_gap l
  end.

(* a tuple of sugar shape (@, @char|@byte|@item) whose components do not fit the
   specialised Go tuple types (non-integer index, non-character, non-byte) *)
Definition illtyped_sugar_tuple (l : list (name * val)) : bool :=
  match l with
  | [(n1, k); (n2, x)] =>
      name_eqb n1 n_at &&
      ((name_eqb n2 n_char && negb (match k with VNum (NInt _) => valid_char x | _ => false end)) ||
       (name_eqb n2 n_byte && negb (match k with VNum (NInt _) => valid_byte x | _ => false end)) ||
       (name_eqb n2 n_item && negb (match k with VNum (NInt _) => true | _ => false end)))
  | _ => false
  end.
Fixpoint has_illtyped_sugar (v : val) : bool :=
  match v with
  | VNum _ => false
  | VTup l => illtyped_sugar_tuple l || existsb (fun p => has_illtyped_sugar (snd p)) l
  | VSet l => existsb has_illtyped_sugar l
  end.

Definition region_of (e : expr) : Z :=
  let vals := fold_right (fun s acc => match run_data FUEL s with Ok v => v :: acc | _ => acc end) [] (subterms e) in
  if existsb has_collision vals then 1
  else if existsb has_bytes_gap vals then 2
  else if existsb has_illtyped_sugar vals then 3
  else 0.

(* reported code = verdict code + 100 * region (0 = outside every known-finding region) *)
Definition classify_region (k : ecase) : Z :=
  let c := classify k in
  if Z.eqb c 0 || Z.eqb c 9 then c else c + 100 * region_of (e_expr k).

Definition report (l : list ecase) : list (Z * Z) :=
  filter (fun p => negb (Z.eqb (snd p) 0)) (map (fun k => (e_id k, classify_region k)) l).
