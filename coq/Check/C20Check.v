(* Correspondence support for C20: compares what pkg/test did (parsed report,
   returned error, RunExpr results) with the model and with the specification,
   inside Coq.  Result lists are compared as multisets (tuple enumeration order
   and the report's sort are not observables). *)
From Arrai Require Import Base.Val Sys.TestRun Proofs.TestRunP.

Definition oidx (o : outcome) : Z := match o with Failed => 0 | Invalid => 1 | Ignored => 2 | Passed => 3 end.
Definition r_cmp (a b : bytes * outcome) : comparison :=
  match name_cmp (fst a) (fst b) with Eq => Z.compare (oidx (snd a)) (oidx (snd b)) | c => c end.
Fixpoint r_insert (x : bytes * outcome) (l : list (bytes * outcome)) : list (bytes * outcome) :=
  match l with
  | [] => [x]
  | y :: l' => match r_cmp x y with Gt => y :: r_insert x l' | _ => x :: l end
  end.
Definition r_sort (l : list (bytes * outcome)) : list (bytes * outcome) := fold_right r_insert [] l.
Fixpoint r_list_eqb (a b : list (bytes * outcome)) : bool :=
  match a, b with
  | [], [] => true
  | x :: a', y :: b' => match r_cmp x y with Eq => r_list_eqb a' b' | _ => false end
  | _, _ => false
  end.
Definition r_meq (a b : list (bytes * outcome)) : bool := r_list_eqb (r_sort a) (r_sort b).
Definition o_meq (a b : list (bytes * outcome)) : bool :=
  r_meq (map (fun r => ([], snd r)) a) (map (fun r => ([], snd r)) b).

Definition res_eqb (a b : res (list (bytes * outcome))) : bool :=
  match a, b with
  | Ok x, Ok y => r_list_eqb x y
  | Panic _, Panic _ => true
  | _, _ => false
  end.

Definition q_only (k : Z) : Quirks :=
  {| q_test_sparse_array_nil := Z.eqb k 1; q_test_offset_paths := Z.eqb k 2; q_test_hidden_root := Z.eqb k 4 |}.
Definition q_has (q : Quirks) (k : Z) : bool :=
  if Z.eqb k 1 then q_test_sparse_array_nil q else if Z.eqb k 2 then q_test_offset_paths q else q_test_hidden_root q.

(* ---------- expression-level cases: test.RunExpr on one tree ---------- *)
Inductive eobs := EOk (l : list (bytes * outcome)) | EErr | EPanic | EBad.
Record ecase := { ce_id : Z; ce_tree : rtree; ce_alt : option rtree; ce_obs : eobs }.

Definition e_agrees (m : res (list (bytes * outcome))) (o : eobs) : bool :=
  match m, o with
  | Ok x, EOk y => r_meq x y
  | Panic _, EPanic => true
  | _, _ => false
  end.

Definition spec_results (t : rtree) : list (bytes * outcome) := map leaf_result (leaves_spec t).

(* the property's own oracle on the implementation's output *)
Definition e_oracle (t : rtree) (o : eobs) : bool :=
  match o with
  | EOk l => if names_ok t then r_meq l (spec_results t) else o_meq l (spec_results t)
  | _ => false
  end.

Definition kmask {A} (run : Quirks -> A) (eqb : A -> A -> bool) (qc : Quirks) : Z :=
  fold_right (fun k acc => if q_has qc k && negb (eqb (run (q_only k)) (run quirks_off)) then acc + k else acc) 0 [1; 2; 4].

(* 0 agree; 1 violation (oracle fails inside the guard); 2 correspondence break inside the guard;
   4 differs from the bug-compatible model inside a defect region, oracle holds; 5 explained by the alternative tree
   (set builder collapsed a duplicate index); 100+mask: oracle fails, attributable to the open quirks in mask *)
Definition classify_e (qc : Quirks) (k : ecase) : Z :=
  let t := ce_tree k in
  let mq := run_expr qc t in
  let guard := res_eqb mq (run_expr quirks_off t) in
  if e_oracle t (ce_obs k) then
    (if e_agrees mq (ce_obs k) then 0 else if guard then 2 else 4)
  else
    match ce_alt k with
    | Some t' => if e_agrees (run_expr qc t') (ce_obs k) || e_agrees (run_expr quirks_off t') (ce_obs k) then 5 else 1
    | None =>
        if guard then 1
        else let m := kmask (fun q => run_expr q t) res_eqb qc in
             if Z.eqb m 0 then 1 else 100 + m
    end.

Definition report_e (qc : Quirks) (l : list ecase) : list (Z * Z) :=
  filter (fun p => negb (Z.eqb (snd p) 0)) (map (fun k => (ce_id k, classify_e qc k)) l).

(* ---------- run-level cases: test.RunTests over a directory layout ---------- *)
Definition rfiles := list (bytes * list (bytes * outcome)).
Record summary := { su_failed : Z; su_invalid : Z; su_ignored : Z; su_passed : Z; su_total : Z }.
Inductive robs :=
| ROk (f : rfiles) (s : summary)        (* nil error *)
| RFailed (f : rfiles) (s : summary)    (* Report's error, after the report *)
| RErr                                  (* another error, nothing reported *)
| RPanic
| RBad.
Record rcase := { cr_id : Z; cr_target : option (bytes * fsnode); cr_obs : robs }.

Fixpoint files_meq (strict : bool) (a b : rfiles) : bool :=
  match a, b with
  | [], [] => true
  | (p, x) :: a', (p', y) :: b' => bytes_eqb p p' && (if strict then r_meq x y else o_meq x y) && files_meq strict a' b'
  | _, _ => false
  end.
Fixpoint files_eqb (a b : rfiles) : bool :=
  match a, b with
  | [], [] => true
  | (p, x) :: a', (p', y) :: b' => bytes_eqb p p' && r_list_eqb x y && files_eqb a' b'
  | _, _ => false
  end.

Definition summary_of (s : stats) : summary :=
  {| su_failed := Z.of_nat (st_failed s); su_invalid := Z.of_nat (st_invalid s); su_ignored := Z.of_nat (st_ignored s);
     su_passed := Z.of_nat (st_passed s); su_total := Z.of_nat (st_total s) |}.
Definition summary_eqb (a b : summary) : bool :=
  Z.eqb (su_failed a) (su_failed b) && Z.eqb (su_invalid a) (su_invalid b) && Z.eqb (su_ignored a) (su_ignored b) &&
  Z.eqb (su_passed a) (su_passed b) && Z.eqb (su_total a) (su_total b).

Definition runres_eqb (a b : runres) : bool :=
  match a, b with
  | RunErrWalk, RunErrWalk | RunErrNoFiles, RunErrNoFiles => true
  | RunErrFile p, RunErrFile p' => bytes_eqb p p'
  | RunPanic _, RunPanic _ => true
  | RunDone f s b, RunDone f' s' b' => files_eqb f f' && summary_eqb (summary_of s) (summary_of s') && Bool.eqb b b'
  | _, _ => false
  end.

Definition r_agrees (m : runres) (o : robs) : bool :=
  match m, o with
  | RunDone f s false, ROk f' s' => files_meq true f f' && summary_eqb (summary_of s) s'
  | RunDone f s true, RFailed f' s' => files_meq true f f' && summary_eqb (summary_of s) s'
  | RunErrWalk, RErr | RunErrNoFiles, RErr | RunErrFile _, RErr => true
  | RunPanic _, RPanic => true
  | _, _ => false
  end.

(* specification of a run from the selected files alone *)
Fixpoint spec_files (fs : list (bytes * fileres)) : option rfiles :=
  match fs with
  | [] => Some []
  | (p, FTree t) :: fs' => match spec_files fs' with Some l => Some ((p, spec_results t) :: l) | None => None end
  | _ => None
  end.
Definition all_names_ok (fs : list (bytes * fileres)) : bool :=
  forallb (fun f => match snd f with FTree t => names_ok t | _ => true end) fs.

Definition r_oracle (tg : option (bytes * fsnode)) (o : robs) : bool :=
  match tg with
  | None => match o with RErr => true | _ => false end
  | Some (path, n) =>
      let fs := select_spec path n in
      match fs with
      | [] => match o with RErr => true | _ => false end
      | _ =>
          match spec_files fs with
          | None => match o with RErr | RFailed _ _ => true | _ => false end     (* an unevaluable file: the run must fail *)
          | Some F =>
              let s := calc_stats F in
              let strict := all_names_ok fs in
              match o with
              | ROk f' s' => negb (run_failed s) && files_meq strict F f' && summary_eqb (summary_of s) s'
              | RFailed f' s' => run_failed s && files_meq strict F f' && summary_eqb (summary_of s) s'
              | _ => false
              end
          end
      end
  end.

Definition classify_r (qc : Quirks) (k : rcase) : Z :=
  let tg := cr_target k in
  let mq := run_tests qc tg in
  let guard := runres_eqb mq (run_tests quirks_off tg) in
  if r_oracle tg (cr_obs k) then
    (if r_agrees mq (cr_obs k) then 0 else if guard then 2 else 4)
  else if guard then 1
  else let m := kmask (fun q => run_tests q tg) runres_eqb qc in
       if Z.eqb m 0 then 1 else 100 + m.

Definition report_r (qc : Quirks) (l : list rcase) : list (Z * Z) :=
  filter (fun p => negb (Z.eqb (snd p) 0)) (map (fun k => (cr_id k, classify_r qc k)) l).

(* number of leaves / of leaves that are not the literal true, for coverage *)
Definition tree_census (t : rtree) : Z * Z :=
  (Z.of_nat (length (leaves_spec t)),
   Z.of_nat (length (filter (fun pl => match snd pl with LTrue => false | _ => true end) (leaves_spec t)))).
