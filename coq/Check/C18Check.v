(* Correspondence support for C18: compares what the harness observed of the implementation
   (status, capability classes observable from the result, effects seen by the recording file
   system / transport) with the model of Sys/Sandbox.v run on the same case, inside Coq. *)
From Coq Require Import List String Bool ZArith.
From Arrai Require Import Sys.Sandbox Sys.SandboxGen Gen.Stdlib Proofs.SandboxP.
Import ListNotations.
Open Scope string_scope.
Open Scope list_scope.

(* observable effects *)
Inductive oeff := OImp (f : string) | ONet | OCallFile.

Definition oeff_eqb (a b : oeff) : bool :=
  match a, b with
  | OImp x, OImp y => String.eqb x y
  | ONet, ONet | OCallFile, OCallFile => true
  | _, _ => false
  end.

Definition model_effs (l : list eff) : list oeff :=
  flat_map (fun e => match e with
                     | EffImportLocal n => [OImp n]
                     | EffImportRemote => [ONet]
                     | EffCall CFile => [OCallFile]
                     | _ => []
                     end) l.

Definition omem (e : oeff) (l : list oeff) : bool := existsb (oeff_eqb e) l.
Definition oseteq (a b : list oeff) : bool := forallb (fun e => omem e b) a && forallb (fun e => omem e a) b.
Definition cseteq (a b : list cls) : bool := subset a b && subset b a.

Record case18 := {
  c_id : Z;
  c_safe : bool;       (* true: EvalWithScope(ctx, "", src, SafeStdScope()); false: top-level //eval.evaluator(cfg).eval(src) *)
  c_cfg : expr;        (* the configuration expression (top-level mode) *)
  c_src : expr;        (* the sandboxed source *)
  c_rep : rep;         (* representation in which the source is handed to evaluator(cfg).eval (top-level mode) *)
  c_st : Z;            (* observed: 0 value, 1 error (or panic), 3 timeout *)
  c_cls : list cls;    (* observed classes reachable from the result *)
  c_eff : list oeff    (* observed effects *)
}.

Definition fuel : nat := 60.

Definition program (k : case18) : expr :=
  EApp (EDot (EApp (EDot (EDot EPkg "eval") "evaluator") (c_cfg k)) "eval") (EQuote (c_rep k) (c_src k)).

Definition run_case (q : quirks) (k : case18) : res * list eff :=
  if c_safe k then run_safe q gen_world fuel (c_src k) else run_top q gen_world fuel (program k).

Definition mobs := (Z * list cls * list oeff)%type.

Definition mobs_of (q : quirks) (k : case18) : mobs :=
  match run_case q k with
  | (Val v, l) => (0%Z, observe q gen_world fuel 3 v, model_effs l)
  | (Err, l) => (1%Z, [], model_effs l)
  | (Fuel, l) => (2%Z, [], model_effs l)
  end.

Definition mobs_eqb (a b : mobs) : bool :=
  match a, b with
  | (s1, c1, e1), (s2, c2, e2) => Z.eqb s1 s2 && cseteq c1 c2 && oseteq e1 e2
  end.

(* the authority handed to the sandbox of this case *)
Definition bound (k : case18) : list cls :=
  if c_safe k then gen_S
  else match run_top quirks_off gen_world fuel (c_cfg k) with
       | (Val cv, _) =>
           match parse_cfg cv with
           | Some (l, sc) => auth gen_S gen_F (lib_or_safe gen_world l) ++ auth gen_S gen_F sc
           | None => []
           end
       | _ => []
       end.

(* the property's oracle on the IMPLEMENTATION's observation: classes and file reads within the
   authority handed in; no import resolved, no network contacted *)
Definition oracle (k : case18) : bool :=
  (if Z.eqb (c_st k) 0 then subset (c_cls k) (bound k) else true) &&
  forallb (fun e => match e with OCallFile => mem CFile (bound k) | _ => false end) (c_eff k).

Definition b2z (b : bool) (n : Z) : Z := if b then n else 0%Z.

(* the model applied a library function whose effect the harness cannot see and whose argument
   typing is not modelled (everything but //os.file): the status is not comparable *)
Definition unobservable_call (q : quirks) (k : case18) : bool :=
  existsb (fun e => match e with EffCall CFile => false | EffCall _ => true | _ => false end)
          (snd (run_case q k)).

(* bit 1: implementation differs from the model under the committed quirks
   bit 2: guard false (model under committed quirks differs from the repaired model)
   bit 4: oracle fails on the implementation's observation
   bits 8/16/32/64: the result depends on quirk evalvalue / local import / remote import / macro
   bit 128: model ran out of fuel
   bit 256: status not comparable (unobservable library call in the model) *)
(* q with one quirk switched off: detects results that need several quirks together *)
Definition without (i : nat) (q : quirks) : quirks :=
  {| q_evalvalue_full_scope := if Nat.eqb i 0 then false else q_evalvalue_full_scope q;
     q_sandbox_local_import := if Nat.eqb i 1 then false else q_sandbox_local_import q;
     q_sandbox_remote_import := if Nat.eqb i 2 then false else q_sandbox_remote_import q;
     q_macro_full_scope := if Nat.eqb i 3 then false else q_macro_full_scope q |}.

(* the result depends on the ENABLED quirk i (DESIGN §4, K(x)): it alone changes the repaired result, or removing it from the
   committed set changes the current result *)
Definition enabled (i : nat) (q : quirks) : bool :=
  match i with
  | O => q_evalvalue_full_scope q
  | 1%nat => q_sandbox_local_import q
  | 2%nat => q_sandbox_remote_import q
  | _ => q_macro_full_scope q
  end.

Definition depends (qcur : quirks) (i : nat) (only : quirks) (k : case18) (mq moff : mobs) : bool :=
  enabled i qcur &&
  (negb (mobs_eqb (mobs_of only k) moff) || negb (mobs_eqb (mobs_of (without i qcur) k) mq)).

Definition classify (qcur : quirks) (k : case18) : Z :=
  let i : mobs := (c_st k, c_cls k, c_eff k) in
  let mq := mobs_of qcur k in
  let moff := mobs_of quirks_off k in
  (b2z (negb (mobs_eqb i mq)) 1 + b2z (negb (mobs_eqb mq moff)) 2 + b2z (negb (oracle k)) 4
   + b2z (depends qcur 0 only_evalvalue k mq moff) 8
   + b2z (depends qcur 1 only_local_import k mq moff) 16
   + b2z (depends qcur 2 only_remote_import k mq moff) 32
   + b2z (depends qcur 3 only_macro k mq moff) 64
   + b2z (match mq with (s, _, _) => Z.eqb s 2 end) 128
   + b2z (unobservable_call qcur k) 256)%Z.

Definition report (qcur : quirks) (l : list case18) : list (Z * Z) :=
  filter (fun p => negb (Z.eqb (snd p) 0)) (map (fun k => (c_id k, classify qcur k)) l).
