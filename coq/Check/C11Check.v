(* Correspondence support for C11: the model's verdict per protocol against
   what the race detector / result comparison / timeout observed. *)
From Coq Require Import List ZArith Bool.
Import ListNotations.
From Arrai Require Import Sys.Conc Proofs.ConcVerdictP.

Record case11 := {
  c_id : Z;
  c_proto : proto;
  c_q : Quirks;           (* q_cur: quirks of the open findings *)
  c_racy : bool;          (* the race detector reported a race at this protocol's site(s) *)
  c_serial : bool;        (* every goroutine's result equals the single-goroutine result *)
  c_hang : bool           (* some goroutine never returned *)
}.

(* 0 agree, property holds;  1 property fails where the theorem says it holds (VIOLATION);
   2 property holds but the model (with the open quirks) says broken: the finding no longer reproduces;
   3 fails, attributed to q_where_err_capture_race;  4 to q_importcache_error_no_broadcast;
   5 to q_join_attrs_append_alias *)
Definition classify (k : case11) : Z :=
  let q := c_q k in
  let p := c_proto k in
  let bad := c_racy k || negb (c_serial k) || c_hang k in
  if bad then
    if (c_racy k && negb (model_racy q p)) || (c_hang k && negb (model_deadlocks q p))
       || (negb (c_serial k) && negb (model_racy q p)) then 1%Z
    else match p with PWhereErr => 3%Z | PImportCache => 4%Z | PJoinAttrs => 5%Z | _ => 1%Z end
  else if model_bad q p then 2%Z else 0%Z.

Definition report (l : list case11) : list (Z * Z) :=
  map (fun k => (c_id k, classify k)) l.
