(* Correspondence for C10: the crash-aware model of the sequence representations (Rep/SeqSafe.v) is run
   on the (layout, operation, argument) triples the implementation was run on; outcome classes and
   result layouts are compared here, in Coq. Array items are integers. *)
From Arrai Require Import Rep.SeqSafe.
From Coq Require Import List ZArith Bool.
Import ListNotations.
Open Scope Z_scope.

(* make() is taken to fail above 2^32 cells; the generators ask for at most 2^17 or at least 2^50 *)
Definition MA : Z := 4294967296.

Notation repZ := (rep Z).
Notation argZ := (arg Z).

Inductive xop :=
| XWith (a : argZ) | XWithout (a : argZ) | XHas (a : argZ) | XCall (a : argZ) | XEnum | XOffset (a : argZ)
| XWhere (keep : list Z) (fail : option Z)
| XConcat (b : repZ).

(* what the implementation did *)
Inductive obs :=
| BRep (r : repZ)                  (* a value with this layout; ROut = some other Go type *)
| BBool (b : bool)
| BList (l : list Z)
| BEnum (l : list (Z * Z))
| BErr
| BPanic (code : Z)                (* 1 makeslice / out of memory, 2 superimposed items, 3 index, 4 slice bounds, 5 other *)
| BHang.

Record case10 := { k_id : Z; k_in : repZ; k_op : xop; k_obs : obs }.

Inductive mval := MRep (r : repZ) | MBool (b : bool) | MList (l : list Z) | MEnum (l : list (Z * Z)).

Definition lift {A} (f : A -> mval) (r : res A) : res mval := x <- r;; Val (f x).

Definition pred (keep : list Z) (fail : option Z) (at_ : Z) (_ : Z) : option bool :=
  match fail with
  | Some f => if f =? at_ then None else Some (existsb (Z.eqb at_) keep)
  | None => Some (existsb (Z.eqb at_) keep)
  end.

Definition model (r : repZ) (o : xop) : res mval :=
  match o with
  | XWith a => lift MRep (step MA Z Z.eqb r (OWith Z a))
  | XWithout a => lift MRep (step MA Z Z.eqb r (OWithout Z a))
  | XOffset a => lift MRep (step MA Z Z.eqb r (OOffset Z a))
  | XWhere keep fail => lift MRep (step MA Z Z.eqb r (OWhere Z (pred keep fail) (pred keep fail)))
  | XConcat b => lift MRep (seq_concat MA Z r b)
  | XHas a => match r with
              | RArr _ x => lift MBool (arr_has Z Z.eqb x a)
              | RStr s => lift MBool (str_has Z s a)
              | RByt b => lift MBool (byt_has Z b a)
              | _ => Val (MBool false)
              end
  | XCall a => match r with
               | RArr _ x => lift MList (arr_call Z x a)
               | RStr s => lift MList (str_call Z s a)
               | RByt b => lift MList (byt_call Z b a)
               | _ => Val (MList [])
               end
  | XEnum => match r with
             | RArr _ x => lift MEnum (arr_enum Z x)
             | RStr s => lift MEnum (str_enum s)
             | RByt b => lift MEnum (byt_enum b)
             | _ => Val (MEnum [])
             end
  end.

Fixpoint zl_eq (a b : list Z) : bool :=
  match a, b with [] , [] => true | x :: a', y :: b' => Z.eqb x y && zl_eq a' b' | _, _ => false end.
Definition oz_eq (a b : option Z) : bool :=
  match a, b with None, None => true | Some x, Some y => Z.eqb x y | _, _ => false end.
Fixpoint ozl_eq (a b : list (option Z)) : bool :=
  match a, b with [] , [] => true | x :: a', y :: b' => oz_eq x y && ozl_eq a' b' | _, _ => false end.
(* an index read back through float64: exact below 2^53, within one ulp (2048) above *)
Definition at_close (a b : Z) : bool :=
  if Z.abs a <? 9007199254740992 then a =? b else Z.abs (a - b) <=? 2048.
Fixpoint enum_eq (a b : list (Z * Z)) : bool :=
  match a, b with
  | [], [] => true
  | (i, x) :: a', (j, y) :: b' => at_close i j && Z.eqb x y && enum_eq a' b'
  | _, _ => false
  end.

Definition rep_eq (a b : repZ) : bool :=
  match a, b with
  | RNone, RNone => true
  | ROut, ROut => true
  | RArr _ x, RArr _ y => ozl_eq (avals Z x) (avals Z y) && (aoff Z x =? aoff Z y) && (acnt Z x =? acnt Z y)
  | RStr x, RStr y => zl_eq (srunes x) (srunes y) && (soff x =? soff y) && (sholes x =? sholes y)
  | RByt x, RByt y => zl_eq (bbytes x) (bbytes y) && (boff x =? boff y)
  | _, _ => false
  end.

Definition site_code (s : site) : Z :=
  match s with SMakeslice => 1 | SSuperimposed => 2 | SIndex => 3 | SSlice => 4 | SNilItem => 5 end.

Definition agree (m : res mval) (o : obs) : bool :=
  match m, o with
  | Val (MRep a), BRep b => rep_eq a b
  | Val (MBool a), BBool b => Bool.eqb a b
  | Val (MList a), BList b => zl_eq a b
  | Val (MEnum a), BEnum b => enum_eq a b
  | ErrOrd, BErr => true
  | Panic s, BPanic c => site_code s =? c
  | Hang, BHang => true
  | _, _ => false
  end.

(* the representation invariant, decided *)
Definition hdb (l : list (option Z)) : bool := match l with Some _ :: _ => true | _ => false end.
Definition hdz (l : list Z) : bool := match l with c :: _ => 0 <=? c | [] => false end.
Definition invb (r : repZ) : bool :=
  match r with
  | RArr _ a => hdb (avals Z a) && hdb (rev (avals Z a)) && (acnt Z a =? count_some Z (avals Z a))
  | RStr s => hdz (srunes s) && hdz (rev (srunes s)) && (sholes s =? count_neg (srunes s))
  | RByt b => negb (len (bbytes b) =? 0)
  | _ => true
  end.

(* 0 = the model and the implementation agree on a value / an ordinary error, and an invariant-respecting
       operand gave an invariant-respecting result;
   1 = they differ;
   10 / 11 = both crash with makeslice (the dense-storage finding) / with the explicit superimposed-items panic;
   12 = both crash and the OPERAND records fewer holes than it has hole cells (a hole marker counted as a member);
   16 = both crash and the index range of an operand crosses the int64 limit;
   13 = both crash on an operand that satisfies the invariant, outside the recorded regions (the theorems exclude it);
   14 = agreement, but the implementation's result violates the representation invariant although the operand did not
        (the negative-rune region when the operation carries one: 15) *)
(* the trace a negative rune leaves: a hole marker that was counted as a member (asString), so fewer holes are
   recorded than there are hole cells *)
Definition hole_as_member (r : repZ) : bool :=
  match r with RStr s => sholes s <? count_neg (srunes s) | _ => false end.
(* the index range of the operand crosses the int64 limit (an offset expression put it there) *)
Definition range_wraps (r : repZ) : bool :=
  match r with
  | RArr _ a => max_int <? aoff Z a + len (avals Z a) - 1
  | RStr s => max_int <? soff s + len (srunes s) - 1
  | RByt b => max_int <? boff b + len (bbytes b) - 1
  | _ => false
  end.
Definition xop_neg_char (o : xop) : bool :=
  match o with XWith a | XWithout a => neg_char Z a | _ => false end.
Definition classify10 (k : case10) : Z :=
  let m := model (k_in k) (k_op k) in
  if agree m (k_obs k) then
    match m with
    | Panic SMakeslice => 10
    | Panic SSuperimposed => 11
    | Panic _ | Hang => if hole_as_member (k_in k) then 12
                        else if range_wraps (k_in k) || match k_op k with XConcat b => range_wraps b | _ => false end then 16
                        else 13
    | Val (MRep r) => if invb r || negb (invb (k_in k)) then 0 else if xop_neg_char (k_op k) then 15 else 14
    | _ => 0
    end
  else 1.
Definition report10 (l : list case10) : list (Z * Z) :=
  filter (fun p => negb (Z.eqb (snd p) 0)) (map (fun k => (k_id k, classify10 k)) l).
