(* Correspondence support for C13: compares the implementation's observed
   results with the models of Sys/{Json,Bits,Wire,Csv}.v, inside Coq. *)
From Coq Require Import NArith.
From Arrai Require Import Base.Val Sys.Outcome Sys.Json Sys.Bits Sys.Wire Sys.Csv Sys.Codec.

(* ---------- denotation of a representation as a mathematical value ---------- *)
Fixpoint den (r : rv) : val :=
  match r with
  | RNum n => VNum n
  | RTup attrs => VTup (map (fun kv => (fst kv, den (snd kv))) attrs)
  | REmpty => VSet []
  | RTrue => VSet [VTup []]
  | RStr off s =>
      VSet ((fix go (i : Z) (l : list Z) : list val :=
               match l with
               | [] => []
               | c :: l' => if c <? 0 then go (i + 1) l' else vpair n_char (vint i) (vint c) :: go (i + 1) l'
               end) off s)
  | RBytes off b =>
      VSet ((fix go (i : Z) (l : list Z) : list val :=
               match l with
               | [] => []
               | c :: l' => vpair n_byte (vint i) (vint c) :: go (i + 1) l'
               end) off b)
  | RArr off items =>
      VSet ((fix go (i : Z) (l : list (option rv)) : list val :=
               match l with
               | [] => []
               | None :: l' => go (i + 1) l'
               | Some x :: l' => vpair n_item (vint i) (den x) :: go (i + 1) l'
               end) off items)
  | RDict _ es => VSet (map (fun kv => vpair n_value (den (fst kv)) (den (snd kv))) es)
  | RSet _ elems => VSet (map den elems)
  | RFn => VTup [([102], VSet [])]
  end.

Definition val_same (a b : val) : bool := veqb (norm a) (norm b).

Fixpoint json_eqb (a b : json) {struct a} : bool :=
  match a, b with
  | JNull, JNull => true
  | JBool x, JBool y => Bool.eqb x y
  | JNum x, JNum y => match num_cmp x y with Eq => true | _ => false end
  | JStr x, JStr y => name_eqb x y
  | JArr x, JArr y =>
      (fix go (x y : list json) : bool :=
         match x, y with
         | [], [] => true
         | p :: x', q :: y' => json_eqb p q && go x' y'
         | _, _ => false
         end) x y
  | JObj x, JObj y =>
      (fix go (x : list (str * json)) (y : list (str * json)) : bool :=
         match x, y with
         | [], [] => true
         | (k, p) :: x', (k', q) :: y' => name_eqb k k' && json_eqb p q && go x' y'
         | _, _ => false
         end) x y
  | _, _ => false
  end.

Inductive ojson := OJ (j : json) | OJErr | OJPanic.
Inductive oval := OV (v : val) | OVErr | OVPanic.
Inductive obytes := OB (b : list Z) | OBErr | OBPanic.
(* a decoded CSV matrix, cell by cell as UTF-8 bytes (any Unicode content) *)
Inductive omat := OM (m : list record) | OMErr | OMPanic.

Fixpoint rec_eqb (x y : record) : bool :=
  match x, y with
  | [], [] => true
  | f :: x', g :: y' => zs_eqb f g && rec_eqb x' y'
  | _, _ => false
  end.
Fixpoint recs_eqb (a b : list record) : bool :=
  match a, b with
  | [], [] => true
  | x :: a', y :: b' => rec_eqb x y && recs_eqb a' b'
  | _, _ => false
  end.
Definition agree_mat (m : res (list record)) (o : omat) : bool :=
  match m, o with
  | Ok a, OM b => recs_eqb a b
  | Err, OMErr => true
  | Panic, OMPanic => true
  | _, _ => false
  end.

Definition agree_json (m : res json) (o : ojson) : bool :=
  match m, o with
  | Ok a, OJ b => json_eqb a b
  | Err, OJErr => true
  | Panic, OJPanic => true
  | _, _ => false
  end.
Definition agree_val (m : res val) (o : oval) : bool :=
  match m, o with
  | Ok a, OV b => val_same a b
  | Err, OVErr => true
  | Panic, OVPanic => true
  | _, _ => false
  end.
Definition res_json_eqb (a b : res json) : bool :=
  match a, b with
  | Ok x, Ok y => json_eqb x y
  | Err, Err | Panic, Panic | OutOfModel, OutOfModel => true
  | _, _ => false
  end.
Definition res_val_eqb (a b : res val) : bool :=
  match a, b with
  | Ok x, Ok y => val_same x y
  | Err, Err | Panic, Panic | OutOfModel, OutOfModel => true
  | _, _ => false
  end.
Definition out_of_model {A} (r : res A) : bool := match r with OutOfModel => true | _ => false end.

(* ---------- cases ---------- *)
Inductive case13 :=
| KDec (strict : bool) (j : json) (o : oval)               (* decode a document *)
| KEnc (strict : bool) (r : rv) (o : ojson)                (* encode a value *)
| KRound (strict : bool) (j : json) (o : oval)             (* decode (encode (decode d)) *)
| KBitsSet (n : num) (o : oval)
| KBitsMask (v : val) (o : oval)
| KWire (r : rv) (o : oval)                                (* marshal then unmarshal *)
| KWireDec (j : json) (o : oval)                           (* unmarshal a foreign document *)
| KCsv (m : list record) (enc : obytes) (dec : omat)       (* encode; decode (encode m) *)
| KCsvDec (inp : list Z) (o : omat).                       (* decode arbitrary bytes *)

(* the committed quirk set: flags of open findings on, of fixed findings off
   (derived from known_findings.txt by gen/c13.py) *)
Record cfg := { c_j : jquirks; c_b : bquirks; c_w : wquirks; c_csv_empty : bool }.

Definition jq_set (q : jquirks) (k : Z) (b : bool) : jquirks :=
  {| q_json_strict_set_to_object := if k =? 11 then b else q_json_strict_set_to_object q;
     q_json_offsets_holes_dropped := if k =? 12 then b else q_json_offsets_holes_dropped q;
     q_json_multi_dict_panic := if k =? 13 then b else q_json_multi_dict_panic q;
     q_json_key_unchecked := if k =? 14 then b else q_json_key_unchecked q;
     q_json_b_unchecked := if k =? 15 then b else q_json_b_unchecked q;
     q_json_a_set_as_array := if k =? 16 then b else q_json_a_set_as_array q |}.

Definition jq1 (k : Z) : jquirks :=
  {| q_json_strict_set_to_object := k =? 11; q_json_offsets_holes_dropped := k =? 12;
     q_json_multi_dict_panic := k =? 13; q_json_key_unchecked := k =? 14;
     q_json_b_unchecked := k =? 15; q_json_a_set_as_array := k =? 16 |}.

(* first known-defective site the result depends on: an enabled site whose
   repair alone changes today's result, else a site that alone changes the
   repaired result *)
Definition jattr (cur : jquirks) (f : jquirks -> res json) : Z :=
  let off := f jquirks_off in
  match filter (fun k => negb (res_json_eqb (f (jq_set cur k false)) (f cur))) [11; 12; 13; 14; 15; 16] with
  | k :: _ => k
  | [] =>
      match filter (fun k => negb (res_json_eqb (f (jq1 k)) off)) [11; 12; 13; 14; 15; 16] with
      | k :: _ => k
      | [] => 10
      end
  end.

Definition csv_sig (m : list record) : Z :=
  if negb (forallb (fun r => forallb (fun f => negb (has_crlf f)) r) m) then 43
  else if existsb (fun r => match r with [] | [[]] => true | _ => false end) m then 41
  else 42.

(* 0 agrees and the property holds; 1 violation; 2 differs from the bug-compatible model
   inside a defect region (noted); 10 + k: known defect k reproduced; 3: outside the model (skipped) *)
Definition classify (g : cfg) (c : case13) : Z :=
  match c with
  | KDec strict j o =>
      if agree_val (Ok (den (to_arrai strict j))) o then 0 else 1
  | KEnc strict r o =>
      let f := fun q => from_arrai q strict r in
      let cur := f (c_j g) in
      if out_of_model cur then 3
      else if res_json_eqb cur (f jquirks_off)
      then (if agree_json cur o then 0 else 1)
      else (if agree_json cur o then jattr (c_j g) f else 2)
  | KRound strict j o =>
      let d := to_arrai strict j in
      let f := fun q => rmap (fun j' => den (to_arrai strict j')) (from_arrai q strict d) in
      let cur := f (c_j g) in
      let want : res val := Ok (den d) in
      if agree_val want o then (if res_val_eqb cur want then 0 else 2)
      else if res_val_eqb cur want then 1            (* the theorem says it holds here *)
      else if agree_val cur o
           then (if res_val_eqb (f jquirks_off) want then jattr (c_j g) (fun q => from_arrai q strict d) else 17)
           else 2
  | KBitsSet n o =>
      let cur := rmap (fun l => nset l) (bits_set (c_b g) n) in
      let off := rmap (fun l => nset l) (bits_set bquirks_off n) in
      if out_of_model cur then 3
      else if res_val_eqb cur off then (if agree_val cur o then 0 else 1)
      else (if agree_val cur o then 21 else 2)
  | KBitsMask v o =>
      let cur := rmap VNum (bits_mask (c_b g) v) in
      let off := rmap VNum (bits_mask bquirks_off v) in
      if out_of_model cur then 3
      else if res_val_eqb cur off then (if agree_val cur o then 0 else 1)
      else (if agree_val cur o then 22 else 2)
  | KWire r o =>
      let cur := rmap den (bind (wire_escape (c_w g) r) (wire_unescape (c_w g))) in
      if out_of_model cur then 3
      else if wire_safe r then (if agree_val (Ok (den r)) o then 0 else 1)
      else if agree_val cur o
           then (if res_val_eqb cur (Ok (den r)) then 0       (* came back equal after all *)
                 else match cur with
                      | Ok _ => if is_ok (wire_escape {| q_wire_sets_become_arrays := true; q_wire_offsets_holes_lost := false; q_wire_null_panics := false |} r)
                                then 31 else 32
                      | _ => 0                                 (* rejected with an error: allowed *)
                      end)
           else 2
  | KWireDec j o =>
      let cur := rmap den (wire_unescape (c_w g) j) in
      let off := rmap den (wire_unescape wquirks_off j) in
      if res_val_eqb cur off then (if agree_val cur o then 0 else 1)
      else (if agree_val cur o then 33 else 2)
  | KCsv m enc dec =>
      let e := csv_encode m in
      let d := csv_decode_arg (c_csv_empty g) e in
      let enc_ok := match enc with OB b => zs_eqb b e | _ => false end in
      let back := agree_mat (Ok m) dec in
      if match e with [] => c_csv_empty g | _ => false end
      then (if enc_ok && agree_mat d dec then 44 else if back then 2 else 1)   (* empty input rejected *)
      else if csv_ok m then (if enc_ok && back && agree_mat d dec then 0 else 1)
      else if back then 2                                      (* better than the model predicts *)
      else if enc_ok && agree_mat d dec then csv_sig m else 2
  | KCsvDec inp o =>
      let d := csv_decode_arg (c_csv_empty g) inp in
      if out_of_model d then 3 else if agree_mat d o then 0 else 1
  end.

Record kcase := { k_id : Z; k_case : case13 }.
Definition report (g : cfg) (l : list kcase) : list (Z * Z) :=
  filter (fun p => negb (Z.eqb (snd p) 0)) (map (fun k => (k_id k, classify g (k_case k))) l).

(* ---------- histories of one configured JSON / YAML encoder ----------
   The model results of the whole history are computed by Codec.history (under
   today's quirks and repaired); the observed result at each position is
   compared with the model result at that position.  Positions that depend on a
   known-defective site fall back to the single-call classification. *)
Record hcase := { h_id : Z; h_strict : bool; h_steps : list (rv * ojson) }.

Fixpoint hist_codes (g : cfg) (strict : bool) (steps : list (rv * ojson)) (cur off : list (res json)) : list Z :=
  match steps, cur, off with
  | (r, o) :: steps', c :: cur', f :: off' =>
      (if negb (out_of_model c) && res_json_eqb c f
       then (if agree_json c o then 0 else 1)
       else classify g (KEnc strict r o)) :: hist_codes g strict steps' cur' off'
  | [], [], [] => []
  | _, _, _ => [1]                                  (* the model history lost or gained a result *)
  end.

Definition classify_hist (g : cfg) (h : hcase) : Z :=
  let rs := map fst (h_steps h) in
  let cur := history json_encoder {| jc_quirks := c_j g; jc_strict := h_strict h |} rs in
  let off := history json_encoder {| jc_quirks := jquirks_off; jc_strict := h_strict h |} rs in
  match filter (fun z => negb (Z.eqb z 0) && negb (Z.eqb z 3)) (hist_codes g (h_strict h) (h_steps h) cur off) with
  | z :: _ => z
  | [] => 0
  end.

Definition report_hist (g : cfg) (l : list hcase) : list (Z * Z) :=
  filter (fun p => negb (Z.eqb (snd p) 0)) (map (fun h => (h_id h, classify_hist g h)) l).
