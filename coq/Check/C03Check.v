(* Correspondence for C03: the heap model's values vs the implementation's, per history. *)
From Arrai Require Import Base.Val Sys.Heap.

Record case03 := { h_id : Z; h_hist : list op; h_obs : list (Z * list Z) }.

Fixpoint zl_eq (a b : list Z) : bool :=
  match a, b with [], [] => true | x :: a', y :: b' => Z.eqb x y && zl_eq a' b' | _, _ => false end.
Definition den_eq (a b : Z * list Z) : bool :=
  match snd a, snd b with
  | [], [] => true                      (* the empty set has no offset *)
  | _, _ => Z.eqb (fst a) (fst b) && zl_eq (snd a) (snd b)
  end.
Fixpoint dens_eq (a b : list (Z * list Z)) : bool :=
  match a, b with [], [] => true | x :: a', y :: b' => den_eq x y && dens_eq a' b' | _, _ => false end.

Definition classify03 (k : case03) : Z :=
  if dens_eq (dens (run false (h_hist k))) (h_obs k) then 0 else 1.
Definition report03 (l : list case03) : list (Z * Z) :=
  filter (fun p => negb (Z.eqb (snd p) 0)) (map (fun k => (h_id k, classify03 k)) l).
