(* Correspondence for C04, positional join engine: the transcription (Rep/RelJoin.v) is run on the
   stored layouts the harness read off the implementation's operands, and its result is compared
   with what the implementation returned for those very operands. *)
From Arrai Require Import Base.Val Spec.SetAlg Eval.Interp Rep.RelJoin Rep.GenJoin Check.EvalCheck.

Record jcase := {
  j_id : Z; j_op : joinop; j_a : relation; j_b : relation;
  j_cls : nat;                 (* 0 EmptySet, 1 TrueSet, 2 Relation, 3 another representation *)
  j_attrs : list name;         (* stored heading of a Relation result *)
  j_p : vproj;                 (* its projector *)
  j_count : nat;               (* Count() *)
  j_val : val                  (* members as enumerated *)
}.

Fixpoint names_eqb (a b : list name) : bool :=
  match a, b with
  | [], [] => true
  | x :: a', y :: b' => name_eqb x y && names_eqb a' b'
  | _, _ => false
  end.

Definition den_count (s : jset) : nat :=
  match s with JSEmpty => 0 | JSTrue => 1 | JSSugar l => length (vsort l) | JSRel r => length (r_rows r) end.

(* 0 agree
   1 the implementation's result is not the relational definition applied to the operands (property)
   2 an operand breaks the representation invariant the theorems assume
   3 the transcription panics where the implementation answers
   4 the transcription's denotation differs from the implementation's
   5 result representation class differs
   6 stored heading / projector of a Relation result differs
   7 Count() differs *)
Definition classify04_raw (k : jcase) : Z :=
  let a := j_a k in let b := j_b k in
  if negb (wf_relb a && wf_relb b) then 2%Z
  else
    let obs := norm (j_val k) in
    match join_data (j_op k) (abs a) (abs b) with
    | Ok spec =>
        if negb (veqb spec obs) then 1%Z
        else match join_rel (j_op k) a b with
             | JPanic _ => 3%Z
             | JOk s =>
                 if negb (veqb (den s) obs) then 4%Z
                 else if negb (Nat.eqb (jset_class s) (j_cls k)) then 5%Z
                 else if negb (names_eqb (jset_attrs s) (j_attrs k) && proj_eqb (jset_p s) (j_p k)) then 6%Z
                 else if negb (Nat.eqb (den_count s) (j_count k)) then 7%Z
                 else 0%Z
             end
    | _ => 1%Z
    end.

(* a disagreement on a result that holds two different items at one index of an array / string / byte
   array (no representation exists: open finding KF-C04-01, signature seq-collision) is reported as 100 + code *)
Definition classify04 (k : jcase) : Z :=
  let c := classify04_raw k in
  if Z.eqb c 0 then 0%Z
  else match join_data (j_op k) (abs (j_a k)) (abs (j_b k)) with
       | Ok spec => if has_collision spec then (100 + c)%Z else c
       | _ => c
       end.

Definition report04 (l : list jcase) : list (Z * Z) :=
  filter (fun p => negb (Z.eqb (snd p) 0)) (map (fun k => (j_id k, classify04 k)) l).

(* which strategy of positionalRelation.Join the case reached (coverage): the mode bits, or 9 on a panic *)
Definition mode04 (k : jcase) : Z :=
  let a := j_a k in let b := j_b k in
  let common := ns_intersect (r_attrs a) (r_attrs b) in
  let (lo, ro) := partitionNames (j_op k) (r_attrs a) (r_attrs b) common in
  match getIndices (r_attrs a) common, getIndices (r_attrs b) common,
        getIndices (r_attrs a) lo, getIndices (r_attrs b) ro with
  | Some lki, Some rki, Some loi, Some roi =>
      match createMode (compose (r_p a) lki) (compose (r_p b) rki) (compose (r_p a) loi) (compose (r_p b) roi) with
      | JOk m => Z.of_nat m
      | JPanic _ => 9%Z
      end
  | _, _, _, _ => 9%Z
  end.
Definition modes04 (l : list jcase) : list (Z * Z) := map (fun k => (j_id k, mode04 k)) l.

(* ---------- the generic engine (Rep/GenJoin.v) on operands that are not both Relations ---------- *)

Record gcase := { g_id : Z; g_op : joinop; g_a : val; g_b : val; g_obs : option val (* None: the implementation returned an error *) }.

(* 0 agree; 1 the implementation's answer is not the specification join of the operands (property);
   3 the transcription would hand a nil tuple to the set builder; 4 transcription and implementation differ *)
Definition classifyG_raw (k : gcase) : Z :=
  match norm (g_a k), norm (g_b k) with
  | VSet la, VSet lb =>
      let spec := join_data (g_op k) la lb in
      let same := fun (r : res val) => match r, g_obs k with
                                       | Ok v, Some o => veqb v (norm o)
                                       | Err, None => true
                                       | _, _ => false
                                       end in
      if negb (same spec) then 1%Z
      else match generic_join (g_op k) la lb with
           | None => 3%Z
           | Some r => if same r then 0%Z else 4%Z
           end
  | _, _ => 0%Z
  end.
Definition classifyG (k : gcase) : Z :=
  let c := classifyG_raw k in
  if Z.eqb c 0 then 0%Z
  else match norm (g_a k), norm (g_b k) with
       | VSet la, VSet lb => match join_data (g_op k) la lb with
                             | Ok spec => if has_collision spec || has_collision (g_a k) || has_collision (g_b k) then (100 + c)%Z else c
                             | _ => c
                             end
       | _, _ => c
       end.
Definition reportG (l : list gcase) : list (Z * Z) :=
  filter (fun p => negb (Z.eqb (snd p) 0)) (map (fun k => (g_id k, classifyG k)) l).
