(* Correspondence check for the transcribed dictionary representation (Rep/DictRep.v): API histories run on
   the implementation (vharness dictrep) are replayed on the model inside Coq and compared step by step. *)
From Arrai Require Import Base.Val Spec.SetAlg Eval.Interp Rep.DictRep.

Inductive dpred := PAll | PNone | PKeyNe (c : val) | PValNe (c : val) | PValEq (c : val).
Definition pred_fun (p : dpred) (m : val) : bool :=
  match as_entry m with
  | Some (k, x) =>
      match p with
      | PAll => true | PNone => false
      | PKeyNe c => negb (veqb k c) | PValNe c => negb (veqb x c) | PValEq c => veqb x c
      end
  | None => false
  end.

Inductive hop :=
| HNew (allow : bool) (es : list (val * val))
| HWith (r : nat) (v : val)
| HWithout (r : nat) (v : val)
| HWhere (r : nat) (p : dpred)
| HHas (r : nat) (v : val)
| HCount (r : nat)
| HCall (r : nat) (k : val)
| HEqual (a b : nat).

(* what the implementation showed at a step *)
Inductive hobs :=
| ODict (layout : list (val * bool * list val)) (members : list val) (count : Z)   (* rel.Dict: per key, several?, values *)
| OEmpty                                                                          (* the empty set *)
| OOther (members : list val) (count : Z)                                         (* some other set representation *)
| OErrV                                                                           (* error *)
| OBool (b : bool) | ONum (n : Z) | OVals (vs : list val)
| OSkip.                                                                          (* operand register not a Dict: not run *)

Definition layout_val (d : dict) : val :=
  mkset (map (fun p => VTup [([107], fst p); ([109], vbool (match snd p with Multi _ => true | One _ => false end));
                             ([118], mkset (match snd p with One v => [v] | Multi vs => vs end))]) d).
Definition obs_layout_val (l : list (val * bool * list val)) : val :=
  mkset (map (fun p => VTup [([107], fst (fst p)); ([109], vbool (snd (fst p))); ([118], mkset (snd p))]) l).

Definition nodup_list (l : list val) : bool := Nat.eqb (length (vsort l)) (length l).

(* codes: 0 agree; 1 the implementation's result is not the mathematical one (members / count / answer):
   a failing input of the property; 2 only the representation differs from the model (correspondence) *)
Definition math_ok (ms : list val) (c : Z) (want : list val) : bool :=
  veqb (mkset ms) (mkset want) && nodup_list ms && Z.eqb c (Z.of_nat (length (vsort want))).
Definition obs_members (o : hobs) : option (list val * Z) :=
  match o with ODict _ ms c => Some (ms, c) | OOther ms c => Some (ms, c) | OEmpty => Some ([], 0) | _ => None end.
Definition res_members_c (r : dres) : option (list val) :=
  match r with RDict d => Some (dict_enum d) | RNone => Some [] | RNotDict ms => Some ms | RErr => None end.
Definition same_shape (r : dres) (o : hobs) : bool :=
  match r, o with
  | RDict d, ODict l _ _ => veqb (layout_val d) (obs_layout_val l)
  | RNone, OEmpty => true
  | RNotDict _, OOther _ _ => true
  | RErr, OErrV => true
  | _, _ => false
  end.
Definition cmp_value (r : dres) (o : hobs) : Z :=
  match res_members_c r, obs_members o with
  | Some want, Some (ms, c) => if math_ok ms c want then (if same_shape r o then 0 else 2) else 1
  | _, _ => if same_shape r o then 0 else 2
  end.

Definition reg_dict (regs : list dres) (r : nat) : option dict :=
  match nth_error regs r with Some (RDict d) => Some d | _ => None end.

(* one step: the new register file and the code of the step *)
Definition hstep (regs : list dres) (so : hop * hobs) : list dres * Z :=
  let (op, o) := so in
  match op with
  | HNew allow es => let r := new_dict allow es in (regs ++ [r], cmp_value r o)
  | HWith i v =>
      match reg_dict regs i with
      | Some d => let r := dict_with d v in (regs ++ [r], cmp_value r o)
      | None => (regs ++ [RErr], match o with OSkip => 0 | _ => 2 end)
      end
  | HWithout i v =>
      match reg_dict regs i with
      | Some d => let r := dict_without d v in (regs ++ [r], cmp_value r o)
      | None => (regs ++ [RErr], match o with OSkip => 0 | _ => 2 end)
      end
  | HWhere i p =>
      match reg_dict regs i with
      | Some d => let r := dict_where (pred_fun p) d in (regs ++ [r], cmp_value r o)
      | None => (regs ++ [RErr], match o with OSkip => 0 | _ => 2 end)
      end
  | HHas i v =>
      (regs ++ [RErr],
       match reg_dict regs i, o with
       | Some d, OBool b => if Bool.eqb b (vmem v (dict_enum d)) then (if Bool.eqb b (dict_has d v) then 0 else 2) else 1
       | None, OSkip => 0
       | _, _ => 2
       end)
  | HCount i =>
      (regs ++ [RErr],
       match reg_dict regs i, o with
       | Some d, ONum n => if Z.eqb n (Z.of_nat (length (vsort (dict_enum d)))) then (if Z.eqb n (Z.of_nat (dict_count d)) then 0 else 2) else 1
       | None, OSkip => 0
       | _, _ => 2
       end)
  | HCall i k =>
      (regs ++ [RErr],
       match reg_dict regs i, o with
       | Some d, OVals vs =>
           let want := mkset (fold_right (fun m acc => match as_entry m with
                                                      | Some (k', x) => if veqb k' k then x :: acc else acc
                                                      | None => acc end) [] (dict_enum d)) in
           if veqb (mkset vs) want && nodup_list vs then (if veqb (mkset (dict_call_all d k)) want then 0 else 2) else 1
       | None, OSkip => 0
       | _, _ => 2
       end)
  | HEqual a b =>
      (regs ++ [RErr],
       match reg_dict regs a, reg_dict regs b, o with
       | Some d, Some d2, OBool r =>
           if Bool.eqb r (veqb (mkset (dict_enum d)) (mkset (dict_enum d2))) then (if Bool.eqb r (dict_equal d d2) then 0 else 2) else 1
       | _, _, OSkip => 0
       | _, _, _ => 2
       end)
  end.

Definition reg_ok (r : dres) : bool :=
  match r with RDict d => dict_ok d && negb (match d with [] => true | _ => false end) | _ => true end.

(* the first step that differs: (step number from 1, code); (0, 0) when the whole history agrees.  Code 9: a Dict the
   MODEL builds violates the representation invariant (it cannot: Proofs/DictRepP.v) *)
Fixpoint hrun (regs : list dres) (n : Z) (h : list (hop * hobs)) : Z * Z :=
  match h with
  | [] => (0, 0)
  | so :: h' => let (regs', c) := hstep regs so in
                if negb (Z.eqb c 0) then (n, c)
                else if negb (reg_ok (last regs' RNone)) then (n, 9)
                else hrun regs' (n + 1) h'
  end.

Record hcase := { h_id : Z; h_hist : list (hop * hobs) }.
Definition hreport (l : list hcase) : list (Z * Z) :=
  filter (fun p => negb (Z.eqb (snd p) 0))
         (map (fun c => let (n, code) := hrun [] 1 (h_hist c) in
                        (h_id c, if Z.eqb code 0 then 0 else if Z.eqb code 9 then 999 else code * 100 + n)) l).
