(* Correspondence for C05 at the representation level: the transcribed lookup code (Rep/CallRep.v) is
   evaluated on the layout the implementation holds (read by the harness: Go type, offset, cells, hole and
   count fields, dict slots, stored column order, buckets) and compared with what SetCall / CallAll / the
   source forms c(k), c(k)?:d / n\s / a++b did.  Verdict codes: 0 = agree; 1-9 = the property's own oracle
   (the specification function on the denotation observed through the public API) fails; 11-29 = the
   implementation differs from the transcription; +100 = inside the region of KF-C05-04 (call),
   +200 = seq-collision, +400 = bytes-gap (concat). *)
From Arrai Require Import Base.Val Spec.SetAlg Eval.Interp Rep.CallRep.

Definition set_eq (a b : list val) : bool := s_eq a b.

Fixpoint list_eqb {A} (eq : A -> A -> bool) (a b : list A) : bool :=
  match a, b with [], [] => true | x :: a', y :: b' => eq x y && list_eqb eq a' b' | _, _ => false end.
Definition oval_eqb (a b : option val) : bool :=
  match a, b with Some x, Some y => veqb x y | None, None => true | _, _ => false end.

(* exact equality of sequence layouts (the only ones the offset / concat models build) *)
Definition rep_eqb (a b : rep) : bool :=
  match a, b with
  | REmpty, REmpty => true
  | RStr o c h, RStr o' c' h' => (o =? o') && list_eqb Z.eqb c c' && (h =? h')
  | RBytes o c, RBytes o' c' => (o =? o') && list_eqb Z.eqb c c'
  | RArr o c n, RArr o' c' n' => (o =? o') && list_eqb oval_eqb c c' && (n =? n')
  | _, _ => false
  end.

(* the layout denotes what the public enumeration shows, with the same Count() *)
Definition den_ok (r : rep) (den : list val) (count : Z) : bool :=
  set_eq (abs r) den && (rep_count r =? count) && (Z.of_nat (length den) =? count).

(* ---------- call ---------- *)

Inductive cobs := CVal (v : val) | CNoRet | CErrO | CPanicO | CBad.     (* rel.SetCall through the API *)
Inductive sobs := SOVal (v : val) | SOErr | SOBad.                      (* a source form through EvaluateExpr *)
Inductive candobs := KSet (l : list val) | KErr | KBad.                 (* CallAll into a fresh builder, finished *)

Record ccase := { cc_id : Z; cc_rep : rep; cc_den : list val; cc_count : Z; cc_key : val;
                  cc_setcall : cobs; cc_cands : candobs; cc_call : sobs; cc_safe : sobs; cc_fb : val }.

Definition has_sugar (vs : list val) : bool :=
  existsb (fun v => match sugar_slot v with Some _ => true | None => false end) vs.

Definition classify_call (c : ccase) : Z :=
  let r := cc_rep c in let k := cc_key c in
  let region := if result_collision r k then 100 else 0 in
  let spec := call_data (cc_den c) k in
  let base :=
    (* the property: the unique value / no value / several, on the denotation seen through the public API *)
    if negb (match spec, cc_setcall c with
             | CROne v, CVal w => veqb v w | CRNone, CNoRet => true | CRMany, CErrO => true
             | CRNotKeyed, _ => true | _, _ => false end) then 1
    else if negb (match spec, cc_call c with
                  | CROne v, SOVal w => veqb v w | (CRNone | CRMany), SOErr => true
                  | CRNotKeyed, _ => true | _, _ => false end) then 2
    else if negb (match spec, cc_safe c with
                  | CROne v, SOVal w => veqb v w | CRNone, SOVal w => veqb (cc_fb c) w | CRMany, SOErr => true
                  | CRNotKeyed, _ => true | _, _ => false end) then 3
    (* the transcription *)
    else if negb (wfb r) then 11
    else if negb (den_ok r (cc_den c) (cc_count c)) then 12
    else if negb (match rep_setcall true r k, cc_setcall c with
                  | OOne v, CVal w => veqb v w | ONoReturn, CNoRet => true
                  | (OTooMany | ONotKeyed), CErrO => true | OPanic, CPanicO => true | _, _ => false end) then 13
    else if negb (match rep_callall r k, cc_cands c with
                  | COk vs, KSet l => has_sugar vs || set_eq (results true vs) l
                  | CNotKeyed, KErr => true | CPanic, KBad => true | _, _ => false end) then 14
    else if negb (match rep_setcall true r k, cc_call c with
                  | OOne v, SOVal w => veqb v w | OPanic, SOBad => true
                  | (ONoReturn | OTooMany | ONotKeyed), SOErr => true | _, _ => false end) then 15
    else if negb (match rep_safecall true r k, cc_safe c with
                  | SVal v, SOVal w => veqb v w | SFallback, SOVal w => veqb (cc_fb c) w
                  | SErr, SOErr => true | SPanic, SOBad => true | _, _ => false end) then 16
    else 0 in
  if base =? 0 then 0 else base + region.

Definition report_call (l : list ccase) : list (Z * Z) :=
  filter (fun p => negb (snd p =? 0)) (map (fun c => (cc_id c, classify_call c)) l).
(* how many cases lie in the region of KF-C05-04 (reported for the evidence) *)
Definition region_count (l : list ccase) : Z :=
  Z.of_nat (length (filter (fun c => result_collision (cc_rep c) (cc_key c)) l)).

(* ---------- offset ---------- *)

Inductive lobs := LRep (r : rep) (den : list val) (count : Z) | LErr | LBad | LOther (den : list val).

Record ocase := { oc_id : Z; oc_rep : rep; oc_den : list val; oc_count : Z; oc_n : val; oc_res : lobs }.

Definition classify_offset (c : ocase) : Z :=
  let r := oc_rep c in
  (* the property: every index moved by n, nothing else (integer n, a sequence) *)
  let spec := bin_data BOffset (oc_n c) (mkset (oc_den c)) in
  if negb (match spec, oc_res c with
           | Ok (VSet l), LRep _ den _ => set_eq l den
           | Ok (VSet l), LOther den => set_eq l den
           | Ok _, _ => false
           | Err, LErr => true | Err, _ => false
           | _, _ => true end) then 1
  else if negb (wfb r) then 11
  else if negb (den_ok r (oc_den c) (oc_count c)) then 12
  else if negb (match rep_offset (oc_n c) r, oc_res c with
                | Some r', LRep o den n => rep_eqb r' o && wfb o && den_ok o den n
                | None, LErr => true
                | _, _ => false end) then 13
  else 0.
Definition report_offset (l : list ocase) : list (Z * Z) :=
  filter (fun p => negb (snd p =? 0)) (map (fun c => (oc_id c, classify_offset c)) l).

(* ---------- concat ---------- *)

Record kcase := { kc_id : Z; kc_a : rep; kc_a_den : list val; kc_a_count : Z;
                  kc_b : rep; kc_b_den : list val; kc_b_count : Z; kc_res : lobs }.

(* two different members that asArray / asString / asBytes would put into one cell *)
Fixpoint seq_collision (ms : list val) : bool :=
  match ms with
  | [] => false
  | m :: ms' => match sugar_slot m with
                | Some s => existsb (fun w => same_slot s (sugar_slot w) && negb (veqb m w)) ms'
                | None => false
                end || seq_collision ms'
  end.
(* byte items whose indices are not contiguous: asBytes invents zero bytes in the gap *)
Definition bytes_gap (ms : list val) : bool :=
  let idx := flat_map (fun m => match sugar_slot m with
                                | Some (n, i) => if name_eqb n n_byte then [i] else []
                                | None => [] end) ms in
  match idx with
  | [] => false
  | i :: _ =>
      let lo := fold_right Z.min i idx in let hi := fold_right Z.max i idx in
      negb (forallb (fun j => existsb (Z.eqb j) idx) (map (fun d => lo + Z.of_nat d) (seq 0 (Z.to_nat (hi - lo + 1)))))
  end.

Definition classify_concat (c : kcase) : Z :=
  let a := kc_a c in let b := kc_b c in
  let region := match rep_concat_added a b with
                | Some ms => (if seq_collision ms then 200 else 0) + (if bytes_gap ms then 400 else 0)
                | None => 0 end in
  let spec := concat_sets (kc_a_den c) (kc_b_den c) in
  let base :=
    if negb (match spec, kc_res c with
             | Ok (VSet l), LRep _ den _ => set_eq l den
             | Ok (VSet l), LOther den => set_eq l den
             | Ok _, _ => false
             | Err, LErr => true | Err, _ => false
             | _, _ => true end) then 1
    else if negb (wfb a && wfb b) then 11
    else if negb (den_ok a (kc_a_den c) (kc_a_count c) && den_ok b (kc_b_den c) (kc_b_count c)) then 12
    else if negb (match rep_concat_added a b, kc_res c with
                  | Some ms, LRep o den n =>
                      set_eq ms den && wfb o && den_ok o den n &&
                      match seq_finish ms with Some r' => rep_eqb r' o | None => true end
                  | Some ms, LOther den => set_eq ms den && match seq_finish ms with Some _ => false | None => true end
                  | None, LErr => true
                  | _, _ => false end) then 13
    else 0 in
  if base =? 0 then 0 else base + region.
Definition report_concat (l : list kcase) : list (Z * Z) :=
  filter (fun p => negb (snd p =? 0)) (map (fun c => (kc_id c, classify_concat c)) l).
