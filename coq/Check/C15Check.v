(* Correspondence support for C15: compares what the implementation did on a
   layout (evaluation from source, bundling, archive listing, running the
   bundle) with the model, inside Coq, and computes guard / attribution. *)
From Arrai Require Import Sys.BPath Sys.Bundle.
From Coq Require Import String Ascii.

(* byte string literal (printable ASCII) -> segment; used by the generated case files *)
Definition zs (s : string) : seg := List.map (fun a => Z.of_N (N_of_ascii a)) (list_ascii_of_string s).

Inductive otree := ONode (tag : Z) (ch : list otree).

Fixpoint erase (t : tree) : otree :=
  match t with Node f _ ch => ONode (f_tag f) (map erase ch) end.

Fixpoint otree_eqb (a b : otree) : bool :=
  match a, b with
  | ONode x ca, ONode y cb =>
      (x =? y) &&
      (fix go (l m : list otree) : bool :=
         match l, m with
         | [], [] => true
         | u :: l', v :: m' => otree_eqb u v && go l' m'
         | _, _ => false
         end) ca cb
  end.

(* observed outcome of an evaluation *)
Inductive ores := OOk (t : otree) | OErr | OPanic | OBad.

Definition res_obs (r : res tree) : ores :=
  match r with Ok t => OOk (erase t) | Err => OErr | Panic => OPanic | OOF => OBad end.

Definition ores_eqb (a b : ores) : bool :=
  match a, b with
  | OOk x, OOk y => otree_eqb x y
  | OErr, OErr | OPanic, OPanic => true
  | _, _ => false
  end.

Record case15 := {
  c_id : Z;
  c_layout : layout;
  c_main : path;
  c_src : ores;             (* syntax.EvaluateExpr over the source tree *)
  c_bst : Z;                (* bundle.BundledScripts: 0 ok, 1 err, 2 panic *)
  c_listing : list path;    (* names in the .arraiz (only when c_bst = 0) *)
  c_run : ores              (* syntax.EvaluateBundleCtx (only when c_bst = 0) *)
}.

Definition fuel15 : nat := 24.

Definition bst_of (r : res archive) : Z := match r with Ok _ => 0 | Err => 1 | Panic => 2 | OOF => 3 end.

Definition incl_b (a b : list path) : bool := forallb (fun x => existsb (path_eqb x) b) a.

Definition listing_of (a : archive) : list path := [s_config] :: map fst (a_files a).

Definition bit (b : bool) (n : Z) : Z := if b then n else 0.

(* code = sum of
     1    source evaluation differs from the model
     2    bundling status differs from the model
     4    archive listing differs from the model
     8    bundle run differs from the model
     16   outside the theorem's precondition (pre)
     32   guard false: run_bundle q <> run_bundle quirks_off
     64 / 128 / 256  the result depends on q_unnamed_sentinel / q_modre_anchored / q_cfg_goquote
     512  model out of fuel
     1024 the repaired model itself violates the property on this input (must not happen inside pre) *)
Definition classify (q : quirks) (k : case15) : Z :=
  let L := c_layout k in
  let m := c_main k in
  let src := resolve_src q fuel15 L m in
  let b := bundle q fuel15 L m in
  let run := run_bundle q fuel15 L m in
  let off := run_bundle quirks_off fuel15 L m in
  let same r := ores_eqb (res_obs r) (res_obs off) in
  bit (negb (ores_eqb (res_obs src) (c_src k))) 1 +
  bit (negb (bst_of b =? c_bst k)) 2 +
  match b with
  | Ok a =>
      bit ((c_bst k =? 0) && negb (incl_b (listing_of a) (c_listing k) && incl_b (c_listing k) (listing_of a))) 4 +
      bit ((c_bst k =? 0) && negb (ores_eqb (res_obs (resolve_bun q fuel15 a)) (c_run k))) 8
  | _ => 0
  end +
  bit (negb (pre L m)) 16 +
  bit (negb (same run)) 32 +
  bit (negb (same (run_bundle only_sentinel fuel15 L m))) 64 +
  bit (negb (same (run_bundle only_modre fuel15 L m))) 128 +
  bit (negb (same (run_bundle only_cfg fuel15 L m))) 256 +
  bit (match src with OOF => true | _ => false end) 512 +
  bit (negb (ores_eqb (res_obs off) (res_obs (resolve_src quirks_off fuel15 L m)))) 1024.

Definition report (q : quirks) (l : list case15) : list (Z * Z) :=
  filter (fun p => negb (Z.eqb (snd p) 0)) (map (fun k => (c_id k, classify q k)) l).
