(* Correspondence support for C19: compares, inside Coq, what arrai.OutputValue
   did to a real file system with the model of Sys/OutFS.v. *)
From Coq Require Import List ZArith Bool Lia.
Import ListNotations.
From Arrai Require Import Sys.OutFS.
Open Scope Z_scope.

Inductive ocls := OOk | OErr | OPanic | OBad.

Record case19 := {
  c_id : Z;
  c_filemode : bool;            (* --out=file:PATH instead of dir:PATH *)
  c_val : val;                  (* description, dictionaries in enumeration order *)
  c_path : path;
  c_prior : fsmap;
  c_fault : option nat;
  c_cls : ocls;                 (* observed *)
  c_after : fsmap               (* observed snapshot *)
}.

Definition node_eqb (a b : option node) : bool :=
  match a, b with
  | None, None => true
  | Some Dir, Some Dir => true
  | Some (File x), Some (File y) => zs_eqb x y
  | _, _ => false
  end.

Definition fs_eqb (a b : fsmap) : bool :=
  forallb (fun p => node_eqb (lookup p a) (lookup p b)) (map fst a ++ map fst b).

Definition run (q : quirks) (k : case19) : res :=
  (if c_filemode k then out_file_mode q else out_dir_mode q) (c_val k) (c_path k) (init (c_prior k) (c_fault k)).

Definition cls_of (r : res) : ocls := match r with Ok _ => OOk | Err _ => OErr | Panic _ => OPanic end.
Definition cls_eqb (a b : ocls) : bool :=
  match a, b with OOk, OOk | OErr, OErr | OPanic, OPanic => true | _, _ => false end.

Definition res_eqb (a b : res) : bool :=
  cls_eqb (cls_of a) (cls_of b) && fs_eqb (fs (res_st a)) (fs (res_st b)).

Definition agrees (r : res) (k : case19) : bool :=
  cls_eqb (cls_of r) (c_cls k) && fs_eqb (fs (res_st r)) (c_after k).

(* the property on the implementation's own output, S = repaired model:
   S = Ok  -> success and exactly the tree of S;  S = Err -> failure and nothing changed *)
Definition oracle (k : case19) : bool :=
  match run quirks_off k with
  | Ok s => cls_eqb (c_cls k) OOk && fs_eqb (fs s) (c_after k)
  | _ => cls_eqb (c_cls k) OErr && fs_eqb (c_prior k) (c_after k)
  end.

(* with a fault that fired: the command must report failure *)
Definition oracle_fault (k : case19) : bool := negb (cls_eqb (c_cls k) OOk).

Definition qget (q : quirks) (i : nat) : bool :=
  match i with
  | 0%nat => q_dry_mkdir q | 1%nat => q_skip_unsupported q | 2%nat => q_name_escapes q
  | 3%nat => q_replace_unvalidated q | 4%nat => q_multi_panic q | 5%nat => q_stat_err_ignored q
  | 6%nat => q_close_err_ignored q | _ => q_kind_unchecked q
  end.
Definition qmk (f : nat -> bool) : quirks :=
  Build_quirks (f 0%nat) (f 1%nat) (f 2%nat) (f 3%nat) (f 4%nat) (f 5%nat) (f 6%nat) (f 7%nat).
Definition only (i : nat) : quirks := qmk (Nat.eqb i).
Definition without (q : quirks) (i : nat) : quirks := qmk (fun j => qget q j && negb (Nat.eqb i j)).

(* K(x): enabled quirks on which the model's result for this input depends *)
Definition depends (q : quirks) (k : case19) (i : nat) : bool :=
  qget q i &&
  (negb (res_eqb (run (only i) k) (run quirks_off k)) || negb (res_eqb (run (without q i) k) (run q k))).

Definition kmask (q : quirks) (k : case19) : Z :=
  fold_right (fun i acc => (if depends q k i then 2 ^ Z.of_nat i else 0) + acc) 0 (seq 0 8).

(* code = agree + 2*oracle + 4*guard + 8*kmask + 2048*nops(model under q) *)
Definition classify (q : quirks) (k : case19) : Z :=
  let r := run q k in
  let b (x : bool) := if x then 1 else 0 in
  match c_fault k with
  | None =>
      b (agrees r k) + 2 * b (oracle k) + 4 * b (res_eqb r (run quirks_off k)) + 8 * kmask q k
      + 2048 * Z.of_nat (nops (res_st r))
  | Some _ =>
      (* guard: the model under q reports the failure *)
      b (agrees r k) + 2 * b (oracle_fault k) + 4 * b (negb (cls_eqb (cls_of r) OOk)) + 8 * kmask q k
      + 2048 * Z.of_nat (nops (res_st r))
  end.

Definition report (q : quirks) (l : list case19) : list (Z * Z) :=
  map (fun k => (c_id k, classify q k)) l.
