(* Correspondence support for C16: compares what the implementation did on a
   recording file system with the model, inside Coq, and evaluates the
   property's oracle on the implementation's own observations. *)
From Coq Require Import List ZArith Bool.
From Arrai Require Import Sys.GoPath Sys.Import Sys.ImportCache.
From Coq Require String Ascii.
From Coq Require Import NArith.
Import ListNotations.
Open Scope Z_scope.

(* printable-ASCII byte strings of the generated case files are written as Coq
   string literals (much cheaper to elaborate than lists of numerals) *)
Fixpoint str_of_string (s : String.string) : str :=
  match s with
  | String.EmptyString => []
  | String.String c t => Z.of_N (Ascii.N_of_ascii c) :: str_of_string t
  end.
Notation S16 := str_of_string.

Fixpoint strs_eqb (a b : list str) : bool :=
  match a, b with
  | [], [] => true
  | x :: a', y :: b' => str_eqb x y && strs_eqb a' b'
  | _, _ => false
  end.

Definition outcome_eqb (a b : outcome) : bool :=
  match a, b with
  | External, External | Reject, Reject | NoModule, NoModule | OutOfFuel, OutOfFuel => true
  | Read p, Read p' => str_eqb p p'
  | _, _ => false
  end.

Definition res_eqb (a b : list str * outcome) : bool :=
  strs_eqb (fst a) (fst b) && outcome_eqb (snd a) (snd b).

(* ---------- path resolution cases ---------- *)
Record case16r := {
  r_id : Z;
  r_cwd : str;               (* working directory (absolute, clean) *)
  r_gomods : list str;       (* directories that contain a regular file go.mod *)
  r_dot : bool;
  r_name : str;              (* PKGPATH: starts with '/' *)
  r_sd : str;                (* ParseContext.SourceDir of the importing script *)
  r_stats : list str;        (* observed Stat calls, raw names *)
  r_opens : list str;        (* observed Open calls, raw names *)
  r_err : bool               (* evaluation returned an error *)
}.

Definition gomod_of (l : list str) (d : str) : bool := existsb (str_eqb d) l.

Definition is_nil_l (l : list str) : bool := match l with [] => true | _ => false end.

(* observation predicted by a model result *)
Definition agrees_r (k : case16r) (m : list str * outcome) : bool :=
  strs_eqb (r_stats k) (fst m) &&
  match snd m with
  | Read p => match r_opens k with [o] => str_eqb o p | _ => false end
  | Reject | NoModule => is_nil_l (r_opens k) && r_err k
  | External | OutOfFuel => false
  end.

(* the property's oracle on the implementation's own observation: every file
   it tried to open lies strictly beneath the module root of the importing
   directory, or beneath that directory itself when there is no module *)
Definition allowed_dir (k : case16r) : str :=
  let sd := abs_path (r_cwd k) (r_sd k) in
  match find_root (S (length sd)) (gomod_of (r_gomods k)) sd [] with
  | (_, Some (Some root)) => root
  | _ => sd
  end.

Definition oracle_r (k : case16r) : bool :=
  forallb (fun o => beneathb (allowed_dir k) (abs_path (r_cwd k) o)) (r_opens k).

Definition model_r (q : Quirks) (k : case16r) : list str * outcome :=
  resolve q (r_cwd k) (gomod_of (r_gomods k)) (r_dot k) (r_name k) (r_sd k).

(* quirks this input's model result depends on: bit 1 = q_import_trim_after_join, bit 2 = q_import_dir_as_file *)
Definition depends_r (k : case16r) : Z :=
  let off := model_r quirks_off k in
  (if res_eqb (model_r {| q_import_trim_after_join := true; q_import_dir_as_file := false; q_import_cycle_hangs := false |} k) off then 0 else 1) +
  (if res_eqb (model_r {| q_import_trim_after_join := false; q_import_dir_as_file := true; q_import_cycle_hangs := false |} k) off then 0 else 2).

(* 0 = agrees with the model and the oracle holds (inside the guard)
   4 = same, but the input reaches an enabled quirk (outside the guard)
   1 = oracle fails inside the guard                    -> violation
   10+bits = oracle fails outside the guard, attributed to the quirks in bits (bits = 0: unattributed)
   2 = oracle holds, implementation differs from the model inside the guard -> correspondence broken
   3 = oracle holds, differs from the model outside the guard               -> note *)
Definition classify_r (q : Quirks) (k : case16r) : Z :=
  let mq := model_r q k in
  let guard := res_eqb mq (model_r quirks_off k) in
  if oracle_r k then
    if agrees_r k mq then (if guard then 0 else 4)
    else (if guard then 2 else 3)
  else
    if guard then 1 else 10 + depends_r k.

Definition report_r (q : Quirks) (l : list case16r) : list (Z * Z) :=
  filter (fun p => negb (Z.eqb (snd p) 0)) (map (fun k => (r_id k, classify_r q k)) l).

(* ---------- import graph cases ---------- *)
Record case16g := {
  g_id : Z;
  g_graph : graph;
  g_main : list key;          (* local imports of the main script *)
  g_class : Z;                (* observed: 0 = value, 1 = error, 2 = no answer within the wall-clock bound, 3 = panic *)
  g_trace : list key          (* observed ReadFile sequence *)
}.

Fixpoint keys_eqb (a b : list key) : bool :=
  match a, b with
  | [], [] => true
  | x :: a', y :: b' => Z.eqb x y && keys_eqb a' b'
  | _, _ => false
  end.

Definition class_of (c : cres) : Z :=
  match c with COk => 0 | CErrRead | CErrCycle => 1 | CHang => 2 | COutOfFuel => 9 end.

Definition agrees_g (k : case16g) (m : cres * cstate) : bool :=
  Z.eqb (g_class k) (class_of (fst m)) && keys_eqb (g_trace k) (snd (snd m)).

Definition cres_eqb (a b : cres * cstate) : bool :=
  Z.eqb (class_of (fst a)) (class_of (fst b)) && keys_eqb (snd (snd a)) (snd (snd b))
  && match fst a, fst b with CErrRead, CErrCycle | CErrCycle, CErrRead => false | _, _ => true end.

(* oracle: the evaluation answers (never hangs), with an error exactly when the
   repaired specification says so (a cycle or a missing file) *)
Definition oracle_g (k : case16g) : bool :=
  Z.eqb (g_class k) (class_of (fst (compile_main false (g_graph k) (g_main k)))).

(* codes as above; the only quirk is q_import_cycle_hangs (bit 4) *)
Definition classify_g (hang : bool) (k : case16g) : Z :=
  let mq := compile_main hang (g_graph k) (g_main k) in
  let guard := cres_eqb mq (compile_main false (g_graph k) (g_main k)) in
  if oracle_g k then
    if agrees_g k mq then (if guard then 0 else 4)
    else (if guard then 2 else 3)
  else
    if guard then 1 else 14.

Definition report_g (hang : bool) (l : list case16g) : list (Z * Z) :=
  filter (fun p => negb (Z.eqb (snd p) 0)) (map (fun k => (g_id k, classify_g hang k)) l).

(* ---------- reference stream for the GoPath functions ---------- *)
Inductive pfn := FClean | FJoin | FDir | FHasExt | FTrimWs | FTrimSlash | FStrip | FHasPrefix | FAbs.
Record case16p := { p_id : Z; p_fn : pfn; p_a : str; p_b : str; p_r : str }.

Definition bool_str (b : bool) : str := if b then [49] else [48].
Definition eval_p (k : case16p) : str :=
  match p_fn k with
  | FClean => clean (p_a k)
  | FJoin => join_path (p_a k) (p_b k)
  | FDir => dir (p_a k)
  | FHasExt => bool_str (has_ext (p_a k))
  | FTrimWs => trim_ws (p_a k)
  | FTrimSlash => trim_slash (p_a k)
  | FStrip => strip_dotdotslash (p_a k)
  | FHasPrefix => bool_str (has_prefix (p_b k) (p_a k))
  | FAbs => abs_path (p_b k) (p_a k)
  end.
Definition report_p (l : list case16p) : list (Z * Z) :=
  filter (fun p => negb (Z.eqb (snd p) 0))
         (map (fun k => (p_id k, if str_eqb (eval_p k) (p_r k) then 0 else 1)) l).

(* ---------- edges of the spelled import graphs ---------- *)
(* the generator's resolution of one import statement (importing file, form,
   text -> raw file name) is re-derived with the repaired model *)
Record case16e := { e_id : Z; e_gomods : list str; e_dot : bool; e_name : str; e_importer : str; e_expect : str }.
Definition report_e (l : list case16e) : list (Z * Z) :=
  filter (fun p => negb (Z.eqb (snd p) 0))
         (map (fun k => (e_id k,
                         if outcome_eqb (snd (resolve quirks_off [47] (gomod_of (e_gomods k)) (e_dot k) (e_name k) (dir (e_importer k))))
                                        (Read (e_expect k)) then 0 else 1)) l).
