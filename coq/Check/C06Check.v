(* Correspondence for C06: the implementation's a < b and a = b vs the model. *)
From Arrai Require Import Base.Val Spec.SetAlg Eval.Interp Rep.Less Gen.Kinds Proofs.LessP Check.EvalCheck.

(* a pair of pool values by position, with what the implementation answered *)
Record case06 := { o_id : Z; o_a : nat; o_b : nat; o_lt : bool; o_eq : bool }.

Definition FUEL06 : nat := 60.

(* every pool value is evaluated once by the reference interpreter *)
Definition pool_vals (es : list expr) : list (option val) :=
  map (fun e => match run_data FUEL e with Ok v => Some v | _ => None end) es.

(* 0 agree (or a value the specification does not evaluate); 1 `<` differs from the model;
   2 `=` differs from the specification; 3 the model predicts a panic where the implementation
   answered; 4 the model ran out of fuel *)
Definition classify06 (vs : list (option val)) (k : case06) : Z :=
  match nth (o_a k) vs None, nth (o_b k) vs None with
  | Some va, Some vb =>
      if negb (Bool.eqb (veqb va vb) (o_eq k)) then 2
      else match rless (knum_of kind_table) FUEL06 va vb with
           | ROk r => if Bool.eqb r (o_lt k) then 0 else 1
           | RPanic => 3
           | RFuel => 4
           end
  | _, _ => 0
  end.

Definition modelled06 (vs : list (option val)) (k : case06) : bool :=
  match nth (o_a k) vs None, nth (o_b k) vs None with
  | Some va, Some vb => match rless (knum_of kind_table) FUEL06 va vb with ROk _ => true | _ => false end
  | _, _ => false
  end.

(* the disagreements, preceded by (-1, number of pairs the model decided) *)
Definition report06 (es : list expr) (l : list case06) : list (Z * Z) :=
  let vs := pool_vals es in
  (-1, Z.of_nat (length (filter (modelled06 vs) l)))
  :: filter (fun p => negb (Z.eqb (snd p) 0)) (map (fun k => (o_id k, classify06 vs k)) l).

(* the representation the model predicts for a value (compared with the Go type
   name and the Kind() number of the implementation's value), and whether the
   value lies in the domain of the order theorem *)
Definition kind_code (k : rkind) : Z :=
  match k with
  | KNum => 0 | KEmpty => 1 | KTrue => 2 | KGeneric => 3 | KStr => 4 | KBytes => 5 | KArr => 6 | KDict => 7
  | KUnion => 8 | KRel => 9 | KTupG => 10 | KTupChar => 11 | KTupItem => 12 | KTupEntry => 13 | KTupByte => 14
  | KNeg _ => 15
  end.
(* (id, 1000000 * in-domain + 1000 * kind code + |Kind() number|); -1 when the expression has no value *)
Definition value_kinds (l : list (Z * expr)) : list (Z * Z) :=
  map (fun p => (fst p,
                 match run_data FUEL (snd p) with
                 | Ok v => (if go_ok v then 1000000 else 0) + 1000 * kind_code (kind_of v)
                           + Z.abs (knum_of kind_table (kind_of v))
                 | _ => -1
                 end)) l.
