(* Correspondence for C06: the implementation's a < b and a = b vs the model. *)
From Arrai Require Import Base.Val Spec.SetAlg Eval.Interp Rep.Less Gen.Kinds Proofs.LessP Check.EvalCheck.

Record case06 := { o_id : Z; o_a : expr; o_b : expr; o_lt : bool; o_eq : bool }.

(* 0 agree or not modelled; 1 `<` differs from the model; 2 `=` differs from the specification *)
Definition classify06 (k : case06) : Z :=
  match run_data FUEL (o_a k), run_data FUEL (o_b k) with
  | Ok va, Ok vb =>
      if negb (Bool.eqb (veqb va vb) (o_eq k)) then 2
      else match rless (knum_of kind_table) 40 va vb with
           | Some r => if Bool.eqb r (o_lt k) then 0 else 1
           | None => 0
           end
  | _, _ => 0
  end.

Definition modelled06 (k : case06) : bool :=
  match run_data FUEL (o_a k), run_data FUEL (o_b k) with
  | Ok va, Ok vb => match rless (knum_of kind_table) 40 va vb with Some _ => true | None => false end
  | _, _ => false
  end.

Definition report06 (l : list case06) : list (Z * Z) :=
  filter (fun p => negb (Z.eqb (snd p) 0)) (map (fun k => (o_id k, classify06 k)) l).
Definition modelled_count (l : list case06) : Z := Z.of_nat (length (filter modelled06 l)).
