(* C08: a program and its rewritten form (a documented equivalence applied at a position given as a one-hole
   context, or a let-bound name replaced by its value), each compared with what the implementation returned for
   its source text, and with each other inside the reference interpreter. *)
From Arrai Require Import Base.Val Spec.SetAlg Eval.Interp Eval.Rewrite Check.EvalCheck.

Record rcase := { r_id : Z; r_orig : expr; r_rew : expr; r_alt : option expr; r_obs1 : eobs; r_obs2 : eobs }.

(* 0 the same function-free answer (or two functions); 1 different answers; 9 one of them has no answer at FUEL *)
Definition ans_code (a b : res value) : Z :=
  match a, b with
  | OutOfFuel, _ | _, OutOfFuel => 9
  | Ok (D v), Ok (D w) => if veqb v w then 0 else 1
  | Ok (Clos _ _ _), Ok (Clos _ _ _) => 0
  | Err, Err => 0
  | Unspec, Unspec => 0
  | _, _ => 1
  end.

(* code = original vs implementation + 1000 * (rewritten vs implementation)
          + 10^6 * (original vs rewritten in the interpreter) + 10^7 * (rewritten vs the interpreter's own rewriting) *)
Definition rclassify (k : rcase) : Z :=
  let a := run FUEL (r_orig k) in
  let b := run FUEL (r_rew k) in
  classify_region {| e_id := r_id k; e_expr := r_orig k; e_obs := r_obs1 k |}
  + 1000 * classify_region {| e_id := r_id k; e_expr := r_rew k; e_obs := r_obs2 k |}
  + 1000000 * ans_code a b
  + 10000000 * match r_alt k with Some c => ans_code b (run FUEL c) | None => 0 end.

Definition rreport (l : list rcase) : list (Z * Z) := map (fun k => (r_id k, rclassify k)) l.
