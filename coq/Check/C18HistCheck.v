(* Correspondence support for C18, histories of evaluators: one run creates several evaluators
   from related configurations and uses them in some order.  The harness reports, per use, the
   status, the marker names of the result (attribute names of a result tuple, or #data / #res /
   #fn) and whether the runtime file system was read; the model of Sys/SandboxHist.v is run on
   the same history inside Coq.  Two judgements:
     oracle (property text): a use returns no capability marker and reads no file that its OWN
                             configuration does not mention;
     correspondence        : every use gives what hist_run no_memo gives, i.e. (theorem
                             C18_evaluator_uses_are_independent) what that use gives alone. *)
From Coq Require Import List String Bool ZArith.
From Arrai Require Import Sys.Sandbox Sys.SandboxGen Sys.SandboxHist Gen.Stdlib.
Import ListNotations.
Open Scope string_scope.
Open Scope list_scope.

Record huse := {
  hu_name : string;            (* u0, u1, ...: the let-bound name / result attribute of the inline program *)
  hu_ev : string;              (* which evaluator of the run is used *)
  hu_rep : rep;
  hu_src : expr;
  hu_allowed : list string;    (* capability markers mentioned by the configuration of THAT evaluator *)
  hu_may_file : bool;          (* that configuration hands over //os.file *)
  hu_st : Z;                   (* observed: 0 value, 1 error or panic, 3 not run *)
  hu_marks : list string;      (* observed *)
  hu_file : bool               (* observed: a file was read through the runtime fs during this use *)
}.

Record hcase := {
  h_id : Z;
  h_binds : list (string * expr);   (* let name = expr; ... (factories, shared configs, evaluators) *)
  h_evs : list string;              (* the evaluators: names bound above to tuples with an `eval` attribute *)
  h_caps : list string;             (* every capability marker of the run *)
  h_inline : bool;                  (* true: the uses are part of the arr.ai program; false: the harness applies X.eval itself *)
  h_uses : list huse;
  h_st : Z;                         (* observed: inline = status of the whole program; driven = status of the setup program *)
  h_file : bool                     (* observed (inline): a file was read during the program *)
}.

Definition fuel : nat := 80.

Fixpoint lets (bs : list (string * expr)) (body : expr) : expr :=
  match bs with
  | [] => body
  | (x, e) :: r => ELet x e (lets r body)
  end.

Definition var_tuple (ns : list string) : expr := fold_right (fun n acc => ETupCons n (EVar n) acc) ETupNil ns.

Definition setup (k : hcase) : expr := lets (h_binds k) (var_tuple (h_evs k)).

Definition use_expr (u : huse) : expr := EApp (EDot (EVar (hu_ev u)) "eval") (EQuote (hu_rep u) (hu_src u)).

Definition inline_program (k : hcase) : expr :=
  lets (h_binds k) (lets (map (fun u => (hu_name u, use_expr u)) (h_uses k)) (var_tuple (map hu_name (h_uses k)))).

(* ---------- observation of a model outcome ---------- *)
Fixpoint tup_names (v : val) : list string :=
  match v with VTupCons a _ r => a :: tup_names r | _ => [] end.

Definition marks (v : val) : list string :=
  match v with
  | VData => ["#data"]
  | VRes => ["#res"]
  | VSrc _ _ => ["#src"]
  | VTupNil => []
  | VTupCons _ _ _ => tup_names v
  | _ => ["#fn"]
  end.

Definition has_file (l : list eff) : bool :=
  existsb (fun e => match e with EffCall CFile => true | _ => false end) l.

Definition uobs := (Z * list string * bool)%type.

Definition obs_of (r : res * list eff) : uobs :=
  match r with
  | (Val v, l) => (0%Z, marks v, has_file l)
  | (Err, l) => (1%Z, [], has_file l)
  | (Fuel, l) => (2%Z, [], has_file l)
  end.

Definition smem (s : string) (l : list string) : bool := existsb (String.eqb s) l.
Definition sseteq (a b : list string) : bool := forallb (fun s => smem s b) a && forallb (fun s => smem s a) b.

Definition uobs_eqb (a b : uobs) : bool :=
  match a, b with
  | (s1, m1, f1), (s2, m2, f2) => Z.eqb s1 s2 && sseteq m1 m2 && Bool.eqb f1 f2
  end.

(* ---------- the model on a history ---------- *)
Definition model_uses (t : val) (us : list huse) : option (list use) :=
  fold_right (fun u acc =>
                match evaluator_fn t (hu_ev u), acc with
                | Some fn, Some r => Some ({| u_fn := fn; u_src := VSrc (hu_rep u) (hu_src u) |} :: r)
                | _, _ => None
                end) (Some []) us.

(* per-use outcomes: None = the setup program itself fails in the model *)
Definition model_outcomes (q : quirks) (k : hcase) : option (list uobs) :=
  match run_top q gen_world fuel (setup k) with
  | (Val t, _) =>
      match model_uses t (h_uses k) with
      | Some us => Some (map obs_of (hist_run q gen_world fuel no_memo None us))
      | None => None
      end
  | _ => None
  end.

Definition all_ok (l : list uobs) : bool := forallb (fun o => match o with (s, _, _) => Z.eqb s 0 end) l.
Definition any_file (l : list uobs) : bool := existsb (fun o => match o with (_, _, f) => f end) l.
Definition any_fuel (l : list uobs) : bool := existsb (fun o => match o with (s, _, _) => Z.eqb s 2 end) l.

Definition observed (u : huse) : uobs := (hu_st u, hu_marks u, hu_file u).

Fixpoint all2 {A B : Type} (p : A -> B -> bool) (a : list A) (b : list B) : bool :=
  match a, b with
  | [], [] => true
  | x :: a', y :: b' => p x y && all2 p a' b'
  | _, _ => false
  end.

(* implementation vs model *)
Definition corresponds (k : hcase) (mo : option (list uobs)) : bool :=
  match mo with
  | None => negb (Z.eqb (h_st k) 0)
  | Some outs =>
      if h_inline k then
        if all_ok outs
        then Z.eqb (h_st k) 0 && Bool.eqb (h_file k) (any_file outs) &&
             all2 (fun u o => match o with (_, m, _) => Z.eqb (hu_st u) 0 && sseteq (hu_marks u) m end) (h_uses k) outs
        else Z.eqb (h_st k) 1
      else Z.eqb (h_st k) 0 && all2 (fun u o => uobs_eqb (observed u) o) (h_uses k) outs
  end.

(* the model of the inline PROGRAM (lets evaluated by eval) agrees with the per-use outcomes *)
Definition inline_consistent (q : quirks) (k : hcase) (mo : option (list uobs)) : bool :=
  if h_inline k then
    match mo, run_top q gen_world fuel (inline_program k) with
    | Some outs, (Val t, l) =>
        all_ok outs && Bool.eqb (has_file l) (any_file outs) &&
        all2 (fun u o => match vget (hu_name u) t, o with
                         | Some v, (_, m, _) => sseteq (marks v) m
                         | None, _ => false
                         end) (h_uses k) outs
    | Some outs, (Err, _) => negb (all_ok outs) && negb (any_fuel outs)
    | Some outs, (Fuel, _) => true
    | None, (Val _, _) => false
    | None, _ => true
    end
  else true.

(* the property's oracle on the IMPLEMENTATION's observation *)
Definition use_confined (caps : list string) (u : huse) : bool :=
  negb (Z.eqb (hu_st u) 0) ||
  (forallb (fun m => negb (smem m caps) || smem m (hu_allowed u)) (hu_marks u) &&
   (negb (hu_file u) || hu_may_file u)).

Definition oracle (k : hcase) : bool :=
  forallb (use_confined (h_caps k)) (h_uses k) &&
  (negb (h_inline k) || negb (h_file k) || existsb hu_may_file (h_uses k)).

Definition b2z (b : bool) (n : Z) : Z := if b then n else 0%Z.

(* bit 1: implementation differs from the model; bit 2: model of the inline program differs from the
   model of its uses; bit 4: oracle fails; bit 64: the outcomes depend on a quirk; bit 128: fuel *)
Definition classify (qcur : quirks) (k : hcase) : Z :=
  let mo := model_outcomes qcur k in
  let moff := model_outcomes quirks_off k in
  (b2z (negb (corresponds k mo)) 1
   + b2z (negb (inline_consistent qcur k mo)) 2
   + b2z (negb (oracle k)) 4
   + b2z (negb (match mo, moff with
                | Some a, Some b => all2 uobs_eqb a b
                | None, None => true
                | _, _ => false
                end)) 64
   + b2z (match mo with Some outs => any_fuel outs | None => false end) 128)%Z.

Definition report (qcur : quirks) (l : list hcase) : list (Z * Z) :=
  filter (fun p => negb (Z.eqb (snd p) 0)) (map (fun k => (h_id k, classify qcur k)) l).
