(* Correspondence for C12: the printer model against fu.Repr byte for byte, and the reader
   model against what syntax.EvaluateExpr makes of the printed text. *)
From Arrai Require Import Base.Val Spec.SetAlg Eval.Interp Rep.Less Sys.Escape Sys.Printer Sys.Reader.

Record case12 := {
  p_id : Z;
  p_ord : val;              (* the value as the implementation enumerates it when printing *)
  p_repr : list Z;          (* UTF-8 bytes of fu.Repr *)
  p_back : option val       (* dump of EvaluateExpr (fu.Repr v); None = it did not evaluate *)
}.

(* 0 agree; 1 printed bytes differ; 2 the round trip fails in the model on a printable value;
   3 the model reader and the implementation read different values; 9 outside the theorem (not printable) *)
Definition classify12 (k : case12) : Z :=
  let w := p_ord k in
  if negb (printable_all w) then 9
  else if negb (zl_eq (print w) (p_repr k)) then 1
  else match read_all (pr w) with
       | Some v =>
           if negb (veqb v (norm w)) then 2
           else match p_back k with
                | Some b => if veqb v (norm b) then 0 else 3
                | None => 3
                end
       | None => 2
       end.

Definition report12 (l : list case12) : list (Z * Z) :=
  filter (fun p => negb (Z.eqb (snd p) 0)) (map (fun k => (p_id k, classify12 k)) l).
