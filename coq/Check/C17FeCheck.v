(* Correspondence support for the C17 front-end stream: what the clients of the real
   server (cmd/arrai serve: gRPC Update/Observe, websocket) saw on a sequential front-end
   history, compared with the engine model (Sys/Engine.v, quirks off) run on the engine
   history the front-end history maps to (Sys/FrontEnd.v fe_map, computed here; gen/c17fe.py's own fe_map is only cross-checked: one watcher per valid
   subscription, re-subscribe = Cancel old + Observe new, client hang-up / disconnect = no
   engine event: the watcher lingers until its next delivery fails, which no other client
   can observe - C17_isolation).  A client sees values only (and, over gRPC, the error that
   ends the stream); a connection's log is the concatenation of its watchers' values. *)
From Coq Require Import List ZArith Bool Lia.
From Arrai Require Import Sys.Engine Sys.FrontEnd Proofs.EngineP Check.C17Check.
Import ListNotations.
Open Scope Z_scope.

Record feconn := {
  f_key : Z;             (* the connection: 2c for websocket connection c, 2g+1 for gRPC Observe call g *)
  f_ids : list Z;        (* the connection's watchers, oldest first *)
  f_mode : Z;            (* 0 = live to the end: exact; 1 = the client left: prefix of the last watcher's values;
                            2 = the server closed the socket after a re-subscribe: at most the initial value of the last watcher *)
  f_vals : list cval;    (* values received, in order *)
  f_ended : Z }.         (* gRPC: 1 = the stream ended with an error, 0 = still open; -1 = not observable (websocket, client left) *)

Record fecase := {
  fc_id : Z;
  fc_fe : list (fe_op cval cexpr);   (* the FRONT-END history: the model runs on the Gallina fe_map of it *)
  fc_h : list cevent;                (* gen/c17fe.py's own mapping, cross-checked against fe_map (code 3) *)
  fc_acks : list ack; fc_status : status; fc_conns : list feconn }.

Definition vals_of (tr : list cmsg) : list cval :=
  flat_map (fun m => match m with MUpdate v => [v] | MClose _ => [] end) tr.
Definition failed_of (tr : list cmsg) : bool :=
  existsb (fun m => match m with MClose false => true | _ => false end) tr.

Fixpoint conn_vals_ok (st : cstate) (ids : list Z) (mode : Z) (obs : list cval) : bool :=
  match ids with
  | [] => match obs with [] => true | _ => false end
  | [i] =>
      let v := vals_of (trace_of i st) in
      if mode =? 0 then list_eqb cval_eqb obs v
      else prefixb cval_eqb obs v && (if mode =? 2 then (length obs <=? 1)%nat else true)
  | i :: rest =>
      let v := vals_of (trace_of i st) in
      prefixb cval_eqb v obs && conn_vals_ok st rest mode (skipn (length v) obs)
  end.

Definition conn_ok (st : cstate) (c : feconn) : bool :=
  conn_vals_ok st (f_ids c) (f_mode c) (f_vals c)
  && (if f_ended c =? (-1) then true
      else Bool.eqb (f_ended c =? 1) (existsb (fun i => failed_of (trace_of i st)) (f_ids c))).

Definition cexpr_eqb (a b : cexpr) : bool :=
  match a, b with
  | CConst x, CConst y | CAdd x, CAdd y | CMulAdd x, CMulAdd y | CFailGt x, CFailGt y | CPanicGt x, CPanicGt y => x =? y
  | CRoot, CRoot | CFail, CFail | CPanic, CPanic => true
  | _, _ => false
  end.
Definition ev_shape_eqb (a b : cevent) : bool :=
  match a, b with
  | Update x, Update y => cexpr_eqb x y
  | Observe i x _, Observe j y _ => (i =? j) && cexpr_eqb x y
  | Cancel i, Cancel j => i =? j
  | Hangup, Hangup | Stop, Stop => true
  | _, _ => false
  end.

(* 0 = the clients saw what the model says; 1 = loop state or answers differ; 2 = some connection's log differs;
   3 = the python mapping (engine history, a connection's watcher ids) is not the Gallina fe_map / fe_ids of the front-end history *)
Definition fe_classify (k : fecase) : Z :=
  let h := fe_map cval cexpr (fc_fe k) in
  let st := crun quirks17_off h in
  if negb (list_eqb ev_shape_eqb h (fc_h k)
           && forallb (fun c => list_eqb Z.eqb (f_ids c) (fe_ids cval cexpr (f_key c) (fc_fe k))) (fc_conns k)) then 3
  else if negb (status_eqb (fc_status k) (s_status _ _ st) && list_eqb ack_eqb (fc_acks k) (s_acks _ _ st)) then 1
  else if forallb (conn_ok st) (fc_conns k) then 0 else 2.

Definition fe_report (l : list fecase) : list (Z * Z) :=
  filter (fun p => negb (Z.eqb (snd p) 0)) (map (fun k => (fc_id k, fe_classify k)) l).

(* update 5; ws c1 observes $ (#1); gRPC observes $+1 (#2); update $*10+3; c1 re-subscribes $+2 (#3): the server closes c1 *)
Example fe_classify_small :
  fe_classify {| fc_id := 0;
                 fc_fe := [FeUpdate (Some (CConst 5)); FeSubscribe 2 (Some CRoot) (cb_of None); FeSubscribe 3 (Some (CAdd 1)) (cb_of None);
                           FeUpdate (Some (CMulAdd 3)); FeSubscribe 2 None (cb_of None); FeSubscribe 2 (Some (CAdd 2)) (cb_of None); FeUpdate (Some (CConst 7))];
                 fc_h := [Update (CConst 5); Observe 1 CRoot (cb_of None); Observe 2 (CAdd 1) (cb_of None);
                          Update (CMulAdd 3); Cancel 1; Observe 3 (CAdd 2) (cb_of None); Update (CConst 7)];
                 fc_acks := [AUpd true; ADone; ADone; AUpd true; ADone; ADone; AUpd true]; fc_status := Running;
                 fc_conns := [ {| f_key := 2; f_ids := [1; 3]; f_mode := 2; f_vals := [Some 5; Some 53; Some 55]; f_ended := -1 |};
                               {| f_key := 3; f_ids := [2]; f_mode := 0; f_vals := [Some 6; Some 54; Some 8]; f_ended := 0 |} ] |} = 0
  /\ fe_classify {| fc_id := 1; fc_fe := [FeUpdate (Some (CConst 5)); FeSubscribe 2 (Some CRoot) (cb_of None); FeHangup 4; FeUpdate (Some (CConst 6))];
                    fc_h := [Update (CConst 5); Observe 1 CRoot (cb_of None); Update (CConst 6)];
                    fc_acks := [AUpd true; ADone; AUpd true]; fc_status := Running;
                    fc_conns := [ {| f_key := 2; f_ids := [1]; f_mode := 0; f_vals := [Some 5]; f_ended := -1 |} ] |} = 2
  /\ fe_classify {| fc_id := 2; fc_fe := [FeSubscribe 2 (Some CRoot) (cb_of None)]; fc_h := [Observe 2 CRoot (cb_of None)];
                    fc_acks := [ADone]; fc_status := Running; fc_conns := [] |} = 3.
Proof. repeat split; vm_compute; reflexivity. Qed.
