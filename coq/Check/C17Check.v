(* Correspondence support for C17: compares what the real engine did on a
   history (answers per client, callback log, final state of the loop
   goroutine) with the model of Sys/Engine.v, inside Coq.

   A case is  pre ++ (some interleaving of the clients' programs) ++ post.
   For a sequential history there are no clients.  For concurrent clients the
   acknowledgement order is not observable from outside, so the observed run is
   accepted iff SOME merge of the clients' programs (each in program order)
   explains it - linearisability with respect to the model. *)
From Coq Require Import List ZArith Bool Lia.
From Arrai Require Import Sys.Engine Proofs.EngineP.
Import ListNotations.
Open Scope Z_scope.

Definition cevent := event cval cexpr.
Definition cmsg := msg cval.

Definition cval_eqb (a b : cval) : bool :=
  match a, b with Some x, Some y => x =? y | None, None => true | _, _ => false end.
Definition msg_eqb (a b : cmsg) : bool :=
  match a, b with
  | MUpdate x, MUpdate y => cval_eqb x y
  | MClose x, MClose y => Bool.eqb x y
  | _, _ => false
  end.
Definition ack_eqb (a b : ack) : bool :=
  match a, b with
  | AUpd x, AUpd y => Bool.eqb x y
  | ADone, ADone => true
  | ANone, ANone => true
  | _, _ => false
  end.
Definition status_eqb (a b : status) : bool :=
  match a, b with
  | Running, Running | Stopped, Stopped | Wedged, Wedged | Crashed, Crashed => true
  | _, _ => false
  end.
Fixpoint list_eqb {A} (eqb : A -> A -> bool) (a b : list A) : bool :=
  match a, b with
  | [], [] => true
  | x :: a', y :: b' => eqb x y && list_eqb eqb a' b'
  | _, _ => false
  end.
Fixpoint prefixb {A} (eqb : A -> A -> bool) (a b : list A) : bool :=   (* a is a prefix of b *)
  match a, b with
  | [], _ => true
  | x :: a', y :: b' => eqb x y && prefixb eqb a' b'
  | _, _ => false
  end.
Definition tmsg_eqb (a b : Z * cmsg) : bool := (fst a =? fst b) && msg_eqb (snd a) (snd b).

Definition cstate := state cval cexpr.
Definition trace_of (i : Z) (st : cstate) : list cmsg := obs_trace cval i (s_trace _ _ st).

(* model states compared on everything observable *)
Definition obs_eqb (a b : cstate) : bool :=
  status_eqb (s_status _ _ a) (s_status _ _ b) && list_eqb ack_eqb (s_acks _ _ a) (s_acks _ _ b)
  && list_eqb tmsg_eqb (s_trace _ _ a) (s_trace _ _ b) && cval_eqb (s_db _ _ a) (s_db _ _ b).

(* what the harness saw *)
Record observed := {
  o_status : status;                 (* idle -> Running, gone -> Stopped, wedged/stuck -> Wedged, dead child -> Crashed *)
  o_acks : list (nat * list ack);    (* per client tag: 0 = pre, 1.. = clients, 99 = post; in program order *)
  o_log : list (Z * cmsg) }.         (* every callback invocation in the order it happened *)

Record case17 := {
  c_id : Z; c_q : Quirks17;
  c_pre : list cevent; c_clients : list (list cevent); c_post : list cevent;
  c_obs : observed }.

Definition ids_of (h : list cevent) : list Z :=
  flat_map (fun ev => match ev with Observe i _ _ => [i] | Cancel i => [i] | _ => [] end) h.

(* all interleavings of the clients' programs, each event tagged with its client *)
Fixpoint merges_fuel (fuel : nat) (cs : list (nat * list cevent)) : list (list (nat * cevent)) :=
  match fuel with
  | O => [[]]
  | S f =>
      if forallb (fun c => match snd c with [] => true | _ => false end) cs then [[]]
      else
        (fix pick (before after : list (nat * list cevent)) : list (list (nat * cevent)) :=
           match after with
           | [] => []
           | (t, []) :: rest => pick (before ++ [(t, [])]) rest
           | (t, ev :: evs) :: rest =>
               map (cons (t, ev)) (merges_fuel f (before ++ (t, evs) :: rest))
               ++ pick (before ++ [(t, ev :: evs)]) rest
           end) [] cs
  end.
Fixpoint number_from {A} (n : nat) (l : list A) : list (nat * A) :=
  match l with [] => [] | x :: t => (n, x) :: number_from (S n) t end.
Definition merges (cl : list (list cevent)) : list (list (nat * cevent)) :=
  merges_fuel (S (length (concat cl))) (number_from 1 cl).

Definition acks_for (tags : list nat) (acks : list ack) (c : nat) : list ack :=
  map snd (filter (fun p => Nat.eqb (fst p) c) (combine tags acks)).

Section OneOrder.
  Variable k : case17.
  Variable m : list (nat * cevent).   (* the chosen interleaving of the concurrent part *)
  Let h : list cevent := c_pre k ++ map snd m ++ c_post k.
  Let tags : list nat := map (fun _ => 0%nat) (c_pre k) ++ map fst m ++ map (fun _ => 99%nat) (c_post k).
  Let o := c_obs k.
  Let ids := ids_of h.

  Definition acks_agree (st : cstate) : bool :=
    forallb (fun p => list_eqb ack_eqb (snd p) (acks_for tags (s_acks _ _ st) (fst p))) (o_acks o).
  Definition acks_prefix (st : cstate) : bool :=
    forallb (fun p => prefixb ack_eqb (snd p) (acks_for tags (s_acks _ _ st) (fst p))) (o_acks o).
  Definition seen (i : Z) : list cmsg := obs_trace cval i (o_log o).

  (* the implementation did exactly what model state st says *)
  Definition agree_exact (st : cstate) : bool :=
    status_eqb (o_status o) (s_status _ _ st) && acks_agree st
    && forallb (fun i => list_eqb msg_eqb (seen i) (trace_of i st)) ids
    && forallb (fun p => existsb (Z.eqb (fst p)) ids) (o_log o).

  Definition answered_count (st : cstate) : nat :=
    length (filter (fun a => negb (ack_eqb a ANone)) (s_acks _ _ st)).
  Definition total_seen_acks : nat := fold_right (fun p n => (length (snd p) + n)%nat) 0%nat (o_acks o).

  (* inside a known-defect region the run is reproduced "up to the oracle":
     same final state of the loop, same answers, and every observer's log lies
     between what it had received before the fatal event and what the model
     (any enumeration order) could have delivered during it *)
  Definition agree_quirk (mq moff : cstate) : bool :=
    (* index of the fatal event = number of prefixes after which the loop is still Running *)
    let kfatal := length (filter (fun n => status_eqb (s_status _ _ (crun (c_q k) (firstn n h))) Running) (seq 1 (length h))) in
    let before := crun (c_q k) (firstn kfatal h) in
    status_eqb (o_status o) (s_status _ _ mq) &&
    match s_status _ _ mq with
    | Wedged =>
        acks_agree mq
        && forallb (fun i => prefixb msg_eqb (trace_of i before) (seen i)
                             && prefixb msg_eqb (seen i) (trace_of i moff)
                             && (length (seen i) <=? S (length (trace_of i before)))%nat) ids
    | Crashed =>
        acks_prefix mq && (kfatal <=? total_seen_acks)%nat
        && forallb (fun i => prefixb msg_eqb (trace_of i before) (seen i)
                             && prefixb msg_eqb (seen i) (trace_of i mq)) ids
    | _ => false
    end.

  (* 0  = the implementation satisfies the specification on this history and the model agrees
     1  = the implementation violates the specification here and no enabled quirk explains it
     2  = the implementation satisfies the specification but the model (with the committed quirks) predicted a failure
     3  = the implementation violates the specification, an enabled quirk is reachable, but the failure is not the modelled one
     10 + b = known defect reproduced; b = bit mask of the reachable quirks: 1 cancel-from-loop, 2 double-cancel, 4 update-panic *)
  Definition classify1 : Z :=
    let mq := crun (c_q k) h in
    let moff := crun quirks17_off h in
    let guard := obs_eqb mq moff in
    if agree_exact moff then (if guard then 0 else 2)
    else if guard then 1
    else if agree_quirk mq moff then
      10 + (if q_cancel_from_loop (c_q k) && negb (obs_eqb (crun only_cancel_from_loop h) moff) then 1 else 0)
         + (if q_double_cancel_nil (c_q k) && negb (obs_eqb (crun only_double_cancel h) moff) then 2 else 0)
         + (if q_update_panic_kills (c_q k) && negb (obs_eqb (crun only_update_panic h) moff) then 4 else 0)
    else 3.
End OneOrder.

Definition best (codes : list Z) : Z :=
  if existsb (Z.eqb 0) codes then 0
  else match filter (fun c => 10 <=? c) codes with
       | c :: _ => c
       | [] => if existsb (Z.eqb 2) codes then 2 else if existsb (Z.eqb 3) codes then 3 else 1
       end.

Definition classify (k : case17) : Z := best (map (classify1 k) (merges (c_clients k))).

Definition report (l : list case17) : list (Z * Z) :=
  filter (fun p => negb (Z.eqb (snd p) 0)) (map (fun k => (c_id k, classify k)) l).

(* how many interleavings were examined, for the evidence *)
Definition merge_count (k : case17) : Z := Z.of_nat (length (merges (c_clients k))).

(* sanity of the merge enumeration: 2 clients with 2 and 1 events -> 3 merges *)
Example merges_small :
  length (merges [[Update (CConst 1); Update (CConst 2)]; [Hangup]]) = 3%nat
  /\ length (merges []) = 1%nat
  /\ length (merges [[Hangup; Hangup]; [Hangup; Hangup]; [Hangup; Hangup]]) = 90%nat.
Proof. repeat split; vm_compute; reflexivity. Qed.
