(* Correspondence for the builder model (Rep/Builder.v): what rel.NewSet / rel.NewTuple produce through the public
   API (Go type names, Count(), members, Equal()) against `construct`, `rmembers`, `rcount`, `rep_equal`, and the
   property oracle (the built value denotes exactly the members it was given; Equal is equality of denotations). *)
From Arrai Require Import Base.Val Spec.SetAlg Eval.Interp Check.EvalCheck Rep.Builder Proofs.BuilderAllP.

(* Go type of a value, as a code (harness/c02.go typeCode) *)
Definition rtype (r : rep) : Z :=
  match r with
  | RNum _ => 0
  | RTupG _ => 1 | RTupChar _ _ => 2 | RTupByte _ _ => 3 | RTupItem _ _ => 4 | RTupEntry _ _ => 5
  | REmpty => 10 | RTrue => 11 | RStr _ _ _ => 12 | RBytes _ _ => 13 | RArr _ _ _ => 14
  | RDict _ => 15 | RRel _ _ => 16 | RGen _ => 17 | RUnion _ => 18
  end.

Inductive oshape :=
| ONum (n : num)
| OTup (ty : Z) (attrs : list (name * oshape))          (* attributes sorted by name *)
| OSet (ty : Z) (count : Z) (members : list oshape)     (* members in enumeration order *)
| OOther.

Fixpoint shape (fuel : nat) (r : rep) : oshape :=
  match fuel with
  | O => OOther
  | S f =>
      match r with
      | RNum n => ONum n
      | _ =>
          match tup_attrs r with
          | Some l => OTup (rtype r) (map (fun p => (fst p, shape f (snd p))) l)
          | None => OSet (rtype r) (rcount r) (map (shape f) (rmembers r))
          end
      end
  end.

(* same shape up to the enumeration order of set members *)
Fixpoint oshape_equiv (a b : oshape) {struct a} : bool :=
  match a, b with
  | ONum x, ONum y => num_eq x y
  | OTup t l, OTup u m =>
      Z.eqb t u && Nat.eqb (length l) (length m) &&
      (fix go (l : list (name * oshape)) (m : list (name * oshape)) {struct l} : bool :=
         match l, m with
         | [], [] => true
         | (n, x) :: l', (n', y) :: m' => name_eq n n' && oshape_equiv x y && go l' m'
         | _, _ => false
         end) l m
  | OSet t c l, OSet u d m =>
      Z.eqb t u && Z.eqb c d && Nat.eqb (length l) (length m) &&
      forallb (fun x => existsb (fun y => oshape_equiv x y) m) l &&
      forallb (fun y => existsb (fun x => oshape_equiv x y) l) m
  | _, _ => false
  end.

(* the value an observed shape denotes, and whether every Count() is the number of enumerated members *)
Fixpoint oval (s : oshape) : val :=
  match s with
  | ONum n => VNum n
  | OTup _ l => VTup (map (fun p => (fst p, oval (snd p))) l)
  | OSet _ _ l => VSet (map oval l)
  | OOther => VTup [([0], VNum (NInt 0))]
  end.
Fixpoint ocounts_ok (s : oshape) : bool :=
  match s with
  | ONum _ => true
  | OTup _ l => forallb (fun p => ocounts_ok (snd p)) l
  | OSet _ c l => Z.eqb c (Z.of_nat (length l)) && forallb ocounts_ok l
  | OOther => false
  end.

(* ---------- region of the bucket-key finding, decided on the denotation ---------- *)
Definition is_sugar_names (l : list (name * val)) : option Z :=
  match l with
  | [(n1, _); (n2, _)] =>
      if name_eqb n1 n_at then
        if name_eqb n2 n_char then Some 1 else if name_eqb n2 n_byte then Some 2
        else if name_eqb n2 n_item then Some 3 else if name_eqb n2 n_value then Some 4 else None
      else None
  | _ => None
  end.
(* (kind of bucket, the names of a relation bucket, the string the bucket is filed under) *)
Definition vbucket (v : val) : Z * list name * list Z :=
  match v with
  | VTup [] => (0, [], s_generic)
  | VTup l =>
      match is_sugar_names l with
      | Some 1 => (1, [], s_char) | Some 2 => (2, [], s_byte) | Some 3 => (3, [], s_item) | Some _ => (4, [], s_entry)
      | None => (5, map fst l, join_names (map fst l))
      end
  | _ => (0, [], s_generic)
  end.
Definition bucket_clash (a b : val) : bool :=
  let '(ka, na, sa) := vbucket a in
  let '(kb, nb, sb) := vbucket b in
  zlist_eq sa sb && negb (Z.eqb ka kb && names_eq_list na nb).
Fixpoint clash_list (l : list val) : bool :=
  match l with
  | [] => false
  | x :: l' => existsb (bucket_clash x) l' || clash_list l'
  end.
Fixpoint has_bucket_clash (v : val) : bool :=
  match v with
  | VNum _ => false
  | VTup l => existsb (fun p => has_bucket_clash (snd p)) l
  | VSet l => clash_list l || existsb has_bucket_clash l
  end.

Definition val_region (v : val) : Z :=
  if has_collision v then 1 else if has_bytes_gap v then 2 else if has_illtyped_sugar v then 3
  else if has_bucket_clash v then 4 else 0.

(* ---------- cases ---------- *)
Inductive obsres := ObsOk (s : oshape) | ObsPanic | ObsBad.
Inductive obool := OBTrue | OBFalse | OBNone.      (* OBNone: Equal was not called or panicked *)

Record bcase := { b_id : Z; b_a : cons; b_b : cons; b_oa : obsres; b_ob : obsres; b_ab : obool; b_ba : obool }.

Definition SHAPE_FUEL : nat := 40.

Definition obool_is (o : obool) (b : bool) : bool :=
  match o with OBTrue => b | OBFalse => negb b | OBNone => false end.

(* property oracle for one construction: 0 holds, 1 wrong members / duplicates / Count, 3 panic *)
Definition oracle_one (c : cons) (o : obsres) : Z :=
  match o with
  | ObsOk s =>
      let w := oval s in
      if veqb (norm w) (denote c) && Nat.eqb (vsize (norm w)) (vsize w) && ocounts_ok s then 0 else 1
  | ObsPanic => 3
  | ObsBad => 3
  end.

(* model against implementation for one construction: 0 agree (or not modelled), 4 shape differs, 5 panic on one side only *)
Definition model_one (c : cons) (o : obsres) : Z :=
  match construct c, o with
  | BOk r, ObsOk s => if oshape_equiv (shape SHAPE_FUEL r) s then 0 else 4
  | BOk _, _ => 5
  | BPanic, ObsPanic => 0
  | BPanic, _ => 5
  | BUnspec, _ => 0
  end.

(* the hypothesis `equal_sound_on` of C02_builder_denotes_members, evaluated on the members of every set that is built *)
Fixpoint sound_everywhere (c : cons) : bool :=
  match c with
  | CNum _ => true
  | CTup l => forallb (fun p => sound_everywhere (snd p)) l
  | CSet l => forallb sound_everywhere l &&
              match bres_all (map construct l) with BOk ms => equal_sound_onb ms | _ => true end
  end.

Definition first_nz (l : list Z) : Z := fold_right (fun x acc => if Z.eqb x 0 then acc else x) 0 l.

(* 0  agree
   1  a built value does not denote exactly the members it was given (or repeats one, or Count() is off)
   2  Equal differs from equality of the denotations
   3  the implementation panics on a construction
   4  Go type / Count / members differ from the model          (correspondence)
   5  panic on one side only                                    (correspondence)
   6  Equal differs from rep_equal                               (correspondence)
   7  outside every region, Equal identifies two components of a built set that denote different values:
      the hypothesis of C02_builder_denotes_members fails     (correspondence)
   reported = code + 100 * region (1 superimposed items, 2 byte gaps, 3 ill-typed sugar tuple, 4 bucket keys) *)
Definition classifyB (k : bcase) : Z :=
  let va := denote (b_a k) in
  let vb := denote (b_b k) in
  let region := Z.max (val_region va) (val_region vb) in
  let p_eq :=
    match b_oa k, b_ob k with
    | ObsOk _, ObsOk _ =>
        if obool_is (b_ab k) (veqb va vb) && obool_is (b_ba k) (veqb va vb) then 0 else 2
    | _, _ => 0
    end in
  let m_eq :=
    match construct (b_a k), construct (b_b k), b_oa k, b_ob k with
    | BOk ra, BOk rb, ObsOk _, ObsOk _ =>
        if obool_is (b_ab k) (rep_equal ra rb) && obool_is (b_ba k) (rep_equal rb ra) then 0 else 6
    | _, _, _, _ => 0
    end in
  let prop := first_nz [oracle_one (b_a k) (b_oa k); oracle_one (b_b k) (b_ob k); p_eq] in
  let model := if Z.eqb region 4 then 0      (* which bucket survives depends on Go's map iteration order *)
               else first_nz [model_one (b_a k) (b_oa k); model_one (b_b k) (b_ob k); m_eq;
                              if Z.eqb region 0 && negb (sound_everywhere (b_a k) && sound_everywhere (b_b k)) then 7 else 0] in
  let code := if Z.eqb prop 0 then model else prop in
  if Z.eqb code 0 then 0 else code + 100 * region.

Definition reportB (l : list bcase) : list (Z * Z) :=
  filter (fun p => negb (Z.eqb (snd p) 0)) (map (fun k => (b_id k, classifyB k)) l).

(* coverage: Go type of the model's representation of each construction (0 when the model has none) *)
Definition model_types (l : list bcase) : list Z :=
  flat_map (fun k => [match construct (b_a k) with BOk r => rtype r | BPanic => -1 | BUnspec => -2 end;
                      match construct (b_b k) with BOk r => rtype r | BPanic => -1 | BUnspec => -2 end]) l.
