(* Correspondence support for C14: compares the implementation's observed
   results with the model, inside Coq. *)
From Arrai Require Import Base.Val Sys.SeqStd Proofs.SeqStdP.

Inductive obs14 := OBool (b : bool) | OSeq (e : enc) (l : list Z) | OSeqs (e : enc) (ls : list (list Z)) | OErr | OBad.

Fixpoint zlist_eqb (a b : list Z) : bool :=
  match a, b with
  | [], [] => true
  | x :: a', y :: b' => Z.eqb x y && zlist_eqb a' b'
  | _, _ => false
  end.
Fixpoint zlists_eqb (a b : list (list Z)) : bool :=
  match a, b with
  | [], [] => true
  | x :: a', y :: b' => zlist_eqb x y && zlists_eqb a' b'
  | _, _ => false
  end.

Definition agrees (r : sres) (o : obs14) : bool :=
  match r, o with
  | RBool a, OBool b => Bool.eqb a b
  | RSeq e l, OSeq e' l' => zlist_eqb l l' && (is_nil l || enc_eqb e e')
  | RSeqs e ls, OSeqs e' ls' => zlists_eqb ls ls' && (forallb is_nil ls || enc_eqb e e')
  | RErr, OErr => true
  | _, _ => false
  end.

Record case14 := { c_id : Z; c_enc : enc; c_call : scall; c_obs : obs14 }.

(* 0 = agrees; 1 = differs inside the theorem's domain (a violation of C14 on
   this input); 2 = differs only outside it (unsupported encoding/operation). *)
Definition classify (k : case14) : Z :=
  if agrees (run_call (c_enc k) (c_call k)) (c_obs k) then 0
  else if supported (c_enc k) (c_call k) then 1 else 2.

Definition report (l : list case14) : list (Z * Z) :=
  filter (fun p => negb (Z.eqb (snd p) 0)) (map (fun k => (c_id k, classify k)) l).
