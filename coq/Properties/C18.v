(* Property C18: sandboxed evaluation reaches only the scope and library it was given.
   Statements only; the model is Sys/Sandbox.v (+ Sys/SandboxGen.v for the inventory
   regenerated from the running implementation), proofs are in Proofs/SandboxP.v.

   Reading guide.  `contextual q w fuel l sc s` is contextualEval of std_eval.go with the
   parsed configuration (stdlib = l, or the safe library when None; scope = sc) on source s;
   its result is (Val v | Err | Fuel, effect log).  `auth S F v` is an upper bound of the
   capability classes a value can exercise or hand out (S / F = authority of the safe / full
   library; WF says these bound the world's two libraries).  `q` = one boolean per defective
   call site (on = the Go code today); quirks_off is the repaired model. *)
From Coq Require Import List String Bool.
From Arrai Require Import Sys.Sandbox Sys.SandboxGen Gen.Stdlib Proofs.SandboxP Sys.SandboxHist Proofs.SandboxHistP.
Import ListNotations.
Open Scope string_scope.
Open Scope list_scope.

(* (1) Confinement, all programs and all configurations, nested //eval.* and function
       building included: whatever the evaluation DOES (effects) and whatever it RETURNS is
       within the authority of config.stdlib and config.scope; no import is resolved.
       Out-of-fuel runs return Fuel, so `r = Val v` excludes them. *)
Theorem C18_confinement :
  forall q w S F, WF S F w -> forall fuel l sc s r log,
  contextual q w fuel l sc s = contextual quirks_off w fuel l sc s ->
  contextual q w fuel l sc s = (r, log) ->
  let B := auth S F (lib_or_safe w l) ++ auth S F sc in
  incl (effs log) B /\ no_import log /\ (forall v, r = Val v -> incl (auth S F v) B).
Proof. exact contextual_confined_guarded. Qed.
Print Assumptions C18_confinement.

(* the same for the repaired model without the guard *)
Theorem C18_confinement_repaired :
  forall w S F, WF S F w -> forall fuel l sc s r log,
  contextual quirks_off w fuel l sc s = (r, log) ->
  let B := auth S F (lib_or_safe w l) ++ auth S F sc in
  incl (effs log) B /\ no_import log /\ (forall v, r = Val v -> incl (auth S F v) B).
Proof. exact contextual_confined. Qed.
Print Assumptions C18_confinement_repaired.

(* (2) "any other // reference fails": a member that is not in the library handed to the
       sandbox is an error, for every quirk setting. *)
Theorem C18_unknown_member_fails :
  forall q w l sc a fuel,
  vget pkg sc = None -> vget a (lib_or_safe w l) = None ->
  contextual q w (3 + fuel) l sc (EDot EPkg a) = (Err, []).
Proof. exact unknown_member_fails. Qed.
Print Assumptions C18_unknown_member_fails.

(* (2b) The type switches of evalExpr / contextualEval: every representation they accept (string,
        offset string, byte array) reaches the SAME evaluation, every other one is refused; so (1)
        holds whichever way source text is handed over. *)
Theorem C18_source_representation_irrelevant :
  forall q w fuel r1 r2 s, src_arm r1 <> None -> src_arm r2 <> None ->
  apply q w fuel VEvalValue (VSrc r1 s) = apply q w fuel VEvalValue (VSrc r2 s) /\
  forall cfg, apply q w fuel (VEvalWith cfg) (VSrc r1 s) = apply q w fuel (VEvalWith cfg) (VSrc r2 s).
Proof. exact source_representation_irrelevant. Qed.
Print Assumptions C18_source_representation_irrelevant.

Theorem C18_non_source_refused :
  forall q w fuel r s, src_arm r = None ->
  apply q w (S fuel) VEvalValue (VSrc r s) = (Err, []) /\
  forall cfg, apply q w (S fuel) (VEvalWith cfg) (VSrc r s) = (Err, []).
Proof. exact non_source_refused. Qed.
Print Assumptions C18_non_source_refused.

(* (3) What the harness can observe of a result (functions found through tuple attributes,
       closures applied to the probe argument) is within the value's authority: the
       reachability walk of the correspondence under-approximates `auth`. *)
Theorem C18_observation_sound :
  forall w S F, WF S F w -> forall fuel probes v,
  incl (observe quirks_off w fuel probes v) (auth S F v).
Proof. exact observe_auth. Qed.
Print Assumptions C18_observation_sound.

(* (4) The safe library of the RUNNING implementation (inventory regenerated into
       Gen/Stdlib.v on every check) contains no file-reading, network, command-execution or
       unclassified function, and no ambient-authority one, except the listed open findings.
       A new function in the safe library that is not classified pure breaks this proof. *)
Theorem C18_safe_natives_classified_except_known :
  forall r, In r safe_table -> excepted known_exceptions (row_path r) = false ->
  forbidden (row_class r) = false /\ ambient (row_class r) = false.
Proof. exact safe_natives_classified. Qed.
Print Assumptions C18_safe_natives_classified_except_known.

(* the world built from the inventory is well formed, so (1) applies to it *)
Theorem C18_inventory_world_wf : WF gen_S gen_F gen_world.
Proof. exact gen_world_wf. Qed.
Print Assumptions C18_inventory_world_wf.

(* (5) Consequence for the default sandbox over the current inventory: no file-reading or
       network authority is obtained or exercised, and no import is resolved. *)
Theorem C18_default_sandbox_no_file_net :
  forall fuel s r log, run_safe quirks_off gen_world fuel s = (r, log) ->
  no_import log /\
  (forall c, In c (effs log) -> c <> CFile /\ c <> CNet /\ c <> CUnclassified) /\
  (forall v c, r = Val v -> In c (auth gen_S gen_F v) -> c <> CFile /\ c <> CNet /\ c <> CUnclassified).
Proof. exact default_sandbox_no_file_net. Qed.
Print Assumptions C18_default_sandbox_no_file_net.

(* (6) Each defect alone refutes the property (witnesses = the replay inputs of the open findings). *)
Theorem C18_q_evalvalue_full_scope_refuted : exists fuel s v log,
  run_safe only_evalvalue gen_world fuel s = (Val v, log) /\
  ~ incl (auth gen_S gen_F v) (auth gen_S gen_F (w_safe gen_world)).
Proof. exact q_evalvalue_full_scope_refuted. Qed.
Print Assumptions C18_q_evalvalue_full_scope_refuted.

Theorem C18_q_sandbox_local_import_refuted : exists fuel s r log,
  contextual only_local_import gen_world fuel (Some VTupNil) VTupNil s = (r, log) /\ ~ no_import log.
Proof. exact q_sandbox_local_import_refuted. Qed.
Print Assumptions C18_q_sandbox_local_import_refuted.

Theorem C18_q_sandbox_local_import_refuted_value : exists fuel s v log,
  contextual only_local_import gen_world fuel (Some VTupNil) VTupNil s = (Val v, log) /\
  ~ incl (auth gen_S gen_F v) [].
Proof. exact q_sandbox_local_import_refuted_value. Qed.
Print Assumptions C18_q_sandbox_local_import_refuted_value.

Theorem C18_q_sandbox_remote_import_refuted : exists fuel s r log,
  contextual only_remote_import gen_world fuel (Some VTupNil) VTupNil s = (r, log) /\ ~ no_import log.
Proof. exact q_sandbox_remote_import_refuted. Qed.
Print Assumptions C18_q_sandbox_remote_import_refuted.

Theorem C18_q_macro_full_scope_refuted : exists fuel s v log,
  contextual only_macro gen_world fuel (Some VTupNil) VTupNil s = (Val v, log) /\
  ~ incl (auth gen_S gen_F v) [].
Proof. exact q_macro_full_scope_refuted. Qed.
Print Assumptions C18_q_macro_full_scope_refuted.

Theorem C18_safe_has_exec_refuted :
  safe_natives_classified_except [] safe_table = false /\ In CExec gen_S.
Proof. exact safe_has_exec_refuted. Qed.
Print Assumptions C18_safe_has_exec_refuted.

Theorem C18_safe_has_ambient_refuted :
  safe_natives_classified_except [["deprecated"; "exec"]] safe_table = false /\
  In CFsMeta gen_S /\ In CEnv gen_S /\ In CStdin gen_S.
Proof. exact safe_has_ambient_refuted. Qed.
Print Assumptions C18_safe_has_ambient_refuted.

(* (7) Non-vacuity: with ALL quirks on, a configuration that passes //os.file in and a program
       using scope, stdlib and a nested //eval.eval satisfies the guard and returns a value
       that really carries the file capability. *)
Example C18_nonvacuous :
  contextual quirks_on gen_world 20 (Some nv_lib) nv_scope nv_src =
  contextual quirks_off gen_world 20 (Some nv_lib) nv_scope nv_src /\
  exists v, contextual quirks_on gen_world 20 (Some nv_lib) nv_scope nv_src = (Val v, []) /\
            In CFile (auth gen_S gen_F v) /\
            incl (auth gen_S gen_F v) (auth gen_S gen_F (lib_or_safe gen_world (Some nv_lib)) ++ auth gen_S gen_F nv_scope).
Proof. exact nonvacuous. Qed.
Print Assumptions C18_nonvacuous.

(* (8) Histories of evaluators (Sys/SandboxHist.v).  A run creates several evaluators and uses
       them in some order; a use is (the function `X.eval` evaluates to, the source value).
       `hist_run q w f keq m h` runs the uses in order through a machine that remembers ONE
       (config, scope) pair and consults it with the key comparison keq; std_eval.go today is
       keq = no_memo (contextualEval rebuilds the scope from the config of THIS call, nothing is
       kept).  Every use of a history gives exactly what that use gives alone: what a sandboxed
       source reaches is a function of its own (config, source), whatever evaluator was created
       or used before it - from any memo state m. *)
Theorem C18_evaluator_uses_are_independent :
  forall q w f m h, hist_run q w f no_memo m h = map (use_alone q w f) h.
Proof. exact evaluator_uses_are_independent. Qed.
Print Assumptions C18_evaluator_uses_are_independent.

(* a call of an evaluator is: its own config parsed, its scope built from that, the source run in it *)
Theorem C18_evaluator_call_uses_own_config :
  forall q w f cfg va,
  apply q w (S f) (VEvalWith cfg) va =
  match scope_of w cfg with Some env => use_in_env q w f env va | None => (Err, []) end.
Proof. exact apply_evalwith. Qed.
Print Assumptions C18_evaluator_call_uses_own_config.

(* (8b) The obligation of any reuse between evaluator calls, explicit: if equal keys build equal
        scopes (key_sound) the reuse is invisible ... *)
Theorem C18_evaluator_uses_independent_under_sound_key :
  forall q w f keq m h, key_sound w keq -> memo_ok w m ->
  hist_run q w f keq m h = map (use_alone q w f) h.
Proof. exact evaluator_uses_independent_under_sound_key. Qed.
Print Assumptions C18_evaluator_uses_independent_under_sound_key.

(* ... and value equality as rel.Closure.Equal computes it (function body only, captured scope
   ignored) is NOT such a key: with the evaluator factory
     let mk = \r //eval.evaluator((scope: (read: \p r(p)))); A = mk(\u (capA: ..)); B = mk(\u (denied: ..))
   B used right after A is served A's scope and its source obtains capA. *)
Theorem C18_memo_keyed_by_closure_blind_equal_refuted :
  exists w t a b,
    run_top quirks_off w 40 factory_setup = (Val t, []) /\
    evaluator_fn t "A" = Some a /\ evaluator_fn t "B" = Some b /\
    let h := [ {| u_fn := a; u_src := read_probe |}; {| u_fn := b; u_src := read_probe |} ] in
    map (use_alone quirks_off w 40) h = [ (Val capA_val, []); (Val denied_val, []) ] /\
    hist_run quirks_off w 40 closure_blind_equal None h = [ (Val capA_val, []); (Val capA_val, []) ].
Proof. exact memo_keyed_by_closure_blind_equal_refuted. Qed.
Print Assumptions C18_memo_keyed_by_closure_blind_equal_refuted.

Theorem C18_closure_blind_equal_not_key_sound : exists w, ~ key_sound w closure_blind_equal.
Proof. exact closure_blind_equal_not_key_sound. Qed.
Print Assumptions C18_closure_blind_equal_not_key_sound.

(* hypotheses of (8b) are satisfiable by a key that does hit the memo *)
Example C18_sound_key_example :
  (forall w, key_sound w both_unit) /\
  memo_ok tiny_world (Some (VTupNil, VTupCons pkg tiny_lib VTupNil)) /\
  let u := {| u_fn := VEvalWith VTupNil; u_src := VSrc RString (EDot EPkg "eval") |} in
  hist_run quirks_off tiny_world 10 both_unit None [u; u] = map (use_alone quirks_off tiny_world 10) [u; u] /\
  snd (hstep quirks_off tiny_world 10 both_unit None u) <> None.
Proof. exact (conj key_sound_both_unit (conj memo_ok_unit both_unit_history_hits_the_memo)). Qed.
Print Assumptions C18_sound_key_example.
