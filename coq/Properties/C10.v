(* Property C10: every program ends in a value or an error, never a crash or a hang.
   PARTIAL.  No theorem here speaks about the Go evaluator's behaviour on all
   programs: the reference interpreter is total by construction (a Coq function)
   and has no crash outcome, so a "never panics" theorem about it would be
   vacuous.  What is machine-checked on every run is the INVENTORY of crash
   sites: the explicit panic( calls and unchecked type assertions of every
   function of the evaluator packages, regenerated from the current sources
   (go/ast) into Gen/Sites.v, must stay within the reviewed snapshot
   Sys/SitesKnown.v.  A change that adds a panic or an unchecked assertion to any
   function breaks [current_sites_known]; the check then searches for an input
   that crashes (three fuzz streams + the witnesses of all recorded findings).
   Whether a site is reachable is decided by running: every panic, fatal error
   or hang observed is reported with its site as signature. *)
From Coq Require Import List String ZArith.
From Arrai Require Import Gen.Sites Sys.SitesKnown Proofs.SitesP.

Theorem C10_crash_sites_within_reviewed_inventory : sites_within current_sites known_sites = true.
Proof. exact current_sites_known. Qed.
Print Assumptions C10_crash_sites_within_reviewed_inventory.

Theorem C10_inventory_meaning :
  forall cur known, sites_within cur known = true ->
    forall f p a, In (f, (p, a)) cur -> exists p' a', lookup_site f known = Some (p', a') /\ p <= p' /\ a <= a'.
Proof. exact sites_within_spec. Qed.
Print Assumptions C10_inventory_meaning.

(* ===== Crash outcomes inside a model: the slice + offset + holes sequence representations (Rep/SeqSafe.v) =====
   The model transcribes rel/value_set_array.go, value_set_str.go, value_set_bytes.go, expr_offset.go and
   Concatenate with Go's crashes in it (index / slice bounds / makeslice panics, two's complement int, the
   float conversions, loops on fuel).  PARTIAL: the theorems below cover every method of the byte-array
   representation, the queries of arrays, and the enumeration loops of arrays and byte arrays, for EVERY value
   satisfying the representation invariant and EVERY argument; Array.With/Without/Where and the String methods are
   transcribed and run against the implementation by the check (Check/C10Check.v) but their absence of panics is not
   proved yet.  The two [_refuted] statements are crashes the faithful model HAS outside the recorded regions; both
   were replayed on the implementation and are recorded as open findings. *)
From Arrai Require Import Rep.SeqSafe Proofs.SeqSafeP.
Import ListNotations.
Open Scope Z_scope.

(* every method of a byte array, on every argument value (any kind, any index incl. fractional, negative, huge,
   NaN): a value or an ordinary error - except that With may ask make() for more than the allocation limit,
   and then only inside the dense-storage region, given as a predicate on (offset, len, index) *)
Theorem C10_sequence_ops_never_panic_partial :
  forall (max_alloc : Z) (V : Type), 0 < max_alloc <= 281474976710656 ->
  forall (b : byt), inv_byt max_alloc b -> forall (x : arg V),
    ok (byt_has V b x) /\ ok (byt_call V b x) /\ ok (byt_without V b x) /\
    forall atf bf,
      match byt_with max_alloc V b (int_of_float atf) (byte_of_float bf) with
      | Val _ | ErrOrd => True
      | Panic s => s = SMakeslice /\ dense_region_byt max_alloc (boff b) (len (bbytes b)) (int_of_float atf) = true
      | Hang => False
      end.
Proof.
  intros max_alloc V Hmax b Hb x. repeat split.
  - exact (byt_has_safe max_alloc V Hmax b x Hb).
  - exact (byt_call_safe V b x).
  - exact (okv_ok _ _ (byt_without_safe max_alloc V Hmax b x Hb)).
  - intros atf bf. pose proof (byt_with_safe max_alloc V Hmax b (int_of_float atf) (byte_of_float bf) Hb (int_of_float_range atf)) as H.
    destruct (byt_with max_alloc V b (int_of_float atf) (byte_of_float bf)); auto.
Qed.
Print Assumptions C10_sequence_ops_never_panic_partial.

(* the queries of an array never crash, whatever the argument *)
Theorem C10_array_queries_never_panic :
  forall (max_alloc : Z) (V : Type) (veq : V -> V -> bool), 0 < max_alloc <= 281474976710656 ->
  forall (a : arr V), inv_arr max_alloc V a -> forall (x : arg V), ok (arr_has V veq a x) /\ ok (arr_call V a x).
Proof.
  intros max_alloc V veq Hmax a Ha x. split.
  - exact (arr_has_safe max_alloc V veq Hmax a x Ha).
  - exact (arr_call_safe V a x).
Qed.
Print Assumptions C10_array_queries_never_panic.

(* With / Without of a byte array give a value that satisfies the invariant again (or leave the representation) *)
Theorem C10_sequence_ops_preserve_invariant_partial :
  forall (max_alloc : Z) (V : Type), 0 < max_alloc <= 281474976710656 ->
  forall (b : byt), inv_byt max_alloc b -> forall (x : arg V) atf bf,
    okv (byt_without V b x) (inv max_alloc V) /\
    (forall r, byt_with max_alloc V b (int_of_float atf) (byte_of_float bf) = Val r -> inv max_alloc V r).
Proof.
  intros max_alloc V Hmax b Hb x atf bf. split.
  - exact (byt_without_safe max_alloc V Hmax b x Hb).
  - intros r E. pose proof (byt_with_safe max_alloc V Hmax b (int_of_float atf) (byte_of_float bf) Hb (int_of_float_range atf)) as H.
    rewrite E in H. exact H.
Qed.
Print Assumptions C10_sequence_ops_preserve_invariant_partial.

(* every MoveNext loop ends within its fuel (len steps per call, len + 1 calls) and the enumeration visits exactly
   the non-hole cells, each once, in index order: arrays (the loop that would spin on trailing holes) and byte arrays *)
Theorem C10_enumeration_terminates :
  forall (max_alloc : Z) (V : Type), 0 < max_alloc <= 281474976710656 ->
  (forall (a : arr V), inv_arr max_alloc V a -> arr_enum V a = Val (items_from V (aoff V a) 0 (avals V a))) /\
  (forall (b : byt), inv_byt max_alloc b -> byt_enum b = Val (cells_from (boff b) 0 (bbytes b))).
Proof.
  intros max_alloc V Hmax. split.
  - intros a Ha. exact (arr_enum_terminates max_alloc V Hmax a Ha).
  - intros b Hb. exact (byt_enum_terminates max_alloc Hmax b Hb).
Qed.
Print Assumptions C10_enumeration_terminates.

(* without the invariant the array loop does not end: a trailing hole exhausts any fuel *)
Example C10_trailing_hole_hangs :
  arr_enum Z {| avals := [Some 1; None]; aoff := 0; acnt := 1 |} = Hang.
Proof. vm_compute. reflexivity. Qed.

(* REFUTED (finding KF-C10-32): a character tuple with a negative rune breaks the string invariant and the next
   Without walks off the slice *)
Theorem C10_negative_rune_refuted :
  exists s, as_string 4294967296 Z [(0, -1); (1, 97)] = Val (RStr s) /\
            str_without 4294967296 Z s (AChar (FInt 1) (FInt 97)) = Panic SIndex.
Proof. exact negative_rune_crash. Qed.
Print Assumptions C10_negative_rune_refuted.

(* REFUTED (finding KF-C10-33): an offset that moves the index range across the int64 limit is accepted, and
   rebuilding the value from its enumeration indexes an empty slice *)
Theorem C10_index_range_wrap_refuted :
  let a := {| avals := [Some 1; Some 2; Some 3]; aoff := 0; acnt := 3 |} in
  inv_arr 4294967296 Z a /\
  exists a', step 4294967296 Z Z.eqb (RArr Z a) (OOffset Z (ANum (FInt max_int))) = Val (RArr Z a') /\
             inv_arr 4294967296 Z a' /\
             seq_concat 4294967296 Z (RArr Z a') (RArr Z a) = Panic SIndex.
Proof. exact index_range_wrap_crash. Qed.
Print Assumptions C10_index_range_wrap_refuted.

(* Array.Without - with NewOffsetArray and its two trimming loops, clone and the hole punched into an inner cell -
   on EVERY array satisfying the invariant and EVERY argument value (any kind, any index): it returns a value, never a
   panic, never an error, and the value satisfies the invariant again (or is the empty set / unchanged) *)
From Arrai Require Import Proofs.SeqSafeArrP.
Theorem C10_array_without_never_panics :
  forall (max_alloc : Z) (V : Type) (veq : V -> V -> bool), 0 < max_alloc <= 281474976710656 ->
  forall (a : arr V) (x : arg V), inv_arr max_alloc V a ->
    exists r, arr_without max_alloc V veq a x = Val r /\ inv max_alloc V r.
Proof. intros max_alloc V veq Hmax a x Ha. exact (arr_without_safe max_alloc V veq Hmax a x Ha). Qed.
Print Assumptions C10_array_without_never_panics.

(* NewOffsetArray on any cells that are empty or hold an item: a value satisfying the invariant (the trimming is right) *)
Theorem C10_new_offset_array_establishes_invariant :
  forall (max_alloc : Z) (V : Type), 0 < max_alloc <= 281474976710656 ->
  forall (off : Z) (vs : list (option V)), min_int <= off <= max_int -> len vs <= max_alloc ->
    (vs = [] \/ exists x, In (Some x) vs) ->
    exists r, new_offset_array V off vs = Val r /\ inv max_alloc V r.
Proof. intros max_alloc V Hmax off vs Ho Hl Hs. exact (new_offset_array_inv max_alloc V off vs Ho Hl Hs). Qed.
Print Assumptions C10_new_offset_array_establishes_invariant.

(* a non-trivial instance: removing the first item of [1, hole, hole, 4] at offset -3 re-trims to [4] at offset 0 *)
Example C10_array_without_example :
  arr_without 4294967296 Z Z.eqb {| avals := [Some 1; None; None; Some 4]; aoff := -3; acnt := 2 |} (AItem Z (FInt (-3)) 1)
  = Val (RArr Z {| avals := [Some 4]; aoff := 0; acnt := 1 |}).
Proof. vm_compute. reflexivity. Qed.

(* Array.withItem (= With on an item tuple), for EVERY array satisfying the invariant, EVERY index and item: a value
   satisfying the invariant again; or the makeslice panic, and then only inside the dense-storage region given as a
   predicate on (offset, len, index) (finding KF-C10-23); or the explicit superimposed-items panic, and then only when the
   cell holds a different item (finding KF-C10-20).  No index / slice-bounds panic, no hang. *)
From Arrai Require Import Proofs.SeqSafeArrWithP.
Theorem C10_array_with_panics_only_in_recorded_regions :
  forall (max_alloc : Z) (V : Type) (veq : V -> V -> bool), 0 < max_alloc <= 281474976710656 ->
  forall (a : arr V) (atf : fnum) (item : V), inv_arr max_alloc V a ->
    match arr_with_item max_alloc V veq a (int_of_float atf) item with
    | Val r => inv max_alloc V r
    | Panic s => (s = SMakeslice /\ dense_region max_alloc (aoff V a) (len (avals V a)) (int_of_float atf) = true) \/
                 (s = SSuperimposed /\ superimposed_region V veq a (int_of_float atf) item = true)
    | _ => False
    end.
Proof.
  intros max_alloc V veq Hmax a atf item Ha.
  exact (arr_with_item_safe max_alloc V veq Hmax a (int_of_float atf) item Ha (int_of_float_range atf)).
Qed.
Print Assumptions C10_array_with_panics_only_in_recorded_regions.

(* non-trivial instances: filling a hole, and prepending two cells before the offset *)
Example C10_array_with_example :
  arr_with_item 4294967296 Z Z.eqb {| avals := [Some 1; None; Some 3]; aoff := 0; acnt := 2 |} 1 5
  = Val (RArr Z {| avals := [Some 1; Some 5; Some 3]; aoff := 0; acnt := 3 |}) /\
  arr_with_item 4294967296 Z Z.eqb {| avals := [Some 1; None; Some 3]; aoff := 0; acnt := 2 |} (-2) 5
  = Val (RArr Z {| avals := [Some 5; None; Some 1; None; Some 3]; aoff := -2; acnt := 3 |}).
Proof. split; vm_compute; reflexivity. Qed.

(* Array.Where, for EVERY array satisfying the invariant and EVERY predicate - an arbitrary function from the item
   (index, value) to true / false / error, so every list of predicate outcomes incl. a failure part-way: the outcome is
   a value satisfying the invariant again (first and last cell are items, count = number of items - the trimming after
   the filter is right), the empty set, or the predicate's ordinary error.  Never a panic, never a hang. *)
From Arrai Require Import Proofs.SeqSafeArrWhereP.
Theorem C10_array_where_never_panics :
  forall (max_alloc : Z) (V : Type), 0 < max_alloc <= 281474976710656 ->
  forall (a : arr V) (p : Z -> V -> option bool), inv_arr max_alloc V a ->
    match arr_where max_alloc V a p with
    | Val r => inv max_alloc V r
    | ErrOrd => True
    | Panic _ | Hang => False
    end.
Proof.
  intros max_alloc V Hmax a p Ha. pose proof (arr_where_safe max_alloc V Hmax a p Ha) as H.
  destruct (arr_where max_alloc V a p); exact H.
Qed.
Print Assumptions C10_array_where_never_panics.

(* non-trivial instances: keeping only the middle item re-trims both ends; a predicate failing on the last item is an error *)
Example C10_array_where_example :
  arr_where 4294967296 Z {| avals := [Some 1; None; Some 3; Some 4]; aoff := 5; acnt := 3 |} (fun i _ => Some (i =? 7))
  = Val (RArr Z {| avals := [Some 3]; aoff := 7; acnt := 1 |}) /\
  arr_where 4294967296 Z {| avals := [Some 1; None; Some 3; Some 4]; aoff := 5; acnt := 3 |}
            (fun i _ => if i =? 8 then None else Some false) = ErrOrd.
Proof. split; vm_compute; reflexivity. Qed.

(* asArray (what SetBuilder.Finish, hence =>, ++ and the set operators, end in) on EVERY non-empty list of item tuples,
   superimposed or not: it returns; or it panics with makeslice, and then the index span max-min+1 is above the allocation
   limit (dense storage, KF-C10-23); or it indexes an empty slice, and then the span is exactly 2^64 - the index range
   crosses the int64 limit (KF-C10-33).  No other panic, no hang.  PARTIAL: that the returned array satisfies the
   invariant is not proved here. *)
From Arrai Require Import Proofs.SeqSafeAsArrayP.
Theorem C10_as_array_panics_only_in_recorded_regions_partial :
  forall (max_alloc : Z) (V : Type), 0 < max_alloc <= 281474976710656 ->
  forall (values : list (Z * V)), values <> [] -> (forall t, In t values -> min_int <= fst t <= max_int) ->
    match as_array max_alloc V values with
    | Val _ => True
    | Panic s => (s = SMakeslice /\ max_alloc < max_at values - min_at values + 1 < two64) \/
                 (s = SIndex /\ max_at values - min_at values + 1 = two64)
    | _ => False
    end.
Proof. intros max_alloc V Hmax values Hne Hr. exact (as_array_safe max_alloc V Hmax values Hne Hr). Qed.
Print Assumptions C10_as_array_panics_only_in_recorded_regions_partial.

(* instances: two items 3 apart give 4 cells; the two ends of the int64 range give the empty-slice panic of KF-C10-33 *)
Example C10_as_array_example :
  as_array 4294967296 Z [(5, 1); (2, 7)] = Val (RArr Z {| avals := [Some 7; None; None; Some 1]; aoff := 2; acnt := 2 |}) /\
  as_array 4294967296 Z [(max_int, 1); (min_int, 2)] = Panic SIndex.
Proof. split; vm_compute; reflexivity. Qed.

(* the hypotheses are satisfiable by non-trivial values *)
Example C10_inv_arr_example : inv_arr 4294967296 Z {| avals := [Some 1; None; None; Some 4]; aoff := -3; acnt := 2 |}.
Proof. vm_compute. repeat split; congruence. Qed.
Example C10_inv_byt_example : inv_byt 4294967296 {| bbytes := [1; 2]; boff := 3 |}.
Proof. vm_compute. repeat split; congruence. Qed.
