(* Property C10: every program ends in a value or an error, never a crash or a hang.
   PARTIAL.  No theorem here speaks about the Go evaluator's behaviour on all
   programs: the reference interpreter is total by construction (a Coq function)
   and has no crash outcome, so a "never panics" theorem about it would be
   vacuous.  What is machine-checked on every run is the INVENTORY of crash
   sites: the explicit panic( calls and unchecked type assertions of every
   function of the evaluator packages, regenerated from the current sources
   (go/ast) into Gen/Sites.v, must stay within the reviewed snapshot
   Sys/SitesKnown.v.  A change that adds a panic or an unchecked assertion to any
   function breaks [current_sites_known]; the check then searches for an input
   that crashes (three fuzz streams + the witnesses of all recorded findings).
   Whether a site is reachable is decided by running: every panic, fatal error
   or hang observed is reported with its site as signature. *)
From Coq Require Import List String ZArith.
From Arrai Require Import Gen.Sites Sys.SitesKnown Proofs.SitesP.

Theorem C10_crash_sites_within_reviewed_inventory : sites_within current_sites known_sites = true.
Proof. exact current_sites_known. Qed.
Print Assumptions C10_crash_sites_within_reviewed_inventory.

Theorem C10_inventory_meaning :
  forall cur known, sites_within cur known = true ->
    forall f p a, In (f, (p, a)) cur -> exists p' a', lookup_site f known = Some (p', a') /\ p <= p' /\ a <= a'.
Proof. exact sites_within_spec. Qed.
Print Assumptions C10_inventory_meaning.
