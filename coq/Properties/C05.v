(* Property C05: keyed collections act as functions; >>, >>>, ++ and offsets
   keep keys right.  Statements about the reference semantics (Eval/Interp.v);
   the Go representations are tied to it by the correspondence run. *)
From Arrai Require Import Base.Val Spec.SetAlg Eval.Interp Proofs.ValOrder Proofs.SetAlgP Proofs.KeyedP Proofs.SeqMapP Rep.DictRep Proofs.DictRepP.

(* what "the values paired with k" means *)
Theorem C05_lookup :
  forall k l vs, lookup_all k l = Some vs ->
    (forall m, In m l -> exists k' n v, as_pair m = Some (k', n, v)) /\
    (forall v, In v vs <-> exists m n, In m l /\ as_pair m = Some (k, n, v)).
Proof. exact lookup_all_spec. Qed.
Print Assumptions C05_lookup.

(* c(k) = v iff v is the unique value paired with k *)
Theorem C05_call_returns_the_unique_value :
  forall c k v, call_data c k = CROne v <->
    exists r, lookup_all k c = Some (v :: r) /\ forall x, In x r -> x = v.
Proof. exact call_one. Qed.
Print Assumptions C05_call_returns_the_unique_value.

(* the ?: fallback case is exactly "no value paired with k" *)
Theorem C05_fallback_exactly_when_no_value :
  forall c k, call_data c k = CRNone <-> lookup_all k c = Some [].
Proof. exact call_none. Qed.
Print Assumptions C05_fallback_exactly_when_no_value.

Theorem C05_call_error_when_several :
  forall c k, call_data c k = CRMany <->
    exists x r, lookup_all k c = Some (x :: r) /\ exists y, In y r /\ y <> x.
Proof. exact call_many. Qed.
Print Assumptions C05_call_error_when_several.

Theorem C05_concat_shifts_by_count :
  forall a b r, concat_sets a b = Ok r ->
    exists l, r = VSet l /\ ssorted l /\
      forall m, In m l <-> In m a \/ exists m0, In m0 b /\ shift_member (Z.of_nat (length a)) m0 = Ok m.
Proof. exact concat_spec. Qed.
Print Assumptions C05_concat_shifts_by_count.

Theorem C05_shift_changes_only_the_key :
  forall off m m', shift_member off m = Ok m' ->
    exists attrs k, m = VTup attrs /\ tget n_at attrs = Some (VNum k) /\
                    m' = VTup (ainsert (n_at, VNum (num_add k (NInt off))) attrs).
Proof. exact shift_member_spec. Qed.
Print Assumptions C05_shift_changes_only_the_key.

Theorem C05_offset_shifts_every_index :
  forall n l k ps r, l <> [] -> as_seq l = Some (k, ps) ->
    bin_data BOffset (VNum (NInt n)) (VSet l) = Ok r ->
    exists l', r = VSet l' /\ ssorted l' /\
      forall m, In m l' <-> exists i x, In (i, x) ps /\ m = vpair k (vint (i + n)) x.
Proof. exact offset_spec. Qed.
Print Assumptions C05_offset_shifts_every_index.

(* c(k) and c(k)?:d in the expression language are these functions of the operands' values; the fallback is
   evaluated only when no value is paired with the key (it may fail or loop otherwise) *)
Theorem C05_call_forms_are_these_functions :
  forall fuel rho f a d c k,
    eval fuel rho f = Ok (D (VSet c)) -> eval fuel rho a = Ok (D k) ->
    eval (S fuel) rho (ECall f a) = match call_data c k with CROne v => Ok (D v) | CRNotKeyed => Unspec | _ => Err end /\
    eval (S fuel) rho (ESafeCall f a d) =
      match call_data c k with CROne v => Ok (D v) | CRNone => eval fuel rho d | CRNotKeyed => Unspec | CRMany => Err end.
Proof.
  intros fuel rho f a d c k Hf Ha. split;
    [apply call_operator_is_call_data | apply safe_call_operator_is_call_data]; assumption.
Qed.
Print Assumptions C05_call_forms_are_these_functions.

(* >> and >>> keep every key (offsets and holes included), for every operand, transformer, scope
   and fuel: position for position the result is built from a member with the same key and the
   same attribute name, and from nothing else *)
Theorem C05_seqmap_keeps_keys :
  forall fuel rho w a fn l r,
    eval fuel rho a = Ok (D (VSet l)) ->
    eval (S fuel) rho (ESeqArrow w a fn) = Ok (D r) ->
    exists ms, r = mkset (map rekeyed ms) /\
      Forall2 (fun m t => exists v, as_pair m = Some (fst (fst t), snd (fst t), v)) l ms.
Proof. exact seqarrow_keeps_keys. Qed.
Print Assumptions C05_seqmap_keeps_keys.

Theorem C05_seqmap_invents_no_key :
  forall fuel rho w a fn l r,
    eval fuel rho a = Ok (D (VSet l)) ->
    eval (S fuel) rho (ESeqArrow w a fn) = Ok (D r) ->
    exists ms, r = mkset (map rekeyed ms) /\ length ms = length l /\
      forall t, In t ms -> exists m v, In m l /\ as_pair m = Some (fst (fst t), snd (fst t), v).
Proof. exact seqarrow_no_new_keys. Qed.
Print Assumptions C05_seqmap_invents_no_key.

(* non-vacuity: an offset array with a hole *)
Example C05_seqmap_keeps_keys_example :
  run_data 60 (ESeqArrow false
                 (EBin BOffset (ELit (vint 2)) (EArrE [Some (ELit (vint 1)); None; Some (ELit (vint 3))]))
                 (EFn (PVar [46]) (EBin BAdd (EVar [46]) (ELit (vint 10)))))
  = Ok (VSet [vpair n_item (vint 2) (vint 11); vpair n_item (vint 4) (vint 13)]).
Proof. vm_compute. reflexivity. Qed.

Example C05_probe_call :
  run_data 60 (ESafeCall (EArrE [Some (ELit (vint 1)); None; Some (ELit (vint 3))]) (ELit (vint 1)) (ELit (vint 9)))
  = Ok (vint 9).
Proof. vm_compute. reflexivity. Qed.

(* the Go dictionary lookup (Dict.CallAll transcribed in Rep/DictRep.v) yields exactly the values paired with the key *)
Theorem C05_dictrep_call_all_is_the_paired_values :
  forall d k x, dict_ok d = true -> (In x (dict_call_all d k) <-> In (ventry k x) (dict_enum d)).
Proof. exact dict_call_all_spec. Qed.
Print Assumptions C05_dictrep_call_all_is_the_paired_values.
