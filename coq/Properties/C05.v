(* Property C05: keyed collections act as functions; >>, >>>, ++ and offsets
   keep keys right.  Statements about the reference semantics (Eval/Interp.v);
   the Go representations are tied to it by the correspondence run. *)
From Arrai Require Import Base.Val Spec.SetAlg Eval.Interp Proofs.ValOrder Proofs.SetAlgP Proofs.KeyedP Proofs.SeqMapP.
From Arrai Require Rep.DictRep Proofs.DictRepP.
From Arrai Require Import Rep.CallRep Proofs.CallRepP.

(* what "the values paired with k" means *)
Theorem C05_lookup :
  forall k l vs, lookup_all k l = Some vs ->
    (forall m, In m l -> exists k' n v, as_pair m = Some (k', n, v)) /\
    (forall v, In v vs <-> exists m n, In m l /\ as_pair m = Some (k, n, v)).
Proof. exact lookup_all_spec. Qed.
Print Assumptions C05_lookup.

(* c(k) = v iff v is the unique value paired with k *)
Theorem C05_call_returns_the_unique_value :
  forall c k v, call_data c k = CROne v <->
    exists r, lookup_all k c = Some (v :: r) /\ forall x, In x r -> x = v.
Proof. exact call_one. Qed.
Print Assumptions C05_call_returns_the_unique_value.

(* the ?: fallback case is exactly "no value paired with k" *)
Theorem C05_fallback_exactly_when_no_value :
  forall c k, call_data c k = CRNone <-> lookup_all k c = Some [].
Proof. exact call_none. Qed.
Print Assumptions C05_fallback_exactly_when_no_value.

Theorem C05_call_error_when_several :
  forall c k, call_data c k = CRMany <->
    exists x r, lookup_all k c = Some (x :: r) /\ exists y, In y r /\ y <> x.
Proof. exact call_many. Qed.
Print Assumptions C05_call_error_when_several.

Theorem C05_concat_shifts_by_count :
  forall a b r, concat_sets a b = Ok r ->
    exists l, r = VSet l /\ ssorted l /\
      forall m, In m l <-> In m a \/ exists m0, In m0 b /\ shift_member (Z.of_nat (length a)) m0 = Ok m.
Proof. exact concat_spec. Qed.
Print Assumptions C05_concat_shifts_by_count.

Theorem C05_shift_changes_only_the_key :
  forall off m m', shift_member off m = Ok m' ->
    exists attrs k, m = VTup attrs /\ tget n_at attrs = Some (VNum k) /\
                    m' = VTup (ainsert (n_at, VNum (num_add k (NInt off))) attrs).
Proof. exact shift_member_spec. Qed.
Print Assumptions C05_shift_changes_only_the_key.

Theorem C05_offset_shifts_every_index :
  forall n l k ps r, l <> [] -> as_seq l = Some (k, ps) ->
    bin_data BOffset (VNum (NInt n)) (VSet l) = Ok r ->
    exists l', r = VSet l' /\ ssorted l' /\
      forall m, In m l' <-> exists i x, In (i, x) ps /\ m = vpair k (vint (i + n)) x.
Proof. exact offset_spec. Qed.
Print Assumptions C05_offset_shifts_every_index.

(* c(k) and c(k)?:d in the expression language are these functions of the operands' values; the fallback is
   evaluated only when no value is paired with the key (it may fail or loop otherwise) *)
Theorem C05_call_forms_are_these_functions :
  forall fuel rho f a d c k,
    eval fuel rho f = Ok (D (VSet c)) -> eval fuel rho a = Ok (D k) ->
    eval (S fuel) rho (ECall f a) = match call_data c k with CROne v => Ok (D v) | CRNotKeyed => Unspec | _ => Err end /\
    eval (S fuel) rho (ESafeCall f a d) =
      match call_data c k with CROne v => Ok (D v) | CRNone => eval fuel rho d | CRNotKeyed => Unspec | CRMany => Err end.
Proof.
  intros fuel rho f a d c k Hf Ha. split;
    [apply call_operator_is_call_data | apply safe_call_operator_is_call_data]; assumption.
Qed.
Print Assumptions C05_call_forms_are_these_functions.

(* >> and >>> keep every key (offsets and holes included), for every operand, transformer, scope
   and fuel: position for position the result is built from a member with the same key and the
   same attribute name, and from nothing else *)
Theorem C05_seqmap_keeps_keys :
  forall fuel rho w a fn l r,
    eval fuel rho a = Ok (D (VSet l)) ->
    eval (S fuel) rho (ESeqArrow w a fn) = Ok (D r) ->
    exists ms, r = mkset (map rekeyed ms) /\
      Forall2 (fun m t => exists v, as_pair m = Some (fst (fst t), snd (fst t), v)) l ms.
Proof. exact seqarrow_keeps_keys. Qed.
Print Assumptions C05_seqmap_keeps_keys.

Theorem C05_seqmap_invents_no_key :
  forall fuel rho w a fn l r,
    eval fuel rho a = Ok (D (VSet l)) ->
    eval (S fuel) rho (ESeqArrow w a fn) = Ok (D r) ->
    exists ms, r = mkset (map rekeyed ms) /\ length ms = length l /\
      forall t, In t ms -> exists m v, In m l /\ as_pair m = Some (fst (fst t), snd (fst t), v).
Proof. exact seqarrow_no_new_keys. Qed.
Print Assumptions C05_seqmap_invents_no_key.

(* non-vacuity: an offset array with a hole *)
Example C05_seqmap_keeps_keys_example :
  run_data 60 (ESeqArrow false
                 (EBin BOffset (ELit (vint 2)) (EArrE [Some (ELit (vint 1)); None; Some (ELit (vint 3))]))
                 (EFn (PVar [46]) (EBin BAdd (EVar [46]) (ELit (vint 10)))))
  = Ok (VSet [vpair n_item (vint 2) (vint 11); vpair n_item (vint 4) (vint 13)]).
Proof. vm_compute. reflexivity. Qed.

Example C05_probe_call :
  run_data 60 (ESafeCall (EArrE [Some (ELit (vint 1)); None; Some (ELit (vint 3))]) (ELit (vint 1)) (ELit (vint 9)))
  = Ok (vint 9).
Proof. vm_compute. reflexivity. Qed.

(* ================= the Go lookup code inside the model (Rep/CallRep.v, Proofs/CallRepP.v) =================
   rep = the layout a Go collection holds (String / Bytes / Array with offset and holes, Dict with single and
   multi-valued slots, Relation in its stored column order, GenericSet, UnionSet, EmptySet, TrueSet);
   abs = the members its Enumerator yields; wf = the invariants its constructors keep (checked on every
   layout the implementation is seen to hold); rep_setcall q = SetCall over the per-type CallAll, with the
   quirk flag q of KF-C05-04 (false = repaired). *)

(* SetCall over every representation computes call_data of the denoted set: the value when exactly one is
   paired with the key, NoReturnError when none, "too many" when several - strings, byte arrays and arrays at
   any offset with any holes, dicts incl. multi-valued, relations in any stored column order, union sets *)
Theorem C05_rep_call_refines_call_data :
  forall r k, wf r -> call_data (abs r) k <> CRNotKeyed ->
    rep_setcall false r k = out_of_callres (call_data (abs r) k).
Proof. exact rep_call_refines. Qed.
Print Assumptions C05_rep_call_refines_call_data.

(* the same about the denoted canonical set: enumeration order and repetitions do not matter *)
Theorem C05_rep_call_on_the_denoted_set :
  forall r k, match abs_val r with VSet l => call_data l k = call_data (abs r) k | _ => False end.
Proof. exact call_data_abs_val. Qed.
Print Assumptions C05_rep_call_on_the_denoted_set.

(* a set with a member that is not a (@, x) pair is refused by every representation but TrueSet *)
Theorem C05_rep_call_refuses_non_keyed_sets :
  forall r k, wf r -> has_true r = false -> call_data (abs r) k = CRNotKeyed -> rep_setcall false r k = ONotKeyed.
Proof. exact rep_call_not_keyed. Qed.
Print Assumptions C05_rep_call_refuses_non_keyed_sets.

(* the index arithmetic never leaves the slices, whatever the key *)
Theorem C05_rep_call_never_panics : forall q r k, wf r -> rep_setcall q r k <> OPanic.
Proof. exact rep_call_never_panics. Qed.
Print Assumptions C05_rep_call_never_panics.

(* c(k)?:d takes the fallback exactly when the denoted set pairs no value with k *)
Theorem C05_rep_fallback_exactly_when_no_value :
  forall r k, wf r -> call_data (abs r) k <> CRNotKeyed ->
    (rep_safecall false r k = SFallback <-> lookup_all k (abs r) = Some []).
Proof. exact rep_fallback_iff. Qed.
Print Assumptions C05_rep_fallback_exactly_when_no_value.

(* the code as it is (quirk on) agrees wherever the quirk does not change the outcome ... *)
Theorem C05_rep_call_current_code_outside_collisions :
  forall r k, wf r -> result_collision r k = false -> call_data (abs r) k <> CRNotKeyed ->
    rep_setcall true r k = out_of_callres (call_data (abs r) k).
Proof. exact rep_call_current_code_outside_collisions. Qed.
Print Assumptions C05_rep_call_current_code_outside_collisions.

(* ... and is refuted inside: several different values paired with the key, yet one of them is returned (KF-C05-04) *)
Theorem C05_rep_call_result_collision_refuted :
  exists r k v, wf r /\ call_data (abs r) k = CRMany /\ rep_setcall true r k = OOne v.
Proof. exact rep_call_collapse_refuted. Qed.
Print Assumptions C05_rep_call_result_collision_refuted.

(* Count(), computed from the stored hole / count fields, is the number of members *)
Theorem C05_rep_count_is_cardinality : forall r, wf r -> rep_count r = Z.of_nat (length (abs r)).
Proof. exact count_is_length. Qed.
Print Assumptions C05_rep_count_is_cardinality.

(* n \ s on the slice + offset + holes layouts: the members of the result are the members of s with every
   index moved by n (shift_member is the function of C05_shift_changes_only_the_key), and the result is again
   a well-formed layout *)
Theorem C05_rep_offset_refines :
  forall n r r', rep_offset (vint n) r = Some r' -> mapM (shift_member n) (abs r) = Ok (abs r').
Proof. exact rep_offset_refines. Qed.
Print Assumptions C05_rep_offset_refines.

Theorem C05_rep_offset_keeps_invariants : forall n r r', wf r -> rep_offset n r = Some r' -> wf r'.
Proof. exact rep_offset_wf. Qed.
Print Assumptions C05_rep_offset_keeps_invariants.

(* a ++ b: what Concatenate hands to its set builder is the specification's a ++ b - the right operand shifted
   by the left operand's Count(), i.e. its number of members: holes and the offset of the left operand do
   not count - and the two fail together *)
Theorem C05_rep_concat_refines :
  forall a b, wf a ->
    concat_sets (abs a) (abs b) = match rep_concat_added a b with Some ms => Ok (mkset ms) | None => Err end.
Proof. exact rep_concat_refines. Qed.
Print Assumptions C05_rep_concat_refines.

(* ... and, for arrays, down to the layout of the result: asArray, given items no two of which sit at one index
   with different values (outside KF-C05-01), builds a well-formed Array that denotes exactly those items *)
Theorem C05_rep_as_array_refines :
  forall l, l <> [] -> (forall i x y, In (i, x) l -> In (i, y) l -> x = y) ->
    wf (as_array l) /\
    forall m, In m (abs (as_array l)) <-> exists i x, In (i, x) l /\ m = vpair n_item (vint i) x.
Proof. exact as_array_refines. Qed.
Print Assumptions C05_rep_as_array_refines.

Theorem C05_rep_concat_array_layout :
  forall a b ms l,
    rep_concat_added a b = Some ms -> ms <> [] -> items_of n_item ms = Some l ->
    (forall i x y, In (i, x) l -> In (i, y) l -> x = y) ->
    rep_concat a b = Some (as_array l) /\ wf (as_array l) /\ forall m, In m (abs (as_array l)) <-> In m ms.
Proof. exact rep_concat_array_layout. Qed.
Print Assumptions C05_rep_concat_array_layout.

(* the same for strings (items are characters, i.e. non-negative integers) and for byte arrays (whose indices
   must also be contiguous: a gap becomes zero bytes, KF-C05-02) *)
Theorem C05_rep_as_string_refines :
  forall l, l <> [] -> (forall i x y, In (i, x) l -> In (i, y) l -> x = y) ->
    (forall i x, In (i, x) l -> exists z, x = vint z /\ 0 <= z) ->
    wf (as_string l) /\
    forall m, In m (abs (as_string l)) <-> exists i x, In (i, x) l /\ m = vpair n_char (vint i) x.
Proof. exact as_string_refines. Qed.
Print Assumptions C05_rep_as_string_refines.

Theorem C05_rep_concat_string_layout :
  forall a b ms l,
    rep_concat_added a b = Some ms -> ms <> [] -> items_of n_char ms = Some l ->
    (forall i x y, In (i, x) l -> In (i, y) l -> x = y) ->
    (forall i x, In (i, x) l -> exists z, x = vint z /\ 0 <= z) ->
    rep_concat a b = Some (as_string l) /\ wf (as_string l) /\ forall m, In m (abs (as_string l)) <-> In m ms.
Proof. exact rep_concat_string_layout. Qed.
Print Assumptions C05_rep_concat_string_layout.

Theorem C05_rep_as_bytes_refines :
  forall l, l <> [] -> (forall i x y, In (i, x) l -> In (i, y) l -> x = y) ->
    (forall i x, In (i, x) l -> exists z, x = vint z) ->
    (forall lo hi, min_max l = Some (lo, hi) -> forall i, lo <= i <= hi -> exists x, In (i, x) l) ->
    wf (as_bytes l) /\
    forall m, In m (abs (as_bytes l)) <-> exists i x, In (i, x) l /\ m = vpair n_byte (vint i) x.
Proof. exact as_bytes_refines. Qed.
Print Assumptions C05_rep_as_bytes_refines.

Example C05_rep_as_string_example :
  as_string [(4, vint 101); (0, vint 97); (2, vint 120)] = RStr 0 [97; -1; 120; -1; 101] 2 /\
  as_bytes [(3, vint 7); (5, vint 9)] = RBytes 3 [7; 0; 9].
Proof. vm_compute. split; reflexivity. Qed.

Example C05_rep_concat_array_example :
  let a := RArr 2 [Some (vint 1); None; Some (vint 3)] 2 in
  let b := RArr (-1) [Some (vint 7); Some (vint 8)] 2 in
  (* shifted by Count() = 2, not by the length 3 and not by the offset: an item lands on index 2, which is taken *)
  rep_concat_added a b = Some [vpair n_item (vint 2) (vint 1); vpair n_item (vint 4) (vint 3);
                               vpair n_item (vint 1) (vint 7); vpair n_item (vint 2) (vint 8)] /\
  rep_concat (RArr 0 [Some (vint 1); None; Some (vint 3)] 2) (RArr (-1) [Some (vint 7)] 1) =
    Some (RArr 0 [Some (vint 1); Some (vint 7); Some (vint 3)] 3).
Proof. vm_compute. split; reflexivity. Qed.

(* non-vacuity: a union of an offset string with holes and a relation stored as [x, @] is well formed and keyed *)
Definition C05_example_rep : rep :=
  RUnion [RStr 3 [97; -1; -1; 101] 2; RRel [[120]; n_at] [0%nat; 1%nat] [[vint 5; vint 2]; [vint 6; vint 3]]].
Example C05_rep_example_hypotheses :
  wf C05_example_rep /\ call_data (abs C05_example_rep) (vint 3) = CRMany /\
  rep_setcall false C05_example_rep (vint 6) = OOne (vint 101) /\
  rep_setcall false C05_example_rep (vint 4) = ONoReturn /\
  rep_safecall false C05_example_rep (vint 4) = SFallback.
Proof. vm_compute. repeat split. Qed.

Example C05_rep_offset_concat_example :
  rep_offset (vint (-5)) (RArr 2 [None; Some (vint 1); None; Some (vint 3); None] 2) = Some (RArr (-2) [Some (vint 1); None; Some (vint 3)] 2) /\
  rep_concat (RStr 0 [97; -1; -1; -1; 101] 3) (RStr 0 [120; 121] 0) = Some (RStr 0 [97; -1; 120; 121; 101] 1).
Proof. vm_compute. split; reflexivity. Qed.

(* the Go dictionary lookup (Dict.CallAll transcribed in Rep/DictRep.v) yields exactly the values paired with the key *)
Theorem C05_dictrep_call_all_is_the_paired_values :
  forall d k x, DictRep.dict_ok d = true -> (In x (DictRep.dict_call_all d k) <-> In (ventry k x) (DictRep.dict_enum d)).
Proof. exact DictRepP.dict_call_all_spec. Qed.
Print Assumptions C05_dictrep_call_all_is_the_paired_values.
