(* Property C02: equality is extensional and equal values are interchangeable.
   In the reference semantics every data value has ONE canonical form, so `=`
   is identity of canonical forms; the theorems state what that means.  That
   every construction path of the Go evaluator reaches the representation of
   that canonical form is what the correspondence run checks (families of
   construction paths per denotation). *)
From Arrai Require Import Base.Val Spec.SetAlg Eval.Interp Proofs.ValOrder Proofs.SetAlgP Proofs.KeyedP Proofs.CanonP Proofs.WfP Rep.DictRep Proofs.DictRepP.

(* a = b holds exactly when both denote the same value *)
Theorem C02_equality_is_identity_of_denotations :
  forall a b, cmp_data CEq a b = Ok (veqb a b) /\ (veqb a b = true <-> a = b).
Proof. intros a b; split; [reflexivity | apply veqb_eq]. Qed.
Print Assumptions C02_equality_is_identity_of_denotations.

(* sets are extensional: same members, same value *)
Theorem C02_sets_extensional :
  forall l m, ssorted l -> ssorted m -> (forall x, In x l <-> In x m) -> VSet l = VSet m.
Proof. intros l m Hl Hm H; f_equal; exact (ssorted_ext l m Hl Hm H). Qed.
Print Assumptions C02_sets_extensional.

(* every value has exactly one canonical form *)
Theorem C02_canonical_form_unique : forall v, norm (norm v) = norm v.
Proof. exact norm_idem. Qed.
Print Assumptions C02_canonical_form_unique.

(* equal values are interchangeable under every operator and comparison *)
Theorem C02_interchangeable :
  forall a b, veqb a b = true ->
    (forall op c, bin_data op a c = bin_data op b c /\ bin_data op c a = bin_data op c b) /\
    (forall op c, cmp_data op a c = cmp_data op b c /\ cmp_data op c a = cmp_data op c b) /\
    (forall op, un_data op a = un_data op b).
Proof. intros a b H; apply veqb_eq in H; subst b. repeat split. Qed.
Print Assumptions C02_interchangeable.

Theorem C02_collapse_to_one_member : forall a b, veqb a b = true -> mkset [a; b] = mkset [a].
Proof. exact equal_values_one_member. Qed.
Print Assumptions C02_collapse_to_one_member.

Theorem C02_select_same_dict_entry :
  forall a b v, veqb a b = true -> call_data [ventry a v] b = CROne v.
Proof. exact equal_keys_select_same_entry. Qed.
Print Assumptions C02_select_same_dict_entry.

(* non-vacuity: two construction paths of "a" *)
Example C02_probe :
  run_data 60 (ECmp CEq (ESetE [EBin BMerge (ETupE [(n_at, ELit (vint 0))]) (ETupE [(n_char, ELit (vint 97))])])
                        (ELit (vstr [97]))) = Ok vtrue.
Proof. vm_compute. reflexivity. Qed.

(* For every program of the reference semantics, whatever the fuel: the value it yields is in canonical
   form - so a value has one representation per denotation however it was constructed - and two results
   with the same members are the same value and compare equal. *)
Theorem C02_every_result_is_canonical : forall n e v, run_data n e = Ok v -> norm v = v.
Proof. exact run_data_canonical. Qed.
Print Assumptions C02_every_result_is_canonical.

Theorem C02_results_with_same_members_are_equal :
  forall n m e1 e2 a b, run_data n e1 = Ok (VSet a) -> run_data m e2 = Ok (VSet b) ->
    (forall x, In x a <-> In x b) -> VSet a = VSet b /\ veqb (VSet a) (VSet b) = true.
Proof. exact results_extensional. Qed.
Print Assumptions C02_results_with_same_members_are_equal.

(* ---- the Go dictionary representation (Rep/DictRep.v): representation-wise equality (Dict.equalDict, slot by slot)
   is extensional equality, for all dictionaries meeting the representation invariant - which every history of
   operations preserves (C01_dict_histories_compute_the_set_operations) ---- *)
Theorem C02_dict_equality_is_extensional :
  forall d d2, dict_ok d = true -> dict_ok d2 = true ->
    (dict_equal d d2 = true <-> forall y, In y (dict_enum d) <-> In y (dict_enum d2)).
Proof. exact dict_equal_extensional. Qed.
Print Assumptions C02_dict_equality_is_extensional.

(* the invariant is what makes it so: a several-values slot left with ONE value denotes the same set as the bare
   value but is not equal to it (the defect pattern of a Without that forgets to collapse the slot) *)
Theorem C02_dict_equality_without_invariant_refuted :
  exists d d2, (forall y, In y (dict_enum d) <-> In y (dict_enum d2)) /\ dict_equal d d2 = false /\ dict_ok d = false.
Proof.
  exists [(vint 1, Multi [vint 2])], [(vint 1, One (vint 2))].
  destruct dict_equal_needs_invariant as (E & F & G). split; [intros y; cbv zeta in E; rewrite E; tauto | split; assumption].
Qed.
Print Assumptions C02_dict_equality_without_invariant_refuted.
