(* Property C02: equality is extensional and equal values are interchangeable.
   In the reference semantics every data value has ONE canonical form, so `=`
   is identity of canonical forms; the theorems state what that means.  That
   every construction path of the Go evaluator reaches the representation of
   that canonical form is what the correspondence run checks (families of
   construction paths per denotation). *)
From Arrai Require Import Base.Val Spec.SetAlg Eval.Interp Proofs.ValOrder Proofs.SetAlgP Proofs.KeyedP Proofs.CanonP Proofs.WfP.

(* a = b holds exactly when both denote the same value *)
Theorem C02_equality_is_identity_of_denotations :
  forall a b, cmp_data CEq a b = Ok (veqb a b) /\ (veqb a b = true <-> a = b).
Proof. intros a b; split; [reflexivity | apply veqb_eq]. Qed.
Print Assumptions C02_equality_is_identity_of_denotations.

(* sets are extensional: same members, same value *)
Theorem C02_sets_extensional :
  forall l m, ssorted l -> ssorted m -> (forall x, In x l <-> In x m) -> VSet l = VSet m.
Proof. intros l m Hl Hm H; f_equal; exact (ssorted_ext l m Hl Hm H). Qed.
Print Assumptions C02_sets_extensional.

(* every value has exactly one canonical form *)
Theorem C02_canonical_form_unique : forall v, norm (norm v) = norm v.
Proof. exact norm_idem. Qed.
Print Assumptions C02_canonical_form_unique.

(* equal values are interchangeable under every operator and comparison *)
Theorem C02_interchangeable :
  forall a b, veqb a b = true ->
    (forall op c, bin_data op a c = bin_data op b c /\ bin_data op c a = bin_data op c b) /\
    (forall op c, cmp_data op a c = cmp_data op b c /\ cmp_data op c a = cmp_data op c b) /\
    (forall op, un_data op a = un_data op b).
Proof. intros a b H; apply veqb_eq in H; subst b. repeat split. Qed.
Print Assumptions C02_interchangeable.

Theorem C02_collapse_to_one_member : forall a b, veqb a b = true -> mkset [a; b] = mkset [a].
Proof. exact equal_values_one_member. Qed.
Print Assumptions C02_collapse_to_one_member.

Theorem C02_select_same_dict_entry :
  forall a b v, veqb a b = true -> call_data [ventry a v] b = CROne v.
Proof. exact equal_keys_select_same_entry. Qed.
Print Assumptions C02_select_same_dict_entry.

(* non-vacuity: two construction paths of "a" *)
Example C02_probe :
  run_data 60 (ECmp CEq (ESetE [EBin BMerge (ETupE [(n_at, ELit (vint 0))]) (ETupE [(n_char, ELit (vint 97))])])
                        (ELit (vstr [97]))) = Ok vtrue.
Proof. vm_compute. reflexivity. Qed.

(* For every program of the reference semantics, whatever the fuel: the value it yields is in canonical
   form - so a value has one representation per denotation however it was constructed - and two results
   with the same members are the same value and compare equal. *)
Theorem C02_every_result_is_canonical : forall n e v, run_data n e = Ok v -> norm v = v.
Proof. exact run_data_canonical. Qed.
Print Assumptions C02_every_result_is_canonical.

Theorem C02_results_with_same_members_are_equal :
  forall n m e1 e2 a b, run_data n e1 = Ok (VSet a) -> run_data m e2 = Ok (VSet b) ->
    (forall x, In x a <-> In x b) -> VSet a = VSet b /\ veqb (VSet a) (VSet b) = true.
Proof. exact results_extensional. Qed.
Print Assumptions C02_results_with_same_members_are_equal.

From Arrai Require Import Rep.DictRep Proofs.DictRepP.
(* ---- the Go dictionary representation (Rep/DictRep.v): representation-wise equality (Dict.equalDict, slot by slot)
   is extensional equality, for all dictionaries meeting the representation invariant - which every history of
   operations preserves (C01_dict_histories_compute_the_set_operations) ---- *)
Theorem C02_dict_equality_is_extensional :
  forall d d2, dict_ok d = true -> dict_ok d2 = true ->
    (dict_equal d d2 = true <-> forall y, In y (dict_enum d) <-> In y (dict_enum d2)).
Proof. exact dict_equal_extensional. Qed.
Print Assumptions C02_dict_equality_is_extensional.

(* the invariant is what makes it so: a several-values slot left with ONE value denotes the same set as the bare
   value but is not equal to it (the defect pattern of a Without that forgets to collapse the slot) *)
Theorem C02_dict_equality_without_invariant_refuted :
  exists d d2, (forall y, In y (dict_enum d) <-> In y (dict_enum d2)) /\ dict_equal d d2 = false /\ dict_ok d = false.
Proof.
  exists [(vint 1, Multi [vint 2])], [(vint 1, One (vint 2))].
  destruct dict_equal_needs_invariant as (E & F & G). split; [intros y; cbv zeta in E; rewrite E; tauto | split; assumption].
Qed.
Print Assumptions C02_dict_equality_without_invariant_refuted.

From Arrai Require Import Rep.Builder Proofs.BuilderP Proofs.BuilderSeqP Proofs.BuilderDictP Proofs.BuilderAllP Proofs.BuilderBytesP Proofs.BuilderTupP Proofs.BuilderArrP Proofs.BuilderLeafP Proofs.BuilderIndP.

(* ---------- the set builder of rel/ (transcribed in Rep/Builder.v) ----------
   Equality in Go is representation-wise, so extensional equality relies on the builder choosing one representation
   per denotation.  `build` is rel.NewSet, `bucketise` SetBuilder.Add, `finish_bucket` the per-bucket finishers,
   `rep_equal` the Equal methods, `abs` the denotation.  What is proved for all member lists is the skeleton of the
   builder; the per-bucket finishers and Equal are compared with the implementation on every run (Check/BuilderCheck.v). *)

(* SetBuilder.Add: the buckets are a partition of the member list - every bucket holds exactly the members of its kind,
   in insertion order, is never empty, the keys are pairwise different and every member has its bucket - so nothing is
   dropped, duplicated or moved by bucketing *)
Theorem C02_builder_buckets_partition_members :
  forall ms,
    NoDup (map fst (bucketise ms)) /\
    (forall b vs, In (b, vs) (bucketise ms) -> vs = filter (fun m => bucket_eq (bucket_of m) b) ms /\ vs <> []) /\
    (forall m, In m ms -> In (bucket_of m) (map fst (bucketise ms))).
Proof. exact bucketise_partition. Qed.
Print Assumptions C02_builder_buckets_partition_members.

(* SetBuilder.Finish: the built set denotes exactly the members it was given (none dropped, none added) whenever no two
   bucket keys print the same text and every per-bucket finisher denotes exactly the members of its bucket.
   (The modular form; both hypotheses are discharged in C02_builder_denotes_members below, and both are needed: see the
   _refuted theorems.) *)
Theorem C02_builder_denotes_members_partial :
  forall ms r, build ms = BOk r ->
    NoDup (map (fun x => bucket_str (fst x)) (bucketise ms)) ->
    (forall b vs s, In (b, vs) (bucketise ms) -> finish_bucket b vs = BOk s ->
       forall v, In v (set_elems (abs s)) <-> In v (map abs vs)) ->
    abs r = mkset (map abs ms).
Proof. exact build_denotes_members_modular. Qed.
Print Assumptions C02_builder_denotes_members_partial.

(* genericSetFinish + newSetFromFrozenSet: the generic bucket (numbers, sets, the empty tuple) denotes exactly its members -
   {()} becoming TrueSet included - whenever Equal never identifies two of them that denote different values *)
Theorem C02_generic_bucket_denotes_members :
  forall vs, (forall x y, In x vs -> In y vs -> rep_equal x y = true -> abs x = abs y) ->
    (forall x, In x vs -> rep_equal (RTupG []) x = true -> abs x = VTup []) ->
    forall v, In v (set_elems (abs (finish_generic vs))) <-> In v (map abs vs).
Proof. exact finish_generic_denotes_members. Qed.
Print Assumptions C02_generic_bucket_denotes_members.

(* rel.NewSet denotes exactly the members it is given - no member dropped, altered or added, whatever the insertion order,
   repetitions, offsets, holes, multi-valued keys, number of buckets - for every member list in the well-formed region
   (`wf_members`: bucket keys that print alike are the same bucket and tuples filed together have the same duplicate-free
   names; characters are not negative; at most one payload per index; byte indices without gaps - each excluded case is an
   open finding with a _refuted witness below) on whose members, dict keys / values and relation cells Equal never
   identifies two different denotations (`equal_sound_on`, decidable: `equal_sound_onb`).
   Proved through the five per-bucket finishers: asString, asBytes, asArray (Proofs/BuilderSeqP.v), NewDict(true, ..) and
   relationBuilder (Proofs/BuilderDictP.v), genericSetFinish (Proofs/BuilderP.v). *)
Theorem C02_builder_denotes_members :
  forall ms r, build ms = BOk r -> wf_members ms -> equal_sound_on ms -> abs r = mkset (map abs ms).
Proof. exact build_denotes_members. Qed.
Print Assumptions C02_builder_denotes_members.

(* hence two member lists with the same denotations are built to representations with the same denotation *)
Theorem C02_same_members_same_denotation :
  forall ms ms' r r', build ms = BOk r -> build ms' = BOk r' -> wf_members ms -> wf_members ms' ->
    equal_sound_on ms -> equal_sound_on ms' -> mkset (map abs ms) = mkset (map abs ms') -> abs r = abs r'.
Proof.
  intros ms ms' r r' Hb Hb' Hw Hw' Hs Hs' He.
  rewrite (build_denotes_members ms r Hb Hw Hs), (build_denotes_members ms' r' Hb' Hw' Hs'). exact He.
Qed.
Print Assumptions C02_same_members_same_denotation.

(* strings: the representation is a function of the denotation.  Two well-formed lists of character tuples (characters not
   negative, at most one character per index) with the same denotation - in any insertion order, with any repetitions,
   offsets and holes - are built by rel.NewSet to the very same String{offset, runes, hole count}; so the results are Equal.
   This is C02_representation_is_function_of_denotation for the String representation; for the other representations
   it is covered by the correspondence run only. *)
Theorem C02_string_representation_is_function_of_denotation :
  forall ms ms', ms <> [] ->
    (forall v, In v ms -> exists a c, v = RTupChar a c /\ 0 <= c) ->
    (forall v, In v ms' -> exists a c, v = RTupChar a c /\ 0 <= c) ->
    (forall a c c', In (RTupChar a c) ms -> In (RTupChar a c') ms -> c = c') ->
    mkset (map abs ms) = mkset (map abs ms') ->
    build ms = build ms' /\ exists r, build ms = BOk r /\ build ms' = BOk r /\ rep_equal r r = true.
Proof. exact string_representation_function_of_denotation. Qed.
Print Assumptions C02_string_representation_is_function_of_denotation.

(* the same for byte arrays: one byte per index, same denotation => the very same Bytes{b, offset} *)
Theorem C02_bytes_representation_is_function_of_denotation :
  forall ms ms', ms <> [] ->
    (forall v, In v ms -> exists a c, v = RTupByte a c) ->
    (forall v, In v ms' -> exists a c, v = RTupByte a c) ->
    (forall a c c', In (RTupByte a c) ms -> In (RTupByte a c') ms -> c = c') ->
    mkset (map abs ms) = mkset (map abs ms') ->
    build ms = build ms' /\ exists r, build ms = BOk r /\ build ms' = BOk r /\ rep_equal r r = true.
Proof. exact bytes_representation_function_of_denotation. Qed.
Print Assumptions C02_bytes_representation_is_function_of_denotation.

(* rel.NewTuple (tuple canonicalisation).  `tuple_spec attrs` is the tuple value the attributes denote (a map filled in
   argument order, kept sorted by name).  A tuple that does not pair "@" with one of @char / @byte / @item / @value - in
   any argument order, of any width - is built as a GenericTuple denoting exactly its attributes (the "@"-second swap and
   the second specialisation in TupleBuilder.Finish included) ... *)
Theorem C02_tuple_build_generic_denotes_attributes :
  forall attrs, NoDup (map fst attrs) ->
    ~ (In n_at (map fst attrs) /\ exists k, (k = n_char \/ k = n_byte \/ k = n_item \/ k = n_value) /\ In k (map fst attrs)) ->
    exists m, tuple_build attrs = BOk (RTupG m) /\ abs (RTupG m) = tuple_spec attrs.
Proof. exact tuple_build_generic. Qed.
Print Assumptions C02_tuple_build_generic_denotes_attributes.

(* ... and a well-typed (@, @char | @byte | @item | @value) pair is built, in either argument order, as the specialised
   tuple type, which denotes the same two attributes: one representation per denotation for these tuples *)
Theorem C02_tuple_build_sugar_specialises :
  forall a,
  (forall c, -2147483648 <= c < 2147483648 ->
     let l := [(n_at, RNum (NInt a)); (n_char, RNum (NInt c))] in
     tuple_build l = BOk (RTupChar a c) /\ tuple_build (rev l) = BOk (RTupChar a c) /\
     abs (RTupChar a c) = tuple_spec l /\ abs (RTupChar a c) = tuple_spec (rev l)) /\
  (forall b, 0 <= b < 256 ->
     let l := [(n_at, RNum (NInt a)); (n_byte, RNum (NInt b))] in
     tuple_build l = BOk (RTupByte a b) /\ tuple_build (rev l) = BOk (RTupByte a b) /\
     abs (RTupByte a b) = tuple_spec l /\ abs (RTupByte a b) = tuple_spec (rev l)) /\
  (forall x,
     let l := [(n_at, RNum (NInt a)); (n_item, x)] in
     tuple_build l = BOk (RTupItem a x) /\ tuple_build (rev l) = BOk (RTupItem a x) /\
     abs (RTupItem a x) = tuple_spec l /\ abs (RTupItem a x) = tuple_spec (rev l)) /\
  (forall k v,
     let l := [(n_at, k); (n_value, v)] in
     tuple_build l = BOk (RTupEntry k v) /\ tuple_build (rev l) = BOk (RTupEntry k v) /\
     abs (RTupEntry k v) = tuple_spec l /\ abs (RTupEntry k v) = tuple_spec (rev l)).
Proof. exact tuple_build_sugar. Qed.
Print Assumptions C02_tuple_build_sugar_specialises.

(* arrays: the Array{values, offset, count} asArray builds is a function of the set of item tuples given (one item per
   index), whatever the insertion order and repetitions (the counter is shown to be the number of non-nil cells).  At the
   level of denotations this needs Equal to be complete on the items, which is not proved. *)
Theorem C02_array_representation_is_function_of_members :
  forall vs vs', vs <> [] ->
    (forall v, In v vs -> exists a x, v = RTupItem a x) -> (forall v, In v vs' -> exists a x, v = RTupItem a x) ->
    (forall a x x', In (RTupItem a x) vs -> In (RTupItem a x') vs -> x = x') ->
    (forall m, In m vs <-> In m vs') ->
    finish_array vs = finish_array vs'.
Proof. exact finish_array_function_of_members. Qed.
Print Assumptions C02_array_representation_is_function_of_members.

(* first-order data - numbers, character / byte tuples, empty, true, strings, byte arrays, item / entry tuples of these:
   the Equal methods are sound on them without any invariant, so for member lists whose members, dict keys / values and
   relation cells are first-order, C02_builder_denotes_members holds with the well-formedness hypothesis alone *)
Theorem C02_equal_sound_on_first_order :
  forall a, leaf a = true -> forall b, rep_equal a b = true -> abs a = abs b.
Proof. exact leaf_sound. Qed.
Print Assumptions C02_equal_sound_on_first_order.

Theorem C02_builder_denotes_members_first_order :
  forall ms r, build ms = BOk r -> wf_members ms -> (forall x, component ms x -> leaf x = true) ->
    abs r = mkset (map abs ms).
Proof. exact build_first_order_denotes_members. Qed.
Print Assumptions C02_builder_denotes_members_first_order.

(* ... and, hereditarily, on arrays and generic sets of such representations (`simple`): nested arrays and sets of
   first-order data.  Proved with a nested induction principle for representations (Proofs/BuilderIndP.v rep_ind'). *)
Theorem C02_equal_sound_on_simple :
  forall a, simple a = true -> forall b, rep_equal a b = true -> abs a = abs b.
Proof. exact simple_sound. Qed.
Print Assumptions C02_equal_sound_on_simple.

Theorem C02_builder_denotes_members_simple :
  forall ms r, build ms = BOk r -> wf_members ms -> (forall x, component ms x -> simple x = true) ->
    abs r = mkset (map abs ms).
Proof. exact build_simple_denotes_members. Qed.
Print Assumptions C02_builder_denotes_members_simple.

Theorem C02_equal_soundness_is_decidable : forall ms, equal_sound_onb ms = true -> equal_sound_on ms.
Proof. exact equal_sound_onb_ok. Qed.
Print Assumptions C02_equal_soundness_is_decidable.

(* outside the hypotheses the statements fail in the faithful model (each witness is replayed on the implementation by the
   region cases of the check): two items superimposed at one index - the last one written wins, so a member is lost and
   equal sets built in different orders get representations that are not Equal (KF-C02-01) *)
Theorem C02_builder_denotes_members_refuted :
  exists ms r, build ms = BOk r /\ abs r <> mkset (map abs ms).
Proof. exact collision_refutes_members. Qed.
Print Assumptions C02_builder_denotes_members_refuted.

Theorem C02_representation_is_function_of_denotation_refuted :
  exists ms ms' r r', mkset (map abs ms) = mkset (map abs ms') /\ build ms = BOk r /\ build ms' = BOk r' /\ rep_equal r r' = false.
Proof. exact collision_refutes_order. Qed.
Print Assumptions C02_representation_is_function_of_denotation_refuted.

(* Equal is not extensional on everything the builders produce: a negative character is stored as a hole (Count() 1, no
   member, not Equal to {}), and NewTuple truncates a fractional index (different denotations, Equal representations; KF-C02-02) *)
Theorem C02_rep_equal_is_extensional_refuted :
  (exists r, build [RTupChar 0 (-1)] = BOk r /\ abs r = abs REmpty /\ rep_equal r REmpty = false /\ rcount r = 1 /\ rmembers r = []) /\
  (exists a b, tuple_build [(n_at, RNum (NHalf 0)); (n_item, rint 1)] = BOk a /\
               tuple_build [(n_at, rint 0); (n_item, rint 1)] = BOk b /\ rep_equal a b = true /\
               mktup [(n_at, VNum (NHalf 0)); (n_item, vint 1)] <> mktup [(n_at, vint 0); (n_item, vint 1)]).
Proof. split; [exact negative_char_refutes_extensionality|exact truncation_refutes_extensionality]. Qed.
Print Assumptions C02_rep_equal_is_extensional_refuted.

(* bucket keys that print alike (KF-C02-04): a tuple whose only attribute is named like the generic bucket replaces that
   bucket in the UnionSet, and two relation buckets whose names join to the same text share a builder, which panics *)
Theorem C02_builder_bucket_keys_refuted :
  (exists ms r, build ms = BOk r /\ abs r <> mkset (map abs ms)) /\
  build [RTupG [([97; 44; 32; 98], rint 1)]; RTupG [([97], rint 1); ([98], rint 2)]] = BPanic.
Proof. split; [exact bucket_string_refutes_members|exact bucket_names_panic]. Qed.
Print Assumptions C02_builder_bucket_keys_refuted.

(* non-vacuity: the hypotheses of the partial theorem hold on a concrete member list with a repeated member, and a mixed
   member list (five buckets, a multi-valued key, a hole) is built to a UnionSet denoting exactly its members *)
Example C02_builder_partial_applies :
  abs (RGen [rint 1; rint 2]) = mkset (map abs [rint 1; rint 2; rint 1]).
Proof.
  apply (C02_builder_denotes_members_partial [rint 1; rint 2; rint 1]).
  - vm_compute. reflexivity.
  - vm_compute. constructor; [intros []|constructor].
  - intros b vs s Hin Hf. vm_compute in Hin. destruct Hin as [Hin|[]]. inversion Hin; subst.
    cbn [finish_bucket] in Hf. inversion Hf; subst. apply C02_generic_bucket_denotes_members.
    + intros x y Hx Hy. cbn [In] in Hx, Hy.
      destruct Hx as [<-|[<-|[<-|[]]]]; destruct Hy as [<-|[<-|[<-|[]]]]; vm_compute; intros H; try reflexivity; discriminate.
    + intros x Hx. cbn [In] in Hx. destruct Hx as [<-|[<-|[<-|[]]]]; vm_compute; intros H; discriminate.
Qed.

Example C02_builder_probe :
  let ms := [rint 1; RTupG []; RTupChar 0 97; RTupChar 2 99; RTupEntry (rint 1) (rint 2); RTupEntry (rint 1) (rint 3);
             RTupItem 1 REmpty; RTupG [([97], rint 1)]; RTupG [([97], rint 2)]; rint 1] in
  exists u, build ms = BOk (RUnion u) /\ length u = 5%nat /\ abs (RUnion u) = mkset (map abs ms).
Proof. eexists. split; [vm_compute; reflexivity|]. split; vm_compute; reflexivity. Qed.

(* the hypotheses of C02_builder_denotes_members hold on a member list with five buckets, a hole, an offset, a multi-valued
   key, a repeated member and a repeated row *)
Definition probe_members : list rep :=
  [rint 1; RTupG []; RTupChar 1 97; RTupChar 3 99; RTupEntry (rint 1) (rint 2); RTupEntry (rint 1) (rint 3);
   RTupItem 1 REmpty; RTupG [([97], rint 1)]; RTupG [([97], rint 2)]; rint 1; RTupG [([97], rint 1)]].

Example C02_builder_theorem_applies :
  exists r, build probe_members = BOk r /\ wf_members probe_members /\ equal_sound_on probe_members /\
            abs r = mkset (map abs probe_members).
Proof.
  assert (Hs : equal_sound_on probe_members) by (apply equal_sound_onb_ok; vm_compute; reflexivity).
  assert (Hw : wf_members probe_members).
  { unfold probe_members. constructor.
    - intros m m' Hm Hm'. cbn [In] in Hm, Hm'.
      repeat (destruct Hm as [<-|Hm]; [repeat (destruct Hm' as [<-|Hm']; [vm_compute; intros H; first [reflexivity|discriminate]|]); destruct Hm'|]); destruct Hm.
    - intros l l' Hl Hl'. cbn [In] in Hl, Hl'.
      repeat (destruct Hl as [Hl|Hl]; [try discriminate; inversion Hl; subst l; repeat (destruct Hl' as [Hl'|Hl']; [try discriminate; inversion Hl'; subst l'; intros; first [reflexivity|contradiction|discriminate]|]); destruct Hl'|]); destruct Hl.
    - intros l Hl. cbn [In] in Hl.
      repeat (destruct Hl as [Hl|Hl]; [try discriminate; inversion Hl; subst l; cbn [map fst]; repeat constructor; intros []|]); destruct Hl.
    - intros a c Hin. cbn [In] in Hin. repeat (destruct Hin as [Hin|Hin]; [try discriminate; inversion Hin; subst; lia|]); destruct Hin.
    - intros a c c' H1 H2. cbn [In] in H1, H2.
      repeat (destruct H1 as [H1|H1]; [try discriminate; inversion H1; subst; repeat (destruct H2 as [H2|H2]; [try discriminate; inversion H2; subst; first [reflexivity|lia]|]); destruct H2|]); destruct H1.
    - intros a c c' H1. cbn [In] in H1. repeat (destruct H1 as [H1|H1]; [discriminate|]); destruct H1.
    - intros a x x' H1 H2. cbn [In] in H1, H2.
      repeat (destruct H1 as [H1|H1]; [try discriminate; inversion H1; subst; repeat (destruct H2 as [H2|H2]; [try discriminate; inversion H2; subst; reflexivity|]); destruct H2|]); destruct H1.
    - intros a b c d i H1. cbn [In] in H1. repeat (destruct H1 as [H1|H1]; [discriminate|]); destruct H1. }
  destruct (build probe_members) as [r| |] eqn:Eb; try (vm_compute in Eb; discriminate).
  exists r. split; [reflexivity|]. split; [exact Hw|]. split; [exact Hs|]. apply (C02_builder_denotes_members _ _ Eb Hw Hs).
Qed.

Example C02_string_probe :
  build [RTupChar 3 99; RTupChar 1 97; RTupChar 3 99] = BOk (RStr 1 [97; -1; 99] 1) /\
  build [RTupChar 1 97; RTupChar 3 99] = BOk (RStr 1 [97; -1; 99] 1).
Proof. split; vm_compute; reflexivity. Qed.

Example C02_tuple_probe :
  tuple_build [([98], rint 2); (n_at, rint 0); ([97], rint 1)] =
    BOk (RTupG [(n_at, rint 0); ([97], rint 1); ([98], rint 2)]) /\
  tuple_build [(n_char, rint 97); (n_at, rint 0)] = BOk (RTupChar 0 97) /\
  tuple_build [(n_at, REmpty); (n_char, rint 97)] = BPanic.
Proof. repeat split; vm_compute; reflexivity. Qed.

Example C02_simple_probe :
  simple (RGen [RArr 0 [Some (RStr 0 [97] 0); None; Some (RGen [rint 1; REmpty])] 2; RTrue]) = true.
Proof. vm_compute. reflexivity. Qed.
