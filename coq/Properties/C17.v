(* Property C17: the server engine applies updates atomically, in order, and
   never wedges.  Statements only; proofs live in Proofs/EngineP.v.

   Every theorem quantifies over: the value and expression types, the
   evaluation oracle [eval] (a value, an error, or a Go panic on that database
   value), every enumeration order [ord] of the watcher map (any permutation,
   possibly different at every step), every observer callback (a function of
   the number of deliveries so far and the value; it returns nil, returns an
   error, or panics), the initial database, ALL finite histories [h] of API calls in
   acknowledgement order, and every quirk setting [q] under the guard "the
   observables of this run are those of the repaired model". *)
From Coq Require Import List ZArith Bool Permutation.
From Arrai Require Import Sys.Engine Sys.FrontEnd Proofs.EngineP Proofs.FrontEndP.
Import ListNotations.
Open Scope Z_scope.

(* (1) never wedges: no SelfBlock, no Panic; until Stop the loop is Running and
       every call is answered (an Update by ok/error, the others by returning) *)
Theorem C17_never_wedges :
  forall V E (eval : E -> V -> eres V) ord, (forall n l, Permutation (ord n l) l) ->
  forall q db0 h,
    observables V E (run V E eval ord q db0 h) = observables V E (run V E eval ord quirks17_off db0 h) ->
    s_status V E (run V E eval ord q db0 h) <> Wedged /\ s_status V E (run V E eval ord q db0 h) <> Crashed
    /\ (existsb (is_stop V E) h = false ->
        s_status V E (run V E eval ord q db0 h) = Running
        /\ Forall2 (answered V E) h (s_acks V E (run V E eval ord q db0 h))).
Proof. exact never_wedges_q. Qed.
Print Assumptions C17_never_wedges.

(* (2) refinement to the sequential specification: each observer's trace is
       [spec_trace] (a function of the history that follows the database and
       that observer alone: its expression's value on the state at subscription
       and on every state installed afterwards, in order, until it fails, is
       cancelled or everybody is hung up on); the database is the fold of the
       accepted updates ([spec_db]: failed updates install nothing); the
       answers are [spec_acks] (each Update answered by whether its expression
       evaluated on the database of that moment) *)
Theorem C17_refines_sequential_spec :
  forall V E (eval : E -> V -> eres V) ord, (forall n l, Permutation (ord n l) l) ->
  forall q db0 h,
    observables V E (run V E eval ord q db0 h) = observables V E (run V E eval ord quirks17_off db0 h) ->
    (forall i, obs_trace V i (s_trace V E (run V E eval ord q db0 h)) = spec_trace V E eval i db0 h)
    /\ s_db V E (run V E eval ord q db0 h) = spec_db V E eval db0 h
    /\ s_acks V E (run V E eval ord q db0 h) = spec_acks V E eval db0 h
    /\ s_status V E (run V E eval ord q db0 h) = (if existsb (is_stop V E) h then Stopped else Running).
Proof. exact refinement_q. Qed.
Print Assumptions C17_refines_sequential_spec.

(* (3) isolation: two histories that agree once everything about the OTHER
       observers (their Observe events with expressions and callbacks, their
       cancels - also repeated ones) is erased give observer i the same trace *)
Theorem C17_isolation :
  forall V E (eval : E -> V -> eres V) ord, (forall n l, Permutation (ord n l) l) ->
  forall q db0 i h h',
    observables V E (run V E eval ord q db0 h) = observables V E (run V E eval ord quirks17_off db0 h) ->
    observables V E (run V E eval ord q db0 h') = observables V E (run V E eval ord quirks17_off db0 h') ->
    erase_others V E i h = erase_others V E i h' ->
    obs_trace V i (s_trace V E (run V E eval ord q db0 h)) = obs_trace V i (s_trace V E (run V E eval ord q db0 h')).
Proof. exact isolation_q. Qed.
Print Assumptions C17_isolation.

(* the specification itself never looks at the other observers *)
Theorem C17_spec_ignores_other_observers :
  forall V E (eval : E -> V -> eres V) i h db o,
    spec_trace_from V E eval i db o (erase_others V E i h) = spec_trace_from V E eval i db o h.
Proof. exact spec_trace_erase. Qed.
Print Assumptions C17_spec_ignores_other_observers.

(* the enumeration order of the watcher map is invisible to each observer and to the callers *)
Theorem C17_map_order_irrelevant :
  forall V E (eval : E -> V -> eres V) ord ord',
  (forall n l, Permutation (ord n l) l) -> (forall n l, Permutation (ord' n l) l) ->
  forall db0 h i,
    obs_trace V i (s_trace V E (run V E eval ord quirks17_off db0 h)) =
    obs_trace V i (s_trace V E (run V E eval ord' quirks17_off db0 h))
    /\ s_acks V E (run V E eval ord quirks17_off db0 h) = s_acks V E (run V E eval ord' quirks17_off db0 h).
Proof. exact order_irrelevant_off. Qed.
Print Assumptions C17_map_order_irrelevant.

(* (4) every observer (subscribed once: ids are fresh) is closed at most once and is told nothing after
       its close - whatever fails or PANICS (evaluation of its expression or its callback: [EPanic],
       [CbPanic] are oracle outcomes like any other).  Hence an onclose that hands over to a one-shot
       receiver (the gRPC front end's unbuffered `retch`) is never entered twice and cannot block the loop. *)
Theorem C17_closed_once_then_silent :
  forall V E (eval : E -> V -> eres V) ord, (forall n l, Permutation (ord n l) l) ->
  forall q db0 h i,
    observables V E (run V E eval ord q db0 h) = observables V E (run V E eval ord quirks17_off db0 h) ->
    observed_once V E i h = true ->
    closed_once V (obs_trace V i (s_trace V E (run V E eval ord q db0 h))) = true.
Proof. exact closed_once_q. Qed.
Print Assumptions C17_closed_once_then_silent.

(* the unconditional statements for the repaired model (what the guard reduces to) *)
Theorem C17_repaired_never_wedges :
  forall V E (eval : E -> V -> eres V) ord, (forall n l, Permutation (ord n l) l) ->
  forall db0 h,
    s_status V E (run V E eval ord quirks17_off db0 h) <> Wedged
    /\ s_status V E (run V E eval ord quirks17_off db0 h) <> Crashed
    /\ (existsb (is_stop V E) h = false ->
        s_status V E (run V E eval ord quirks17_off db0 h) = Running
        /\ Forall2 (answered V E) h (s_acks V E (run V E eval ord quirks17_off db0 h))).
Proof. exact never_wedges_off. Qed.
Print Assumptions C17_repaired_never_wedges.

(* ---------- the unchanged code violates the property: one witness per quirk ---------- *)
(* engine.go watcher.update -> w.cancel() -> e.removeWatcher <- id from the loop goroutine *)
Lemma C17_q_cancel_from_loop_refuted :
  s_status _ _ (crun only_cancel_from_loop wit_expr_fails) = Wedged
  /\ s_acks _ _ (crun only_cancel_from_loop wit_expr_fails) = [ADone; ANone]
  /\ ~ Forall2 (answered cval cexpr) wit_expr_fails (s_acks _ _ (crun only_cancel_from_loop wit_expr_fails)).
Proof. exact cancel_from_loop_refuted. Qed.
Print Assumptions C17_q_cancel_from_loop_refuted.

Lemma C17_q_cancel_from_loop_refuted_callback :
  s_status _ _ (crun only_cancel_from_loop wit_cb_fails) = Wedged
  /\ s_acks _ _ (crun only_cancel_from_loop wit_cb_fails) = [ADone; AUpd true; ANone].
Proof. exact cancel_from_loop_refuted_callback. Qed.
Print Assumptions C17_q_cancel_from_loop_refuted_callback.

(* engine.go Start, case id := <-e.removeWatcher: watchers[id].close() on an absent id *)
Lemma C17_q_double_cancel_nil_refuted :
  s_status _ _ (crun only_double_cancel wit_double_cancel) = Crashed
  /\ s_acks _ _ (crun only_double_cancel wit_double_cancel) = [ADone; ADone; ADone; ANone]
  /\ s_status _ _ (crun only_double_cancel wit_cancel_after_hangup) = Crashed.
Proof. exact double_cancel_refuted. Qed.
Print Assumptions C17_q_double_cancel_nil_refuted.

(* engine.go Start, case req := <-e.updateDB: req.expr.Eval panics on the loop goroutine *)
Lemma C17_q_update_panic_kills_refuted :
  s_status _ _ (crun only_update_panic wit_update_panics) = Crashed
  /\ s_acks _ _ (crun only_update_panic wit_update_panics) = [ADone; ANone; ANone]
  /\ s_acks _ _ (crun quirks17_off wit_update_panics) = [ADone; AUpd false; AUpd true].
Proof. exact update_panic_refuted. Qed.
Print Assumptions C17_q_update_panic_kills_refuted.

(* panicking observers in the repaired model: closed once, dropped, nobody else affected;
   and what the code did before the in-loop-removal fix (the watcher stayed registered) *)
Example C17_observer_panics_repaired :
  obs_trace _ 1 (s_trace _ _ (crun quirks17_off wit_observer_panics)) = [MUpdate (Some 1); MClose false]
  /\ obs_trace _ 2 (s_trace _ _ (crun quirks17_off wit_observer_panics)) = [MUpdate (Some 1); MUpdate (Some 2); MClose false]
  /\ obs_trace _ 3 (s_trace _ _ (crun quirks17_off wit_observer_panics)) = [MUpdate (Some 1); MUpdate (Some 2); MUpdate (Some 3); MUpdate (Some 4)]
  /\ s_acks _ _ (crun quirks17_off wit_observer_panics) = [AUpd true; ADone; ADone; ADone; AUpd true; AUpd true; AUpd true].
Proof. exact observer_panics_repaired. Qed.
Print Assumptions C17_observer_panics_repaired.

Lemma C17_q_cancel_from_loop_refuted_panic :
  obs_trace _ 1 (s_trace _ _ (crun only_cancel_from_loop wit_observer_panics)) = [MUpdate (Some 1); MClose false; MClose false; MClose false]
  /\ closed_once _ (obs_trace _ 1 (s_trace _ _ (crun only_cancel_from_loop wit_observer_panics))) = false.
Proof. exact observer_panics_old_code. Qed.
Print Assumptions C17_q_cancel_from_loop_refuted_panic.

(* non-vacuity: the guard holds with every quirk on for a non-trivial history *)
Example C17_guard_nonvacuous :
  observables _ _ (crun quirks17_all wit_guarded) = observables _ _ (crun quirks17_off wit_guarded)
  /\ s_acks _ _ (crun quirks17_all wit_guarded) = [ADone; AUpd true; AUpd false; ADone; AUpd true; ADone; AUpd true; ADone; AUpd true]
  /\ obs_trace _ 1 (s_trace _ _ (crun quirks17_all wit_guarded)) = [MUpdate None; MUpdate (Some 5); MUpdate (Some 53); MClose true]
  /\ obs_trace _ 2 (s_trace _ _ (crun quirks17_all wit_guarded)) = [MUpdate (Some 6); MUpdate (Some 54); MUpdate (Some 55); MClose true].
Proof. exact guard_nonvacuous. Qed.
Print Assumptions C17_guard_nonvacuous.

(* ---------- the front-ends (cmd/arrai serve_grpc.go, serve_ws.go) as a session layer over the engine ---------- *)
(* Sys/FrontEnd.v [fe_map]: a front-end history (updates, subscriptions per connection - a second subscription on a
   connection is cancel + observe -, clients leaving = no engine call, requests that do not compile = no engine call)
   maps to an engine history that is well formed: no Stop, no Hangup, every watcher id subscribed at most once, ids >= 1 *)
Theorem C17_frontend_history_well_formed :
  forall V E (h : list (fe_op V E)),
    existsb (is_stop V E) (fe_map V E h) = false
    /\ existsb (is_hangup V E) (fe_map V E h) = false
    /\ (forall i, observed_once V E i (fe_map V E h) = true)
    /\ (forall i, existsb (observes V E i) (fe_map V E h) = true -> 1 <= i).
Proof. exact fe_map_well_formed. Qed.
Print Assumptions C17_frontend_history_well_formed.

(* never wedges, for ALL front-end histories: the loop keeps running and every engine call the front-ends make is answered *)
Theorem C17_frontend_never_wedges :
  forall V E (eval : E -> V -> eres V) ord, (forall n l, Permutation (ord n l) l) ->
  forall db0 (h : list (fe_op V E)),
    s_status V E (run V E eval ord quirks17_off db0 (fe_map V E h)) = Running
    /\ Forall2 (answered V E) (fe_map V E h) (s_acks V E (run V E eval ord quirks17_off db0 (fe_map V E h))).
Proof. exact frontend_never_wedges. Qed.
Print Assumptions C17_frontend_never_wedges.

(* order: every watcher of every connection receives the sequential specification's trace; closed at most once, then silent *)
Theorem C17_frontend_order :
  forall V E (eval : E -> V -> eres V) ord, (forall n l, Permutation (ord n l) l) ->
  forall db0 (h : list (fe_op V E)),
    (forall i, obs_trace V i (s_trace V E (run V E eval ord quirks17_off db0 (fe_map V E h))) = spec_trace V E eval i db0 (fe_map V E h))
    /\ s_db V E (run V E eval ord quirks17_off db0 (fe_map V E h)) = spec_db V E eval db0 (fe_map V E h)
    /\ s_acks V E (run V E eval ord quirks17_off db0 (fe_map V E h)) = spec_acks V E eval db0 (fe_map V E h)
    /\ (forall i, closed_once V (obs_trace V i (s_trace V E (run V E eval ord quirks17_off db0 (fe_map V E h)))) = true).
Proof. exact frontend_refines_spec. Qed.
Print Assumptions C17_frontend_order.

(* isolation: a client that leaves causes no engine call whatever its position in the history, and a watcher's trace
   depends only on the updates and on its own subscription / cancel *)
Theorem C17_frontend_isolation :
  forall V E (eval : E -> V -> eres V) ord, (forall n l, Permutation (ord n l) l) ->
  forall db0 (h1 h2 h h' : list (fe_op V E)) c i,
    fe_map V E (h1 ++ FeHangup c :: h2) = fe_map V E (h1 ++ h2)
    /\ (erase_others V E i (fe_map V E h) = erase_others V E i (fe_map V E h') ->
        obs_trace V i (s_trace V E (run V E eval ord quirks17_off db0 (fe_map V E h)))
        = obs_trace V i (s_trace V E (run V E eval ord quirks17_off db0 (fe_map V E h')))).
Proof. exact frontend_isolation. Qed.
Print Assumptions C17_frontend_isolation.

(* a concrete front-end history: update 5; ws#1 observes $; gRPC call #2 observes $+1; update $*10+3; a request that does not
   compile; ws#1 re-subscribes $+2 (cancel + observe); ws#1 leaves; update 7 *)
Example C17_frontend_example :
  let h := [FeUpdate (Some (CConst 5)); FeSubscribe 1 (Some CRoot) (cb_of None); FeSubscribe 2 (Some (CAdd 1)) (cb_of None);
            FeUpdate (Some (CMulAdd 3)); FeSubscribe 1 None (cb_of None); FeSubscribe 1 (Some (CAdd 2)) (cb_of None);
            FeHangup 1; FeUpdate (Some (CConst 7))] in
  length (fe_map cval cexpr h) = 7%nat
  /\ fe_counts cval cexpr h = [1; 1; 1; 1; 0; 2; 0; 1]%nat
  /\ fe_ids cval cexpr 1 h = [1; 3]
  /\ obs_trace _ 1 (s_trace _ _ (crun quirks17_off (fe_map cval cexpr h))) = [MUpdate (Some 5); MUpdate (Some 53); MClose true]
  /\ obs_trace _ 2 (s_trace _ _ (crun quirks17_off (fe_map cval cexpr h))) = [MUpdate (Some 6); MUpdate (Some 54); MUpdate (Some 8)]
  /\ obs_trace _ 3 (s_trace _ _ (crun quirks17_off (fe_map cval cexpr h))) = [MUpdate (Some 55); MUpdate (Some 9)].
Proof. vm_compute. repeat split. Qed.
