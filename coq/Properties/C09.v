(* Property C09: pattern matching binds exactly what construction would produce.
   PARTIAL.  The reference semantics of patterns (Eval/Interp.v bind_pat: names,
   _, literal/(expr) patterns, array / tuple / dict / set patterns with ...rest and
   ?:fallbacks, nested to any depth) defines matching "by reconstruction"; the
   theorems below cover the clauses that are independent of the pattern's shape:
   repeated names must agree on VALUES, literal patterns match exactly the equal
   value, a non-matching let is an error (never a silent binding), cond takes the
   first matching arm and skips non-matching ones, array patterns only match
   dense zero-based arrays.  The general statement "bind p v = Ok s  iff  the
   pattern read as an expression under s rebuilds v" is NOT proved for arbitrary
   nesting; it is what the correspondence run checks against the implementation
   on the pattern x value product (matching, near-miss and wrong-kind values). *)
From Arrai Require Import Base.Val Spec.SetAlg Eval.Interp Proofs.ValOrder Proofs.PatternP Proofs.PatArrP Proofs.PatTupP Proofs.PatSetP Proofs.PatDictP.

Theorem C09_repeated_names_must_agree :
  forall t s r x a w, env_matched_update s t = Some r -> env_get x s = Some (D a) -> In (x, w) t -> w = D a.
Proof. exact repeated_names_must_agree. Qed.
Print Assumptions C09_repeated_names_must_agree.

Theorem C09_disagreeing_repeat_fails :
  forall s x a b t, env_get x s = Some (D a) -> a <> b -> env_matched_update s ((x, D b) :: t) = None.
Proof. exact disagreeing_repeat_fails. Qed.
Print Assumptions C09_disagreeing_repeat_fails.

Theorem C09_earlier_bindings_survive :
  forall t s r x v, env_matched_update s t = Some r -> env_get x s = Some v -> env_get x r = Some v.
Proof. exact matched_update_preserves. Qed.
Print Assumptions C09_earlier_bindings_survive.

Theorem C09_literal_pattern_matches_equal_value_only :
  forall fuel rho lit v,
    bind_pat (S (S fuel)) rho (PExpr (ELit lit)) (D v) = if veqb (norm lit) v then Ok [] else Err.
Proof. exact bind_literal. Qed.
Print Assumptions C09_literal_pattern_matches_equal_value_only.

Theorem C09_nonmatching_let_is_an_error :
  forall fuel rho p e1 e2 v,
    eval fuel rho e1 = Ok v -> bind_pat fuel rho p v = Err -> eval (S fuel) rho (ELet p e1 e2) = Err.
Proof. exact let_mismatch_is_error. Qed.
Print Assumptions C09_nonmatching_let_is_an_error.

Theorem C09_cond_takes_first_matching_arm :
  forall fuel rho c v p body arms sc,
    eval fuel rho c = Ok v -> bind_pat fuel rho p v = Ok sc ->
    eval (S fuel) rho (ECondPat c ((p, body) :: arms)) = eval fuel (sc ++ rho) body.
Proof. exact cond_first_match. Qed.
Print Assumptions C09_cond_takes_first_matching_arm.

Theorem C09_cond_skips_nonmatching_arm :
  forall fuel rho c v p body arms,
    eval fuel rho c = Ok v -> bind_pat fuel rho p v = Err ->
    eval (S fuel) rho (ECondPat c ((p, body) :: arms)) = eval (S fuel) rho (ECondPat c arms).
Proof. exact cond_skips_nonmatching. Qed.
Print Assumptions C09_cond_skips_nonmatching_arm.

Theorem C09_array_pattern_needs_dense_zero_based_array :
  forall fuel rho items v sc,
    bind_pat (S fuel) rho (PArr items) (D v) = Ok sc -> exists xs, dense_array v = Some xs.
Proof. exact array_pattern_needs_dense_array. Qed.
Print Assumptions C09_array_pattern_needs_dense_zero_based_array.

(* non-vacuity: nested pattern with ...rest and a repeated name *)
Example C09_probe :
  run_data 60 (ELet (PArr [PItem (PVar [120]) None; PExtra (Some [114]); PItem (PVar [120]) None])
                    (EArrE [Some (ELit (vint 1)); Some (ELit (vint 2)); Some (ELit (vint 3)); Some (ELit (vint 1))])
                    (ETupE [([120], EVar [120]); ([114], EVar [114])]))
  = Ok (VTup [([114], VSet [vpair n_item (vint 0) (vint 2); vpair n_item (vint 1) (vint 3)]); ([120], vint 1)]).
Proof. vm_compute. reflexivity. Qed.

(* Array patterns of names, _ and literals, any length: the match succeeds exactly when some assignment
   of the names rebuilds the array from the pattern; on success every name is bound to the corresponding
   component (so repeated names agree), literals equal their component, and the array is dense,
   zero-based and exactly as long as the pattern. *)
Theorem C09_flat_array_pattern_binds_components :
  forall fuel rho ls v sc,
    bind_pat (S (S (S fuel))) rho (PArr (flat_items ls)) (D v) = Ok sc ->
    exists xs, dense_array v = Some xs /\ Forall2 (leaf_ok sc) ls xs.
Proof. exact flat_array_pattern_sound. Qed.
Print Assumptions C09_flat_array_pattern_binds_components.

Theorem C09_flat_array_pattern_matches_when_rebuildable :
  forall fuel rho ls v xs (s : name -> val),
    dense_array v = Some xs -> Forall2 (leaf_rebuilds s) ls xs ->
    exists sc, bind_pat (S (S (S fuel))) rho (PArr (flat_items ls)) (D v) = Ok sc.
Proof. exact flat_array_pattern_complete. Qed.
Print Assumptions C09_flat_array_pattern_matches_when_rebuildable.

Theorem C09_repeated_name_components_equal :
  forall fuel rho ls v sc x i j a b,
    bind_pat (S (S (S fuel))) rho (PArr (flat_items ls)) (D v) = Ok sc ->
    nth_error ls i = Some (LVar x) -> nth_error ls j = Some (LVar x) ->
    forall xs, dense_array v = Some xs -> nth_error xs i = Some a -> nth_error xs j = Some b -> a = b.
Proof. exact repeated_name_components_equal. Qed.
Print Assumptions C09_repeated_name_components_equal.

(* non-vacuity: [x, 2, _, x] against [1, 2, 3, 1] *)
Example C09_flat_array_example :
  exists sc, bind_pat 5 [] (PArr (flat_items [LVar [120]; LLit (vint 2); LWild; LVar [120]]))
               (D (VSet (vseq_from n_item 0 [vint 1; vint 2; vint 3; vint 1]))) = Ok sc.
Proof. eexists. vm_compute. reflexivity. Qed.

(* [p1, .., pk, ...r, q1, .., qm]: the array splits as prefix ++ middle ++ suffix, the prefix and suffix
   items are bound to their components, and r is bound to exactly the middle as a zero-based array *)
Theorem C09_rest_captures_exactly_the_remainder :
  forall fuel rho pre r suf v sc,
    bind_pat (S (S (S fuel))) rho (PArr (flat_items pre ++ PExtra (Some r) :: flat_items suf)) (D v) = Ok sc ->
    exists xs a m b, dense_array v = Some xs /\ xs = a ++ m ++ b /\
      Forall2 (leaf_ok sc) pre a /\ Forall2 (leaf_ok sc) suf b /\ env_get r sc = Some (D (arr_of m)).
Proof. exact rest_array_pattern_sound. Qed.
Print Assumptions C09_rest_captures_exactly_the_remainder.

Example C09_rest_example :
  exists sc, bind_pat 5 [] (PArr (flat_items [LVar [97]] ++ PExtra (Some [114]) :: flat_items [LVar [98]]))
               (D (VSet (vseq_from n_item 0 [vint 1; vint 2; vint 3; vint 4]))) = Ok sc
             /\ env_get [114] sc = Some (D (arr_of [vint 2; vint 3])).
Proof. eexists. vm_compute. split; reflexivity. Qed.

(* tuple patterns of names, _ and literals: every named attribute is found and its item is bound to the
   attribute's value; the tuple has no attribute the pattern does not name *)
Theorem C09_flat_tuple_pattern_binds_attributes :
  forall fuel rho nls v sc,
    bind_pat (S (S (S fuel))) rho (PTup (flat_attrs nls)) (D v) = Ok sc ->
    exists tv, v = VTup tv /\
      Forall (fun nl => exists x, tget (fst nl) tv = Some x /\ leaf_ok sc (snd nl) x) nls /\
      remaining_after (map fst nls) tv = [].
Proof. exact flat_tuple_pattern_sound. Qed.
Print Assumptions C09_flat_tuple_pattern_binds_attributes.

Theorem C09_flat_tuple_pattern_no_other_attribute :
  forall fuel rho nls v sc,
    bind_pat (S (S (S fuel))) rho (PTup (flat_attrs nls)) (D v) = Ok sc ->
    exists tv, v = VTup tv /\ forall m x, In (m, x) tv -> exists n, In n (map fst nls) /\ name_cmp m n = Eq.
Proof. exact flat_tuple_pattern_no_other_attribute. Qed.
Print Assumptions C09_flat_tuple_pattern_no_other_attribute.

(* set patterns {lit1, .., litk, ...r}: the match succeeds exactly when every literal is a member (and no two
   literals denote the same value), and r is bound to precisely the other members *)
Theorem C09_set_rest_pattern_binds_the_other_members :
  forall fuel rho ws r v sc,
    bind_pat (S (S fuel)) rho (PSet (lit_items ws ++ [PExtra (Some r)])) (D v) = Ok sc ->
    exists l, v = VSet l /\ sc = [(r, D (VSet (without_all l ws)))] /\ forall w, In w ws -> In (norm w) l.
Proof. exact set_rest_pattern_sound. Qed.
Print Assumptions C09_set_rest_pattern_binds_the_other_members.

Theorem C09_set_rest_pattern_matches_when_literals_are_members :
  forall fuel rho ws r l,
    NoDup (map norm ws) -> (forall w, In w ws -> In (norm w) l) ->
    bind_pat (S (S fuel)) rho (PSet (lit_items ws ++ [PExtra (Some r)])) (D (VSet l)) = Ok [(r, D (VSet (without_all l ws)))].
Proof. exact set_rest_pattern_complete. Qed.
Print Assumptions C09_set_rest_pattern_matches_when_literals_are_members.

Theorem C09_set_rest_is_exactly_the_remainder :
  forall ws l x, In x (without_all l ws) <-> In x l /\ ~ In x (map norm ws).
Proof. exact without_all_spec. Qed.
Print Assumptions C09_set_rest_is_exactly_the_remainder.

(* dict patterns with literal keys and name / _ / literal items: every key has exactly one entry, its item is
   bound to that entry's value, and the dict has no entry under a key the pattern does not name *)
Theorem C09_flat_dict_pattern_binds_entries :
  forall fuel rho kls v sc,
    bind_pat (S (S (S fuel))) rho (PDict (flat_entries kls)) (D v) = Ok sc ->
    exists l es, v = VSet l /\ dict_entries l = Some es /\
      Forall (fun kl => exists k' x, In (k', x) es /\ veqb (norm (fst kl)) k' = true /\ leaf_ok sc (snd kl) x) kls /\
      (forall k' x, In (k', x) es -> exists kl, In kl kls /\ veqb (norm (fst kl)) k' = true).
Proof. exact flat_dict_pattern_sound. Qed.
Print Assumptions C09_flat_dict_pattern_binds_entries.
